"""vcheck setup: build the instrumenter, parse every specification, warm the
Go build cache for the harness packages (all offline)."""
import os
import shutil
import subprocess
import sys
import tempfile

from . import core


def run():
    rc = 0
    if os.path.isdir(os.path.join(core.HARNESS, 'instrument')) and os.listdir(os.path.join(core.HARNESS, 'instrument')):
        core.build_tools()
        print('built bin/instrument')
    # parse all specs
    d = tempfile.mkdtemp(prefix='verif-setup-')
    try:
        for fn in os.listdir(core.SPEC):
            if fn.endswith('.tla'):
                shutil.copy(os.path.join(core.SPEC, fn), d)
        env = dict(os.environ)
        env['TMPDIR'] = d
        env['JAVA_TOOL_OPTIONS'] = '-Djava.io.tmpdir=' + d
        bad = []
        mods = sorted(f for f in os.listdir(d) if f.endswith('.tla'))
        procs = []
        for fn in mods:
            procs.append((fn, subprocess.Popen(['tla-sany', fn], cwd=d, env=env, stdout=subprocess.PIPE, stderr=subprocess.STDOUT, text=True)))
        for fn, p in procs:
            out, _ = p.communicate()
            # modules that need generated companions (traces, MC constants) are parsed at check time
            if p.returncode != 0 or 'rror' in out.replace('errors: 0', ''):
                if 'Cannot find source file' in out or 'Unknown operator' in out:
                    continue
                bad.append((fn, out[-800:]))
        for fn, out in bad:
            print('SANY problem in %s:\n%s' % (fn, out))
            rc = 1
        print('parsed %d modules, %d with problems' % (len(mods), len(bad)))
    finally:
        shutil.rmtree(d, ignore_errors=True)
    # warm the go build cache
    env = dict(os.environ)
    env.update(core.GOENV)
    for cwd in (core.REPO, os.path.join(core.REPO, 'godev')):
        subprocess.run(['go', 'build', './...'], cwd=cwd, env=env, stdout=subprocess.DEVNULL, stderr=subprocess.DEVNULL)
    return rc
