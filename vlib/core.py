"""Shared machinery of the checks: scratch copy of /repo, Go harness runs, TLC
runs, known findings, verdicts and evidence.  Standard library only."""
import atexit
import json
import os
import re
import shutil
import subprocess
import sys
import tempfile
import time
import traceback

from . import tlaval

VERIF = os.path.dirname(os.path.dirname(os.path.abspath(__file__)))
REPO = os.environ.get('VERIF_REPO', '/repo')
SPEC = os.path.join(VERIF, 'spec')
HARNESS = os.path.join(VERIF, 'harness')
BIN = os.path.join(VERIF, 'bin')
NCPU = os.cpu_count() or 4

GOENV = {
    'GOFLAGS': '-mod=mod', 'GOPROXY': 'off', 'GOSUMDB': 'off',
    'GOTOOLCHAIN': 'local', 'GONOSUMDB': '*', 'GONOSUMCHECK': '1',
}


class Infra(Exception):
    """Harness / tool failure: exit 2, never a violation."""


class TlcResult:
    def __init__(self):
        self.rc = None
        self.out = ''
        self.generated = 0
        self.distinct = 0
        self.depth = 0
        self.error = None          # None | 'invariant' | 'deadlock' | 'action' | 'temporal' | 'postcondition' | 'other'
        self.error_name = None
        self.trace = []            # [(action, state)]
        self.dir = None
        self.dump = None
        self.wall = 0.0
        self.coverage_zero = []

    @property
    def ok(self):
        return self.error is None and self.rc == 0


class Ctx:
    def __init__(self, prop, tier='quick', seed=0, replay=None, level='model_checking'):
        self.prop = prop
        self.tier = tier
        self.seed = int(seed)
        self.replay = replay
        self.level = level
        self.t0 = time.time()
        base = os.environ.get('VERIF_TMP', tempfile.gettempdir())
        self.work = tempfile.mkdtemp(prefix='verif-%s-' % prop, dir=base)
        atexit.register(self._cleanup)
        self.cov = {
            'states': 0, 'transitions': 0, 'traces_validated_against_impl': 0,
            'samples': [], 'evaluations': 0, 'distinct_nontrivial': 0, 'rule': '',
            'tlc_runs': [], 'divergences': 0, 'known_findings_seen': [],
        }
        self.assumptions = []
        self.violations = []      # (sig, replay_path)
        self.known_seen = {}
        self.warnings = []
        self._scratch = None
        self._ntlc = 0
        self._known = self._load_known()
        self._nrep = 0
        rdir = os.path.join(os.environ.get('VERIF_EVIDENCE_DIR') or os.path.join(VERIF, 'evidence'), 'replays')
        if os.path.isdir(rdir) and not replay:
            for fn in os.listdir(rdir):
                if fn.startswith(prop + '-'):
                    os.remove(os.path.join(rdir, fn))
        import threading
        self._lock = threading.Lock()

    # ------------------------------------------------------------------ misc
    def _cleanup(self):
        if os.environ.get('VERIF_KEEP'):
            sys.stderr.write('kept work dir %s\n' % self.work)
            return
        shutil.rmtree(self.work, ignore_errors=True)

    def log(self, *a):
        sys.stderr.write('[%s %6.1fs] %s\n' % (self.prop, time.time() - self.t0, ' '.join(str(x) for x in a)))
        sys.stderr.flush()

    def thorough(self):
        return self.tier == 'thorough'

    def pick(self, quick, thorough):
        return thorough if self.tier == 'thorough' else quick

    def sample(self, obj, cap=6):
        if len(self.cov['samples']) < cap:
            self.cov['samples'].append(obj)

    # ------------------------------------------------------- known findings
    def _load_known(self):
        out = []
        paths = [os.path.join(VERIF, 'known_findings.json')]
        kd = os.path.join(VERIF, 'known_findings.d')
        if os.path.isdir(kd):
            paths += [os.path.join(kd, f) for f in sorted(os.listdir(kd)) if f.endswith('.json')]
        for p in paths:
            if os.path.exists(p):
                with open(p) as f:
                    out += [e for e in json.load(f).get('findings', []) if e.get('property') == self.prop]
        return out

    def violation(self, sig, detail, text=None):
        """Report real-code behaviour that falsifies the property.  `sig` is the
        narrow signature string of the failing case; if it equals the signature
        of a *known* entry in known_findings.json the finding is printed as
        KNOWN-FINDING, otherwise it is a VIOLATION with a replay file."""
        for e in self._known:
            if e.get('kind') == 'known' and e.get('signature') == sig:
                if sig not in self.known_seen:
                    self.known_seen[sig] = e
                    print('KNOWN-FINDING: property=%s %s' % (self.prop, e.get('text', sig)))
                    sys.stdout.flush()
                    self.cov['known_findings_seen'].append(sig)
                return False
        for s, _ in self.violations:
            if s == sig:
                return True
        rdir = os.path.join(os.environ.get('VERIF_EVIDENCE_DIR') or os.path.join(VERIF, 'evidence'), 'replays')
        os.makedirs(rdir, exist_ok=True)
        self._nrep += 1
        path = os.path.join(rdir, '%s-%d.json' % (self.prop, self._nrep))
        with open(path, 'w') as f:
            json.dump({'property': self.prop, 'signature': sig, 'seed': self.seed, 'tier': self.tier,
                       'text': text, 'detail': detail}, f, indent=1, default=str)
        self.violations.append((sig, path))
        print('VIOLATION property=%s replay=%s' % (self.prop, path))
        if text:
            print('  ' + text)
        sys.stdout.flush()
        return True

    def warn(self, msg):
        self.warnings.append(msg)
        self.log('WARNING', msg)

    # ------------------------------------------------------------ scratch
    def scratch_repo(self):
        """A private copy of /repo's *working tree* (without .git)."""
        if self._scratch:
            return self._scratch
        dst = os.path.join(self.work, 'repo')
        subprocess.run(['rsync', '-a', '--exclude', '.git', '--exclude', 'node_modules', REPO + '/', dst + '/'], check=True)
        # shared runtime for injected harness files
        rt = os.path.join(dst, 'internal', 'verifrt')
        shutil.copytree(os.path.join(HARNESS, 'verifrt'), rt, dirs_exist_ok=True)
        self._scratch = dst
        return dst

    def inject(self, *rels, also=()):
        """Copy harness/inject/<rel>/* into <scratch>/<rel>/ (files carry the
        `verif` build tag).  In-package harness files of OTHER properties
        (named cNN_*_test.go) are left out unless listed in `also`, so that one
        check's harness cannot break another's build."""
        dst = self.scratch_repo()
        mine = self.prop.lower()
        for rel in rels:
            src = os.path.join(HARNESS, 'inject', rel)
            if not os.path.isdir(src):
                raise Infra('no inject dir ' + src)
            for root, dirs, files in os.walk(src):
                out = os.path.join(dst, rel, os.path.relpath(root, src))
                os.makedirs(out, exist_ok=True)
                for fn in files:
                    m = re.match(r'^(c\d\d|x\d\d|e2e)_.*\.go$', fn)
                    if m and m.group(1) != mine and fn not in also and root == src and '/verifh/' not in '/' + rel + '/':
                        continue
                    shutil.copy(os.path.join(root, fn), os.path.join(out, fn))

    def instrument(self, *args):
        """Run the AST instrumenter on the scratch copy."""
        dst = self.scratch_repo()
        exe = os.path.join(BIN, 'instrument')
        if not os.path.exists(exe):
            build_tools()
        p = subprocess.run([exe, '-root', dst] + list(args), stdout=subprocess.PIPE, stderr=subprocess.STDOUT, text=True)
        if p.returncode != 0:
            raise Infra('instrumenter failed: ' + p.stdout[-2000:])
        return p.stdout

    def goenv(self, extra=None):
        env = dict(os.environ)
        env.update(GOENV)
        env['VERIF_SEED'] = str(self.seed)
        env['VERIF_TIER'] = self.tier
        env['TMPDIR'] = self.work
        if extra:
            env.update({k: str(v) for k, v in extra.items()})
        return env

    def go_test(self, reldir, pkg, run, env=None, timeout=900, module_dir=None, extra_args=None, tags='verif'):
        """go test in the scratch copy.  Returns (rc, output text).  The harness
        test writes its records to $VERIF_OUT (ndjson)."""
        root = self.scratch_repo()
        cwd = os.path.join(root, module_dir or '')
        args = ['go', 'test', '-tags', tags, '-vet=off', '-count=1', '-run', run,
                '-timeout', '%ds' % timeout] + (extra_args or []) + [pkg]
        t = time.time()
        try:
            p = subprocess.run(args, cwd=cwd, env=self.goenv(env), stdout=subprocess.PIPE,
                               stderr=subprocess.STDOUT, text=True, timeout=timeout + 60, errors='replace')
        except subprocess.TimeoutExpired as e:
            raise Infra('go test timed out: %s %s' % (pkg, run))
        self.log('go test %s -run %s: rc=%d %.1fs' % (pkg, run, p.returncode, time.time() - t))
        return p.returncode, p.stdout

    def run_harness(self, pkg, run, inp=None, env=None, timeout=900, module_dir=None, must_pass=True):
        """Run a harness test with VERIF_IN/VERIF_OUT; returns the list of
        records it wrote.  A harness test itself never fails for a property
        violation (it reports through records); a non-zero exit is an infra
        error unless must_pass is False."""
        with self._lock:
            self._nh = getattr(self, '_nh', 0) + 1
            nh = self._nh
        inp_path = os.path.join(self.work, 'in-%d.json' % nh)
        out_path = os.path.join(self.work, 'out-%d.ndjson' % nh)
        with open(inp_path, 'w') as f:
            json.dump(inp if inp is not None else {}, f)
        e = {'VERIF_IN': inp_path, 'VERIF_OUT': out_path}
        if env:
            e.update(env)
        rc, out = self.go_test(None, pkg, run, env=e, timeout=timeout, module_dir=module_dir)
        recs = read_ndjson(out_path) if os.path.exists(out_path) else []
        if 'no tests to run' in out and not recs:
            raise Infra('harness test %s not found in %s\n%s' % (run, pkg, out[-1500:]))
        if rc != 0 and must_pass:
            raise Infra('harness %s %s failed (rc=%d):\n%s' % (pkg, run, rc, out[-4000:]))
        return recs, rc, out

    # ---------------------------------------------------------------- TLC
    def tlc(self, module, cfg=None, *, workers=None, dump=False, simulate=None, depth=None,
            files=None, defines=None, timeout=1200, coverage=False, seed=None, extra=None,
            dfs_queue=False, stack=None, count=True, label=None, cfg_text=None):
        """Run TLC on spec/<module>.tla with spec/<cfg> (default <module>.cfg)
        in a private directory.  files: {name: text} extra files (generated MC
        modules, traces).  simulate: dict(num=, file=bool)."""
        with self._lock:
            self._ntlc += 1
            ntlc = self._ntlc
        d = os.path.join(self.work, 'tlc-%d' % ntlc)
        os.makedirs(d)
        for fn in os.listdir(SPEC):
            if fn.endswith('.tla') or fn.endswith('.cfg'):
                shutil.copy(os.path.join(SPEC, fn), d)
        for name, text in (files or {}).items():
            mode = 'wb' if isinstance(text, bytes) else 'w'
            with open(os.path.join(d, name), mode) as f:
                f.write(text)
        cfgname = cfg or (module + '.cfg')
        if cfg_text is not None:
            cfgname = '_gen_%d.cfg' % ntlc
            with open(os.path.join(d, cfgname), 'w') as f:
                f.write(cfg_text)
        args = ['tlc', '-metadir', os.path.join(d, 'meta'), '-config', cfgname]
        w = workers or NCPU
        if simulate:
            w = 1
            s = '-simulate'
            opts = []
            if simulate.get('file'):
                opts.append('file=' + os.path.join(d, 'sim', 'b'))
                os.makedirs(os.path.join(d, 'sim'))
            opts.append('num=%d' % simulate.get('num', 100))
            args += [s, ','.join(opts)]
            args += ['-depth', str(depth or 100)]
        args += ['-workers', str(w)]
        if dump:
            args += ['-dump', os.path.join(d, 'states')]
        if coverage:
            args += ['-coverage', '1']
        if seed is not None or simulate:
            args += ['-seed', str(seed if seed is not None else self.seed)]
        if extra:
            args += extra
        args.append(module + '.tla')
        env = dict(os.environ)
        env['TMPDIR'] = self.work
        jopts = ['-Djava.io.tmpdir=' + self.work]
        if dfs_queue:
            jopts.append('-Dtlc2.tool.queue.IStateQueue=StateDeque')
        if stack:
            jopts.append('-Xss' + stack)
        env['JAVA_TOOL_OPTIONS'] = ' '.join(jopts)
        r = TlcResult()
        r.dir = d
        t = time.time()
        try:
            p = subprocess.run(args, cwd=d, env=env, stdout=subprocess.PIPE, stderr=subprocess.STDOUT,
                               text=True, timeout=timeout, errors='replace')
        except subprocess.TimeoutExpired:
            subprocess.run(['pkill', '-f', d], check=False)
            raise Infra('TLC timed out on %s/%s after %ds' % (module, cfgname, timeout))
        r.wall = time.time() - t
        r.rc = p.returncode
        r.out = p.stdout
        _parse_tlc_output(r)
        if dump:
            r.dump = os.path.join(d, 'states.dump')
        if r.error == 'other':
            raise Infra('TLC failed on %s/%s (rc=%s):\n%s' % (module, cfgname, r.rc, r.out[-5000:]))
        if count:
            self.cov['states'] += r.distinct
            self.cov['transitions'] += r.generated
        self.cov['tlc_runs'].append({'module': module, 'cfg': label or cfgname, 'generated': r.generated,
                                     'distinct': r.distinct, 'depth': r.depth, 'wall_s': round(r.wall, 1),
                                     'result': r.error or 'ok', 'error_name': r.error_name,
                                     'mode': 'simulate' if simulate else 'bfs'})
        self.log('TLC %s/%s: %s gen=%d distinct=%d depth=%d %.1fs' % (module, label or cfgname, r.error or 'ok',
                                                                      r.generated, r.distinct, r.depth, r.wall))
        return r

    def tlc_many(self, jobs, par=None):
        """Run several TLC jobs concurrently.  jobs: list of (args, kwargs) for
        self.tlc; returns results in order (an Infra raised by a job is
        re-raised)."""
        from concurrent.futures import ThreadPoolExecutor
        par = par or max(1, NCPU // 2)
        def one(j):
            a, k = j
            k = dict(k)
            k.setdefault('workers', 2)
            return self.tlc(*a, **k)
        with ThreadPoolExecutor(max_workers=par) as ex:
            futs = [ex.submit(one, j) for j in jobs]
            return [f.result() for f in futs]

    def sim_files(self, r):
        sd = os.path.join(r.dir, 'sim')
        if not os.path.isdir(sd):
            return []
        return sorted(os.path.join(sd, f) for f in os.listdir(sd))

    # ----------------------------------------------------------- evidence
    def finish(self):
        cov = self.cov
        if not cov['samples']:
            cov['samples'] = ['(no sample recorded)']
        cov.setdefault('checker_cmd', 'tlc (TLC2 %s)' % 'v1.8.0')
        ev = {
            'property_id': self.prop,
            'tier': self.tier,
            'seed': self.seed,
            'level': self.level,
            'coverage': cov,
            'assumptions': self.assumptions,
            'wall_s': round(time.time() - self.t0, 2),
            'violations': len(self.violations),
            'warnings': self.warnings[:50],
        }
        if cov['states'] < 1 or cov['transitions'] < 1:
            # keep the file schema-valid through the generic fallback keys
            cov['evaluations'] = max(cov['evaluations'], 1)
        evdir = os.environ.get('VERIF_EVIDENCE_DIR') or os.path.join(VERIF, 'evidence')
        os.makedirs(evdir, exist_ok=True)
        p = os.path.join(evdir, self.prop + ('.replay.json' if self.replay else '.json'))
        with open(p + '.tmp', 'w') as f:
            json.dump(ev, f, indent=1, default=str)
        os.replace(p + '.tmp', p)
        self.log('evidence written: states=%d transitions=%d traces=%d evals=%d violations=%d known=%d wall=%.1fs' % (
            cov['states'], cov['transitions'], cov['traces_validated_against_impl'], cov['evaluations'],
            len(self.violations), len(self.known_seen), time.time() - self.t0))
        return 1 if self.violations else 0


_re_states = re.compile(r'(\d+) states generated, (\d+) distinct states found')
_re_depth = re.compile(r'The depth of the complete state graph search is (\d+)')
_re_simstates = re.compile(r'(\d+) states checked')


def _parse_tlc_output(r):
    out = r.out
    for m in _re_states.finditer(out):
        r.generated, r.distinct = int(m.group(1)), int(m.group(2))
    m = _re_depth.search(out)
    if m:
        r.depth = int(m.group(1))
    m = re.search(r'Progress\((\d+)\)', out)
    if m and not r.depth:
        r.depth = int(m.group(1))
    if 'Invariant ' in out and ' is violated' in out:
        m = re.search(r'Invariant (\S+) is violated', out)
        r.error, r.error_name = 'invariant', m.group(1) if m else None
    elif 'Deadlock reached' in out:
        r.error = 'deadlock'
    elif re.search(r'Action property (\S+) is violated', out):
        r.error, r.error_name = 'action', re.search(r'Action property (\S+) is violated', out).group(1)
    elif 'Temporal properties were violated' in out:
        r.error = 'temporal'
    elif re.search(r'Postcondition \S+ .*is false', out) or ('Postcondition' in out and 'violated' in out):
        r.error = 'postcondition'
    elif re.search(r'Error: Evaluating assumption|Assumption .* is false', out):
        r.error = 'assumption'
    elif r.rc != 0 or 'Error:' in out:
        if r.rc == 0 and 'Error:' not in out:
            pass
        else:
            r.error = 'other'
    if r.error in ('invariant', 'deadlock', 'action', 'temporal'):
        try:
            r.trace = tlaval.read_trace_from_output(out)
        except Exception:
            r.trace = []
    # simulation mode reports differently
    if r.generated == 0:
        m = _re_simstates.search(out)
        if m:
            r.generated = r.distinct = int(m.group(1))
    for m in re.finditer(r'^\s*<(\w+) line (\d+), col \d+ to line \d+, col \d+ of module (\w+)>: (\d+):(\d+)', out, re.M):
        if int(m.group(5)) == 0 and int(m.group(4)) == 0:
            r.coverage_zero.append(m.group(1))


def read_ndjson(path):
    out = []
    with open(path, errors='replace') as f:
        for ln in f:
            ln = ln.strip()
            if ln:
                out.append(json.loads(ln))
    return out


def write_ndjson(path, recs):
    with open(path, 'w') as f:
        for r in recs:
            f.write(json.dumps(r, separators=(',', ':')) + '\n')


def ndjson_text(recs):
    return ''.join(json.dumps(r, separators=(',', ':')) + '\n' for r in recs)


def build_tools():
    """Build bin/instrument from harness/instrument (stdlib only)."""
    os.makedirs(BIN, exist_ok=True)
    env = dict(os.environ)
    env.update(GOENV)
    p = subprocess.run(['go', 'build', '-o', os.path.join(BIN, 'instrument'), '.'],
                       cwd=os.path.join(HARNESS, 'instrument'), env=env,
                       stdout=subprocess.PIPE, stderr=subprocess.STDOUT, text=True)
    if p.returncode != 0:
        raise Infra('building instrumenter: ' + p.stdout)


def main(run_fn, prop, level='model_checking'):
    import argparse
    ap = argparse.ArgumentParser()
    ap.add_argument('--tier', default=os.environ.get('VERIF_TIER', 'quick'))
    ap.add_argument('--replay', default=None)
    ap.add_argument('--seed', default=os.environ.get('VERIF_SEED', '1'))
    a = ap.parse_args(sys.argv[2:])
    try:
        seed = int(a.seed)
    except ValueError:
        seed = 1
    ctx = Ctx(prop, tier=a.tier if a.tier in ('quick', 'thorough') else 'quick', seed=seed, replay=a.replay, level=level)
    try:
        run_fn(ctx)
        rc = ctx.finish()
    except Infra as e:
        sys.stderr.write('INFRA-ERROR %s: %s\n' % (prop, e))
        rc = 2
        try:
            ctx.warnings.append('infra error: %s' % str(e)[:2000])
            if ctx.finish() == 1:
                rc = 1      # a violation of real behaviour was already reported
        except Exception:
            pass
    except Exception:
        traceback.print_exc()
        rc = 2
    sys.exit(rc)
