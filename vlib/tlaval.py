"""Parser for the textual TLA+ values TLC prints (dump files, simulate files,
counter-example traces).  Values become Python objects:

  integer -> int          string -> str          TRUE/FALSE -> bool
  model value / identifier -> str (prefixed with nothing; strings and model
      values are not distinguished, none of our modules mixes them)
  <<a, b>> -> list        {a, b} -> TlaSet (a list subclass, sorted by repr)
  [f |-> v] -> dict       (k :> v @@ ...) -> dict (keys kept as parsed; a
      function whose keys are 1..n is turned into a list)
  a..b -> TlaSet of ints
"""
import re


class TlaSet(list):
    pass


class ParseError(Exception):
    pass


_tok = re.compile(r'''
    \s*(?:
      (?P<str>"(?:[^"\\]|\\.)*")
     |(?P<num>-?\d+)
     |(?P<op><<|>>|\|->|:>|@@|\.\.|[\[\]{}(),])
     |(?P<id>[A-Za-z_][A-Za-z0-9_!]*)
    )''', re.X)


def _tokens(s):
    pos = 0
    out = []
    n = len(s)
    while pos < n:
        m = _tok.match(s, pos)
        if not m:
            if s[pos:].strip() == '':
                break
            raise ParseError('bad token at %r' % s[pos:pos + 40])
        pos = m.end()
        if m.group('str') is not None:
            out.append(('str', _unescape(m.group('str')[1:-1])))
        elif m.group('num') is not None:
            out.append(('num', int(m.group('num'))))
        elif m.group('op') is not None:
            out.append(('op', m.group('op')))
        else:
            out.append(('id', m.group('id')))
    return out


def _unescape(s):
    out = []
    i = 0
    while i < len(s):
        c = s[i]
        if c == '\\' and i + 1 < len(s):
            d = s[i + 1]
            out.append({'n': '\n', 't': '\t', 'r': '\r', 'f': '\f'}.get(d, d))
            i += 2
        else:
            out.append(c)
            i += 1
    return ''.join(out)


class _P:
    def __init__(self, toks):
        self.t = toks
        self.i = 0

    def peek(self):
        return self.t[self.i] if self.i < len(self.t) else (None, None)

    def next(self):
        tok = self.peek()
        self.i += 1
        return tok

    def expect(self, op):
        k, v = self.next()
        if k != 'op' or v != op:
            raise ParseError('expected %s got %r' % (op, v))

    def value(self):
        k, v = self.next()
        if k == 'str':
            return v
        if k == 'num':
            if self.peek() == ('op', '..'):
                self.next()
                k2, hi = self.next()
                return TlaSet(range(v, hi + 1))
            return v
        if k == 'id':
            if v == 'TRUE':
                return True
            if v == 'FALSE':
                return False
            return v
        if k == 'op':
            if v == '<<':
                items = []
                if self.peek() == ('op', '>>'):
                    self.next()
                    return items
                while True:
                    items.append(self.value())
                    k2, v2 = self.next()
                    if v2 == '>>':
                        return items
                    if v2 != ',':
                        raise ParseError('seq: %r' % (v2,))
            if v == '{':
                items = TlaSet()
                if self.peek() == ('op', '}'):
                    self.next()
                    return items
                while True:
                    items.append(self.value())
                    k2, v2 = self.next()
                    if v2 == '}':
                        return items
                    if v2 != ',':
                        raise ParseError('set: %r' % (v2,))
            if v == '[':
                d = {}
                while True:
                    k2, name = self.next()
                    self.expect('|->')
                    d[name] = self.value()
                    k3, v3 = self.next()
                    if v3 == ']':
                        return d
                    if v3 != ',':
                        raise ParseError('rec: %r' % (v3,))
            if v == '(':
                d = {}
                while True:
                    key = self.value()
                    self.expect(':>')
                    d[_hashable(key)] = self.value()
                    k3, v3 = self.next()
                    if v3 == ')':
                        break
                    if v3 != '@@':
                        raise ParseError('fun: %r' % (v3,))
                keys = list(d.keys())
                if keys and all(isinstance(x, int) for x in keys) and sorted(keys) == list(range(1, len(keys) + 1)):
                    return [d[i] for i in range(1, len(keys) + 1)]
                return d
        raise ParseError('unexpected %r' % ((k, v),))


def _hashable(v):
    if isinstance(v, list):
        return tuple(_hashable(x) for x in v)
    if isinstance(v, dict):
        return tuple(sorted((k, _hashable(x)) for k, x in v.items()))
    return v


def parse(s):
    p = _P(_tokens(s))
    v = p.value()
    if p.i != len(p.t):
        raise ParseError('trailing tokens in %r' % s[:80])
    return v


_var_re = re.compile(r'^(?:/\\ )?([A-Za-z_][A-Za-z0-9_]*) = (.*)$')


def parse_state_block(lines):
    """lines: the lines of one state (without the 'State n:' header)."""
    st = {}
    cur = None
    buf = []
    for ln in lines:
        m = _var_re.match(ln)
        if m and (ln.startswith('/\\ ') or cur is None):
            if cur is not None:
                st[cur] = parse('\n'.join(buf))
            cur = m.group(1)
            buf = [m.group(2)]
        else:
            buf.append(ln)
    if cur is not None:
        st[cur] = parse('\n'.join(buf))
    return st


def read_dump(path):
    """Yield one dict per state of a `tlc -dump` file."""
    block = []
    with open(path, encoding='utf-8', errors='surrogateescape') as f:
        for ln in f:
            ln = ln.rstrip('\n')
            if ln.startswith('State ') and ln.endswith(':'):
                if block:
                    yield parse_state_block(block)
                block = []
            elif ln.strip() == '':
                continue
            else:
                block.append(ln)
    if block:
        yield parse_state_block(block)


_act_re = re.compile(r'^\\\* <(\w+)(?:\((.*)\))? line (\d+), col \d+ to line \d+, col \d+ of module (\w+)>')


def read_simulate(path):
    """Parse one file written by `tlc -simulate file=...`: returns a list of
    (action_name, action_args_text, state_dict); the first entry has action
    None."""
    out = []
    act = (None, None)
    block = None
    with open(path, encoding='utf-8', errors='surrogateescape') as f:
        for ln in f:
            ln = ln.rstrip('\n')
            m = _act_re.match(ln)
            if m:
                act = (m.group(1), m.group(2))
                continue
            if re.match(r'^STATE_\d+ ==', ln):
                if block is not None:
                    out.append((block[0], block[1], parse_state_block(block[2])))
                block = [act[0], act[1], []]
                act = (None, None)
                continue
            if block is not None:
                if ln.strip() == '' or ln.startswith('====') or ln.startswith('----'):
                    continue
                block[2].append(ln)
    if block is not None:
        out.append((block[0], block[1], parse_state_block(block[2])))
    return out


def read_trace_from_output(text):
    """Parse the counter-example TLC prints on stdout: list of
    (action_name, state_dict)."""
    out = []
    lines = text.split('\n')
    i = 0
    while i < len(lines):
        ln = lines[i]
        if ln.rstrip().endswith('is violated by the initial state:'):
            i += 1
            block = []
            while i < len(lines) and lines[i].strip() != '':
                block.append(lines[i])
                i += 1
            out.append(('Init', parse_state_block(block)))
            continue
        m = re.match(r'^State \d+: <(.*)>$', ln)
        if m:
            name = m.group(1).split(' ')[0]
            name = name.split('(')[0]
            i += 1
            block = []
            while i < len(lines) and lines[i].strip() != '':
                block.append(lines[i])
                i += 1
            out.append((name, parse_state_block(block)))
        else:
            i += 1
    return out


def to_tla(v):
    """Python -> TLA+ text (for generating MC constants)."""
    if isinstance(v, bool):
        return 'TRUE' if v else 'FALSE'
    if isinstance(v, int):
        return str(v)
    if isinstance(v, str):
        return '"' + v.replace('\\', '\\\\').replace('"', '\\"').replace('\n', '\\n').replace('\t', '\\t') + '"'
    if isinstance(v, TlaSet) or isinstance(v, (set, frozenset)):
        return '{' + ', '.join(to_tla(x) for x in v) + '}'
    if isinstance(v, (list, tuple)):
        return '<<' + ', '.join(to_tla(x) for x in v) + '>>'
    if isinstance(v, dict):
        if not v:
            return '<<>>'
        return '[' + ', '.join('%s |-> %s' % (k, to_tla(x)) for k, x in v.items()) + ']'
    raise TypeError(type(v))


def read_all_traces(text):
    """TLC run with -continue: returns [(invariant_name, [(action, state)])]
    for every reported invariant violation."""
    out = []
    parts = re.split(r'^Error: Invariant (\S+) is violated', text, flags=re.M)
    # parts = [pre, name1, body1, name2, body2, ...]
    for i in range(1, len(parts) - 1, 2):
        name = parts[i]
        body = parts[i + 1]
        if body.lstrip().startswith('by the initial state'):
            body = 'X is violated by the initial state:' + body.split(':', 1)[1]
        out.append((name, read_trace_from_output(body)))
    return out
