"""C14 — crash reports reach telemetry only as program counters (CrashParse*.tla).

model -> code : TLC explores the line-by-line reading of a crash report
                (CrashParseMC: one witness report per (parser state, line kind)
                transition up to 18 PCs, and every short report after a header),
                proving on the way that the one-pass and the declarative reading
                agree, the 16-PC cap, and that nothing but sentinel / PCs /
                sigpanic matters; every dumped report is concretized several
                times with different filler text and run through the real
                telemetryCounterName.
code -> model : each observation (abstract lines, abstracted outcomes of all
                concretizations) is decided by TLC with CrashParse!Allowed and
                NonInterference (CrashParseTrace); the same for random abstract
                reports, genuine tracebacks of really crashing helper runs,
                line/byte mutations of those and random byte strings, which an
                independent line classifier abstracts.
"""
import json
import re

from vlib import tlaval
from vlib.core import Infra, ndjson_text

SIG = {
    -1: 'C14:name:longer-than-4096',
    -2: 'C14:path-contains-pc=:name-changes',
    -3: 'C14:noninterference:names-differ',
    -4: 'C14:genuine-format:wrong-outcome',
    -5: 'C14:malformed:frame-not-from-block-or-more-than-16',
    -6: 'C14:deep-stack:frames-elided:error',
    -7: 'C14:path-contains-pc=:name-changes',
    -8: 'C14:repeated-sentinel:name-changes',
    -9: 'C14:monitor:outcome-differs-from-name-derivation',
    -10: 'C14:symbol-line-without-paren:name-changes',
}
TEXT = {
    -1: 'the counter name is longer than the 4096-byte limit',
    -2: 'a location line whose file path contains " pc=" loses its frame: the name depends on path text (F17)',
    -3: 'two concretizations of one abstract report (same sentinel, PCs, sigpanic positions; different filler text) give different names',
    -4: 'a report in the genuine traceback format does not give the name CrashParse!Expected demands',
    -5: 'a malformed report gives a name with a frame that is no PC of the first running goroutine (or more than 16)',
    -7: 'two renderings of one report that differ only in " pc=" inside a file path give different names (F17)',
    -8: 'a later line "sentinel <hex>" (message text, not the parent\'s first line) changes the result: the report read with that line as ordinary text is in the genuine format, but the outcome is neither its name nor an error',
    -10: 'a symbol line of the first running goroutine without "(" (its location line kept) gives another name instead of the name of the report with the symbol restored, or an error: a frame is silently dropped',
    -9: 'a monitor process fed the crash text through its stdin records something else than the name derivation gives for that text (the size of a message / argument / path changes the result, or the crash is not recorded)',
    -6: 'a genuine traceback of a stack deeper than 100 frames ("...N frames elided...") is refused with an error instead of naming its top 16 frames',
}


def _verdict(out):
    """Parse the <<"C14BAD", n, {...}>> value CrashParseTrace prints."""
    k = out.find('"C14BAD"')
    if k < 0:
        return None, None
    k = out.rfind('<<', 0, k)
    depth = 0
    i = k
    while i < len(out):
        two = out[i:i + 2]
        if two == '<<':
            depth += 1
            i += 2
            continue
        if two == '>>':
            depth -= 1
            i += 2
            if depth == 0:
                break
            continue
        i += 1
    v = tlaval.parse(out[k:i])
    return v[1], [(x[0], x[1]) for x in v[2]]


def _tlc_records(rec):
    return {'lines': rec['lines'], 'vid': rec['vid'], 'obs': [
        {'kind': o['kind'], 'frames': o['frames'], 'lenok': o['lenok'], 'text': o['text'], 'pathpc': o.get('pathpc', False), 'cut': o.get('cut', False), 'entry': o.get('entry', 'function')} for o in rec['obs']]}


def _validate(ctx, recs, label):
    """TLC decides every record; returns [(record, class)] of the unexplained."""
    bad = []
    chunk = 25000
    for c in range(0, len(recs), chunk):
        part = recs[c:c + chunk]
        r = ctx.tlc('CrashParseTrace', files={'c14obs.ndjson': ndjson_text([_tlc_records(x) for x in part])},
                    workers=1, label='%s[%d]' % (label, c // chunk), count=False, timeout=2400)
        if not r.ok:
            raise Infra('CrashParseTrace failed: %s\n%s' % (r.error, r.out[-3000:]))
        n, b = _verdict(r.out)
        if n != len(part) or r.distinct < len(part) + 1:
            raise Infra('CrashParseTrace did not reach the end of the trace (%s of %d)\n%s' % (n, len(part), r.out[-2000:]))
        for (l, cls) in b:
            bad.append((part[l - 1], cls))
    return bad


def run(ctx):
    ctx.assumptions += [
        'symbolisation (PC -> function, line) is the Go runtime\'s; the harness renders frames itself from runtime.CallersFrames',
        '"at most 16 frames" is decided as at most 16 program counters (one PC may expand to several inlined frames)',
        'a line is a goroutine header iff it starts with "goroutine " and contains " [running]:" (whoever wrote it); filler text never starts '
        'a line with "goroutine ", "sentinel ", "created by " and is never the empty line',
        'exact names are demanded only for reports in the genuine format (sentinel first and once, complete SYMBOL/LOCATION entries, clean '
        'pc=0x.. fields that resolve in this executable); for anything else (missing/zero/repeated sentinels, odd line pairing, unparsable or '
        'unresolvable PCs, lines the classifier cannot tell) the outcome may be an error, the fixed name, or at most 16 frames each taken from '
        'a PC line of the first running goroutine (between its header, or an ambiguous header line before it, and the first blank / "created by" line after that header, whatever the line pairing)',
        'a crashing goroutine that is locked to its thread ("[running, locked to thread]:") is reported as crash/no-running-goroutine; the '
        'property does not list it, it is recorded as an observation only',
        'entry points: telemetryCounterName on every text; for a sample of reports also a re-executed monitor process (crashmonitor.Child with '
        'the counter hook stubbed) fed through stdin, with one message / argument / path blown up so that the 1 MiB mark of the text falls inside '
        'a pc field, between frames, inside the header, inside the blown-up text and before the end; crash/malformed is read as the error outcome; '
        'the monitor may record nothing only for texts with fewer than two newlines',
        'the name-length bound is observed on every result; 32 reports of 17 frames with 200..600-byte identifiers (first identifier growing in 10-byte steps) and one real crash through such functions exercise the cut; a cut name (truncation marker) must carry a proper prefix of the expected frames',
    ]
    ctx.inject('internal/crashmonitor', 'internal/verifh/c14')

    # ---- 1. the specification itself; abstract reports for replay ----------
    view = 'ViewFull' if ctx.thorough() else 'View'
    runs = [('cover', 'PrefixEmpty', 40, view)]
    if ctx.thorough():
        runs += [('seq-hdr', 'PrefixHdr', 6, None), ('seq-trap', 'PrefixTrap', 8, None), ('seq-empty', 'PrefixEmpty', 3, None), ('seq-odd', 'PrefixOdd', 9, None), ('seq-nosym', 'PrefixNoSym', 9, None)]
    else:
        runs += [('seq-hdr', 'PrefixHdr', 4, None), ('seq-empty', 'PrefixEmpty', 2, None), ('seq-odd', 'PrefixOdd', 8, None), ('seq-nosym', 'PrefixNoSym', 8, None)]
    vectors = []
    seen = set()
    for (label, prefixes, maxlen, vw) in runs:
        cfg = ('SPECIFICATION Spec\nINVARIANTS Agree RepIgnored SymTextOK CapOK EraseOK OnlyContribution TrapRule\nPROPERTIES PostStable\n'
               'CHECK_DEADLOCK FALSE\n%sCONSTANTS\n MaxLen = %d\n Prefixes <- %s\n' % ('VIEW %s\n' % vw if vw else '', maxlen, prefixes))
        r = ctx.tlc('CrashParseMC', cfg_text=cfg, dump=True, label='CrashParseMC-' + label, timeout=2400)
        if not r.ok:
            raise Infra('CrashParseMC (%s): the specification violates %s %s\n%s' % (label, r.error, r.error_name, r.out[-3000:]))
        for st in tlaval.read_dump(r.dump):
            names = tuple(st['names'])
            if names and names not in seen:
                seen.add(names)
                vectors.append({'id': len(vectors) + 1, 'kinds': list(names)})
    ctx.log('abstract reports from TLC:', len(vectors))
    ctx.sample({'kind': 'abstract report', 'kinds': max(vectors, key=lambda v: len(v['kinds']))['kinds']})

    # ---- 2. replay + random abstract reports --------------------------------
    nvar = ctx.pick(3, 4)
    nrand = ctx.pick(2500, 40000)
    inp = {'vectors': vectors, 'variants': nvar, 'random': nrand}
    recs, rc, out = ctx.run_harness('./internal/verifh/c14', 'TestVerifC14Vec', inp=inp, timeout=2400)
    summ = [x for x in recs if x.get('kind') == 'summary']
    if not summ:
        raise Infra('C14 vec harness wrote no summary:\n' + out[-2000:])
    vrecs = [x for x in recs if x.get('kind') == 'rec']
    ctx.cov['evaluations'] += summ[0]['calls']
    amb = [x for x in vrecs if x['amb']]
    if amb:
        raise Infra('ambiguous read-back of a name for a generated report (marker functions collide?): %s' % json.dumps(amb[0])[:800])
    longs = [x for x in vrecs if x.get('src') == 'long']
    ctx.cov['long_identifier_reports'] = len(longs)
    ctx.cov['long_identifier_reports_cut'] = len([x for x in longs if x.get('cut')])
    if longs and not any(x.get('cut') or x.get('namelen', 0) > 4096 for x in longs):
        raise Infra('no long-identifier report reached the name-size limit; the length bound was not exercised')
    bad = _validate(ctx, vrecs, 'CrashParseTrace-vec')
    ctx.cov['traces_validated_against_impl'] += len(vrecs) - len(bad)
    ctx.cov['reports_replayed'] = len(vrecs)
    ctx.cov['concretizations_per_report'] = nvar
    if vrecs:
        v = vrecs[len(vrecs) // 3]
        ctx.sample({'kind': 'observation', 'kinds': v.get('kinds'), 'obs': v['obs']})
    _report(ctx, bad, 'TestVerifC14Vec', inp)

    # ---- 2b. the whole monitor process, fed through a pipe; texts around 1 MiB -------
    hand = [['SentOk1', 'NoParen', 'Blank', 'HdrRun', 'SymPlain', 'LocPc', 'SymPlain', 'LocPc', 'SymPlain', 'LocPc', 'Blank', 'HdrOtherP', 'SymPlain', 'LocPc', 'Blank'],
            ['SentOk2', 'NoParen', 'NoParen', 'Blank', 'HdrRun', 'SymPlain', 'LocPc', 'SymSig', 'LocPc', 'SymPlain', 'LocNoPc', 'SymPlain', 'LocPc', 'Created', 'LocNoPc', 'Blank'],
            ['SentOk1', 'NoParen', 'Blank', 'HdrRun'] + ['SymPlain', 'LocPc'] * 18 + ['Blank', 'HdrOther', 'SymPlain', 'LocPc'],
            ['SentOk1', 'HdrRun', 'SymPlain', 'LocPc', 'SymPlain', 'LocPc', 'Blank'],
            ['SentOk1', 'HdrRun', 'SymPlain', 'LocPc'],
            ['SentOk1', 'NoParen', 'Blank', 'HdrOther', 'SymPlain', 'LocPc', 'Blank'],
            ['SentOk1', 'NoParen', 'Blank', 'HdrRun', 'SymPlain', 'LocBad', 'NoParen', 'Blank'],
            ['SentOk1'], ['SentOk1', 'NoParen'], ['SentOk1', 'Blank'], ['SentOk1', 'NoParen', 'Blank'], ['NoParen', 'NoParen', 'NoParen'],
            ['SentBad', 'NoParen', 'HdrRun', 'SymPlain', 'LocPc'], ['SentOk1', 'NoParen', 'SentOk2', 'HdrRun', 'SymPlain', 'LocPc', 'Blank']]
    withrun = [v for v in vectors if 'HdrRun' in v['kinds'] and len(v['kinds']) >= 5]
    nmon = ctx.pick(24, 150)
    step = max(1, len(withrun) // nmon)
    mon = [{'id': 3000000 + i, 'kinds': k} for i, k in enumerate(hand)] + [dict(v) for v in withrun[::step][:nmon]]
    inp = {'vectors': mon}
    recs, rc, out = ctx.run_harness('./internal/verifh/c14', 'TestVerifC14Monitor', inp=inp, timeout=2400)
    summ = [x for x in recs if x.get('kind') == 'summary']
    if not summ or not summ[0].get('spawns'):
        raise Infra('C14 monitor harness started no monitor process:\n' + out[-2000:])
    mrecs = [x for x in recs if x.get('kind') == 'rec']
    ctx.cov['evaluations'] += summ[0]['spawns']
    ctx.cov['monitor_processes'] = summ[0]['spawns']
    ctx.cov['monitor_reports'] = len(mrecs)
    bad = _validate(ctx, mrecs, 'CrashParseTrace-monitor')
    ctx.cov['traces_validated_against_impl'] += len(mrecs) - len(bad)
    if mrecs:
        m0 = mrecs[0]
        ctx.sample({'kind': 'monitor', 'kinds': m0['kinds'], 'runs': [(d['what'], d['bytes'], d['kind']) for d in m0['details']]})
    _report(ctx, bad, 'TestVerifC14Monitor', inp)

    # ---- 3. genuine crashes, mutations, random bytes --------------------------
    inp = {'mutations': ctx.pick(2000, 40000), 'bytes': ctx.pick(1000, 20000)}
    recs, rc, out = ctx.run_harness('./internal/verifh/c14', 'TestVerifC14Real', inp=inp, timeout=2400)
    summ = [x for x in recs if x.get('kind') == 'summary']
    if not summ or not summ[0].get('genuine'):
        raise Infra('C14 real-crash harness produced no genuine traceback:\n' + out[-2000:] + json.dumps(recs[:3])[:2000])
    reals = [x for x in recs if x.get('kind') == 'real']
    locked = 0
    for x in reals:
        if x.get('infra'):
            raise Infra('C14 helper: %s (%s)\n%s' % (x['infra'], x['scenario'], x.get('stderr', '')[:1500]))
        ctx.cov['evaluations'] += 1
        res = x.get('result')
        if x.get('locked'):
            locked += 1
            ctx.cov['observation_locked_to_thread'] = 'crash of a goroutine locked to its thread -> %s' % (x.get('name') or res)
            continue
        if res == 'name' and x.get('len', 0) > 4096:
            ctx.violation(SIG[-1], {k: x.get(k) for k in ('scenario', 'len', 'got', 'cut')},
                          'real crash "%s": %s (%d bytes)' % (x['scenario'], TEXT[-1], x['len']))
            continue
        if res == 'name' and x.get('frames_ok'):
            ctx.cov['traces_validated_against_impl'] += 1
            continue
        d = {k: x.get(k) for k in ('scenario', 'result', 'err', 'panic', 'name', 'got', 'want', 'elided', 'text')}
        if res == 'err' and x.get('elided'):
            ctx.violation(SIG[-6], d, 'real crash "%s": %s: %s' % (x['scenario'], TEXT[-6], x.get('err')))
        elif res == 'err':
            ctx.violation('C14:genuine:error', d, 'real crash "%s" is refused: %s' % (x['scenario'], x.get('err')))
        elif res in ('panic', 'hang'):
            ctx.violation('C14:' + res, d, 'real crash "%s": telemetryCounterName %s %s' % (x['scenario'], res, x.get('panic', '')))
        elif res == 'fixed' and not x.get('running'):
            ctx.cov['traces_validated_against_impl'] += 1       # no running goroutine in the genuine report: the fixed name is right
        elif res == 'fixed':
            ctx.violation('C14:genuine:no-frames', d, 'real crash "%s" gives the fixed name %s' % (x['scenario'], x.get('name')))
        else:
            ctx.violation('C14:genuine:frames-differ', d,
                          'real crash "%s": the frames of the name are not the functions/lines the crashing process recorded itself' % x['scenario'])
    ctx.cov['real_crashes'] = len(reals)
    for x in [x for x in recs if x.get('kind') == 'big']:
        ctx.cov['evaluations'] += 1
        ctx.cov['very_large_inputs'] = ctx.cov.get('very_large_inputs', 0) + 1
        if x['result'] != 'ok':
            sig = {'panic': 'C14:panic', 'hang': 'C14:hang', 'toolong': SIG[-1]}[x['result']]
            ctx.violation(sig, x, 'very large crash text #%d (%d bytes): %s %s' % (x['i'], x['bytes'], x['result'], x.get('panic', '')))
    rrecs = [x for x in recs if x.get('kind') == 'rec']
    namb = len([x for x in rrecs if x['amb']])
    rrecs = [x for x in rrecs if not x['amb']]
    ctx.cov['ambiguous_readbacks_skipped'] = namb
    bad = _validate(ctx, rrecs, 'CrashParseTrace-real')
    ctx.cov['traces_validated_against_impl'] += len(rrecs) - len(bad)
    ctx.cov['evaluations'] += len(rrecs) + namb
    ctx.cov['texts_classified'] = len(rrecs)
    g = [x for x in rrecs if x['src'] == 'genuine']
    if g:
        ctx.sample({'kind': 'genuine traceback', 'scenario': g[0].get('scenario'), 'lines': len(g[0]['lines']), 'obs': g[0]['obs']})
    _report(ctx, bad, 'TestVerifC14Real', inp)
    ctx.cov['distinct_nontrivial'] = len(vectors) + nrand + len(rrecs)
    ctx.cov['rule'] = ('TLC: CrashParseMC exhaustive (transition cover to 18 PCs; all reports of <= %d lines after a header) with Agree/CapOK/EraseOK/'
                       'OnlyContribution/TrapRule/PostStable; every dumped report and %d random ones concretized %d times and run through the real '
                       'telemetryCounterName; %d genuine/mutated/random texts classified independently; every record decided by TLC '
                       '(CrashParseTrace: Allowed, NonInterference)' % (runs[1][2] - 2, nrand, nvar, len(rrecs)))


def _report(ctx, bad, test, inp):
    if not bad:
        return
    # one violation per signature is kept: fetch the concrete texts / names of
    # the first records of every class only
    per = {}
    for (r, c) in bad:
        per.setdefault(c if c < 0 else r['obs'][c - 1]['kind'], []).append((r, c))
    ctx.cov['unexplained_by_class'] = dict(ctx.cov.get('unexplained_by_class', {}), **{str(k): len(v) for k, v in per.items()})
    bad = [x for k in per for x in per[k][:3]]
    ids = sorted({r['id'] for (r, _c) in bad})
    show = dict(inp)
    show['show'] = ids
    recs, rc, out = ctx.run_harness('./internal/verifh/c14', test, inp=show, timeout=1200)
    det = {x['id']: x for x in recs if x.get('kind') == 'rec'}
    for (r, cls) in bad:
        d = r if (r.get('texts') or r.get('src') == 'monitor') else det.get(r['id'], {})
        detail = {'src': r.get('src'), 'id': r['id'], 'kinds': r.get('kinds'), 'lines': r['lines'], 'vid': r['vid'], 'obs': r['obs'],
                  'texts': d.get('texts'), 'results': d.get('details')}
        if cls >= 1:
            kind = r['obs'][cls - 1]['kind']
            sig = {'panic': 'C14:panic', 'hang': 'C14:hang'}.get(kind, 'C14:name:text-that-is-no-pc-of-the-report')
            text = {'panic': 'telemetryCounterName panics', 'hang': 'telemetryCounterName does not terminate'}.get(
                kind, 'the result is neither an error, the fixed name, nor the crash prefix followed by frames of PCs of the report')
        else:
            sig, text = SIG.get(cls, 'C14:unexplained'), TEXT.get(cls, 'unexplained observation')
            if cls == -4 and any(len(o['frames']) > 16 for o in r['obs']):
                sig += ':more-than-16'
        names = [x.get('name') for x in (d.get('details') or [])]
        ctx.violation(sig, detail, '%s [%s report %s; kinds=%s; names=%s]' % (
            text, r.get('src'), r['id'], ' '.join(r.get('kinds') or [])[:300], json.dumps(names)[:600]))
