"""X01 (extension engine) — the telemetry.go.dev web layer apart from the upload
endpoint: godev/internal/content (WebContent*.tla), godev/internal/middleware and
its composition in newHandler (WebPipeline*.tla), and the routing of the index,
/charts/, /data/, /config pages (WebRoutes*.tla).

Guarantees (stated in the module headers):
  G1 resolution of a request path is the documented function of the file system
  G2 confinement: nothing outside the served roots is shown, redirects stay on the site
  G3 handler results map to statuses; a 500 never carries internal text; a path
     that merely names nothing is a 4xx
  G4 the middleware pipeline (panic -> 500, log faithful, body bounded, timeout
     -> 503, stateless), and Chain's order of execution
  G5 routing / listings / index choice are functions of the bucket contents
"""
import datetime
import json
import random
import threading
import urllib.parse

from vlib import tlaval
from vlib.core import Infra, ndjson_text

from . import _godev_util as gu

PKG = './internal/verifh/x01'
MAIN = './cmd/telemetrygodev'
MOD = 'godev'

CONFIG = {
    'GOOS': ['linux', 'darwin'], 'GOARCH': ['amd64', 'arm64'], 'GoVersion': ['go1.22.0', 'go1.23.0'], 'SampleRate': 1,
    'Programs': [{'Name': 'x01.example/marker-program', 'Versions': ['v1.0.0'],
                  'Counters': [{'Name': 'x01/counter', 'Rate': 1}], 'Stacks': []}],
}


class Findings:
    """Violations are collected by the worker threads and reported from the main thread."""

    def __init__(self):
        self.lock = threading.Lock()
        self.items = []

    def add(self, sig, detail, text):
        with self.lock:
            self.items.append((sig, detail, text))


# =========================================================================== G1/G2/G3: content
def seg_path(segs, slash):
    p = '/' + '/'.join(segs)
    if slash and segs:
        p += '/'
    return p


def children(files, fsids, dirsegs):
    """Names a listing of directory dirsegs shows (sub-directories with '/')."""
    out = set()
    n = len(dirsegs)
    for i in fsids:
        f = files[i - 1]
        if len(f) > n and f[:n] == dirsegs:
            out.add(f[n] + ('/' if len(f) > n + 1 else ''))
    if n == 0:
        out.add('base.html')
    return sorted(out)


def content_part(ctx, F):
    # ---- model -> code: every (file system, request) of the universe
    r = ctx.tlc('WebContentVec', dump=True, label='WebContentVec')
    if not r.ok:
        raise Infra('WebContentVec: the specification violates its own invariant %s %s\n%s' % (r.error, r.error_name, r.out[-2000:]))
    files = [['a.md'], ['a.html'], ['a'], ['a', 'index.md'], ['a', 'index.html'], ['a', 's.css'], ['index.md'], ['index.html'], ['s.css']]
    groups = {}
    vecs = []
    for st in tlaval.read_dump(r.dump):
        if st['hop'] != 0:
            continue
        fsids = tuple(sorted(st['fs']))
        v = {'id': len(vecs), 'fs': fsids, 'segs': list(st['rq']['segs']), 'slash': st['rq']['slash'], 'out': st['out']}
        vecs.append(v)
        groups.setdefault(fsids, []).append({'id': v['id'], 'segs': v['segs'], 'slash': v['slash']})
    if len(vecs) < 20000:
        raise Infra('WebContentVec produced only %d vectors' % len(vecs))
    ctx.log('content vectors:', len(vecs), 'file systems:', len(groups))
    inp = {'files': files, 'groups': [{'fs': list(k), 'reqs': v} for k, v in sorted(groups.items())]}
    recs, rc, out = ctx.run_harness(PKG, 'TestVerifX01Resolve', inp=inp, module_dir=MOD, timeout=900)
    gu.summary_of(recs, out, 'X01 resolve')
    for h in [x for x in recs if x.get('kind') == 'hang']:
        F.add('X01:G1:hang', h, 'G1: the content server did not answer %s within 20 s' % h.get('path'))
    ans = {x['id']: x for x in recs if x.get('kind') == 'ans'}
    nok = 0
    for v in vecs:
        x = ans.get(v['id'])
        if x is None:
            raise Infra('no answer for content vector %d' % v['id'])
        a = x['a']
        want = v['out']
        path = x['path']
        bad = None
        if a.get('panic'):
            bad = ('panic', 'the server panicked: %s' % a['panic'])
        elif a['status'] >= 500:
            bad = ('5xx', 'status %d for a request over a file system whose pages all render' % a['status'])
        elif not a['locsafe']:
            bad = ('offsite', 'Location %r leaves the site' % a['loc'])
        elif want['k'] == 'page':
            fid = files.index(list(want['file'])) + 1
            form = 'md' if want['file'][-1].endswith('.md') else 'html'
            if not (a['k'] == 'page' and a['file'] == fid and a['form'] == form):
                bad = ('page', 'want page %s rendered' % '/'.join(want['file']))
            elif not a['ctype'].startswith('text/html') or not a['clenok'] or a['rawsrc']:
                bad = ('page-headers', 'rendered page with Content-Type %r, Content-Length ok=%s, raw source=%s' % (a['ctype'], a['clenok'], a['rawsrc']))
        elif want['k'] == 'static':
            fid = files.index(list(want['file'])) + 1
            if not (a['k'] == 'static' and a['file'] == fid):
                bad = ('static', 'want file %s verbatim' % '/'.join(want['file']))
        elif want['k'] == 'redirect':
            to = '/' + '/'.join(want['to'])
            if not (a['k'] == 'redirect' and a['to'] == to):
                bad = ('redirect', 'want 301 to %s' % to)
        elif want['k'] == 'notfound':
            if a['k'] != 'notfound':
                bad = ('notfound', 'want 404')
        elif want['k'] == 'dir':
            kids = children(files, v['fs'], v['segs'])
            listing = a['k'] == 'dirlist' and a.get('entries') == kids
            slashred = a['k'] == 'redirect' and a['to'] == path + '/'
            if not (listing or (slashred and not v['slash'] and v['segs'])):
                bad = ('dir', 'want the listing %s (or 301 to %s/)' % (kids, path))
        if bad:
            F.add('X01:G1:resolve:want=%s:got=%s:%s' % (want['k'], a['k'], bad[0]),
                  {'fs': ['/'.join(files[i - 1]) for i in v['fs']], 'path': path, 'want': want, 'answer': a},
                  'G1 (resolution): file system {%s}, GET %s: %s; got status %d kind %s file %s Location %r' % (
                      ', '.join('/'.join(files[i - 1]) for i in v['fs']), path, bad[1], a['status'], a['k'],
                      '/'.join(files[a['file'] - 1]) if 0 < a['file'] <= len(files) else a['file'], a['loc']))
        else:
            nok += 1
    ctx.cov['content_vectors'] = len(vecs)
    ctx.cov['content_vectors_ok'] = nok
    ctx.sample({'kind': 'content-vector', 'fs': ['/'.join(files[i - 1]) for i in vecs[len(vecs) // 3]['fs']],
                'path': seg_path(vecs[len(vecs) // 3]['segs'], vecs[len(vecs) // 3]['slash']), 'want': vecs[len(vecs) // 3]['out']})

    # ---- G3: handler results
    codes = [c for c in range(200, 600) if c not in (204, 304)]
    mc = '---- MODULE MCWebContentErr ----\nEXTENDS WebContentErr\nMCCodes == (200..599) \\ {204, 304}\n====\n'
    r = ctx.tlc('MCWebContentErr', files={'MCWebContentErr.tla': mc}, cfg='WebContentErr.cfg', dump=True, label='WebContentErr')
    if not r.ok:
        raise Infra('WebContentErr: %s %s\n%s' % (r.error, r.error_name, r.out[-1500:]))
    evs = []
    for st in tlaval.read_dump(r.dump):
        evs.append({'id': len(evs), 'res': st['res'], 'code': st['code'], 'want': st['resp']})
    if len(evs) != 4 * len(codes):
        raise Infra('WebContentErr: %d vectors' % len(evs))
    recs, rc, out = ctx.run_harness(PKG, 'TestVerifX01Errors', inp={'vectors': [{k: e[k] for k in ('id', 'res', 'code')} for e in evs]}, module_dir=MOD, timeout=600)
    gu.summary_of(recs, out, 'X01 errors')
    nerr = 0
    for x in [x for x in recs if x.get('kind') == 'err']:
        e = evs[x['id']]
        w = e['want']
        nerr += 1
        if x.get('panic'):
            F.add('X01:G3:errmap:panic', x, 'G3: handler result %s/%d made the server panic: %s' % (x['res'], x['code'], x['panic']))
        elif x['secret']:
            F.add('X01:G3:errmap:internal-text-leaked', x, 'G3: the text of a plain (unannotated) error reached the client: %r' % x['text'])
        elif x['status'] != w['status'] or x['body'] != w['body']:
            F.add('X01:G3:errmap:%s:%s' % (x['res'], 'status' if x['status'] != w['status'] else 'body'), {'vector': e, 'got': x},
                  'G3 (error mapping): a handler (%s) result %s with code %d must give status %d with body class %s; got %d %s (%r)' % (
                      x['via'], x['res'], x['code'], w['status'], w['body'], x['status'], x['body'], x['text']))
    ctx.cov['error_vectors'] = nerr

    # ---- G2 (+G1 code -> model): shapes from TLC and random paths over random trees
    maxlen = ctx.pick(3, 4)
    cfg = 'INIT Init\nNEXT Next\nINVARIANT ShapeSane\nCHECK_DEADLOCK FALSE\nCONSTANT MaxLen = %d\n' % maxlen
    r = ctx.tlc('WebContentShapes', cfg_text=cfg, dump=True, label='WebContentShapes')
    if not r.ok:
        raise Infra('WebContentShapes: %s\n%s' % (r.error, r.out[-1500:]))
    shapes = []
    for st in tlaval.read_dump(r.dump):
        shapes.append({'id': len(shapes), 'segs': list(st['segs']), 'sfx': st['sfx'], 'enc': st['enc'], 'class': st['class']})
    if len(shapes) < 7000:
        raise Infra('WebContentShapes: %d shapes' % len(shapes))
    trees = ctx.pick(6, 40)
    inp = {'trees': trees, 'canon': ctx.pick(500, 1500), 'hostile': ctx.pick(400, 1500), 'shapes': shapes}
    recs, rc, out = ctx.run_harness(PKG, 'TestVerifX01Fuzz', inp=inp, module_dir=MOD, timeout=1500)
    gu.summary_of(recs, out, 'X01 fuzz')
    for h in [x for x in recs if x.get('kind') == 'hang']:
        F.add('X01:G2:hang', h, 'G2: the content server did not answer %r within 20 s' % h.get('path'))
    obs = [x for x in recs if x.get('kind') == 'obs']
    return obs, len(shapes)


def classify_content_bad(o):
    """signature + text for an observation WebContentTrace did not explain"""
    s = o['safe']
    path = o['path']
    if o['cls'] == 'canonical':
        cls = 'canonical'
    else:
        cls = o.get('class', '?')
    if o.get('panic'):
        return 'X01:G2:panic:%s' % cls, 'G2/G3: the server panicked on %r (%s): %s' % (path, o['via'], o['panic'])
    if s['leaked'] and o['via'] == 'tcp' and '/charts/' in path:
        return 'X01:G5:charts:object-outside-chart-bucket', 'G5: %r shows a chart-shaped object that is not in the chart bucket' % path
    if s['leaked']:
        return 'X01:G2:leak:%s' % cls, 'G2 (confinement): the answer to %r (%s) carries bytes of a file outside the served roots' % (path, o['via'])
    if not s['locsafe']:
        dec = urllib.parse.unquote(path.split(' ')[-1]).split('?')[0]
        how = 'ext' if dec.endswith(('.html', '.md')) else 'index' if dec.endswith('/index') else 'other'
        return 'X01:G2:offsite-redirect:%s' % how, 'G2 (confinement): %r (%s) is answered with Location %r, which user agents resolve to another host' % (path, o['via'], o['loc'])
    if s['status'] >= 500 and not s['broken']:
        sub = o.get('why') or cls
        return 'X01:G3:5xx:%s' % sub, 'G3 (a path that names nothing is a 4xx): %r (%s) is answered %d' % (path, o['via'], s['status'])
    if o['cls'] == 'canonical':
        if o.get('rawsrc'):
            return 'X01:G1:raw-source', 'G1: the answer to %r shows unrendered page source' % path
        return ('X01:G1:observed:%s:%s' % (o['abs']['ext'], o['obs']['k']),
                'G1 (resolution): GET %r with %s answered %s, which WebContent.tla does not allow' % (path, json.dumps(o['abs']), json.dumps(o['obs'])))
    return 'X01:G2:unexplained:%s' % cls, 'unexplained observation %s' % json.dumps(o)[:300]


def validate_content(ctx, F, obs, label):
    if not obs:
        return 0
    keep = ('cls', 'abs', 'obs', 'safe', 'rawsrc')
    lines = []
    for o in obs:
        x = {k: o[k] for k in keep if k in o}
        x.setdefault('rawsrc', False)
        x.setdefault('abs', {})
        x.setdefault('obs', {})
        lines.append(x)
    r = ctx.tlc('WebContentTrace', files={'x01content.ndjson': ndjson_text(lines)}, workers=1, label=label, count=False)
    if r.error == 'invariant':
        st = r.trace[-1][1] if r.trace else {}
        bad = sorted(st.get('bad', []))
        if not bad:
            raise Infra('WebContentTrace: invariant violated but no record named\n' + r.out[-1500:])
        for i in bad:
            o = obs[i - 1]
            sig, text = classify_content_bad(o)
            F.add(sig, {'observation': o}, text)
        return len(obs) - len(bad)
    if not r.ok:
        raise Infra('WebContentTrace: %s\n%s' % (r.error, r.out[-2000:]))
    return len(obs)


# =========================================================================== G4: pipeline
MW_FIELDS = ('status', 'src', 'escaped', 'late', 'seen', 'logs')


def norm_logs_full(logs):
    out = []
    for l in logs:
        lv = l['level']
        out.append({'msg': l['msg'], 'status': l['status'] if l['msg'] == 'end' else 0, 'level': lv})
    return out


def describe_mw(v):
    return 'Chain(%s) around a handler that %s%s, body %s the limit' % (
        ', '.join(v['ord']) or '-', {'ok': 'answers %d' % v['st'], 'silent': 'returns without writing', 'panic': 'panics before writing', 'writepanic': 'writes %d and panics' % v['st'],
                                     'stall': 'does not return in time', 'stallpanic': 'stalls and panics late'}[v['act']],
        ' after reading the body' if v['reads'] else '', 'within' if v['body'] == 'fits' else 'over')


def mw_signature(v, want, got):
    diff = [k for k in MW_FIELDS if want.get(k) != got.get(k)]
    doc = v['ord'] == ['Log', 'Timeout', 'Size', 'Recover']
    return 'X01:G4:%s:%s:%s' % ('documented-order' if doc else 'order=' + '>'.join(v['ord']), v['act'], '+'.join(diff)), diff


def pipeline_part(ctx, F):
    limit = 64
    r = ctx.tlc('WebPipelineVec', dump=True, label='WebPipelineVec')
    if not r.ok:
        raise Infra('WebPipelineVec: the specification violates %s %s (OrderMatters is an ASSUME)\n%s' % (r.error, r.error_name, r.out[-2500:]))
    vecs, chains = [], []
    rng = random.Random(ctx.seed * 31 + 5)
    for st in tlaval.read_dump(r.dump):
        if st['kind'] == 'chain':
            chains.append({'id': len(chains), 'beh': list(st['beh']), 'events': list(st['events'])})
            continue
        b = st['b']
        size = rng.choice([0, 1, limit - 1, limit]) if st['body'] == 'fits' else rng.choice([limit + 1, 2 * limit + 3, 10 * limit])
        e = dict(st['exp'])
        e['logs'] = [dict(x) for x in e['logs']]
        vecs.append({'id': len(vecs), 'ord': list(st['ord']), 'act': b['act'], 'st': b['st'], 'reads': b['reads'], 'body': st['body'], 'size': size, 'exp': e})
    if len(vecs) < 1200 or len(chains) != 31:
        raise Infra('WebPipelineVec: %d vectors %d chains' % (len(vecs), len(chains)))
    # random extra vectors for the code -> model direction (concrete sizes around the limit)
    extra = []
    orders = sorted({tuple(v['ord']) for v in vecs})
    for i in range(ctx.pick(300, 3000)):
        o = list(rng.choice(orders))
        act = rng.choice(['ok', 'ok', 'panic', 'writepanic', 'stall', 'stallpanic'] if i % 5 == 0 else ['ok', 'ok', 'ok', 'silent', 'panic', 'writepanic'])
        st = rng.choice([200, 400, 500]) if act in ('ok',) else 200
        reads = rng.random() < 0.6
        size = rng.choice([0, 1, limit - 1, limit, limit + 1, limit + 2, 3 * limit, rng.randrange(0, 4 * limit)])
        body = 'fits' if size <= limit else 'over'
        if not reads:
            body = 'fits' if size <= limit else 'over'
        if act == 'writepanic' and 'Log' in o and 'Recover' in o and o.index('Log') < o.index('Recover') and not (
                'Timeout' in o and o.index('Log') < o.index('Timeout') < o.index('Recover')):
            continue        # Specified(ord, b) of WebPipeline.tla
        extra.append({'id': len(vecs) + len(extra), 'ord': o, 'act': act, 'st': st, 'reads': reads, 'body': body, 'size': size})
    inp = {'limit': limit, 'vectors': [{k: v[k] for k in ('id', 'ord', 'act', 'st', 'reads', 'body', 'size')} for v in vecs + extra],
           'chains': [{'id': c['id'], 'beh': c['beh']} for c in chains], 'par': 8}
    recs, rc, out = ctx.run_harness(PKG, 'TestVerifX01Chain', inp=inp, module_dir=MOD, timeout=1200)
    gu.summary_of(recs, out, 'X01 chain')
    # Chain's order of execution
    nchain = 0
    for x in [x for x in recs if x.get('kind') == 'chain']:
        c = chains[x['id']]
        nchain += 1
        if x['events'] != c['events'] or x.get('panic') or x.get('hang'):
            F.add('X01:G4:chain-order', {'beh': c['beh'], 'want': c['events'], 'got': x},
                  'G4 (Chain executes the middlewares in the given order): markers %s ran as %s, want %s' % (c['beh'], x['events'], c['events']))
    got = {x['id']: x for x in recs if x.get('kind') == 'mw'}
    nok = 0
    for v in vecs:
        x = got.get(v['id'])
        if x is None:
            raise Infra('no record for pipeline vector %d' % v['id'])
        if x.get('hang'):
            F.add('X01:G4:hang:%s' % v['act'], {'vector': v}, 'G4: %s: the chain never returned' % describe_mw(v))
            continue
        o = {k: x[k] for k in MW_FIELDS}
        o['logs'] = norm_logs_full(o['logs'])
        if o != v['exp']:
            sig, diff = mw_signature(v, v['exp'], o)
            F.add(sig, {'vector': {k: v[k] for k in v if k != 'exp'}, 'want': v['exp'], 'got': x},
                  'G4 (pipeline): %s: %s differ: want %s, got %s' % (describe_mw(v), '/'.join(diff), json.dumps({k: v['exp'][k] for k in diff}), json.dumps({k: o[k] for k in diff})))
        else:
            nok += 1
        # BodyBounded on concrete numbers
        if v['reads'] and 'Size' in v['ord'] and x['seen_n'] > limit:
            F.add('X01:G4:body-bound', {'vector': v, 'got': x}, 'G4c (BodyBounded): the handler was handed %d bytes with a limit of %d' % (x['seen_n'], limit))
    ctx.cov['pipeline_vectors'] = len(vecs)
    ctx.cov['pipeline_vectors_ok'] = nok
    ctx.cov['chain_vectors'] = nchain
    ctx.sample({'kind': 'pipeline-vector', 'what': describe_mw(vecs[len(vecs) // 2]), 'want': vecs[len(vecs) // 2]['exp']})
    # code -> model for the random ones
    trace = []
    for v in extra:
        x = got.get(v['id'])
        if x is None or x.get('hang'):
            continue
        o = {k: x[k] for k in MW_FIELDS}
        o['logs'] = norm_logs_full(o['logs'])
        trace.append(({'ord': v['ord'], 'b': {'act': v['act'], 'st': v['st'], 'reads': v['reads']}, 'body': v['body'], 'obs': o}, v, x))

    # ---- the chain newHandler builds: histories
    classes = ['get', 'ok200', 'ok400', 'exact', 'over1', 'over', 'panic', 'stall', 'stallpanic']
    hists = []
    for c in classes:
        hists.append([c])
    pairs = [(a, b) for a in classes for b in classes]
    rng.shuffle(pairs)
    stallish = lambda h: sum(1 for c in h if c in ('stall', 'stallpanic'))
    budget = ctx.pick(10, 60)        # histories that contain a stalling request cost a timeout each
    for (a, b) in pairs:
        if stallish([a, b]):
            if budget <= 0 and not ctx.thorough():
                continue
            budget -= 1
        hists.append([a, b, 'get'])
    if ctx.thorough():
        for i in range(150):
            hists.append([rng.choice(classes[:7]) for _ in range(4)] + ['get'])
    blimit = 2048
    inp = {'config': CONFIG, 'limit': blimit, 'timeout_ms': 400, 'histories': [{'id': i, 'steps': h} for i, h in enumerate(hists)]}
    recs, rc, out = ctx.run_harness(MAIN, 'TestVerifX01Pipeline', inp=inp, module_dir=MOD, timeout=1500, env=gu_tmp(ctx))
    gu.summary_of(recs, out, 'X01 pipeline')
    bmap = {
        'get': ({'act': 'ok', 'st': 200, 'reads': False}, 'fits'),
        'ok200': ({'act': 'ok', 'st': 200, 'reads': True}, 'fits'),
        'exact': ({'act': 'ok', 'st': 200, 'reads': True}, 'fits'),
        'ok400': ({'act': 'ok', 'st': 400, 'reads': True}, 'fits'),
        'over1': ({'act': 'ok', 'st': 400, 'reads': True}, 'over'),
        'over': ({'act': 'ok', 'st': 400, 'reads': True}, 'over'),
        'panic': ({'act': 'panic', 'st': 200, 'reads': False}, 'fits'),
        'stall': ({'act': 'stall', 'st': 200, 'reads': False}, 'fits'),
        'stallpanic': ({'act': 'stallpanic', 'st': 200, 'reads': False}, 'fits'),
    }
    npipe = 0
    for x in [x for x in recs if x.get('kind') == 'pipe']:
        npipe += 1
        cls = x['cls']
        if x.get('hang'):
            F.add('X01:G4:newHandler:hang:%s' % cls, x, 'G4: a %s request to the chain of newHandler never returned' % cls)
            continue
        b, body = bmap[cls]
        if b['reads']:
            if body == 'over':
                seen = 'cut' if x['pulled'] <= blimit + 1 else 'all'
            else:
                seen = 'all' if x['pulled'] == x['size'] else 'cut'
        else:
            seen = 'none'
        if b['reads'] and x['pulled'] > blimit + 1:
            F.add('X01:G4:newHandler:body-bound', x, 'G4c (BodyBounded): with a limit of %d bytes the server pulled %d bytes of a %d-byte body' % (blimit, x['pulled'], x['size']))
        o = {'status': x['status'], 'src': x['src'], 'escaped': x['escaped'], 'late': x['late'], 'seen': seen, 'logs': norm_logs_full(x['logs'])}
        rec = {'ord': ['Log', 'Timeout', 'Size', 'Recover'], 'b': b, 'body': body, 'obs': o}
        v = {'ord': rec['ord'], 'act': b['act'], 'st': b['st'], 'reads': b['reads'], 'body': body, 'newHandler': True, 'cls': cls, 'hist': hists[x['hist']], 'i': x['i']}
        trace.append((rec, v, x))
        for l in x['logs']:
            if l.get('method') != x['method'] or l.get('uri') != x['target']:
                F.add('X01:G4:newHandler:log-names-other-request', x, 'G4b: the log record %s does not name the request %s %s' % (json.dumps(l), x['method'], x['target']))
    ctx.cov['newhandler_requests'] = npipe
    ctx.cov['newhandler_histories'] = len(hists)
    if trace:
        r = ctx.tlc('WebPipelineTrace', files={'x01pipe.ndjson': ndjson_text([t[0] for t in trace])}, workers=1, label='WebPipelineTrace', count=False)
        if r.error == 'invariant':
            st = r.trace[-1][1] if r.trace else {}
            bad = sorted(st.get('bad', []))
            if not bad:
                raise Infra('WebPipelineTrace: no record named\n' + r.out[-1500:])
            for i in bad:
                rec, v, x = trace[i - 1]
                if v.get('newHandler'):
                    F.add('X01:G4:newHandler:%s' % v['cls'],
                          {'history': v['hist'], 'step': v['i'], 'got': x, 'abstract': rec},
                          'G4 (pipeline of newHandler): request class %s as step %d of history %s: observed %s, which WebPipeline.tla (order Log, Timeout, RequestSize, Recover) does not allow' % (
                              v['cls'], v['i'], v['hist'], json.dumps(rec['obs'])))
                else:
                    F.add('X01:G4:observed:order=%s:%s' % ('>'.join(v['ord']), v['act']), {'vector': v, 'got': x},
                          'G4 (pipeline): %s: observed %s, which WebPipeline.tla does not allow' % (describe_mw(v), json.dumps(rec['obs'])))
            return len(trace) - len(bad)
        if not r.ok:
            raise Infra('WebPipelineTrace: %s\n%s' % (r.error, r.out[-2000:]))
    return len(trace)


def gu_tmp(ctx):
    return {'X01_TMP': gu.fast_tmp_env(ctx)['C12_TMP']}


# =========================================================================== G5: routes
BASE = datetime.date(2024, 3, 10)


def date_of(d, base=BASE):
    return (base + datetime.timedelta(days=d)).isoformat()


def obj_name(o, base=BASE):
    if o['t'] == 'daily':
        return date_of(o['e'], base) + '.json'
    if o['t'] == 'agg':
        return date_of(o['s'], base) + '_' + date_of(o['e'], base) + '.json'
    return 'README.txt'


def obj_title(o, base=BASE):
    if o['t'] == 'daily':
        return 'Charts for ' + date_of(o['e'], base)
    return 'Aggregate charts for %s to %s' % (date_of(o['s'], base), date_of(o['e'], base))


def obj_num(o):
    return 1000 + {'daily': 0, 'agg': 400, 'junk': 900}[o['t']] + 20 * o['s'] + o['e']


def obj_content(o, bucket, base=BASE):
    if o['t'] == 'junk':
        return 'not a chart\n'
    if bucket == 'merged':
        return '{"Week":"%s","X":0.5}\n' % date_of(o['e'], base)
    return json.dumps({'DateRange': [date_of(o['s'], base), date_of(o['e'], base)], 'Programs': [], 'NumReports': obj_num(o)})


def key(o):
    return (o['t'], o['s'], o['e'])


class Routes:
    """concretizes model requests, abstracts observed pages"""

    def __init__(self, merged_bucket='local-telemetry-merged', base=BASE):
        self.mb = merged_bucket
        self.base = base

    def target(self, req):
        k = req['k']
        if k == 'index':
            return 'GET', '/'
        if k == 'charts':
            return 'GET', '/charts/'
        if k == 'chart':
            n = obj_name(req['o'], self.base)
            return 'GET', '/charts/' + (n[:-5] if n.endswith('.json') else n)
        if k == 'alien':
            return 'GET', '/charts/..%2F' + self.mb + '%2F' + obj_name(req['o'], self.base)[:-5]
        if k == 'data':
            return 'GET', '/data/'
        if k == 'config':
            return 'GET', '/config'
        if k == 'upload':
            return req['m'], '/upload/2024-01-01/1.json'
        if k == 'page':
            return 'GET', '/privacy'
        if k == 'nopage':
            return 'GET', '/no-such-page'
        raise Infra('request kind ' + k)

    def abstract(self, req, x, chart, merged):
        """observation record in the vocabulary of WebRoutes.tla; objects the page
        shows are identified by NumReports (charts) and by their dates (listings)"""
        what, objs = 'other', []
        st = x.get('status', 0)
        page = x.get('page') if isinstance(x.get('page'), dict) else None
        k = req['k']
        allc = {obj_num(o): o for o in chart}
        if st == 200 and k in ('index', 'chart', 'alien'):
            charts = (page or {}).get('Charts')
            title = (page or {}).get('ChartTitle', '')
            if k == 'index' and page is not None and page.get('ChartError') == 'No data.' and not charts:
                what = 'nodata'
            elif isinstance(charts, dict) and charts.get('NumReports') in allc:
                o = allc[charts['NumReports']]
                shown = x.get('h2' if k == 'index' else 'h1', '')
                if title == obj_title(o, self.base) and shown == title:
                    what, objs = 'chartof', [o]
                else:
                    what = 'chart-with-wrong-title'
            elif isinstance(charts, dict):
                what = 'chart-from-elsewhere'
        elif st == 200 and k in ('charts', 'data'):
            byname = {}
            for o in (chart if k == 'charts' else merged):
                byname[obj_name(o, self.base)] = o
            what = 'list'
            for h in x.get('hrefs', []):
                if k == 'charts':
                    if not h.startswith('/charts/'):
                        continue
                    n = h[len('/charts/'):] + '.json'
                else:
                    if not h.endswith('.json'):
                        continue
                    n = h.rsplit('/', 1)[-1]
                if k == 'data' and h.rsplit('/', 2)[-2:-1] != [self.mb]:
                    what = 'list-with-link-into-another-bucket'
                elif n in byname:
                    objs.append(byname[n])
                else:
                    what = 'list-with-unknown-entry'
            want_h1 = 'Daily Charts' if k == 'charts' else 'Merged daily reports'
            if x.get('h1') != want_h1:
                what = 'other-page'
        elif st == 200 and k == 'config':
            what = 'config' if x.get('has_cfgmark') else 'other-page'
        elif st == 200 and k == 'page':
            what = 'page' if x.get('has_privacy') else 'other-page'
        elif st >= 400 or st in (301, 302):
            what = 'none'
        if x.get('decoy'):
            what = 'decoy-shown'
        if x.get('panic') or x.get('hang'):
            what = 'panic-or-hang'
        return {'status': st, 'what': what, 'objs': objs, 'changed': bool(x.get('changed'))}


def route_signature(req, chart, want, obs):
    k = req['k']
    if k == 'index' and want['what'] == 'chartof' and all(o['t'] == 'daily' for o in want['objs']):
        # the latest day has a daily chart only
        return 'X01:G5:index:latest-daily-not-shown'
    if k == 'alien':
        return 'X01:G5:charts:object-outside-chart-bucket'
    return 'X01:G5:%s:%s->%s' % (k, want['what'], obs['what'] if obs['status'] == want['status'] else obs['status'])


def routes_part(ctx, F):
    days = '{1, 2}' if not ctx.thorough() else '{1, 2, 3}'
    cfg = 'INIT Init\nNEXT Next\nINVARIANT Sane\nCHECK_DEADLOCK FALSE\nCONSTANT Days = %s\n' % days
    r = ctx.tlc('WebRoutesVec', cfg_text=cfg, dump=True, label='WebRoutesVec')
    if not r.ok:
        raise Infra('WebRoutesVec: the specification violates %s %s\n%s' % (r.error, r.error_name, r.out[-2000:]))
    R = Routes()
    groups = {}
    vecs = []
    for st in tlaval.read_dump(r.dump):
        chart = [dict(o) for o in st['chart']]
        merged = [dict(o) for o in st['merged']]
        req = {'k': st['req']['k'], 'o': dict(st['req']['o']), 'm': st['req']['m']}
        ans = {'status': st['ans']['status'], 'what': st['ans']['what'], 'objs': [dict(o) for o in st['ans']['objs']]}
        v = {'id': len(vecs), 'chart': chart, 'merged': merged, 'req': req, 'ans': ans}
        vecs.append(v)
        gk = (tuple(sorted(key(o) for o in chart)), tuple(sorted(key(o) for o in merged)))
        groups.setdefault(gk, []).append(v)
    if len(vecs) < 2000:
        raise Infra('WebRoutesVec: %d vectors' % len(vecs))
    runs = []
    for gi, (gk, vs) in enumerate(sorted(groups.items())):
        ops = []
        for o in vs[0]['chart']:
            ops.append({'op': 'put', 'bucket': 'chart', 'name': obj_name(o), 'content': obj_content(o, 'chart')})
        for o in vs[0]['merged']:
            ops.append({'op': 'put', 'bucket': 'merged', 'name': obj_name(o), 'content': obj_content(o, 'merged')})
        for v in vs:
            m, t = R.target(v['req'])
            ops.append({'op': 'get', 'method': m, 'target': t, 'id': v['id']})
        runs.append({'id': gi, 'ops': ops})

    # histories from TLC -simulate, replayed step by step on one server
    nwalk = ctx.pick(40, 300)
    cfg = 'SPECIFICATION Spec\nINVARIANT AnswerIsCurrent\nPROPERTY ReadsChangeNothing\nCHECK_DEADLOCK FALSE\nCONSTANTS\n Days = {1, 2, 3}\n MaxSteps = 40\n'
    r = ctx.tlc('WebRoutesSM', cfg_text=cfg, simulate={'num': nwalk, 'file': True}, depth=41, label='WebRoutesSM-sim', count=False)
    if r.error:
        raise Infra('WebRoutesSM simulate: %s\n%s' % (r.error, r.out[-2000:]))
    hvecs = {}
    for wi, fn in enumerate(ctx.sim_files(r)):
        ops = []
        for (_a, _args, st) in tlaval.read_simulate(fn):
            last = st['last']
            if last['op'] in ('put', 'del'):
                o = dict(last['o'])
                ops.append({'op': last['op'], 'bucket': last['bucket'], 'name': obj_name(o), 'content': obj_content(o, last['bucket'])})
            elif last['op'] == 'get':
                req = {'k': last['req']['k'], 'o': dict(last['req']['o']), 'm': last['req']['m']}
                ans = {'status': last['ans']['status'], 'what': last['ans']['what'], 'objs': [dict(o) for o in last['ans']['objs']]}
                vid = 10 ** 6 + len(hvecs)
                hvecs[vid] = {'id': vid, 'chart': [dict(o) for o in st['chart']], 'merged': [dict(o) for o in st['merged']], 'req': req, 'ans': ans, 'walk': wi}
                m, t = R.target(req)
                ops.append({'op': 'get', 'method': m, 'target': t, 'id': vid})
        runs.append({'id': 10 ** 5 + wi, 'ops': ops})

    # random scenarios with arbitrary dates, for the code -> model direction
    rng = random.Random(ctx.seed * 101 + 3)
    rvecs = {}
    for si in range(ctx.pick(60, 600)):
        base = datetime.date(2019, 1, 1) + datetime.timedelta(days=rng.randrange(0, 2500))
        Rb = Routes(base=base)
        span = rng.choice([3, 8, 30, 400])
        chart, merged = [], []
        for _ in range(rng.randrange(0, 7)):
            e = rng.randrange(1, span + 1)
            if rng.random() < 0.5:
                o = {'t': 'daily', 's': e, 'e': e}
            else:
                s = rng.randrange(0, e)
                o = {'t': 'agg', 's': s, 'e': e}
            if key(o) not in [key(c) for c in chart] and obj_num(o) not in [obj_num(c) for c in chart]:
                chart.append(o)
        if rng.random() < 0.3:
            chart.append({'t': 'junk', 's': 0, 'e': 0})
        for _ in range(rng.randrange(0, 5)):
            e = rng.randrange(1, span + 1)
            o = {'t': 'daily', 's': e, 'e': e}
            if key(o) not in [key(c) for c in merged]:
                merged.append(o)
        ops = []
        for o in chart:
            ops.append({'op': 'put', 'bucket': 'chart', 'name': obj_name(o, base), 'content': obj_content(o, 'chart', base)})
        for o in merged:
            ops.append({'op': 'put', 'bucket': 'merged', 'name': obj_name(o, base), 'content': obj_content(o, 'merged', base)})
        reqs = [{'k': 'index'}, {'k': 'charts'}, {'k': 'data'}]
        for o in chart[:3]:
            reqs.append({'k': 'chart', 'o': o})
        e = rng.randrange(1, span + 1)
        reqs.append({'k': 'chart', 'o': {'t': 'daily', 's': e, 'e': e}})
        for o in merged[:1]:
            reqs.append({'k': 'alien', 'o': o})
        reqs.append({'k': 'upload', 'm': rng.choice(['GET', 'PUT', 'DELETE', 'HEAD', 'PATCH', 'OPTIONS'])})
        for rq in reqs:
            rq.setdefault('o', {'t': 'junk', 's': 0, 'e': 0})
            rq.setdefault('m', 'GET')
            vid = 2 * 10 ** 6 + len(rvecs)
            rvecs[vid] = {'id': vid, 'chart': chart, 'merged': merged, 'req': rq, 'R': Rb}
            m, t = Rb.target(rq)
            ops.append({'op': 'get', 'method': m, 'target': t, 'id': vid})
        runs.append({'id': 2 * 10 ** 5 + si, 'ops': ops})

    recs, rc, out = ctx.run_harness(MAIN, 'TestVerifX01Routes', inp={'config': CONFIG, 'runs': runs}, module_dir=MOD, timeout=1500, env=gu_tmp(ctx))
    summ = gu.summary_of(recs, out, 'X01 routes')
    if summ.get('merged_bucket') != R.mb:
        raise Infra('merged bucket is named %r' % summ.get('merged_bucket'))
    got = {x['id']: x for x in recs if x.get('kind') == 'get'}
    nok = 0
    allv = list(vecs) + list(hvecs.values())
    for v in allv:
        x = got.get(v['id'])
        if x is None:
            raise Infra('no answer for route vector %d' % v['id'])
        obs = R.abstract(v['req'], x, v['chart'], v['merged'])
        want = v['ans']
        ok = obs['status'] == want['status'] and obs['what'] == want['what'] and not obs['changed']
        if ok:
            wk = sorted(key(o) for o in want['objs'])
            ok_objs = sorted(key(o) for o in obs['objs'])
            ok = (len(ok_objs) == 1 and ok_objs[0] in wk) if want['what'] == 'chartof' else ok_objs == wk
        if not ok:
            m, t = R.target(v['req'])
            F.add(route_signature(v['req'], v['chart'], want, obs),
                  {'chart_bucket': [obj_name(o) for o in v['chart']], 'merged_bucket': [obj_name(o) for o in v['merged']], 'request': m + ' ' + t, 'want': want, 'observed': obs,
                   'page': {k: x.get(k) for k in ('status', 'h1', 'h2', 'hrefs', 'body', 'changed')}, 'walk': v.get('walk')},
                  'G5 (routing): chart bucket {%s}, merged bucket {%s}: %s %s must answer %d %s %s; observed %d %s %s%s' % (
                      ', '.join(obj_name(o) for o in v['chart']), ', '.join(obj_name(o) for o in v['merged']), m, t,
                      want['status'], want['what'], [obj_name(o) for o in want['objs']],
                      obs['status'], obs['what'], [obj_name(o) for o in obs['objs']], ' and a bucket changed' if obs['changed'] else ''))
        else:
            nok += 1
    ctx.cov['route_vectors'] = len(vecs)
    ctx.cov['route_history_steps'] = len(hvecs)
    ctx.cov['route_vectors_ok'] = nok
    mid = vecs[len(vecs) // 2]
    ctx.sample({'kind': 'route-vector', 'chart': [obj_name(o) for o in mid['chart']], 'merged': [obj_name(o) for o in mid['merged']],
                'request': ' '.join(R.target(mid['req'])), 'want': mid['ans']})
    # code -> model
    trace = []
    for vid, v in sorted(rvecs.items()):
        x = got.get(vid)
        if x is None:
            raise Infra('no answer for random route vector %d' % vid)
        obs = v['R'].abstract(v['req'], x, v['chart'], v['merged'])
        trace.append(({'chart': v['chart'], 'merged': v['merged'], 'req': v['req'], 'obs': obs}, v, x))
    nval = 0
    if trace:
        r = ctx.tlc('WebRoutesTrace', files={'x01routes.ndjson': ndjson_text([t[0] for t in trace])}, workers=1, label='WebRoutesTrace', count=False)
        bad = []
        if r.error == 'invariant':
            st = r.trace[-1][1] if r.trace else {}
            bad = sorted(st.get('bad', []))
            if not bad:
                raise Infra('WebRoutesTrace: no record named\n' + r.out[-1500:])
        elif not r.ok:
            raise Infra('WebRoutesTrace: %s\n%s' % (r.error, r.out[-2000:]))
        for i in bad:
            rec, v, x = trace[i - 1]
            Rb = v['R']
            m, t = Rb.target(v['req'])
            # the demanded answer, for the signature only (IndexChoices restated; the verdict is TLC's)
            charts = [o for o in v['chart'] if o['t'] != 'junk']
            want = {'what': '?', 'objs': [], 'status': 0}
            if v['req']['k'] == 'index' and charts:
                latest = max(o['e'] for o in charts)
                c = [o for o in charts if o['e'] == latest]
                a = [o for o in c if o['t'] == 'agg']
                want = {'what': 'chartof', 'objs': a or c, 'status': 200}
            F.add(route_signature(v['req'], v['chart'], want, rec['obs']),
                  {'chart_bucket': [obj_name(o, Rb.base) for o in v['chart']], 'merged_bucket': [obj_name(o, Rb.base) for o in v['merged']], 'request': m + ' ' + t,
                   'observed': rec['obs'], 'page': {k: x.get(k) for k in ('status', 'h1', 'h2', 'hrefs', 'body', 'changed')}},
                  'G5 (routing): chart bucket {%s}, merged bucket {%s}: %s %s observed %d %s %s, which WebRoutes.tla does not allow' % (
                      ', '.join(obj_name(o, Rb.base) for o in v['chart']), ', '.join(obj_name(o, Rb.base) for o in v['merged']), m, t,
                      rec['obs']['status'], rec['obs']['what'], [obj_name(o, Rb.base) for o in rec['obs']['objs']]))
        nval = len(trace) - len(bad)
    ctx.cov['route_observations'] = len(trace)
    return nval, len(runs)


def raw_part(ctx, shapes_n):
    """hostile request targets over TCP against the whole server (G2 through the mux)"""
    rng = random.Random(ctx.seed * 53 + 11)
    hosts = ['evil.example', 'evil.example/x', 'evil.example%2Fx']
    pre = ['/%2F', '//', '/%5C', '/%5c%5C', '/%09/', '/%2f%2F', '/.%2F/', '/%2E%2E/', '/../', '/%2e%2e%2F', '/static/..%2F..%2F', '/%20/', '/%5C/', '/%2F%5C', '/http:%2F%2F', '/http:/', '/%0D%0A/', '/;/']
    suf = ['.html', '.md', '/index', '/index.html', '', '/', '/privacy', '/privacy.md', '/static/base.min.css']
    targets = []
    for p in pre:
        for h in hosts:
            for s in suf:
                targets.append(('GET', p + h + s, 'prefix=' + p))
    for s in suf:
        targets.append(('CONNECT', '//evil.example/x' + s, 'connect'))
        targets.append(('CONNECT', '/../../etc/passwd' + s, 'connect'))
    for t in ['/privacy.md', '/privacy.html', '/index', '/index.html', '/index.md', '/privacy/index', '/static/index', '/charts.html', '/data.html/', '/%2e%2e/%2e%2e/etc/passwd',
              '/..%2f..%2fDECOY-root.json', '/static/..%2f..%2f..%2fDECOY-root.json', '/charts/%2e%2e%2FDECOY-root', '/data/..%2FDECOY-root.json', '/config/..%2FDECOY-root.json',
              '/%2e%2e%5cDECOY-root.json', '/static/%2e%2e/%2e%2e/go.mod', '/base.tmpl/x', '/privacy.md/x', '/privacy/x', '/static/base.min.css/x', '/.', '/..', '/...', '/%2e', '/%00', '/privacy%00.md']:
        targets.append(('GET', t, 'fixed'))
    if not ctx.thorough():
        rng.shuffle(targets)
        fixed = [t for t in targets if t[2] in ('fixed', 'connect')]
        others = [t for t in targets if t[2] not in ('fixed', 'connect')]
        targets = fixed + others[:250]
    inp = {'config': CONFIG, 'targets': [{'id': i, 'method': m, 'target': t, 'class': c} for i, (m, t, c) in enumerate(targets)]}
    recs, rc, out = ctx.run_harness(MAIN, 'TestVerifX01Raw', inp=inp, module_dir=MOD, timeout=900, env=gu_tmp(ctx))
    gu.summary_of(recs, out, 'X01 raw')
    obs = [x for x in recs if x.get('kind') == 'obs']
    return obs


def run(ctx):
    ctx.assumptions += [
        'X01 is an extension engine: its guarantees G1..G5 are stated in the headers of spec/WebContent.tla, WebPipeline.tla and WebRoutes.tla, from the package documentation',
        'G1: where the documentation is silent the outcome is unspecified and only G2 and the 5xx rule are demanded: "/page/" with a trailing slash when page.md/page.html exist, '
        '".../index" that resolves through a directory named index or an extension-less file, a file name followed by "/", names ending in a dot, '
        'a directory whose own name has an extension (net/http.FileServer then serves its index.html verbatim)',
        'G3: the fixed 500 "attempting to traverse a non-directory" of net/http.FileServer for a file URL ending in "/." is the standard library\'s answer and is not counted',
        'G1: a directory without index page may be answered by its listing (as testdata/noindex expects) or, without trailing slash, by a 301 to the path plus "/"',
        'G2: symbolic links inside the content directory are not generated (os.DirFS follows them by design); "leaving the site" is judged on the Location header '
        'as browsers read it (tab/CR/LF dropped, backslash read as slash)',
        'G3: status codes 1xx, 204 and 304 (no body allowed) are not generated; a content.Error wrapped in another error is not generated (undocumented)',
        'G4: handler stalls are released by the harness after the response (or after 40 ms when the chain has no Timeout); "late" means the chain had not returned by then; '
        'the handler-behaviour classes of the newHandler histories are realised through the upload handler with a request body owned by the harness '
        '(the other handlers ignore the body), so an oversize/invalid body is answered 400 by that handler',
        'G4: not generated: a handler that panics after writing its header under a Log that wraps Recover with no Timeout in between (Recover then calls WriteHeader a second time on '
        'Log\'s recorder; which status "the" status is, is undocumented)',
        'G5: flat buckets (no nested object names), chart objects hold valid chart JSON, at most one object per name; two aggregates ending the same day: either may be shown; '
        'methods other than GET are only exercised on /upload/ (the other routes do not document a method restriction); /data/<anything> and /config/ are not generated',
    ]
    ctx.inject('godev/internal/verifh/x01', 'godev/cmd/telemetrygodev')
    F = Findings()
    res = {}

    def job(name, fn):
        def wrapped():
            try:
                res[name] = fn()
            except BaseException as e:  # noqa: BLE001
                res[name] = e
        t = threading.Thread(target=wrapped, name=name)
        t.start()
        return t

    # warm the build of both packages once (otherwise the threads all wait for the same compile)
    for pkg in (PKG, MAIN):
        rc, out = ctx.go_test(None, pkg, 'TestNone', module_dir=MOD, timeout=600)
        if rc != 0:
            raise Infra('the harness package %s does not build:\n%s' % (pkg, out[-3000:]))
    threads = [job('pipeline', lambda: pipeline_part(ctx, F)), job('routes', lambda: routes_part(ctx, F)), job('content', lambda: content_part(ctx, F))]
    for t in threads:
        t.join()
    for k in ('content', 'pipeline', 'routes'):
        if isinstance(res.get(k), BaseException):
            # report what was found before failing
            for sig, detail, text in F.items:
                ctx.violation(sig, detail, text)
            raise res[k]
    obs, nshapes = res['content']
    raw = raw_part(ctx, nshapes)
    nval = validate_content(ctx, F, obs + raw, 'WebContentTrace')
    ctx.cov['content_observations'] = len(obs)
    ctx.cov['raw_tcp_observations'] = len(raw)
    ctx.cov['hostile_shapes'] = nshapes
    if obs:
        ctx.sample({'kind': 'content-observation', **{k: obs[0][k] for k in ('cls', 'via', 'path', 'safe')}})
    npipe = res['pipeline']
    nroutes, nruns = res['routes']
    for sig, detail, text in F.items:
        ctx.violation(sig, detail, text)
    c = ctx.cov
    c['traces_validated_against_impl'] += c.get('content_vectors_ok', 0) + c.get('pipeline_vectors_ok', 0) + c.get('route_vectors_ok', 0) + nval + npipe + nroutes
    c['evaluations'] += (c.get('content_vectors', 0) + c.get('error_vectors', 0) + len(obs) + len(raw) + c.get('pipeline_vectors', 0) + c.get('chain_vectors', 0)
                         + c.get('newhandler_requests', 0) + c.get('route_vectors', 0) + c.get('route_history_steps', 0) + c.get('route_observations', 0))
    c['distinct_nontrivial'] = c.get('content_vectors', 0) + nshapes + c.get('pipeline_vectors', 0) + c.get('route_vectors', 0)
    c['rule'] = ('model -> code: every (file system over 9 candidate files, request path of <= 2 elements) with the answer G1 demands and its redirect chain; every handler result x status code (G3); '
                 'every chain order over {Log, Timeout, RequestSize, Recover} x handler behaviour x body class, marker chains up to length 4, histories on the real newHandler chain (G4); '
                 'every (chart bucket, merged bucket, request) of the small universe and TLC -simulate histories of puts/deletes/gets (G5). '
                 'code -> model: random file trees served through unionfs/os.DirFS with canonical and hostile paths (every shape of <= 3 hostile elements x redirect suffix x encoding, '
                 'plus random ones, plus raw TCP request targets against the whole server), random chains, random bucket contents with arbitrary dates: each observation decided by TLC')
