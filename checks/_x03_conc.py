"""X03, concurrent part: CtrApi.tla / CtrApiTrace.tla / CtrApiObs.tla bound to the
real internal/counter (stack-counter layer, registration list, first open and
rotation) under the deterministic scheduler."""
import json
import random

from vlib import tlaval
from vlib.core import Infra, ndjson_text


def fam(name, depth, stack, plain=(), rot=(), tick=(), obs=(), init_open=False, nleaf=2, nvia=1):
    return dict(name=name, depth=depth, nleaf=nleaf, nvia=nvia, stack=list(stack), plain=list(plain), rot=list(rot),
                tick=list(tick), obs=list(obs), init_open=init_open)


def families():
    small = [
        # increments from two goroutines race the first Open; two stacks, one shared
        fam('firstopen', 1, [('a1', [(1, 1), (2, 1)]), ('a2', [(1, 1)])], rot=['r1']),
        # weekly rotation while incrementing; an observer calls Names()/Counters()
        fam('rotation', 1, [('a1', [(1, 1), (1, 1)]), ('a2', [(2, 1)])], rot=['r1'], tick=['k1'], obs=[('o1', 2)], init_open=True),
        # depth 2: the stacks differ only in their second frame
        fam('depth2', 2, [('a1', [(1, 1), (1, 2)]), ('a2', [(1, 2), (1, 1)])], obs=[('o1', 2)], init_open=True, nleaf=1, nvia=2),
        # depth 0: every call is the same (empty) stack
        fam('depth0', 0, [('a1', [(1, 1), (2, 1)]), ('a2', [(2, 2)])], rot=['r1'], nleaf=2, nvia=2),
        # a plain counter of another goroutine registers concurrently (list insertion races), first open
        fam('mixed', 1, [('a1', [(1, 1), (2, 1)])], plain=[('p1', 1, 2)], rot=['r1']),
        # two opener/rotators and a clock tick: first open and rotation may overlap
        fam('tworot', 1, [('a1', [(1, 1), (1, 1)])], plain=[('p1', 1, 1)], rot=['r1', 'r2'], tick=['k1']),
    ]
    big = [
        fam('firstopen3', 1, [('a1', [(1, 1), (2, 1)]), ('a2', [(1, 1)]), ('a3', [(2, 1), (3, 1)])], rot=['r1'], nleaf=3),
        fam('rotation3', 1, [('a1', [(1, 1), (1, 1)]), ('a2', [(2, 1)]), ('a3', [(1, 1)])], plain=[('p1', 1, 1)], rot=['r1'], tick=['k1'],
            obs=[('o1', 2)], init_open=True),
        fam('depth2rot', 2, [('a1', [(1, 1), (1, 2), (2, 1)]), ('a2', [(1, 2), (2, 2)])], rot=['r1'], tick=['k1'], obs=[('o1', 1)],
            init_open=True, nleaf=2, nvia=2),
        fam('tworot2', 1, [('a1', [(1, 1), (2, 1)]), ('a2', [(2, 1)])], plain=[('p1', 1, 2)], rot=['r1', 'r2'], tick=['k1']),
    ]
    return small, big


def sset(xs):
    return '{' + ', '.join('"%s"' % x for x in xs) + '}'


def fn(pairs):
    pairs = list(pairs)
    if not pairs:
        return '<<>>'
    return '(' + ' @@ '.join('"%s" :> %s' % (k, v) for k, v in pairs) + ')'


def mc_module(f, base='CtrApi', name='MCCtrApi', extra=''):
    prog = fn((n, '<<' + ', '.join('<<%d, %d>>' % c for c in p) + '>>') for (n, p) in f['stack'])
    return '''---- MODULE %s ----
EXTENDS %s
MCStackTasks == %s
MCProg == %s
MCPlainTasks == %s
MCPlainIdx == %s
MCNAdds == %s
MCRot == %s
MCTick == %s
MCObs == %s
MCNObs == %s
%s
====
''' % (name, base, sset(n for n, _ in f['stack']), prog, sset(n for n, _, _ in f['plain']),
       fn((n, i) for n, i, _ in f['plain']), fn((n, k) for n, _, k in f['plain']), sset(f['rot']), sset(f['tick']),
       sset(n for n, _ in f['obs']), fn(f['obs']), extra)


SAFETY = ['TypeOK', 'NoDup', 'KnownAreBegun', 'DoneAreKnown', 'SnapIsPrefix', 'Bounds', 'Quiescent', 'PtrLive', 'DoneAreListed', 'NoDeadlock']
WINDOWS = ['W_ListRace', 'W_HalfRegisteredInTraversal', 'W_LockContention', 'W_ObserverBlocked', 'W_NewStackInTraversal',
           'W_IncIntoOldFile', 'W_PendingAtOpen', 'W_NilPtrFileOpen', 'W_IncWhileNilPtrFileOpen', 'W_TwoTraversals',
           'W_RefreshFlushes', 'W_CloseWithLateCounter', 'W_SameStackTwoTasks']


def mc_cfg(f, spec='Spec', invariants=(), props=()):
    s = 'SPECIFICATION %s\nCONSTANTS\n NLeaf = %d\n NVia = %d\n Depth = %d\n' % (spec, f['nleaf'], f['nvia'], f['depth'])
    s += (' StackTasks <- MCStackTasks\n Prog <- MCProg\n PlainTasks <- MCPlainTasks\n PlainIdx <- MCPlainIdx\n NAdds <- MCNAdds\n'
          ' Rotators <- MCRot\n Tickers <- MCTick\n Observers <- MCObs\n NObs <- MCNObs\n')
    s += ' InitOpen = %s\n' % ('TRUE' if f['init_open'] else 'FALSE')
    if invariants:
        s += 'INVARIANTS ' + ' '.join(invariants) + '\n'
    if props:
        s += 'PROPERTIES ' + ' '.join(props) + '\n'
    s += 'CHECK_DEADLOCK FALSE\n'
    return s


def schedule_of(states):
    sched = []
    for a, b in zip(states, states[1:]):
        moved = [t for t in b['pc'] if (b['pc'][t], b['k'][t], b['loc'][t]) != (a['pc'][t], a['k'][t], a['loc'][t])]
        if len(moved) == 1:
            sched.append(moved[0])
    return sched


def run_cfg(f, rid, schedule, finish, seed):
    return dict(id=rid, family=f['name'], nleaf=f['nleaf'], nvia=f['nvia'], depth=f['depth'],
                stack=[dict(name=n, prog=[list(c) for c in p]) for n, p in f['stack']],
                plain=[dict(name=n, idx=i, n=k) for n, i, k in f['plain']], rotators=f['rot'], tickers=f['tick'],
                observers=[dict(name=n, n=k) for n, k in f['obs']], initOpen=f['init_open'],
                schedule=schedule, finish=finish, seed=seed, trace=True)


GUAR = {'NoDup': 'G1', 'KnownStacks': 'G1', 'DoneKnown': 'G1', 'AppendOnly': 'G1', 'Snap': 'G1', 'NamesAgree': 'G1', 'FreeSnap': 'G1',
        'Bounds': 'G2', 'Quiescent': 'G2', 'NoAlien': 'G2', 'PtrLive': 'G2', 'Monotone': 'G2',
        'Read': 'G3', 'ReadStack': 'G3', 'ReadNoEffect': 'G3', 'FreeRead': 'G3', 'Listed': 'G2'}

STEP_KEYS = ('run', 'i', 't', 'stacks', 'smu', 'nxt', 'head', 'cur', 'clock', 'hp', 'mem', 'disk', 'closed', 'begun', 'done',
             'snap', 'alien', 'malformed', 'nc', 'ns')
READ_DEFAULTS = dict(reads=False, namesAgree=True, rd=[], rderr=[], rs=[], rserr='', rsalien=0, diskAfterRead=[], memAfterRead=[])


def obs_line(o, final=False, res=None):
    x = {k: o[k] for k in STEP_KEYS if k in o}
    x['kind'] = 'step'
    x['final'] = final
    x.update(READ_DEFAULTS)
    if res is not None and res.get('reads'):
        for k in READ_DEFAULTS:
            if k in res:
                x[k] = res[k]
    return x


def judge_obs(ctx, lines, describe, label):
    """Run CtrApiObs over `lines`; returns the list of (index, clause)."""
    bad_all = []
    chunk = 40000
    for i in range(0, len(lines), chunk):
        part = lines[i:i + chunk]
        r = ctx.tlc('CtrApiObs', files={'x03obs.ndjson': ndjson_text(part)}, workers=1, label='%s[%d]' % (label, i // chunk),
                    count=False, timeout=1500)
        j = r.out.find('"X03BAD"')
        if j < 0:
            raise Infra('CtrApiObs: no verdict\n' + r.out[-3000:])
        k2 = r.out.find('Computing initial states', j)
        txt = r.out[r.out.rfind('<<', 0, j):k2 if k2 > 0 else len(r.out)].strip()
        bad = tlaval.parse(txt)[1]
        for (idx, clause) in sorted(tuple(x) for x in bad):
            bad_all.append((i + idx - 1, clause))
        if not bad and not r.ok:
            raise Infra('CtrApiObs: %s\n%s' % (r.error, r.out[-2000:]))
    return bad_all


def conc_prepare(ctx):
    """TLC side: exhaustive runs (invariants + witness schedules), simulate walks, harness-chosen schedules."""
    small, big = families()
    fams = small + (big if ctx.thorough() else [])
    rng = random.Random(ctx.seed)
    runs, runfam = [], {}

    def add_run(f, sched, finish, why):
        rid = len(runs) + 1
        runs.append(run_cfg(f, rid, sched, finish, rng.randrange(1 << 30)))
        runfam[rid] = (f, why)

    oneshot = ['OneShot(i, W) == IF W /\\ TLCGet(i) = 0 THEN TLCSet(i, 1) /\\ FALSE ELSE TRUE',
               'ASSUME \\A i \\in 1..40 : TLCSet(i, 0)']
    onames = {}
    for i, w in enumerate(WINDOWS):
        oneshot.append('O_%s == OneShot(%d, %s)' % (w, i + 1, w))
        onames['O_' + w] = w
    jobs, meta = [], []
    for f in fams:
        mcw = mc_module(f, extra='\n'.join(oneshot))
        jobs.append((('MCCtrApi',), dict(files={'MCCtrApi.tla': mcw},
                                         cfg_text=mc_cfg(f, invariants=SAFETY + sorted(onames), props=['PrefixMonotone']),
                                         label='CtrApi[%s] exhaustive' % f['name'], timeout=3000, workers=1 if not ctx.thorough() else 2,
                                         extra=['-continue'])))
        meta.append((f, 'exhaustive'))
        jobs.append((('MCCtrApi',), dict(files={'MCCtrApi.tla': mc_module(f)}, cfg_text=mc_cfg(f), simulate={'num': ctx.pick(40, 300), 'file': True},
                                         depth=200, label='CtrApi[%s] simulate' % f['name'], count=False)))
        meta.append((f, 'simulate'))
    results = ctx.tlc_many(jobs, par=12)
    model_results = {}
    for (f, what), r in zip(meta, results):
        if what == 'simulate':
            for fnm in ctx.sim_files(r):
                states = [s for (_a, _b, s) in tlaval.read_simulate(fnm)]
                add_run(f, schedule_of(states), 'rr', 'simulate')
            continue
        model_results[f['name']] = {'distinct': r.distinct, 'generated': r.generated, 'depth': r.depth}
        if r.error in ('action', 'temporal', 'deadlock'):
            raise Infra('CtrApi[%s]: the specification itself violates %s %s\n%s' % (f['name'], r.error, r.error_name, r.out[-2500:]))
        for (name, tr) in tlaval.read_all_traces(r.out):
            if name not in onames:
                raise Infra('CtrApi[%s]: the specification itself violates %s\n%s' % (f['name'], name, r.out[-2500:]))
            w = onames[name]
            sched = schedule_of([s for (_a, s) in tr])
            model_results['%s/%s' % (f['name'], w)] = 'reachable (%d steps)' % len(sched)
            for fin in ('stick', 'rr', 'seq', 'random'):
                add_run(f, sched, fin, w)
            for _ in range(2):
                cut = rng.randrange(max(1, len(sched) // 2), len(sched) + 1)
                add_run(f, sched[:cut], 'random', w + ':prefix')
    for f in fams:
        for _ in range(ctx.pick(40, 400)):
            add_run(f, [], 'random', 'random')
        add_run(f, [], 'seq', 'seq')
        add_run(f, [], 'rr', 'rr')
        add_run(f, [], 'stick', 'stick')
    return dict(fams=fams, runs=runs, runfam=runfam, model_results=model_results)


def conc_execute(ctx, prep):
    fams, runs, runfam, model_results = prep['fams'], prep['runs'], prep['runfam'], prep['model_results']
    ctx.log('X03 conc: runs to replay:', len(runs))
    recs, rc, out = ctx.run_harness('./internal/counter', 'TestVerifX03Stack', inp={'runs': runs}, timeout=3000)
    if any(r.get('kind') == 'calfail' for r in recs):
        ctx.violation('X03:G1:calibration:scheduled', {},
                      'G1: one Inc from each call site of a fresh depth-2 stack counter does not leave exactly one remembered stack (of two program counters) per site')
        return dict(runs=0, accepted=0, diverged=0)
    results = {r['run']: r for r in recs if r.get('kind') == 'result'}
    if len(results) != len(runs):
        raise Infra('X03 stack harness returned %d results for %d runs\n%s' % (len(results), len(runs), out[-3000:]))
    obs = {}
    for r in recs:
        if r.get('kind') == 'obs':
            obs.setdefault(r['run'], []).append(r)

    # (a) crashes / hangs of the real code
    nfail = 0
    for kx, res in sorted(results.items()):
        if res['status'] != 'ok':
            nfail += 1
            f, why = runfam[kx]
            flt = res.get('fault') or {}
            where = (flt.get('label') or '').split('<')[0]
            ctx.violation('X03:G2:%s:%s' % (res['status'], where or 'unknown'),
                          {'run': runs[kx - 1], 'result': {x: res.get(x) for x in ('status', 'fault', 'schedule', 'stacks', 'disk', 'mem')}},
                          'G2 (increments through the stack layer never crash or block): %s run %d (%s): %s %s' % (
                              f['name'], kx, why, res['status'], json.dumps(flt)[:600]))
    ctx.cov['conc_runs'] = len(runs)
    ctx.cov['conc_runs_failed'] = nfail
    ctx.cov['evaluations'] += len(runs)
    ctx.cov['conc_real_steps'] = sum(r['steps'] for r in results.values())

    # (b) the guarantees evaluated by TLC on every observed real state
    lines, index = [], []
    for kx in sorted(obs):
        res = results[kx]
        for o in obs[kx]:
            lines.append(obs_line(o))
            index.append(kx)
        if res['status'] == 'ok':
            lines.append(obs_line(dict(res, i=res['steps'] + 1, t='final'), final=True, res=res))
            index.append(kx)
    seen = set()
    import threading
    jres = {}

    def jthread():
        try:
            jres['bad'] = judge_obs(ctx, lines, None, 'CtrApiObs')
        except BaseException as e:  # noqa: BLE001
            jres['err'] = e
    jth = threading.Thread(target=jthread)
    jth.start()
    conf = conformance(ctx, fams, runs, runfam, results, obs)
    jth.join()
    if 'err' in jres:
        raise jres['err']
    for (idx, clause) in jres['bad']:
        o = lines[idx]
        kx = index[idx]
        if (kx, clause) in seen:
            continue
        seen.add((kx, clause))
        f, why = runfam[kx]
        ctx.violation('X03:%s:%s:%s' % (GUAR[clause], clause, f['name']),
                      {'run': runs[kx - 1], 'state': o, 'schedule': results[kx].get('schedule')},
                      '%s clause %s is false on the real state: %s run %d (%s) step %s: stacks=%s disk=%s mem=%s begun=%s done=%s cur=%s%s' % (
                          GUAR[clause], clause, f['name'], kx, why, o.get('i'), o.get('stacks'), o.get('disk'), o.get('mem'), o.get('begun'),
                          o.get('done'), o.get('cur'),
                          (' rd=%s rderr=%s rs=%s rserr=%r' % (o.get('rd'), o.get('rderr'), o.get('rs'), o.get('rserr'))) if o.get('reads') else ''))
    ctx.cov['conc_observed_states_checked'] = len(lines)

    accepted, diverged = conf
    ctx.cov['traces_validated_against_impl'] += accepted
    ctx.cov['divergences'] += len(diverged)
    ctx.cov['conc_divergence_samples'] = diverged[:5]
    for d in diverged[:10]:
        ctx.warn('MODEL-DIVERGENCE %s' % json.dumps(d)[:700])
    ctx.cov['conc_model_results'] = model_results
    ctx.cov['distinct_nontrivial'] += len({(r['family'], tuple(results[r['id']].get('schedule', []))) for r in runs})
    if runs:
        ctx.sample({'part': 'conc', 'family': runs[0]['family'], 'why': runfam[1][1], 'schedule': results[1].get('schedule', [])[:60],
                    'status': results[1]['status'], 'final_stacks': results[1].get('stacks'), 'final_disk': results[1].get('disk')})
    return dict(runs=len(runs), accepted=accepted, diverged=len(diverged))


def conformance(ctx, fams, runs, runfam, results, obs):
    """(c) conformance: every recorded trace must be a behaviour of CtrApi.tla"""
    accepted, diverged = 0, []
    byfam = {}
    for kx in sorted(obs):
        if results[kx]['status'] == 'ok':
            byfam.setdefault(runfam[kx][0]['name'], []).append(kx)
    jobs, jmeta = [], []
    keys = ('run', 'i', 't', 'stacks', 'smu', 'nxt', 'head', 'cur', 'clock', 'hp', 'mem', 'disk', 'closed', 'begun', 'done')

    def trace_job(f, ks):
        tl = []
        for kx in ks:
            for o in obs[kx]:
                tl.append({x: o[x] for x in keys})
        return tl, (('MCCtrApiTrace',), dict(files={'MCCtrApiTrace.tla': mc_module(f, base='CtrApiTrace', name='MCCtrApiTrace'),
                                                    'x03trace.ndjson': ndjson_text(tl)},
                                             cfg_text=mc_cfg(f, spec='TSpec', invariants=['Conform']).replace('CHECK_DEADLOCK FALSE', 'CHECK_DEADLOCK TRUE'),
                                             workers=1, label='CtrApiTrace[%s]' % f['name'], count=False, timeout=1500))
    firsts = {}
    fj = [(f, trace_job(f, list(byfam.get(f['name'], [])))) for f in fams if byfam.get(f['name'])]
    for (f, (tl, job)), r in zip(fj, ctx.tlc_many([j for (_f, (_tl, j)) in fj], par=8)):
        firsts[f['name']] = (tl, r)
    for f in fams:
        remaining = list(byfam.get(f['name'], []))
        guard = 0
        while remaining and guard < 8:
            guard += 1
            if guard == 1 and f['name'] in firsts:
                tl, r = firsts[f['name']]
            else:
                tl, job = trace_job(f, remaining)
                r = ctx.tlc(*job[0], **job[1])
            if r.ok:
                accepted += len(remaining)
                remaining = []
                break
            if r.error in ('invariant', 'deadlock') and r.trace:
                lval = r.trace[-1][1].get('l', 2)
                # invariant: line l-1 does not match; deadlock: line l cannot be taken
                pos = lval - 2 if r.error == 'invariant' else lval - 1
                line = tl[min(max(pos, 0), len(tl) - 1)]
                bad = line['run']
                diverged.append({'run': bad, 'family': f['name'], 'step': line['i'], 'why': r.error, 'task': line['t'],
                                 'schedule': results[bad].get('schedule')})
                p = remaining.index(bad)
                accepted += p
                remaining = remaining[p + 1:]
            else:
                raise Infra('CtrApiTrace[%s]: %s\n%s' % (f['name'], r.error, r.out[-2500:]))
    return accepted, diverged
