"""C09 — counter-file week boundaries (Calendar*.tla)."""
import datetime
import json
import os

from vlib import tlaval
from vlib.core import Infra, ndjson_text

EPOCH = datetime.date(1970, 1, 1)


def dnum(y, m, d):
    return (datetime.date(y, m, d) - EPOCH).days


def day_windows(ctx):
    if ctx.thorough():
        return [(0, dnum(2037, 12, 31))]
    wins = []
    for (y, m, d) in [(1970, 1, 1), (1999, 12, 20), (2019, 12, 20), (2024, 2, 20), (2025, 12, 20), (2028, 2, 20), (2037, 12, 10)]:
        a = dnum(y, m, d)
        wins.append((a, a + 21))
    a = dnum(2020, 1, 1) + (ctx.seed * 97) % 6000
    wins.append((a, a + 40))
    return wins


def run(ctx):
    ctx.assumptions += [
        'civil date <-> day number conversion is Go\'s time package (time.Unix / time.Date)',
        'one process; the time.AfterFunc timer is replaced by explicit rotate calls with CounterTime mocked',
    ]
    ctx.inject('internal/counter', 'internal/verifh/c09')

    # the rotation-timer scenario uses real timers with the library's one-minute minimum delay
    # (about two minutes of waiting): it runs in the background while everything else is checked
    import threading
    timer_res = {}

    def timer_job():
        try:
            timer_res['r'] = ctx.run_harness('./internal/verifh/c09', 'TestVerifC09Timer', inp={'enabled': True}, timeout=900)
        except Exception as e:  # noqa: BLE001
            timer_res['e'] = e
    th = threading.Thread(target=timer_job)
    th.start()

    # ---- 1. model -> code: every (day, byte) vector TLC enumerates ----------
    wins = day_windows(ctx)
    days = '(' + ' \\cup '.join('(%d..%d)' % w for w in wins) + ')'
    bytes_ = [0] + list(range(48, 58)) + [47, 97, 255, 1, 200]
    mc = '''---- MODULE MCCalendarVec ----
EXTENDS CalendarVec
MCDays == %s
MCBytes == {%s}
====
''' % (days, ', '.join(str(b) for b in bytes_))
    cfg = 'INIT Init\nNEXT Next\nINVARIANT Sane\nCHECK_DEADLOCK FALSE\nCONSTANTS\n Days <- MCDays\n Bytes <- MCBytes\n'
    r = ctx.tlc('MCCalendarVec', files={'MCCalendarVec.tla': mc}, cfg_text=cfg, dump=True, label='CalendarVec')
    if not r.ok:
        raise Infra('CalendarVec: spec-level sanity failed: %s\n%s' % (r.error, r.out[-2000:]))
    vectors = [dict(day=s['day'], byte=s['byte'], ok=s['ok'], begin=s['begin'], end=s['end']) for s in tlaval.read_dump(r.dump)]
    ctx.log('vectors:', len(vectors))
    ctx.sample({'kind': 'vector', **vectors[len(vectors) // 2]})
    nrand = ctx.pick(20000, 400000)
    recs, rc, out = ctx.run_harness('./internal/verifh/c09', 'TestVerifC09Vec', inp={'vectors': vectors, 'random': nrand}, timeout=1500)
    summ = [x for x in recs if x.get('kind') == 'summary']
    if not summ:
        raise Infra('C09 vec harness wrote no summary:\n' + out[-2000:])
    ctx.cov['evaluations'] += summ[0]['evaluated']
    ctx.cov['vectors_replayed'] = summ[0]['evaluated']
    for m in [x for x in recs if x.get('kind') == 'mismatch']:
        cls = 'err' if m['want_ok'] != m['got_ok'] else 'span'
        ctx.violation('C09:counterSpan:%s' % cls, m,
                      'counterSpan(day=%d tod=%d byte=%d): want ok=%s [%d,%d) got ok=%s %s..%s' % (
                          m['day'], m['tod'], m['byte'], m['want_ok'], m['want_begin'], m['want_end'], m['got_ok'], m['got_begin'], m['got_end']))
    if summ[0]['mismatches'] == 0:
        ctx.cov['traces_validated_against_impl'] += len(vectors)

    # ---- 2. code -> model: random observations validated by TLC -------------
    obs = [x for x in recs if x.get('kind') == 'obs']
    for o in obs:
        o.pop('kind')
    if obs:
        chunk = 100000
        for i in range(0, len(obs), chunk):
            part = obs[i:i + chunk]
            r = ctx.tlc('CalendarTrace', files={'c09obs.ndjson': ndjson_text(part)}, workers=1, label='CalendarTrace[%d]' % (i // chunk), count=False)
            if r.error == 'invariant':
                st = r.trace[-1][1] if r.trace else {}
                idx = st.get('l', 0)
                bad = part[idx - 1] if 0 < idx <= len(part) else None
                ctx.violation('C09:counterSpan:observed', {'obs': bad},
                              'observed counterSpan result is not a behaviour of Calendar.tla: %s' % json.dumps(bad))
            elif not r.ok:
                raise Infra('CalendarTrace: %s\n%s' % (r.error, r.out[-2000:]))
            else:
                ctx.cov['traces_validated_against_impl'] += len(part)
        ctx.cov['observations_validated'] = len(obs)
        ctx.sample({'kind': 'observation', **obs[0]})

    # ---- 3. rotation + uploader behaviours ----------------------------------
    anchors = [dnum(2019, 12, 28), dnum(2024, 2, 26), dnum(2026, 12, 27), dnum(2021, 6, 1) + ctx.seed % 300]
    consts = dict(Horizon=8, MaxInc=2, MaxUp=1, MaxSetW=0) if not ctx.thorough() else dict(Horizon=9, MaxInc=2, MaxUp=2, MaxSetW=0)
    cfg = ('SPECIFICATION Spec\nINVARIANTS SpansOK Conservation\nPROPERTIES RotateOpensToday IncOnlyInCurrent UploadAgrees\n'
           'CHECK_DEADLOCK FALSE\nVIEW View\nCONSTANTS\n Anchors = {%d}\n Horizon = %d\n MaxInc = %d\n MaxUp = %d\n MaxSetW = %d\n' % (
               anchors[0], consts['Horizon'], consts['MaxInc'], consts['MaxUp'], consts['MaxSetW']))
    r = ctx.tlc('CalendarRot', cfg_text=cfg, label='CalendarRot-bfs', timeout=3000)
    if not r.ok:
        raise Infra('CalendarRot: the specification itself violates %s %s\n%s' % (r.error, r.error_name, r.out[-3000:]))
    # the same with one change of the week-end setting (smaller horizon: every changed setting multiplies the states)
    cfg2 = ('SPECIFICATION Spec\nINVARIANTS SpansOK Conservation\nPROPERTIES RotateOpensToday IncOnlyInCurrent UploadAgrees\n'
            'CHECK_DEADLOCK FALSE\nVIEW View\nCONSTANTS\n Anchors = {%d}\n Horizon = %d\n MaxInc = 1\n MaxUp = 1\n MaxSetW = 1\n' % (anchors[0], ctx.pick(3, 4)))
    r = ctx.tlc('CalendarRot', cfg_text=cfg2, label='CalendarRot-bfs-setw', timeout=3000)
    if not r.ok:
        raise Infra('CalendarRot (setw): the specification itself violates %s %s\n%s' % (r.error, r.error_name, r.out[-3000:]))
    # behaviours for replay: simulate walks
    nwalk = ctx.pick(150, 1500)
    cfg_sim = ('SPECIFICATION Spec\nCHECK_DEADLOCK FALSE\nCONSTANTS\n Anchors = {%s}\n Horizon = 16\n MaxInc = 6\n MaxUp = 3\n MaxSetW = 2\n' % (
        ', '.join(str(a) for a in anchors)))
    r = ctx.tlc('CalendarRot', cfg_text=cfg_sim, simulate={'num': nwalk, 'file': True}, depth=ctx.pick(30, 40), label='CalendarRot-sim', count=False)
    if r.error:
        raise Infra('CalendarRot simulate: %s\n%s' % (r.error, r.out[-2000:]))
    behs = []
    for i, fn in enumerate(ctx.sim_files(r)):
        steps = []
        w = None
        for (_a, _args, st) in tlaval.read_simulate(fn):
            w = st['w']
            disk = {}
            d = st['disk']
            if isinstance(d, dict):
                for k, v in d.items():
                    kk = dict(k)
                    disk['%d,%d' % (kk['b'], kk['e'])] = v
            rep = {}
            rp = st['reports']
            if isinstance(rp, dict):
                for k, v in rp.items():
                    rep[str(k)] = v
            steps.append({'op': st['last'], 'w': st['w'], 'day': st['day'], 'tod': st['tod'], 'cur': [st['cur']['b'], st['cur']['e']],
                          'disk': disk, 'reports': rep})
        if steps:
            behs.append({'id': i, 'w': steps[0]['w'], 'steps': steps})
    if not behs:
        raise Infra('no behaviours from TLC simulate')
    ctx.sample({'kind': 'behaviour', 'w': behs[0]['w'], 'ops': [(s['op'], s['day'], s['tod']) for s in behs[0]['steps'][:12]]})
    recs, rc, out = ctx.run_harness('./internal/verifh/c09', 'TestVerifC09Rot', inp={'behaviours': behs}, timeout=1500)
    summ = [x for x in recs if x.get('kind') == 'summary']
    if not summ:
        raise Infra('C09 rot harness wrote no summary:\n' + out[-2000:])
    ctx.cov['traces_validated_against_impl'] += summ[0]['matched']
    ctx.cov['behaviours_replayed'] = summ[0]['behaviours']
    ctx.cov['behaviour_steps'] = summ[0]['steps']
    ctx.cov['rotations_with_a_clock_passing_midnight'] = summ[0].get('ticking', 0)
    ctx.cov['evaluations'] += summ[0]['steps']
    for dv in [x for x in recs if x.get('kind') == 'divergence'][:5]:
        ctx.warn('MODEL-DIVERGENCE C09 %s' % json.dumps(dv))
    ctx.cov['divergences'] = ctx.cov.get('divergences', 0) + len([x for x in recs if x.get('kind') == 'divergence'])
    for m in [x for x in recs if x.get('kind') == 'mismatch']:
        ctx.violation('C09:rotation:%s:%s' % (m.get('what'), m.get('op', '')), m,
                      'behaviour %s step %s (%s): model and real telemetry directory differ: %s' % (m.get('id'), m.get('step'), m.get('op'), json.dumps(m)[:600]))
    # ---- 2b. the library's own clock in a process whose zone is far from UTC (the local date differs from the UTC date)
    recs, rc, out = ctx.run_harness('./internal/verifh/c09', 'TestVerifC09RealClock', inp={}, timeout=600)
    robs = [{k: v for k, v in x.items() if k != 'kind'} for x in recs if x.get('kind') == 'obs']
    if not robs:
        raise Infra('C09 real-clock harness wrote nothing:\n' + out[-1500:])
    r = ctx.tlc('CalendarTrace', files={'c09obs.ndjson': ndjson_text(robs)}, workers=1, label='CalendarTrace[realclock]', count=False)
    if r.error == 'invariant':
        st = r.trace[-1][1] if r.trace else {}
        idx = st.get('l', 0)
        bad = robs[idx - 1] if 0 < idx <= len(robs) else None
        ctx.violation('C09:counterSpan:realclock', {'obs': bad},
                      'with the library\'s own clock in a process whose time zone is %s h from UTC the span is not the one of the current UTC day: %s' % ((bad or {}).get('zone'), json.dumps(bad)))
    elif not r.ok:
        raise Infra('CalendarTrace(realclock): %s\n%s' % (r.error, r.out[-2000:]))
    else:
        ctx.cov['traces_validated_against_impl'] += len(robs)
    ctx.cov['evaluations'] += len(robs)

    # ---- 2c. the uploader on two files of one begin day with different recorded ends (CalendarUpl.tla) ----
    r = ctx.tlc('CalendarUpl', dump=True, label='CalendarUpl')
    if not r.ok:
        raise Infra('CalendarUpl: %s\n%s' % (r.error, r.out[-2000:]))
    uvec, want = [], {}
    for i, st in enumerate(tlaval.read_dump(r.dump)):
        base = 19730
        uvec.append(dict(id=i, base=base, e1=st['e1'], e2=st['e2'], v1=st['v1'], v2=st['v2'], start=st['start']))
        rep = st['reports']
        if isinstance(rep, (list, tuple)):      # TLC prints a function with domain 1..n as a sequence
            rep = {i + 1: v for i, v in enumerate(rep)}
        elif not isinstance(rep, dict):
            rep = {}
        disk = {}
        for p_, e_, v_ in (('a', st['e1'], st['v1']), ('b', st['e2'], st['v2'])):
            if p_ in st['left']:
                k = '%d,%d' % (base, base + e_)
                disk[k] = disk.get(k, 0) + v_
        want[i] = (disk, {str(base + int(k)): v for k, v in rep.items()})
    recs, rc, out = ctx.run_harness('./internal/verifh/c09', 'TestVerifC09Upl', inp={'vectors': uvec}, timeout=900)
    got = [x for x in recs if x.get('kind') == 'upl']
    if len(got) != 2 * len(uvec):
        raise Infra('C09 upl harness: %d results for %d vectors\n%s' % (len(got), len(uvec), out[-1500:]))
    ctx.cov['evaluations'] += len(got)
    for x in got:
        wd, wr = want[x['id']]
        if x['problems'] or x['disk'] != wd or x['reports'] != wr:
            v = uvec[x['id']]
            ctx.violation('C09:uploader:same-day-files', {'vector': v, 'observed': x, 'want_disk': wd, 'want_reports': wr},
                          'two count files that begin on the same day with recorded ends +%d and +%d days, run starting %d s after the begin (name order %d): '
                          'files left %s reports %s, the specification (each file judged by its own recorded end) says files %s reports %s' % (
                              v['e1'], v['e2'], v['start'], x['order'], x['disk'], x['reports'], wd, wr))
        else:
            ctx.cov['traces_validated_against_impl'] += 1

    # ---- 3a. the timer protocol as a design (CalendarTimer.tla): liveness under weak fairness ----
    for rearm, want_ok in (('TRUE', True), ('FALSE', False)):
        cfg = ('SPECIFICATION Spec\nCONSTANTS\n W = %d\n DayTicks = 3\n MaxNow = %d\n RearmAlways = %s\n'
               'INVARIANTS AlwaysArmed OneTimer SpanSane\nPROPERTY RotatesAfterEnd\n' % (ctx.seed % 7, ctx.pick(30, 60), rearm))
        r = ctx.tlc('CalendarTimer', cfg_text=cfg, label='CalendarTimer(rearm=%s)' % rearm, count=want_ok)
        if want_ok and not r.ok:
            raise Infra('CalendarTimer: the timer protocol as specified does not satisfy its own properties: %s\n%s' % (r.error, r.out[-1500:]))
        if not want_ok and r.ok:
            raise Infra('CalendarTimer: the spec does not notice a rotate that fails to re-arm (vacuous)')
    # ---- 3b. the rotation timer (started at the beginning) ----
    th.join()
    if 'e' in timer_res:
        raise timer_res['e']
    recs, rc, out = timer_res['r']
    tm = [x for x in recs if x.get('kind') == 'timer']
    if not tm:
        raise Infra('C09 timer harness wrote nothing:\n' + out[-1500:])
    ctx.cov['timer_scenario'] = tm[0]
    ctx.cov['evaluations'] += 1
    if not tm[0]['still_old_before_end']:
        raise Infra('C09 timer scenario: the file rotated before the recorded end was reached (scenario mis-set): %s' % json.dumps(tm[0]))
    if not tm[0]['rotated_after_end']:
        ctx.violation('C09:timer:not-rotated-after-end', tm[0],
                      'a rotating counter file whose timer fired just before the recorded end never started the next span\'s file after the end was reached: %s' % json.dumps(tm[0]))
    # ---- 4. unbounded: Apalache discharges the span arithmetic for ALL natural day numbers (optional strengthening) ----
    if ctx.thorough():
        import shutil, subprocess, tempfile
        d = tempfile.mkdtemp(prefix='apa-', dir=ctx.work)
        shutil.copy(os.path.join(os.path.dirname(os.path.dirname(os.path.abspath(__file__))), 'spec', 'CalendarApa.tla'), d)
        try:
            p = subprocess.run(['apalache-mc', 'check', '--init=Init', '--next=Next', '--inv=SpanOK', '--length=0', 'CalendarApa.tla'],
                               cwd=d, stdout=subprocess.PIPE, stderr=subprocess.STDOUT, text=True, timeout=300)
            ok = 'EXITCODE: OK' in p.stdout
            ctx.cov['apalache_span_all_naturals'] = 'proved (NoError)' if ok else 'not proved: ' + p.stdout[-300:]
            if not ok:
                ctx.warn('Apalache did not discharge CalendarApa.SpanOK')
        except Exception as e:      # never decides a verdict
            ctx.cov['apalache_span_all_naturals'] = 'not run: %s' % e
    ctx.cov['rule'] = ('vectors = every (day, week-end byte) pair of the explored windows x 4 times of day; observations = random instants/contents '
                       'validated by TLC; behaviours = TLC -simulate walks of CalendarRot replayed step by step')
    ctx.cov['distinct_nontrivial'] = len(vectors) + len(behs)
