"""C08 — at most one report per week is delivered, under races, retries and crashes."""
from checks import _uploader


def run(ctx):
    _uploader.run(ctx, 'C08')
