"""X04 — extension engine: the worker pipeline (godev/cmd/worker handleCopy /
handleMerge / handleChart / parseDateRange / fileName / readMergedReports over
the FS buckets of godev/internal/storage).  spec/WorkerPipe*.tla.

G1 copy: every source object of every day in [start,end] is in the destination
   upload bucket byte for byte afterwards; nothing else changes anywhere.
G2 merge: exactly one merged object for the date, holding each uploaded report
   of that day exactly once as of the time of the merge; uploads and charts
   untouched; re-merge reflects later uploads.
G3 chart: reads merged objects only (a stale merge gives a stale chart); a day
   of the range without merged object => 404 and nothing written; otherwise
   exactly one chart object named by the range, derived from the merged
   snapshots of exactly the days of the range.
G4 `date` together with `start`/`end`, unparseable or missing dates, end<start
   => a 4xx answer and no object created / changed / removed anywhere.
G5 a request that is not answered 2xx leaves no (partial) object.
"""
import json
import os
import shutil
import tempfile

from vlib import tlaval
from vlib.core import Infra
from checks import _godev_util as gu

PKG = './cmd/worker'
FIELDS = ('src', 'up', 'mg', 'mgc', 'chp', 'chc')


def _canon(st):
    return {f: sorted(list(x) if isinstance(x, (list, tuple)) else x for x in st[f]) for f in FIELDS}


def _date(d):
    import datetime
    return (datetime.date(2023, 2, 26) + datetime.timedelta(days=d)).isoformat()


def _describe(rq):
    if rq['op'] == 'upload':
        return 'upload(%s, id %d)' % (_date(rq['a']), rq['b'])
    return '%s[%s](%s..%s)' % (rq['op'], rq['form'], _date(rq['a']), _date(rq['b']))


def _sig(rq, code_exp, code_obs, diff):
    what = 'state:' + '+'.join(diff) if diff else 'answer'
    return 'X04:%s:%s:%s:model=%s,code=%s' % (rq['op'], rq['form'], what, code_exp, code_obs)


def _tmp_env(ctx):
    base = '/dev/shm' if os.path.isdir('/dev/shm') and os.access('/dev/shm', os.W_OK) else ctx.work
    d = tempfile.mkdtemp(prefix='verif-x04-', dir=base)
    import atexit
    atexit.register(shutil.rmtree, d, True)
    return {'X04_TMP': d}


def _cfg(nd, ni, maxlen, props=True):
    s = 'CONSTANTS ND = %d\n NI = %d\n MaxLen = %d\nSPECIFICATION Spec\nCHECK_DEADLOCK FALSE\n' % (nd, ni, maxlen)
    if props:
        s += 'INVARIANT TypeOK\nINVARIANT Provenance\nINVARIANT Idempotent\nPROPERTY Guarantees\n'
    return s


def run(ctx):
    ctx.assumptions += [
        'uploaded objects are well-formed reports named <date>/<X>.json (an undecodable or misnamed upload is outside X04: C13/C18); each report has its own X and its own counter so that merged and chart contents identify their reports',
        'days are three consecutive calendar days across a month end (2023-02-27..2023-03-01), two or three report ids per day; the copy source is the FS bucket prod-telemetry-uploaded below the same storage root, the destination upload bucket has another name (when both have the same name the copy service is a documented no-op; not exercised)',
        'requests are sequential (no two worker requests in flight at once); uploads are written directly into the upload bucket between requests',
        'merge requests carry only `date` (what a merge request with start/end means is not documented)',
        'a request is "rejected" when answered 4xx; unparseable dates are strings time.Parse(DateOnly) cannot accept by the documented format YYYY-MM-DD (wrong separators, day 30 of February, trailing/leading blanks, a timestamp)',
        'a chart over a range with a day whose merged object is absent is answered 404 "merge file not found" and writes nothing (comment in readMergedReports); an EMPTY merged object is a present snapshot with no reports',
        'chart content is compared through the set of reports counted by the per-report counter chart, NumReports and DateRange; the arithmetic of the other charts is C13',
        'storage failures (I/O errors) are not injected; G5 is checked for the failing requests of G4/G3 and for a merge over a day holding one undecodable (cut short) uploaded object: IF that merge is not answered 2xx every bucket must be as before (what it should answer is not documented, a 2xx answer is accepted with any merged content), and for a chart over a day whose merged object holds an undecodable line (same rule)',
    ]
    gu.inject_files(ctx, 'godev/cmd/worker', ['x04_pipe_verif_test.go'])
    env = _tmp_env(ctx)

    # ---- 1. exhaustive check of the guarantees on the state machine
    jobs = [(('WorkerPipe',), dict(cfg_text=_cfg(2, 2, 3), label='exhaustive ND=2 NI=2 len<=3', workers=8))]
    if ctx.thorough():
        jobs.append((('WorkerPipe',), dict(cfg_text=_cfg(2, 2, 4), label='exhaustive ND=2 NI=2 len<=4', workers=8, timeout=800)))
        jobs.append((('WorkerPipe',), dict(cfg_text=_cfg(3, 1, 4), label='exhaustive ND=3 NI=1 len<=4', workers=8, timeout=800)))
    # sanity: "stale merges give stale charts" must be reachable (a chart that lacks an uploaded report of its day)
    stale = ('Fresh == \\A r \\in st.chp : \\A d \\in r[1]..r[2] : \\A i \\in UpIds(st, d) : <<r[1], r[2], d, i>> \\in st.chc\n')
    mc = ('---- MODULE WorkerPipeStale ----\nEXTENDS WorkerPipe\n' + stale + '====\n')
    jobs.append((('WorkerPipeStale',), dict(cfg_text=_cfg(2, 2, 4, props=False) + 'INVARIANT Fresh\n', files={'WorkerPipeStale.tla': mc},
                                            label='stale-chart witness', workers=4, count=False)))
    # ---- 2. behaviours for the replay
    nd, ni = 3, 2
    nsim = ctx.pick(2500, 20000)
    depth = ctx.pick(12, 16)
    jobs.append((('WorkerPipe',), dict(cfg_text=_cfg(nd, ni, depth, props=False), simulate={'num': nsim, 'file': True}, depth=depth + 1,
                                       label='simulate ND=3 NI=2', count=False)))
    res = ctx.tlc_many(jobs, par=4)
    for r in res[:-2]:
        if not r.ok:
            raise Infra('WorkerPipe.tla does not satisfy its own guarantees: %s %s' % (r.error, r.error_name))
    if res[-2].error != 'invariant' or res[-2].error_name != 'Fresh':
        raise Infra('the stale-chart witness is not reachable in WorkerPipe.tla')
    sim = res[-1]
    behs, expect = [], {}
    seen = set()
    for fn in ctx.sim_files(sim):
        steps = tlaval.read_simulate(fn)
        if len(steps) < 2:
            continue
        src = sorted(list(x) for x in steps[0][2]['st']['src'])
        rqs, exp = [], [(None, 'ok', _canon(steps[0][2]['st']))]
        for (_a, _args, s) in steps[1:]:
            rq = s['last']['rq']
            rqs.append({'op': rq['op'], 'form': rq['form'], 'a': rq['a'], 'b': rq['b']})
            exp.append((rqs[-1], s['last']['code'], _canon(s['st'])))
        key = json.dumps([src, rqs], sort_keys=True)
        if key in seen:
            continue
        seen.add(key)
        bid = len(behs)
        behs.append({'id': bid, 'src': src, 'steps': rqs})
        expect[bid] = exp
    if len(behs) < nsim // 2:
        raise Infra('too few behaviours from the simulation: %d' % len(behs))
    recs, rc, out = ctx.run_harness(PKG, 'TestVerifX04Replay', inp={'nd': nd, 'ni': ni, 'behaviours': behs}, module_dir='godev', timeout=900, env=env)
    gu.summary_of(recs, out, 'X04 replay')
    nreq = nok = 0
    classes = set()
    got = {r['id']: r for r in recs if r.get('kind') == 'beh'}
    if len(got) != len(behs):
        raise Infra('replay returned %d of %d behaviours' % (len(got), len(behs)))
    for b in behs:
        good = True
        for k, (exp, o) in enumerate(zip(expect[b['id']], got[b['id']]['steps'])):
            rq, ecode, est = exp
            ost = {f: sorted(o['obs'][f]) for f in FIELDS}
            diff = [f for f in FIELDS if ost[f] != est[f]]
            extra = o['obs'].get('extra') or []
            if rq is None:
                if diff or extra:
                    raise Infra('initial state of the replay differs: %s %s' % (diff, extra))
                continue
            nreq += 1
            classes.add((rq['op'], rq['form'], ecode))
            if diff or extra or o['code'] != ecode:
                good = False
                hist = [_describe(x) for x in b['steps'][:k]]
                if extra and not diff and o['code'] == ecode:
                    sig = 'X04:%s:%s:extra' % (rq['op'], rq['form'])
                else:
                    sig = _sig(rq, ecode, o['code'], diff)
                ctx.violation(sig, {'source': b['src'], 'history': hist, 'query': o.get('query'), 'status': o.get('status'), 'panic': o.get('panic'),
                                    'expected': {f: est[f] for f in diff}, 'observed': {f: ost[f] for f in diff}, 'extra': extra,
                                    'expected_answer': ecode, 'observed_answer': o['code']},
                              'worker pipeline: after %s (request ?%s) the model demands answer %s and %s, the real handlers answered %s (%s)%s%s' % (
                                  ' ; '.join(hist), o.get('query'), ecode,
                                  ('buckets ' + json.dumps({f: est[f] for f in diff})) if diff else 'the same buckets',
                                  o['code'], o.get('status'),
                                  (' leaving ' + json.dumps({f: ost[f] for f in diff})) if diff else '',
                                  (' ; unexplained files: ' + '; '.join(extra)) if extra else ''))
                break
        if good:
            nok += 1
    ctx.sample({'behaviour': behs[0], 'expected_final': expect[0][-1][2]})
    ctx.log('X04 replay: %d behaviours, %d requests, %d all-matching' % (len(behs), nreq, nok))

    # ---- 3. code -> model: random histories validated by TLC
    nh, ln = ctx.pick(600, 6000), ctx.pick(14, 20)
    recs, rc, out = ctx.run_harness(PKG, 'TestVerifX04Random', inp={'nd': 3, 'ni': 3, 'histories': nh, 'len': ln}, module_dir='godev', timeout=900, env=env)
    gu.summary_of(recs, out, 'X04 random')
    obs = [r for r in recs if r.get('kind') == 'obs']
    if len(obs) != nh * ln:
        raise Infra('random histories: %d observations, wanted %d' % (len(obs), nh * ln))
    nacc = 0
    CH = 4000
    chunks = [obs[i:i + CH] for i in range(0, len(obs), CH)]
    tjobs = []
    for ci, ch in enumerate(chunks):
        lines = [{'rq': r['rq'], 'code': r['code'], 'pre': {f: r['pre'][f] for f in FIELDS}, 'post': {f: r['post'][f] for f in FIELDS}, 'extra': r['extra']} for r in ch]
        tjobs.append((('WorkerPipeTrace',), dict(files={'x04obs.ndjson': '\n'.join(json.dumps(x) for x in lines) + '\n'}, workers=1,
                                                 label='trace chunk %d (%d obs)' % (ci, len(ch)), count=False)))
    tres = ctx.tlc_many(tjobs, par=6)
    for ch, r in zip(chunks, tres):
        if r.ok:
            nacc += len(ch)
            continue
        if r.error != 'invariant' or not r.trace:
            raise Infra('trace validation failed oddly: %s %s\n%s' % (r.error, r.error_name, r.out[-2000:]))
        idx = r.trace[-1][1]['l'] - 1
        nacc += idx
        o = ch[idx]
        rq = o['rq']
        diffpre = [f for f in FIELDS if o['pre'][f] != o['post'][f]]
        ctx.violation('X04:trace:%s:%s:code=%s%s' % (rq['op'], rq['form'], o['code'], ':extra' if o['extra'] else ''),
                      {'history': o['h'], 'step': o['k'], 'request': rq, 'query': o.get('query'), 'status': o.get('status'), 'pre': o['pre'], 'post': o['post'], 'extras': o.get('extras')},
                      'worker pipeline (random history %d step %d): request %s ?%s answered %s (%s) changed %s - not a step of WorkerPipe.tla; pre=%s post=%s extras=%s' % (
                          o['h'], o['k'], _describe(rq), o.get('query'), o['code'], o.get('status'), diffpre or 'nothing',
                          json.dumps({f: o['pre'][f] for f in FIELDS}), json.dumps({f: o['post'][f] for f in FIELDS}), o.get('extras')))
    ctx.log('X04 trace: %d observations, %d accepted' % (len(obs), nacc))

    # ---- 4. G5: a merge that meets an undecodable uploaded object
    recs, rc, out = ctx.run_harness(PKG, 'TestVerifX04Fail', inp={'ni': 3}, module_dir='godev', timeout=300, env=env)
    gu.summary_of(recs, out, 'X04 fail')
    fobs = [r for r in recs if r.get('kind') == 'obs']
    if len(fobs) != 16:
        raise Infra('G5 scenarios: %d observations' % len(fobs))
    fjobs = []
    for k, r in enumerate(fobs):
        line = {'rq': r['rq'], 'code': r['code'], 'pre': {f: r['pre'][f] for f in FIELDS}, 'post': {f: r['post'][f] for f in FIELDS}, 'extra': r['extra']}
        fjobs.append((('WorkerPipeTrace',), dict(cfg='WorkerPipeTraceG5.cfg', files={'x04obs.ndjson': json.dumps(line) + '\n'}, workers=1,
                                                 label='G5 scenario %d' % k, count=False)))
    ng5 = 0
    for r, t in zip(fobs, ctx.tlc_many(fjobs, par=6)):
        what = r.get('what') or 'undecodable-upload'
        classes.add((r['rq']['op'], what, r['code']))
        if t.ok:
            ng5 += 1
            continue
        if t.error != 'invariant':
            raise Infra('G5 validation failed oddly: %s\n%s' % (t.error, t.out[-2000:]))
        diff = [f for f in FIELDS if r['pre'][f] != r['post'][f]]
        ctx.violation('X04:G5:%s:%s:answer=%s:changed=%s%s' % (r['rq']['op'], what, r['code'], '+'.join(diff), ':extra' if r['extra'] else ''),
                      {'prior_merge': bool(r['prior']), 'broken_id': r['broken'], 'status': r['status'], 'pre': r['pre'], 'post': r['post'], 'extras': r.get('extras')},
                      ('G5 (chart over a merged object with an undecodable line): range ends %s, %d%s; request for %s answered %s leaves %s (before: %s)' if r.get('what') else 'G5: day %s has 3 uploaded reports of which number %d is undecodable (cut short)%s; /merge/?date=%s is answered %s but leaves %s (before: %s)') % (
                          _date(r['rq']['a']), r['broken'], ' and an earlier merged object with all 3 reports' if r['prior'] else ' and no merged object',
                          _date(r['rq']['a']), r['status'], json.dumps({f: r['post'][f] for f in diff}), json.dumps({f: r['pre'][f] for f in diff})))
    ctx.cov['g5_scenarios'] = len(fobs)
    ctx.cov['g5_accepted'] = ng5
    for r in obs:
        classes.add((r['rq']['op'], r['rq']['form'], r['code']))
    ctx.cov['traces_validated_against_impl'] = nok + (nh if nacc == len(obs) else 0)
    ctx.cov['evaluations'] = nreq + len(obs) + len(fobs)
    ctx.cov['distinct_nontrivial'] = len(classes)
    ctx.cov['replayed_behaviours'] = len(behs)
    ctx.cov['replayed_requests'] = nreq
    ctx.cov['trace_observations'] = len(obs)
    ctx.cov['request_classes'] = sorted('%s/%s/%s' % c for c in classes)
    ctx.cov['rule'] = ('a case is one behaviour of WorkerPipe.tla (source bucket + request history) replayed into the real handlers on a fresh storage root with the '
                       'projected bucket state and the answer class equal to the model after EVERY request, or one random history whose every request is accepted by '
                       'WorkerPipeTrace.tla; distinct_nontrivial = (operation, request form, answer) classes seen; states/transitions are those of the exhaustive runs')
