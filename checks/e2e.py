"""E2E — the whole pipeline at week granularity (spec/Telemetry.tla, TelemetryTrace.tla).

Not tied to one property: the composition of C01, C02, C07, C09, C11, C12 and
C13.  TLC checks the composition exhaustively on small constants and produces
behaviours (-simulate walks and shortest witnesses into named situations);
every behaviour is executed on the real code in two harness stages (client +
upload endpoint in godev/cmd/telemetrygodev, worker in godev/cmd/worker); every
recorded state is compared with the model state (model -> code) and TLC judges
the recorded traces against the properties (code -> model)."""
import datetime
import json
import os
import re
import subprocess
import time
from concurrent.futures import ThreadPoolExecutor

from vlib import tlaval
from vlib.core import Infra, ndjson_text, read_ndjson

from . import _c13_util as cu

D = 8                                   # X and rates are multiples of 1/8: exact in float64
EPOCH = datetime.date(1970, 1, 1)
PKG_A = './cmd/telemetrygodev'
PKG_B = './cmd/worker'


def iso(d):
    return (EPOCH + datetime.timedelta(days=d)).isoformat()


def dnum(s):
    return (datetime.date.fromisoformat(s) - EPOCH).days


# --------------------------------------------------------------- the universe
P_ALPHA, P_BETA, P_GAMMA = 'example.com/e2e/alpha', 'example.com/e2e/beta', 'example.com/e2e/gamma'
NAMES = ['ok', 'ch:a', 'ch:b', 'ch:z', 'no', 'st']
STACKS = {'st': True}


def universe(goos, goarch):
    config = {
        'GOOS': [goos, 'plan9'], 'GOARCH': [goarch, 'riscv64'], 'GoVersion': ['go1.21.0', 'go1.22.3'],
        'SampleRate': 6 / D,
        'Programs': [
            {'Name': P_ALPHA, 'Versions': ['v1.0.0', 'v1.1.0'],
             'Counters': [{'Name': 'ok', 'Rate': 1.0}, {'Name': 'ch:{a,b}', 'Rate': 4 / D}],
             'Stacks': [{'Name': 'st', 'Rate': 6 / D, 'Depth': 4}]},
            {'Name': P_BETA, 'Versions': ['v2.0.0'],
             'Counters': [{'Name': 'ok', 'Rate': 1.0}, {'Name': 'ch:{a}', 'Rate': 1.0}]},
        ],
    }
    def b(program, version, gover):
        return {'program': program, 'version': version, 'gover': gover, 'goos': goos, 'goarch': goarch}
    builds = {
        'A1': b(P_ALPHA, 'v1.0.0', 'go1.21.0'),      # approved
        'A2': b(P_BETA, 'v2.0.0', 'go1.22.3'),       # approved, another program
        'A3': b(P_ALPHA, 'v1.1.0', 'go1.21.0'),      # approved, same program, another version
        'U1': b(P_ALPHA, 'v9.9.9', 'go1.21.0'),      # version not listed
        'U2': b(P_GAMMA, 'v1.0.0', 'go1.21.0'),      # program not listed
        'U3': b(P_ALPHA, 'v1.0.0', 'go1.20.5'),      # Go version not listed
    }
    return {'config': config, 'builds': builds, 'goos': goos, 'goarch': goarch}


def chars(s):
    return '<<' + ', '.join('"NL"' if c == '\n' else cu.tla_str(c) for c in s) + '>>'


def rate_num(r):
    n = r * D
    assert n == int(n)
    return int(n)


def mc_module(u, fam, name='MCTelemetry', base='Telemetry', extra=''):
    cfg = u['config']
    q = cu.tla_str
    def sset(xs):
        return '{' + ', '.join(q(x) for x in xs) + '}'
    def fun(pairs):
        return ' @@ '.join('(%s :> %s)' % (k, v) for k, v in pairs) if pairs else '<<>>'
    builds = fam['builds']
    names = fam['names']
    brec = fun([(q(bn), '[program |-> %s, version |-> %s, gover |-> %s, goos |-> %s, goarch |-> %s]' % tuple(
        q(u['builds'][bn][k]) for k in ('program', 'version', 'gover', 'goos', 'goarch'))) for bn in builds])
    # a stack counter is named by its first line; its full name continues after a newline
    chs = fun([(q(n), chars(n + '\nf') if n in STACKS else chars(n)) for n in names])
    carry = fun([(q(n), '<<>>' if n in STACKS else '<<%s, %s>>' % tuple(q(x) for x in cu.split_counter(n))) for n in names])
    progs = []
    for p in cfg['Programs']:
        cs = ', '.join('[name |-> %s, rate |-> %d]' % (chars(c['Name']), rate_num(c['Rate'])) for c in p.get('Counters') or [])
        ss = ', '.join('[name |-> %s, rate |-> %d]' % (chars(c['Name']), rate_num(c['Rate'])) for c in p.get('Stacks') or [])
        progs.append('[name |-> %s, versions |-> %s, counters |-> {%s}, stacks |-> {%s}]' % (q(p['Name']), sset(p['Versions']), cs, ss))
    tcfg = '[goos |-> %s, goarch |-> %s, gover |-> %s, sample |-> %d, progs |-> {%s}]' % (
        sset(cfg['GOOS']), sset(cfg['GOARCH']), sset(cfg['GoVersion']), rate_num(cfg['SampleRate']), ',\n   '.join(progs))
    modes = '{' + ', '.join(fam['initmodes']) + '}'
    return '''---- MODULE %s ----
EXTENDS %s
MCBuilds == %s
MCBuildRec == %s
MCNames == %s
MCChars == %s
MCCarry == %s
MCCfg == %s
MCChartDesc == %s
MCInitModes == %s
%s
====
''' % (name, base, sset(builds), brec, sset(names), chs, carry, tcfg, cu.tla_charts(cu.abstract_config(cfg)), modes, extra)


def mc_cfg(fam, spec='Spec', invariants=(), props=(), view=True, extra_lines=()):
    def iset(xs):
        return '{' + ', '.join(str(x) for x in xs) + '}'
    def sset(xs):
        return '{' + ', '.join('"%s"' % x for x in xs) + '}'
    lines = ['SPECIFICATION ' + spec, 'CHECK_DEADLOCK FALSE']
    if view:
        lines.append('VIEW View')
    if invariants:
        lines.append('INVARIANTS ' + ' '.join(invariants))
    if props:
        lines.append('PROPERTIES ' + ' '.join(props))
    lines += list(extra_lines)
    lines += ['CONSTANTS',
              ' Builds <- MCBuilds', ' BuildRec <- MCBuildRec', ' Names <- MCNames', ' Chars <- MCChars', ' Carry <- MCCarry',
              ' Cfg <- MCCfg', ' D = %d' % D, ' ChartDesc <- MCChartDesc', ' InitModes <- MCInitModes',
              ' Anchors = ' + iset(fam['anchors']), ' Horizon = %d' % fam['horizon'], ' WeekEnds = ' + iset(fam['weekends']),
              ' TickKinds = ' + sset(fam['tick']), ' SetModes = ' + sset(fam['setmodes']), ' Xs = ' + iset(fam['xs']),
              ' MaxInc = %d' % fam['inc'], ' MaxRun = %d' % fam['run'], ' MaxDown = %d' % fam['down'],
              ' MaxSet = %d' % fam['set'], ' MaxWork = %d' % fam['work'], ' Phased = %s' % ('TRUE' if fam.get('phased') else 'FALSE')]
    return '\n'.join(lines) + '\n'


INVARIANTS = ['EndToEnd', 'StoreIsApprovedSubset', 'StoreValid', 'MarkersMatchStore', 'SpansOK', 'TypeOK']
PROPS = ['SendOnlyWithConsent', 'NothingInModeOff', 'LocalReportsComplete', 'IncLands', 'MergeFaithful', 'ChartCounts']

# Named situations: TLC yields the shortest behaviour into each (one-shot
# invariants in the exhaustive runs); they are replayed in every run.
WITNESSES = {
    # an increment after the week rolled over lands in the new week: the old week is stored with its own sum only
    'W_IncAfterRotation': '\\E o \\in store : \\E c \\in files : c.e > o.wk /\\ \\E t \\in o.data : t.p = c.p /\\ t.n = c.n',
    # the mode was switched to on after data had been collected: the week is reported locally, never sent
    'W_OptInAfterData': '\\E g \\in built : ExactlyOn(g.mf) /\\ OptIn(g.mf) # NoDate /\\ \\E f \\in g.src : OptIn(g.mf) >= f.b',
    # an unapproved build is present next to an approved one: the stored report names only the approved one
    'W_UnapprovedBuild': '\\E o \\in store : \\E l \\in local : l.wk = o.wk /\\ l.progs # o.progs /\\ o.progs # {}',
    # an unlisted bucket / unapproved counter of an approved build stays local
    'W_UnlistedName': '\\E o \\in store : \\E l \\in local : l.wk = o.wk /\\ \\E t \\in l.data : BuildOK(t.p) /\\ RatesTab[t.p][t.n] = {} /\\ o.data # {}',
    # a listed counter whose rate is below X is dropped while another one is kept
    'W_RateBelowX': '\\E o \\in store : \\E l \\in local : l.wk = o.wk /\\ o.data # {} /\\ \\E t \\in l.data : BuildOK(t.p) /\\ RatesTab[t.p][t.n] # {} /\\ ~NameOK(t.p, t.n, o.x)',
    # nothing is recorded while the mode is off, and recording resumes afterwards
    'W_OffThenOn': 'nInc >= 2 /\\ SumV(hist) < nInc /\\ store # {}',
    # mode local: reports are built, nothing is sent
    'W_LocalOnly': '\\E g \\in built : EffMode(g.mf) = "local" /\\ ~\\E o \\in store : o.wk = g.wk',
    # the uploader starts at the very instant a file ends: that file is not finished yet
    'W_EndsAtStart': 'last.op = "run" /\\ tod = 0 /\\ EffMode(mf) # "off" /\\ \\E c \\in files : c.e = day',
    # a stored week is merged and charted over a range of several days
    'W_ChartRange': '\\E c \\in charts : c.s < c.e /\\ c.num >= 1 /\\ \\E t \\in c.val : t.c \\notin {"Version", "GOOS", "GOARCH", "GoVersion"}',
    # a chart request over a range with a day that was never merged
    'W_ChartMissingDay': 'resp = 404 /\\ store # {}',
}
WITNESSES_2W = {
    # two weekly reports with the same X in one range: two lines, one distinct id
    'W_SameIdTwoWeeks': '\\E c \\in charts : c.num >= 2 /\\ \\E t \\in c.val : t.v < c.num /\\ t.c = "GOOS"',
    # the server was unreachable: the report waits and is sent by a later run
    'W_SentLater': 'nDown >= 1 /\\ store # {}',
    # a report left waiting is NOT sent by a later run once the opt-in date has moved past its week
    'W_ReadyHeldBack': 'ready # {} /\\ last.op = "run" /\\ last.up /\\ ExactlyOn(mf)',
    # ... nor by a run in mode local
    'W_ReadyKeptInLocal': 'ready # {} /\\ last.op = "run" /\\ last.up /\\ EffMode(mf) = "local"',
    # X = 0 is refused by the server: no marker, the report is dropped
    'W_RefusedX0': '\\E l \\in local : l.x = 0 /\\ ExactlyOn(mf) /\\ nRun >= 1 /\\ ready = {} /\\ \\E g \\in built : g.wk = l.wk /\\ ExactlyOn(g.mf)',
    # a week older than 21 days is reported locally only
    'W_TooOld': '\\E g \\in built : ExactlyOn(g.mf) /\\ OptIn(g.mf) < g.wk - 8 /\\ AgeOver21(g.wk, day, tod) /\\ nRun = 1',
}

# Deliberate mutations of the SPECIFICATION: each must make TLC report the named
# property violated (the properties bite on the model; -coverage is the other evidence).
SPEC_MUTANTS = [
    ('rate filter dropped by the uploader', 'EndToEnd',
     'data |-> {t \\in lr.data : BuildOK(t.p) /\\ NameOK(t.p, t.n, lr.x)}]', 'data |-> {t \\in lr.data : BuildOK(t.p) /\\ ListedTab[t.p][t.n]}]'),
    ('opt-in date ignored when making a week uploadable', 'EndToEnd',
     'wk \\in {w \\in fresh : Uploadable(mf, DataOf(fin, w), w, x, Cfg.sample, day, tod)}}', 'wk \\in {w \\in fresh : ExactlyOn(mf)}}'),
    ('increments recorded in mode off', 'NothingInModeOff',
     '    /\\ IF EffMode(mf) = "off"\n       THEN UNCHANGED <<files, hist>>', '    /\\ IF FALSE\n       THEN UNCHANGED <<files, hist>>'),
    ('a file ending at the start instant counts as finished', 'LocalReportsComplete',
     'LET fin == FinishedFiles(Keys(files), day, tod)', 'LET fin == {k \\in Keys(files) : k.e <= day}'),
    ('the server stores before validating', 'StoreValid',
     'acked == {r \\in toSend : ServerOK(r)}', 'acked == toSend'),
    ('the marker is written whatever the server answered', 'MarkersMatchStore',
     '/\\ uploaded\' = uploaded \\cup acked', '/\\ uploaded\' = uploaded \\cup toSend'),
    ('merge skips a report', 'MergeFaithful',
     'MergedDay(st, d) == [day |-> d, n |-> Cardinality(Objs(st, d)), lines |-> Objs(st, d)]',
     'MergedDay(st, d) == LET os == Objs(st, d) IN IF os = {} THEN [day |-> d, n |-> 0, lines |-> {}] ELSE [day |-> d, n |-> Cardinality(os) - 1, lines |-> os \\ {CHOOSE o \\in os : TRUE}]'),
    ('chart counts lines instead of distinct ids', 'ChartCounts',
     'LET lines == SeqOf({Shape(o) : o \\in RangeLines(merged, s, e)})',
     'LET lines == SeqOf({[id |-> <<o.wk, o.x>>, carries |-> CarriesOf(o)] : o \\in RangeLines(merged, s, e)})'),
    ('an increment lands in the previous file of the build', 'IncLands',
     'ELSE LET b == Begin(day)  e == End(day, wend)\n                BumpCount(cs)',
     'ELSE LET prev == {c \\in files : c.p = p}\n                b == IF prev = {} THEN Begin(day) ELSE (CHOOSE c \\in prev : TRUE).b\n                e == IF prev = {} THEN End(day, wend) ELSE (CHOOSE c \\in prev : TRUE).e\n                BumpCount(cs)'),
]


def families(ctx, anchor):
    on_past = 'Text("on", %d, FALSE)' % (anchor - 400)
    base = dict(anchors=[anchor], horizon=16, weekends=[(anchor + 5) % 7], setmodes=['on', 'off'], initmodes=['Absent', on_past],
                xs=[2, 5], down=0)
    fams = []
    # client side: consent, calendar, approval; no worker steps
    fams.append(dict(base, name='client', builds=['A1', 'U1'], names=['ok', 'ch:a', 'ch:z'], tick=['half', 'wkend'],
                     inc=ctx.pick(2, 3), run=2, set=2, work=0,
                     witnesses={k: v for k, v in WITNESSES.items() if k not in ('W_ChartRange', 'W_ChartMissingDay')}))
    # worker side: two weeks, same and different X, merge and chart
    fams.append(dict(base, name='worker', builds=['A1', 'A2'], names=['ok', 'ch:a'], tick=['wkend'], initmodes=[on_past], setmodes=[],
                     inc=2, run=2, set=0, work=ctx.pick(3, 4), phased=True,
                     witnesses={k: v for k, v in dict(WITNESSES, **WITNESSES_2W).items() if k in ('W_ChartRange', 'W_ChartMissingDay', 'W_SameIdTwoWeeks', 'W_IncAfterRotation', 'W_RateBelowX')}))
    # server refusal, unreachable server, reports waiting over mode changes, old weeks
    w2 = {k: v for k, v in WITNESSES_2W.items() if k != 'W_SameIdTwoWeeks'}
    if ctx.thorough():
        fams.append(dict(base, name='server', builds=['A1'], names=['ok', 'no'], tick=['wkend', 'old'], horizon=40, initmodes=[on_past], setmodes=['local', 'on'],
                         xs=[0, 2, 7], down=1, inc=2, run=3, set=1, work=0, witnesses=w2))
    else:
        fams.append(dict(base, name='server', builds=['A1'], names=['ok', 'no'], tick=['wkend'], initmodes=[on_past], setmodes=['local', 'on'],
                         xs=[0, 2, 7], down=1, inc=2, run=2, set=1, work=0, witnesses={k: v for k, v in w2.items() if k != 'W_TooOld'}))
        fams.append(dict(base, name='old', builds=['A1'], names=['ok'], tick=['wkend', 'old'], horizon=40, initmodes=[on_past], setmodes=[],
                         xs=[2, 7], down=1, inc=2, run=2, set=0, work=0, witnesses={'W_TooOld': WITNESSES_2W['W_TooOld']}))
    if ctx.thorough():
        fams.append(dict(base, name='client-3builds', builds=['A1', 'A3', 'U2'], names=['ok', 'ch:b', 'st'], tick=['half', 'wkend'],
                         inc=3, run=2, set=1, work=0, witnesses={}))
        fams.append(dict(base, name='full-small', builds=['A1', 'U1'], names=['ok', 'ch:a'], tick=['wkend'], down=1,
                         inc=2, run=2, set=1, work=2, witnesses={}))
    return fams


def sim_family(ctx, anchors):
    on_past = 'Text("on", %d, FALSE)' % (anchors[0] - 400)
    return dict(name='simulate', builds=['A1', 'A2', 'A3', 'U1', 'U2', 'U3'], names=NAMES, anchors=anchors, horizon=45,
                weekends=list(range(7)), tick=['half', 'day', 'wkend', 'week', 'old'], initmodes=['Absent', on_past, 'Text("on", %d, FALSE)' % (anchors[0] - 30), 'Text("on", %d, FALSE)' % (anchors[0] - 3), 'Text("local", %d, FALSE)' % anchors[0]],
                setmodes=['on', 'off', 'local'], xs=[0, 2, 5, 7], inc=8, run=5, down=2, set=3, work=6)


# ------------------------------------------------------ model states -> python
def canon(v):
    if isinstance(v, tlaval.TlaSet):
        xs = [canon(x) for x in v]
        return sorted(xs, key=lambda x: json.dumps(x, sort_keys=True))
    if isinstance(v, (list, tuple)):
        return [canon(x) for x in v]
    if isinstance(v, dict):
        return {k: canon(x) for k, x in v.items()}
    return v


CLIENT = ['files', 'local', 'ready', 'uploaded', 'store', 'mode']
WORKER = ['merged', 'charts', 'resp']


def model_state(st):
    out = {k: canon(st[k]) for k in ('files', 'local', 'ready', 'uploaded', 'store', 'merged', 'charts', 'resp')}
    out['mode'] = canon(st['mf'])
    return out


def step_of(st):
    la = st['last']
    op = la['op']
    if op == 'init':
        return {'op': 'init', 'day': st['day'], 'tod': st['tod']}
    if op == 'inc':
        return {'op': 'inc', 'p': la['p'], 'n': la['n']}
    if op == 'tick':
        return {'op': 'tick', 'day': la['s'], 'tod': la['e']}
    if op == 'setmode':
        return {'op': 'setmode', 'm': la['m']}
    if op == 'run':
        return {'op': 'run', 'x': la['x'] / D, 'xn': la['x'], 'up': la['up']}
    if op in ('merge', 'chart'):
        return {'op': op, 's': la['s'], 'e': la['e']}
    raise Infra('unknown action label %r' % (la,))


def mode_text(mf):
    if mf['k'] == 'absent':
        return ''
    return mf['w'] + (' ' + iso(mf['d']) if mf['d'] >= 0 else '')


def behaviour_of(bid, src, states):
    if not states or states[0]['last']['op'] != 'init':
        raise Infra('behaviour %s does not start with the initial state' % src)
    return {'id': bid, 'src': src, 'wend': states[0]['wend'], 'mode': mode_text(states[0]['mf']),
            'steps': [step_of(s) for s in states], 'clock': [(s['day'], s['tod']) for s in states],
            'want': [model_state(s) for s in states]}


# ------------------------------------------------- observations -> the vocabulary
def abs_mode(text):
    if text == '':
        return {'k': 'absent', 'w': '', 'd': -1, 'pad': False}
    t = text.strip()
    w, d = t, -1
    if ' ' in t:
        w, rest = t.split(' ', 1)
        try:
            d = dnum(rest)
        except Exception:
            d = -2
    return {'k': 'text', 'w': w, 'd': d, 'pad': t != text}


def xnum(x):
    try:
        n = x * D
        if n == int(n):
            return int(n)
    except Exception:
        pass
    return -2


class Abstractor:
    def __init__(self, u):
        self.bmap = {(b['program'], b['version'], b['gover'], b['goos'], b['goarch']): k for k, b in u['builds'].items()}
        self.problems = []

    def build(self, program, version, gover, goos, goarch):
        key = (program, version, gover, goos, goarch)
        return self.bmap.get(key, '?' + '|'.join(str(x) for x in key))

    def report(self, rep, where):
        if not isinstance(rep, dict) or 'Week' not in rep:
            self.problems.append('%s: not a report: %s' % (where, json.dumps(rep)[:200]))
            return {'wk': -2, 'x': -2, 'progs': [], 'data': []}
        try:
            wk = dnum(rep['Week'])
        except Exception:
            wk = -2
            self.problems.append('%s: bad week %r' % (where, rep.get('Week')))
        progs, data = [], {}
        for p in rep.get('Programs') or []:
            if not isinstance(p, dict):
                self.problems.append('%s: null program entry' % where)
                continue
            b = self.build(p.get('Program'), p.get('Version'), p.get('GoVersion'), p.get('GOOS'), p.get('GOARCH'))
            if b in progs:
                self.problems.append('%s: two program entries for build %s' % (where, b))
            progs.append(b)
            for n, v in (p.get('Counters') or {}).items():
                if '\n' in n:
                    self.problems.append('%s: stack name among the counters' % where)
                data[(b, n)] = data.get((b, n), 0) + v
            for n, v in (p.get('Stacks') or {}).items():
                if '\n' not in n:
                    self.problems.append('%s: plain name among the stacks' % where)
                k = (b, n.split('\n')[0])
                data[k] = data.get(k, 0) + v
        return {'wk': wk, 'x': xnum(rep.get('X')), 'progs': sorted(set(progs)),
                'data': canon(tlaval.TlaSet({'p': b, 'n': n, 'v': v} for (b, n), v in data.items()))}

    def client(self, obs):
        out = {}
        cells = {}
        for f in obs['files']:
            m = f.get('meta') or {}
            if f.get('err') or f.get('problems'):
                self.problems.append('count file %s: %s' % (f.get('name'), f.get('err') or f.get('problems')))
            b = self.build(m.get('Program'), m.get('Version'), m.get('GoVersion'), m.get('GOOS'), m.get('GOARCH'))
            try:
                tb, te = m['TimeBegin'], m['TimeEnd']
                if not (tb.endswith('T00:00:00Z') and te.endswith('T00:00:00Z')):
                    raise ValueError('span is not whole days')
                db, de = dnum(tb[:10]), dnum(te[:10])
                if '-' + tb[:10] + '.v1.count' not in f['name']:
                    self.problems.append('count file %s: name does not carry the begin date' % f['name'])
            except Exception as e:
                self.problems.append('count file %s: span %s' % (f.get('name'), e))
                db = de = -2
            for n, v in (f.get('counts') or {}).items():
                k = (b, db, de, n.split('\n')[0])
                cells[k] = cells.get(k, 0) + v
        out['files'] = canon(tlaval.TlaSet({'p': p, 'b': b, 'e': e, 'n': n, 'v': v} for (p, b, e, n), v in cells.items()))
        for comp, pre in (('local', 'local.'), ('ready', ''), ('uploaded', '')):
            reps = []
            for r in obs[comp]:
                a = self.report(r['report'], '%s/%s' % (comp, r['name']))
                if r['name'] != pre + (r['report'].get('Week', '?') if isinstance(r['report'], dict) else '?') + '.json':
                    self.problems.append('%s report %s is not named by its week' % (comp, r['name']))
                reps.append(a)
            out[comp] = canon(tlaval.TlaSet(reps))
        objs = []
        for r in obs['store']:
            a = self.report(r['report'], 'bucket/' + r['name'])
            rep = r['report'] if isinstance(r['report'], dict) else {}
            if r['name'] != '%s/%s.json' % (rep.get('Week'), ('%g' % rep['X']) if isinstance(rep.get('X'), (int, float)) else '?'):
                self.problems.append('bucket object %s is not named by week and X of its report' % r['name'])
            objs.append(a)
        out['store'] = canon(tlaval.TlaSet(objs))
        out['mode'] = abs_mode(obs.get('mode', ''))
        return out

    def worker(self, rec):
        out = {}
        mg = []
        for o in rec['merged']:
            try:
                day = dnum(o['name'][:-len('.json')])
            except Exception:
                day = -2
                self.problems.append('merged object %s is not named by a date' % o['name'])
            if not o.get('endsnl', True):
                self.problems.append('merged object %s does not end with a newline' % o['name'])
            lines = [self.report(ln, 'merged/%s' % o['name']) for ln in o['lines']]
            mg.append({'day': day, 'n': len(lines), 'lines': canon(tlaval.TlaSet(lines))})
        out['merged'] = canon(tlaval.TlaSet(mg))
        chs = []
        for o in rec['charted']:
            nm = o['name'][:-len('.json')] if o['name'].endswith('.json') else o['name']
            try:
                s, e = (nm.split('_') + [nm])[:2] if '_' in nm else (nm, nm)
                s, e = dnum(s), dnum(e)
            except Exception:
                s = e = -2
                self.problems.append('chart object %s is not named by a date or range' % o['name'])
            num, vals, probs = cu.read_chart(json.dumps(o['chart']))
            self.problems += ['chart %s: %s' % (o['name'], p) for p in probs]
            val = [{'p': t[0], 'c': t[1], 'k': t[2], 'v': int(v) if v == int(v) else v} for t, v in vals.items() if v]
            chs.append({'s': s, 'e': e, 'num': num, 'val': canon(tlaval.TlaSet(val))})
        out['charts'] = canon(tlaval.TlaSet(chs))
        codes = [r.get('code') for r in rec['resps']]
        bad = [r for r in rec['resps'] if r.get('panic') or r.get('hang')]
        if bad:
            self.problems.append('worker request: %s' % json.dumps(bad)[:300])
        if rec['op'] == 'merge':
            out['resp'] = 200 if codes and all(c == 200 for c in codes) else (codes[0] if len(set(codes)) == 1 else -1)
        else:
            out['resp'] = codes[0] if codes else -1
        return out


# ----------------------------------------------------------------- harness runs
def stage(ctx, pkg, test, inp, tag, timeout):
    in_path = os.path.join(ctx.work, 'e2e-in-%s.json' % tag)
    out_path = os.path.join(ctx.work, 'e2e-out-%s.ndjson' % tag)
    with open(in_path, 'w') as f:
        json.dump(inp, f)
    rc, out = ctx.go_test(None, pkg, test, env={'VERIF_IN': in_path, 'VERIF_OUT': out_path}, timeout=timeout, module_dir='godev')
    recs = read_ndjson(out_path) if os.path.exists(out_path) else []
    if rc != 0 or not [r for r in recs if r.get('kind') == 'summary']:
        raise Infra('harness %s %s failed (rc=%d):\n%s' % (pkg, test, rc, out[-4000:]))
    return recs


def run_shard(ctx, u, i, behs, timeout):
    base = os.path.join(ctx.work, 'e2e', 's%d' % i)
    a_in = {'base': base, 'config': u['config'], 'cfgver': 'v1.2.3', 'stacks': STACKS,
            'builds': {k: {'program': b['program'], 'version': b['version'], 'gover': b['gover']} for k, b in u['builds'].items()},
            'behaviours': [{'id': b['id'], 'wend': b['wend'], 'mode': b['mode'],
                            'steps': [dict(s, p=s.get('p', ''), n=s.get('n', ''), m=s.get('m', '')) for s in b['steps']]} for b in behs]}
    recs_a = stage(ctx, PKG_A, 'TestVerifE2EClient', a_in, 'a%d' % i, timeout)
    wb = []
    for b in behs:
        ws = []
        for k, s in enumerate(b['steps']):
            if s['op'] == 'merge':
                ws.append({'k': k, 'op': 'merge', 'days': [iso(d) for d in range(s['s'], s['e'] + 1)]})
            elif s['op'] == 'chart':
                ws.append({'k': k, 'op': 'chart', 'start': iso(s['s']), 'end': iso(s['e'])})
        if ws:
            wb.append({'id': b['id'], 'steps': ws})
    recs_b = stage(ctx, PKG_B, 'TestVerifE2EWorker', {'base': base, 'config': u['config'], 'behaviours': wb}, 'b%d' % i, timeout) if wb else []
    return recs_a, recs_b


def diff_components(want, got, comps):
    return [c for c in comps if want[c] != got[c]]


def trace_line(b, k, obs):
    s = b['steps'][k]
    day, tod = b['clock'][k]
    return {'t': b['id'], 'k': k, 'op': s['op'], 'p': s.get('p', ''), 'n': s.get('n', ''), 'm': s.get('m', ''),
            'x': s.get('xn', 0), 'up': s.get('up', True),
            's': s['day'] if s['op'] == 'tick' else s.get('s', 0), 'e': s['tod'] if s['op'] == 'tick' else s.get('e', 0),
            'day': day, 'tod': tod, 'wend': b['wend'], 'obs': obs}


def short(x, n=700):
    t = json.dumps(x, sort_keys=True)
    return t if len(t) <= n else t[:n] + '...'


def run(ctx):
    ctx.assumptions += [
        'week granularity: one RunUploader step is the crash-free outcome of one sequential uploader run (interleavings, kills and retries are C07/C08)',
        'an increment is a rotate1 call followed by Inc on a private counter file of the build, with CounterTime mocked (the rotation timer is replaced by the explicit call); in mode off the program gives up and a later increment is a new program run',
        'the clock only moves forward; one week-end setting per behaviour; GOOS/GOARCH are those of the machine, builds differ in program, version and Go version',
        'X and all rates are multiples of 1/8; X is fixed per uploader run through crypto/rand.Reader; the upload configuration is the same for uploader, server and worker',
        'the server is either answering (the real handler chain) or answers 503 to every request of a run; LastWeek, the Config version string and debug logging are not part of the projection',
        'the worker steps run on a snapshot of the upload bucket taken at that step; Merge(s, e) merges the days s..e one request after the other',
        'a mismatch between a replayed model state and the recorded real state is reported as a violation: every model step is a deterministic function of the statements of C01, C02, C07, C09, C11, C12 and C13',
    ]
    ctx.inject('internal/counter', 'godev/cmd/telemetrygodev', 'godev/cmd/worker')
    p = subprocess.run(['go', 'env', 'GOOS', 'GOARCH'], env=ctx.goenv(), stdout=subprocess.PIPE, text=True)
    goos, goarch = (p.stdout.split() + ['linux', 'amd64'])[:2]
    u = universe(goos, goarch)
    anchor = dnum('2024-01-08') + (ctx.seed * 37) % 330
    fams = families(ctx, anchor)
    simfam = sim_family(ctx, sorted({anchor, dnum('2024-02-19'), dnum('2027-12-20') + ctx.seed % 7}))

    pool = ThreadPoolExecutor(max_workers=2)
    warm = [pool.submit(ctx.go_test, None, pkg, '^$', None, 600, 'godev') for pkg in (PKG_A, PKG_B)]

    # ---- 1. TLC: exhaustive families (+ witnesses), simulation walks, spec mutants -------
    oneshot = ['OneShot(i, Hit) == IF Hit /\\ TLCGet(i) = 0 THEN TLCSet(i, 1) /\\ FALSE ELSE TRUE', 'ASSUME \\A i \\in 1..40 : TLCSet(i, 0)']
    jobs, meta = [], []
    for f in fams:
        ws = sorted(f['witnesses'])
        extra = '\n'.join(oneshot + ['O_%s == OneShot(%d, %s)' % (w, i + 1, f['witnesses'][w]) for i, w in enumerate(ws)])
        jobs.append((('MCTelemetry',), dict(files={'MCTelemetry.tla': mc_module(u, f, extra=extra)},
                                            cfg_text=mc_cfg(f, invariants=INVARIANTS + (['TablesAgree'] if f['name'] == 'client' else []) + ['O_' + w for w in ws], props=PROPS),
                                            label='Telemetry[%s] exhaustive' % f['name'], timeout=3000, workers=ctx.pick(4, 6), extra=['-continue'],
                                            coverage=f['name'] in ctx.pick(('worker',), ('worker', 'server')))))
        meta.append(('bfs', f))
    nwalk = ctx.pick(300, 1500)
    # half of the walks over everything, half with consent given long ago and a usable X (they get far into the pipeline)
    simon = dict(simfam, name='simulate-on', initmodes=[m for m in simfam['initmodes'] if '"on"' in m], setmodes=['on'], set=1, xs=[2, 5], down=1)
    for i in range(ctx.pick(2, 4)):
        sf = simfam if i % 2 == 0 else simon
        jobs.append((('MCTelemetry',), dict(files={'MCTelemetry.tla': mc_module(u, sf)}, cfg_text=mc_cfg(sf, view=False, extra_lines=['ACTION_CONSTRAINT SimFocus']),
                                            simulate={'num': nwalk, 'file': True}, depth=ctx.pick(26, 34), seed=ctx.seed * 10 + i,
                                            label='Telemetry[%s %d]' % (sf['name'], i), count=False, workers=1)))
        meta.append(('sim', sf))
    src = open(os.path.join(os.path.dirname(os.path.dirname(os.path.abspath(__file__))), 'spec', 'Telemetry.tla')).read()
    mutfam = dict(name='mutant', builds=['A1'], names=['ok', 'ch:a'], anchors=[anchor], horizon=16, weekends=[(anchor + 5) % 7], tick=['wkend'],
                  initmodes=['Absent', 'Text("on", %d, FALSE)' % (anchor - 400)], setmodes=['on', 'off'], xs=[0, 5], inc=2, run=1, down=0, set=1, work=2)
    muts = SPEC_MUTANTS if ctx.thorough() else [m for i, m in enumerate(SPEC_MUTANTS) if i % 3 == ctx.seed % 3 or m[1] in ('EndToEnd',)]
    for (what, prop, old, new) in muts:
        if src.count(old) != 1:
            raise Infra('spec mutant %r: the text to replace occurs %d times in Telemetry.tla' % (what, src.count(old)))
        msrc = src.replace(old, new).replace('MODULE Telemetry ', 'MODULE TelemetryMut ', 1)
        isinv = prop in INVARIANTS
        jobs.append((('MCTelemetryMut',), dict(files={'TelemetryMut.tla': msrc, 'MCTelemetryMut.tla': mc_module(u, mutfam, name='MCTelemetryMut', base='TelemetryMut')},
                                               cfg_text=mc_cfg(mutfam, invariants=[prop] if isinv else [], props=[] if isinv else [prop]),
                                               label='Telemetry[mutant: %s]' % what, count=False, timeout=1500, workers=2)))
        meta.append(('mut', (what, prop)))
    results = ctx.tlc_many(jobs, par=ctx.pick(8, 8))

    behs = []
    model = {}
    seen = set()

    def add(src_name, states):
        b = behaviour_of(len(behs), src_name, states)
        key = json.dumps([b['wend'], b['mode'], b['steps']], sort_keys=True)
        if key in seen or len(b['steps']) < 2:
            return
        seen.add(key)
        behs.append(b)

    mut_ok = 0
    for (kind, m), r in zip(meta, results):
        if kind == 'bfs':
            model[m['name']] = {'distinct': r.distinct, 'generated': r.generated, 'depth': r.depth}
            if m['name'] in ctx.pick(('worker',), ('worker', 'server')):
                # -coverage: actions of Next that were never taken in this family (Inc/Tick/SetMode/RunUploader/Merge/Chart are expected to be)
                model[m['name']]['actions_never_taken'] = sorted(set(r.coverage_zero))
            if r.error in ('action', 'temporal', 'deadlock'):
                raise Infra('Telemetry[%s]: the specification itself violates %s %s\n%s' % (m['name'], r.error, r.error_name, r.out[-3000:]))
            found = set()
            for (name, tr) in tlaval.read_all_traces(r.out):
                if not name.startswith('O_W_'):
                    raise Infra('Telemetry[%s]: the specification itself violates %s\n%s' % (m['name'], name, r.out[-3000:]))
                found.add(name[2:])
                add('witness:%s:%s' % (m['name'], name[2:]), [s for (_a, s) in tr])
            for w in m['witnesses']:
                model['%s/%s' % (m['name'], w)] = 'reachable' if w in found else 'NOT reached'
                if w not in found:
                    ctx.warn('witness %s is not reachable in family %s' % (w, m['name']))
        elif kind == 'sim':
            if r.error:
                raise Infra('Telemetry simulate: %s\n%s' % (r.error, r.out[-2000:]))
            for fn in ctx.sim_files(r):
                add('simulate', [s for (_a, _b, s) in tlaval.read_simulate(fn)])
        else:
            what, prop = m
            if r.error in ('invariant', 'action') and r.error_name == prop:
                mut_ok += 1
                model['mutant: ' + what] = '%s violated (depth %d)' % (prop, len(r.trace))
            else:
                raise Infra('spec mutant %r should violate %s but TLC says %s %s\n%s' % (what, prop, r.error, r.error_name, r.out[-1500:]))
    ctx.cov['model'] = model
    sit = {'stored_report': 0, 'two_stored_weeks': 0, 'local_only_week': 0, 'report_waiting': 0, 'merged_lines': 0, 'chart_with_counter_value': 0,
           'chart_not_found': 0, 'inc_in_mode_off': 0, 'unapproved_build_in_local_report': 0}
    for b in behs:
        fl = set()
        for k, w in enumerate(b['want']):
            if w['store']:
                fl.add('stored_report')
            if len({o['wk'] for o in w['store']}) >= 2:
                fl.add('two_stored_weeks')
            if any(not [o for o in w['store'] if o['wk'] == l['wk']] for l in w['local']):
                fl.add('local_only_week')
            if w['ready']:
                fl.add('report_waiting')
            if any(g['n'] for g in w['merged']):
                fl.add('merged_lines')
            if any(t['c'] not in ('Version', 'GOOS', 'GOARCH', 'GoVersion') for c in w['charts'] for t in c['val']):
                fl.add('chart_with_counter_value')
            if w['resp'] == 404:
                fl.add('chart_not_found')
            if b['steps'][k]['op'] == 'inc' and w['mode'].get('w') == 'off':
                fl.add('inc_in_mode_off')
            if any(p.startswith('U') for l in w['local'] for p in l['progs']):
                fl.add('unapproved_build_in_local_report')
        for f in fl:
            sit[f] += 1
    ctx.cov['behaviours_reaching'] = sit
    ctx.cov['spec_mutants_biting'] = mut_ok
    ctx.cov['behaviours'] = len(behs)
    ctx.cov['witness_behaviours'] = len([b for b in behs if b['src'] != 'simulate'])
    ctx.log('behaviours: %d (%d witnesses)' % (len(behs), ctx.cov['witness_behaviours']))
    for b in behs[:2] + [b for b in behs if b['src'] != 'simulate'][:2]:
        ctx.sample({'kind': 'behaviour', 'src': b['src'], 'ops': [{k: v for k, v in s.items()} for s in b['steps'][:14]]})
    for w in warm:
        rc, out = w.result()
        if rc != 0:
            raise Infra('harness packages do not build:\n' + out[-4000:])

    # ---- 2. the behaviours on the real code (stage A: client + endpoint, stage B: worker) -----
    nshard = ctx.pick(6, 8)
    shards = [[b for j, b in enumerate(behs) if j % nshard == i] for i in range(nshard)]
    with ThreadPoolExecutor(max_workers=nshard) as ex:
        outs = list(ex.map(lambda a: run_shard(ctx, u, a[0], a[1], ctx.pick(600, 2400)) if a[1] else ([], []), enumerate(shards)))
    rec_a, rec_b = {}, {}
    for ra, rb in outs:
        for r in ra:
            if r.get('kind') == 'state':
                rec_a[(r['id'], r['k'])] = r
        for r in rb:
            if r.get('kind') == 'wstate':
                rec_b[(r['id'], r['k'])] = r

    # ---- 3. model -> code: every recorded state against the model state ----------------------
    lines, matched, nsteps = [], 0, 0
    allprobs = []
    for b in behs:
        ab = Abstractor(u)
        wobs = {'merged': [], 'charts': [], 'resp': 0}
        good = True
        for k, s in enumerate(b['steps']):
            ra = rec_a.get((b['id'], k))
            if ra is None:
                if good:
                    raise Infra('behaviour %d (%s): no record for step %d' % (b['id'], b['src'], k))
                break
            nsteps += 1
            nprob = len(ab.problems)
            for key in ('panic', 'err'):
                if ra.get(key):
                    good = False
                    ctx.violation('E2E:replay:%s:%s' % (s['op'], 'hang' if ra[key] == 'hang' else key), {'behaviour': b['src'], 'step': k, 'ops': b['steps'][:k + 1], key: ra[key]},
                                  'behaviour %d (%s) step %d %s: the real code %s: %s' % (b['id'], b['src'], k, s['op'], key, str(ra[key])[:300]))
            obs = ab.client(ra['obs'])
            comps = list(CLIENT)
            if s['op'] in ('merge', 'chart'):
                rb = rec_b.get((b['id'], k))
                if rb is None:
                    raise Infra('behaviour %d (%s): no worker record for step %d' % (b['id'], b['src'], k))
                wobs = ab.worker(rb)
                comps += WORKER
            obs.update(wobs)
            bad = diff_components(b['want'][k], obs, comps)
            if ab.problems[nprob:]:
                bad.append('wellformed')
            if bad and good:
                good = False
                detail = {'behaviour': b['src'], 'wend': b['wend'], 'initial_mode': b['mode'], 'step': k, 'ops': b['steps'][:k + 1], 'clock': b['clock'][k],
                          'problems': ab.problems[nprob:], 'differs': {c: {'model': b['want'][k][c], 'real': obs[c]} for c in bad if c != 'wellformed'}}
                ctx.violation('E2E:replay:%s:%s' % (s['op'], bad[0]), detail,
                              'behaviour %d (%s) step %d %s at day %s: model and real state differ in %s: %s' % (
                                  b['id'], b['src'], k, json.dumps(s), iso(b['clock'][k][0]), ','.join(bad), short(detail['differs'] or detail['problems'])))
            lines.append(trace_line(b, k, obs))
            if ra['obs'].get('other'):
                allprobs.append('behaviour %d step %d: unexpected files %s' % (b['id'], k, ra['obs']['other']))
        if good:
            matched += 1
    ctx.cov['behaviours_matched'] = matched
    ctx.cov['behaviour_steps'] = nsteps
    ctx.cov['evaluations'] += nsteps
    ctx.cov['unexpected_files'] = allprobs[:10]
    ctx.cov['traces_validated_against_impl'] += matched
    ctx.sample({'kind': 'recorded step', **{k: v for k, v in lines[min(len(lines) - 1, 7)].items() if k != 'obs'}, 'obs': lines[min(len(lines) - 1, 7)]['obs']})

    # ---- 4. code -> model: TLC replays the recorded actions and judges the observed states -----
    tracefam = dict(simfam, name='trace', horizon=100000, inc=10 ** 6, run=10 ** 6, down=10 ** 6, set=10 ** 6, work=10 ** 6)
    clauses = ['O_Conform', 'O_EndToEnd', 'O_StoreIsApprovedSubset', 'O_StoreValid', 'O_MarkersMatchStore', 'O_SendOnlyWithConsent',
               'O_NothingInModeOff', 'O_LocalReportsComplete', 'O_IncLands', 'O_Quiet', 'O_MergeFaithful', 'O_ChartCounts']
    chunk = 6000
    parts = []
    cur = []
    by_t = {}
    for ln in lines:
        by_t.setdefault(ln['t'], []).append(ln)
    for t in sorted(by_t):
        if cur and len(cur) + len(by_t[t]) > chunk:
            parts.append(cur)
            cur = []
        cur += by_t[t]
    if cur:
        parts.append(cur)
    tjobs = []
    for i, part in enumerate(parts):
        tjobs.append((('MCTelemetryTrace',), dict(files={'MCTelemetryTrace.tla': mc_module(u, tracefam, name='MCTelemetryTrace', base='TelemetryTrace'),
                                                         'e2etrace.ndjson': ndjson_text(part)},
                                                  cfg_text=mc_cfg(tracefam, spec='TSpec', invariants=clauses, view=False), workers=1, extra=['-continue'],
                                                  label='TelemetryTrace[%d]' % i, count=False, timeout=2400)))
    judged = 0
    for part, r in zip(parts, ctx.tlc_many(tjobs, par=4)):
        if r.error in ('action', 'temporal', 'deadlock', 'assumption', 'postcondition'):
            raise Infra('TelemetryTrace: %s\n%s' % (r.error, r.out[-3000:]))
        if r.distinct != len(part):
            ctx.cov['divergences'] += 1
            ctx.warn('MODEL-DIVERGENCE: TLC followed %d of %d recorded lines' % (r.distinct, len(part)))
        judged += r.distinct
        for (name, tr) in tlaval.read_all_traces(r.out):
            st = tr[-1][1] if tr else {}
            ln = part[st.get('l', 1) - 1] if 0 < st.get('l', 0) <= len(part) else {}
            b = behs[ln['t']] if ln else None
            clause = name[2:] if name.startswith('O_') else name
            detail = {'clause': clause, 'behaviour': b and b['src'], 'step': ln.get('k'), 'ops': b and b['steps'][:ln.get('k', 0) + 1], 'line': ln}
            if clause == 'Conform':
                # the same comparison as step 3, made by TLC: conformance of the recorded trace
                ctx.cov['divergences'] += 1
                ctx.violation('E2E:trace:%s' % ln.get('op'), detail,
                              'TLC: recorded trace of behaviour %s leaves the model at step %s (%s)' % (ln.get('t'), ln.get('k'), ln.get('op')))
            else:
                ctx.violation('E2E:%s:%s' % (clause, ln.get('op')), detail,
                              'TLC: %s is false on the state observed after step %s (%s) of behaviour %s (%s): %s' % (
                                  clause, ln.get('k'), ln.get('op'), ln.get('t'), b and b['src'], short(ln.get('obs'), 500)))
    ctx.cov['observed_states_judged_by_tlc'] = judged
    ctx.cov['evaluations'] += judged * len(clauses)
    ctx.cov['distinct_nontrivial'] = len(behs)
    ctx.cov['rule'] = ('exhaustive TLC on %d constant families (invariants %s; action properties %s); behaviours = TLC -simulate walks over the full universe '
                       '(6 builds, 6 names, 7 week-end settings, 4 X values, 3 modes) + shortest witnesses into %d named situations; every step executed on the real code '
                       '(counter files, upload.Run, the upload endpoint, handleMerge/handleChart) and compared with the model state; TLC re-judges all recorded states'
                       % (len(fams), ' '.join(INVARIANTS), ' '.join(PROPS), len(WITNESSES) + len(WITNESSES_2W)))
