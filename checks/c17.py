"""C17 — chart configuration parsing and upload-config generation
(ChartConfig.tla + ChartConfigWalk / ChartConfigRender / ChartConfigGen /
ChartConfigTrace; real chartconfig.Parse, configgen.generate, padVersions)."""
import base64
import itertools
import json
import os
import random
import re

from vlib import tlaval
from vlib.core import Infra, ndjson_text, REPO
from checks import _c17_util as U

SIG_F14 = 'C17:generate:toolchain-program:minimum-version-of-first-record-wins'
# programs of the generation vectors: (name, module path, toolchain?)   -- odd numbers are toolchain programs
PROGS = [('cmd/go', 'cmd', True), ('golang.org/x/tools/gopls', 'golang.org/x/tools/gopls', False),
         ('cmd/compile', 'cmd', True), ('golang.org/x/vuln/cmd/govulncheck', 'golang.org/x/vuln', False)]
NP = len(PROGS)
P_TOOL, P_MOD = PROGS[0][0], PROGS[1][0]
M_MOD = PROGS[1][1]
# other spellings of a minimum version with the same precedence (shorthand, build metadata)
SEM_ALIASES = {'v0.14.0': ['v0.14', 'v0.14.0+incompatible'], 'v0.15.0': ['v0.15', 'v0.15.0+build.7'], 'v1.0.0': ['v1', 'v1.0'], 'v2.0.0': ['v2']}


# ------------------------------------------------------------------ dumps
def dump_blocks(path):
    block = []
    with open(path, encoding='utf-8', errors='surrogateescape') as f:
        for ln in f:
            if ln.startswith('State ') and ln.rstrip().endswith(':'):
                if block:
                    yield '\n'.join(block)
                block = []
            elif ln.strip():
                block.append(ln.rstrip('\n'))
    if block:
        yield '\n'.join(block)


def dump_vars(block, names):
    """the named variables of one dump block, parsed"""
    parts = re.split(r'(?m)^/\\ ([A-Za-z_][A-Za-z0-9_]*) = ', '\n' + block)
    out = {}
    for i in range(1, len(parts) - 1, 2):
        if parts[i] in names:
            out[parts[i]] = tlaval.parse(parts[i + 1])
    return out


def hashable(v):
    return tuple(hashable(x) for x in v) if isinstance(v, list) else v


# ------------------------------------------------------- parse: expectations
def expected_records(conc, recs):
    """model records (value tokens) -> the records the real Parse must return,
    in the vocabulary of U.abstract_record"""
    out = []
    for r in recs:
        o = {k: '' for k in U.STR_KEYS}
        o.update({'depth': '0', 'error': '0', 'issue': [], 'counter': {'pre': '', 'bs': []}})
        for k in U.STR_KEYS:
            if r[k] != '':
                o[conc.key(k)] = conc.value(hashable(r[k]), k)
        for k in U.NUM_KEYS:
            if r[k] != '0':
                rk = conc.key(k)
                v = conc.value(hashable(r[k]), k)
                o[rk] = str(int(v)) if rk == 'depth' else U.canon_float(v)
        o['issue'] = [conc.value(hashable(t), 'issue') for t in r['issue']]
        c = r['counter']
        if c['pre'] != '':
            if c['bs']:
                o['counter'] = {'pre': conc.value(hashable(c['pre']), 'counter:braced'), 'bs': [x for b in c['bs'] for x in conc.bucket(hashable(b)).split(',')]}
            else:
                o['counter'] = U.abstract_counter(conc.value(hashable(c['pre']), 'counter'))
        out.append(o)
    return out


def first_diff(exp, got):
    if len(exp) != len(got):
        return 'record-count'
    for e, g in zip(exp, got):
        for k in ['counter', 'issue'] + U.STR_KEYS + U.NUM_KEYS:
            if e[k] != g[k]:
                return k if k in ('counter', 'issue', 'depth', 'error') else 'string-field'
    return None


def features(lines):
    ks = set(l['k'] for l in lines)
    f = []
    if ks & {'copen', 'cmid', 'cclose'}:
        f.append('multiline')
    if 'blank' in ks:
        f.append('blank')
    return '+'.join(f) or 'plain'


def repeated_scalar(lines):
    seen = set()
    for ln in lines:
        if ln['k'] == 'sep':
            seen = set()
        elif ln['k'] in ('junk', 'copen', 'cmid', 'cclose'):
            return False
        elif ln['k'] == 'field' and ln['key'] != 'issue':
            if ln['key'] in seen:
                return True
            seen.add(ln['key'])
    return False


class ParseBatch:
    """texts for the parse harness with what is expected of each"""

    def __init__(self):
        self.texts, self.meta = [], []

    def add(self, text, **meta):
        self.texts.append(base64.b64encode(text.encode('utf-8', 'surrogateescape')).decode())
        meta['text'] = text
        self.meta.append(meta)


def run_parse(ctx, batch):
    recs, rc, out = ctx.run_harness('./internal/verifh/c17', 'TestVerifC17Parse', inp={'texts': batch.texts}, timeout=1500)
    res = {}
    for x in recs:
        if x.get('kind') == 'parse':
            res[x['i']] = x
    summ = [x for x in recs if x.get('kind') == 'summary']
    if not summ:
        raise Infra('C17 parse harness wrote no summary:\n' + out[-2000:])
    return res, summ[0]


def judge_crash(ctx, meta, x):
    if x.get('panic'):
        ctx.violation('C17:parse:panic', {'text': meta['text'], 'panic': x['panic']}, 'Parse panicked (%s) on %r' % (x['panic'][:200], meta['text'][:300]))
        return True
    if x.get('hang'):
        ctx.violation('C17:parse:hang', {'text': meta['text']}, 'Parse did not return within 20 s on %r' % meta['text'][:300])
        return True
    return False


# ------------------------------------------------------------ generation
def gen_case(cid, recs, rng, go_known, mod_known, ctr_names):
    """abstract records [(prog, ctr, depth, min)] -> a case of the generate harness.
    go_known: rank -> Go version known to the proxy; mod_known: {prog number: {rank -> version}}
    for the module programs (or one dict for all); minimum versions are taken
    from the full pools (rank -> string)."""
    records = []
    for i, (p, c, d, m) in enumerate(recs):
        name, module, tool = PROGS[p - 1]
        pool = U.GO_POOL if tool else U.SEMVER_POOL
        ver = '' if m == 0 else pool[m - 1]
        if ver in SEM_ALIASES and rng.random() < 0.4:
            ver = rng.choice(SEM_ALIASES[ver])
        records.append({
            'Title': 'chart %d' % i, 'Description': rng.choice(['', 'some text']), 'Issue': ['https://go.dev/issue/%d' % (60000 + i)],
            'Type': 'stack' if d > 0 else rng.choice(['partition', 'partition', 'stack']),
            'Program': name, 'Module': module,
            'Counter': ctr_names[c], 'Depth': d, 'Error': rng.choice([0, 0.01]),
            'Version': ver})
    tv = ['v0.0.1-%s.%s' % (v, rng.choice(['linux-amd64', 'darwin-arm64', 'windows-386'])) for v in go_known.values()]
    if rng.random() < 0.3:
        tv.append('v0.0.1-go1.9.2rc2.linux-amd64')       # the invalid version the real proxy lists
    rng.shuffle(tv)
    versions = {'golang.org/toolchain': tv}
    paddings = {}
    for pi, (name, module, tool) in enumerate(PROGS):
        if tool:
            continue
        mk = mod_known.get(pi + 1, mod_known) if any(isinstance(v, dict) for v in mod_known.values()) else mod_known
        mv = list(mk.values())
        rng.shuffle(mv)
        versions[module] = mv
        paddings[name] = [rng.randint(0, 3), rng.randint(0, 1), rng.randint(0, 2), rng.randint(0, 2), rng.randint(0, 2)]
    return {'id': cid, 'records': records, 'versions': versions, 'paddings': paddings}


def abstract_gen(case, obs, recs, known_ranks, ctr_names):
    """the observed upload configuration in the vocabulary of ChartConfig.tla"""
    names = {v: k for k, v in ctr_names.items()}
    progs = {pr[0]: i + 1 for i, pr in enumerate(PROGS)}
    out = [{'present': False, 'versions': [], 'counters': [], 'stacks': []} for _ in range(NP)]
    extra = []
    depths = set(r[2] for r in recs)
    for p in obs.get('programs') or []:
        if p['name'] not in progs:
            extra.append(p['name'])
            continue
        o = out[progs[p['name']] - 1]
        o['present'] = True
        pool = U.GO_POOL if PROGS[progs[p['name']] - 1][2] else U.SEMVER_POOL
        o['versions'] = [pool.index(v) + 1 for v in p['versions'] if v in pool]
        for kind in ('counters', 'stacks'):
            for c in p[kind]:
                if c['name'] not in names:
                    names[c['name']] = len(names) + 1
                depths.add(c['depth'])
                o[kind].append(names[c['name']] if kind == 'counters' else [names[c['name']], c['depth']])
    return {'kind': 'gen', 'recs': [{'prog': p, 'ctr': c, 'depth': d, 'min': m} for (p, c, d, m) in recs],
            'known': [sorted(k) for k in known_ranks], 'nctr': len(names), 'depths': sorted(depths),
            'out': out}, extra


def classify_gen(o):
    """signature of an unexplained generation (established by the model / TLC)"""
    recs = o['recs']
    for p in range(1, NP + 1):
        tool = PROGS[p - 1][2]
        mine = [r for r in recs if r['prog'] == p]
        if not mine:
            if o['out'][p - 1]['present']:
                return 'C17:generate:program-invented'
            continue
        if not o['out'][p - 1]['present']:
            return 'C17:generate:program-missing'
        mins = [r['min'] for r in mine]
        mm = 0 if 0 in mins else min(mins)
        known = o['known'][p - 1]
        req = set(v for v in known if mm == 0 or v >= mm)
        got = set(o['out'][p - 1]['versions'])
        if not req <= got:
            if tool and 0 not in mins and mins[0] > mm and got == set(v for v in known if v >= mins[0]):
                return SIG_F14
            return 'C17:generate:versions-missing:%s' % ('toolchain' if tool else 'module')
    return 'C17:generate:counter-or-stack-lists'


def run(ctx):
    if ctx.replay:
        # a replay file records seed and tier; the run is deterministic in them, so
        # re-running with the same values re-executes the recorded case
        try:
            with open(ctx.replay) as f:
                rp = json.load(f)
            ctx.seed, ctx.tier = int(rp.get('seed', ctx.seed)), rp.get('tier', ctx.tier)
        except (OSError, ValueError):
            raise Infra('cannot read replay file %s' % ctx.replay)
    rng = random.Random(ctx.seed * 104729 + 17)
    ctx.assumptions += [
        'documented syntax = ChartConfig.tla part A: "---" lines, field lines with the key at column 0 and a non-empty value without "#", comments / blank lines anywhere, '
        'braces only in counter values of the form prefix{b1,...,bn}, the bucket list on one line or continued over lines (buckets without blanks); '
        'a stretch of lines without any field is no record; everything else is "unspecified": Parse must only terminate without panic',
        'values: non-empty after trimming, no leading/trailing blanks, no "#", no braces outside counter; depth canonical decimal integers (|n| < 1e9), error plain decimals; '
        'lines with control characters (other than TAB), CR or non-ASCII white space are not interpreted',
        'generation: records are complete and valid (title, issue, program, counter, type; depth>0 only for type stack; version a valid Go version for cmd/... programs, valid semver otherwise); '
        'known versions are valid and duplicate-free; one toolchain program (cmd/go) and one module program',
        '"every known version not older than the smallest minimum" is checked as a superset condition on the listed versions; listing additional (older or padded) versions is not judged',
        'version order: Go versions by (major, minor, language version < beta < rc < release, patch); semantic versions by semver precedence (canonical versions without build metadata)',
        'each counter expression must be listed exactly as often as there are records for it (as a stack iff the record has depth > 0) and no other expression may be listed',
        'the syntax puts no bound on line length: one description / one-line bucket list / comment / line of a multi-line bucket list per text is rendered with 65535, 65536, up to ~95 KiB and just above 1 MiB bytes (ChartConfigLong.tla); longer lines are not tried',
    ]
    ctx.inject('internal/verifh/c17', 'internal/configgen')

    # ==================================================================
    # A. record syntax, model -> code
    # ==================================================================
    batch = ParseBatch()
    # A1. line walks
    L = ctx.pick(4, 5)
    wkeys = ['title', 'program', 'issue', 'depth'] if not ctx.thorough() else ['title', 'program', 'issue', 'depth', 'error']
    cfg = ('SPECIFICATION Spec\nINVARIANTS FoldAgrees BlankIrrelevant RecordCount ValuesKept IssueOrder JunkUnspecified\nCHECK_DEADLOCK FALSE\n'
           'CONSTANTS\n MaxLines = %d\n WalkKeys = {%s}\n' % (L, ', '.join('"%s"' % k for k in wkeys)))
    r = ctx.tlc('ChartConfigWalk', cfg_text=cfg, dump=True, label='ChartConfigWalk', timeout=1500)
    if not r.ok:
        raise Infra('ChartConfigWalk: a sanity theorem of the syntax fails: %s %s\n%s' % (r.error, r.error_name, r.out[-3000:]))
    nwalk = 0
    for bi, block in enumerate(dump_blocks(r.dump)):
        v = dump_vars(block, ('lines', 'res'))
        lines, res = v['lines'], v['res']
        nwalk += 1
        for rep in range(2):
            lr = random.Random(ctx.seed * 1000003 + bi * 2 + rep)
            sk = lr.sample(U.STR_KEYS, 2)
            conc = U.Concretizer(lr, {'title': sk[0], 'program': sk[1], 'depth': lr.choice(['depth', 'error']) if 'error' not in wkeys else 'depth'})
            text = conc.text(lines) + '\n' * lr.choice([0, 0, 1, 2])
            exp = expected_records(conc, res['recs']) if res['ok'] else None
            batch.add(text, src='walk', lines=lines, exp=exp, id=bi)
    ctx.log('walk vectors:', nwalk)
    # A2. records x rendering choices (round trip)
    if ctx.thorough():
        consts = ' MaxRecs = 2\n SKeySets = {{}, {"title"}, {"title", "program"}}\n IssueCounts = {0, 2}\n CounterKinds = {"none", "braced3"}\n NumKinds = {"none", "zero", "val"}\n ErrKinds = {"none"}\n SepStyles = {"plain", "blanks", "extra"}\n MultiStyles = {"one", "split0", "split1", "lead"}\n'
    else:
        consts = ' MaxRecs = 2\n SKeySets = {{}, {"title", "version"}}\n IssueCounts = {0, 2}\n CounterKinds = {"none", "braced3"}\n NumKinds = {"none"}\n ErrKinds = {"none"}\n SepStyles = {"plain", "blanks", "extra"}\n MultiStyles = {"one", "split0", "split1", "lead"}\n'
    r = ctx.tlc('ChartConfigRender', cfg_text='SPECIFICATION Spec\nINVARIANT RoundTrip\nCHECK_DEADLOCK FALSE\nCONSTANTS\n' + consts, dump=True,
                label='ChartConfigRender-2', timeout=1500)
    if not r.ok:
        raise Infra('ChartConfigRender: the round trip fails in the specification: %s\n%s' % (r.error, r.out[-3000:]))
    dumps = [r.dump]
    # one record, every field combination of a richer space
    consts1 = (' MaxRecs = 1\n SKeySets = {{}, {"title"}, {"description", "type"}, {"title", "description", "type", "program", "module", "version"}}\n'
               ' IssueCounts = {0, 1, 2}\n CounterKinds = {"none", "plain", "braced1", "braced3"}\n NumKinds = {"none", "zero", "val"}\n ErrKinds = {"none"}\n SepStyles = {%s}\n MultiStyles = {"one", "split0", "split1", "lead"}\n' % (
                   '"plain", "blanks", "extra"' if ctx.thorough() else '"blanks"'))
    r = ctx.tlc('ChartConfigRender', cfg_text='SPECIFICATION Spec\nINVARIANT RoundTrip\nCHECK_DEADLOCK FALSE\nCONSTANTS\n' + consts1, dump=True,
                label='ChartConfigRender-1', timeout=1500)
    if not r.ok:
        raise Infra('ChartConfigRender: the round trip fails in the specification: %s\n%s' % (r.error, r.out[-3000:]))
    dumps.append(r.dump)
    # every field optional or present: all 64 subsets of the string fields x both numeric fields x issue x counter
    extra_families = [
        ('ChartConfigRender-fields',
         ' MaxRecs = 1\n SKeySets = {%s}\n IssueCounts = {0, 3}\n' % ', '.join(
             '{' + ', '.join('"%s"' % k for k in sub) + '}' for n in range(7) for sub in itertools.combinations(U.STR_KEYS, n)) +
         ' CounterKinds = {"none", "plain"}\n NumKinds = {"none", "val"}\n ErrKinds = {%s}\n SepStyles = {"plain"}\n MultiStyles = {"one"}\n' % ('"none", "zero", "val"' if ctx.thorough() else '"none", "val"')),
        # three records (a separator before AND after the middle record)
        ('ChartConfigRender-3',
         ' MaxRecs = 3\n SKeySets = {{}, {"title"}}\n IssueCounts = {0}\n CounterKinds = {"none"}\n NumKinds = {"none"}\n ErrKinds = {"none", "val"}\n'
         ' SepStyles = {"plain", "extra"}\n MultiStyles = {"one"}\n'),
    ]
    for (lab, cst) in extra_families:
        r = ctx.tlc('ChartConfigRender', cfg_text='SPECIFICATION Spec\nINVARIANT RoundTrip\nCHECK_DEADLOCK FALSE\nCONSTANTS\n' + cst, dump=True, label=lab, timeout=1500)
        if not r.ok:
            raise Infra('ChartConfigRender: the round trip fails in the specification: %s\n%s' % (r.error, r.out[-3000:]))
        dumps.append(r.dump)
    nrender = 0
    for dp in dumps:
        for bi, block in enumerate(dump_blocks(dp)):
            v = dump_vars(block, ('lines', 'want'))
            nrender += 1
            lr = random.Random(ctx.seed * 999983 + nrender)
            uses_error = any(ln['k'] == 'field' and ln['key'] == 'error' for ln in v['lines'])
            conc = U.Concretizer(lr, {'depth': 'depth' if uses_error else lr.choice(['depth', 'depth', 'error'])})
            text = conc.text(v['lines']) + '\n' * lr.choice([0, 0, 1, 1, 2])      # final newline absent / present / blank last line
            batch.add(text, src='render', lines=v['lines'], exp=expected_records(conc, v['want']), id=nrender)
    ctx.log('render vectors:', nrender)
    # A3. line-length classes: one line of each kind, in the first / middle / last record,
    #     rendered just below / at / above 64 KiB and above 1 MiB
    r = ctx.tlc('ChartConfigLong', dump=True, label='ChartConfigLong', timeout=600)
    if not r.ok:
        raise Infra('ChartConfigLong: the round trip fails in the specification: %s %s\n%s' % (r.error, r.error_name, r.out[-3000:]))
    nlong = 0
    for bi, block in enumerate(dump_blocks(r.dump)):
        v = dump_vars(block, ('lines', 'want', 'longAt', 'kind', 'cls', 'pos'))
        for rep in range(ctx.pick(1, 3)):
            lr = random.Random(ctx.seed * 15485863 + bi * 3 + rep)
            conc = U.Concretizer(lr)
            target = U.LONG_SIZES[v['cls']](lr)
            out = U.inflate(conc, v['lines'], v['longAt'] - 1, v['kind'], target)
            text = '\n'.join(out) + ('\n' if lr.random() < 0.5 else '')
            nlong += 1
            batch.add(text, src='long', lines=v['lines'], exp=expected_records(conc, v['want']), id=bi,
                      long={'kind': v['kind'], 'class': v['cls'], 'bytes': target, 'record': v['pos'], 'line': v['longAt']})
    ctx.log('long-line vectors:', nlong)
    ctx.cov['long_line_vectors'] = nlong
    res, summ = run_parse(ctx, batch)
    matched = 0
    unspec_accepted = 0
    sampled = 0
    for i, meta in enumerate(batch.meta):
        x = res.get(i)
        if x is None:
            if summ.get('aborted'):
                continue
            raise Infra('parse harness: no record for text %d' % i)
        if judge_crash(ctx, meta, x):
            continue
        ctx.cov['evaluations'] += 1
        if meta['exp'] is None:
            if x.get('ok'):
                unspec_accepted += 1
                if repeated_scalar(meta['lines']):
                    # not a violation of C17 as stated (the text is no rendering of records), but the
                    # documentation allows only `issue` to be repeated: report it as a divergence
                    ctx.cov['divergences'] += 1
                    if ctx.cov['divergences'] == 1:
                        ctx.warn('MODEL-DIVERGENCE: Parse accepts a record that repeats a scalar field: %r' % meta['text'][:200])
            matched += 1
            continue
        if meta.get('long'):
            # keep the replay file and the message readable: cut every line
            meta = dict(meta, text='\n'.join(l if len(l) <= 160 else l[:120] + '...[%d bytes]' % len(l.encode('utf-8')) for l in meta['text'].split('\n')),
                        exp='(the 3 records of ChartConfigLong.tla)')
        lsig = ':long-line:%s' % meta['long']['kind'] if meta.get('long') else ''
        lmsg = ' [line %(line)d (%(kind)s, record %(record)d of 3) is %(bytes)d bytes long]' % meta['long'] if meta.get('long') else ''
        if not x.get('ok'):
            ctx.violation('C17:parse:roundtrip:error:%s%s' % (features(meta['lines']), lsig), {'text': meta['text'], 'expected': meta['exp'], 'error': x.get('err'), 'long': meta.get('long')},
                          'a rendering of %d records in the documented syntax is rejected%s: %s\n--- text ---\n%s' % (len(batch.meta[i]['exp']), lmsg, x.get('err'), meta['text'][:900]))
            continue
        got = [U.abstract_record(g) for g in x['recs']]
        d = first_diff(batch.meta[i]['exp'], got)
        if d:
            ctx.violation('C17:parse:roundtrip:%s:%s%s' % (d, features(meta['lines']), lsig),
                          {'text': meta['text'], 'expected': meta['exp'], 'got': got if not lsig else '%d records' % len(got), 'long': meta.get('long')},
                          'rendering and parsing back does not return the same records (first difference: %s; %d records expected, %d returned)%s\n--- text ---\n%s\n--- expected ---\n%s\n--- got ---\n%s' % (
                              d, len(batch.meta[i]['exp']), len(got), lmsg, meta['text'][:900], json.dumps(meta['exp'])[:600], json.dumps(got)[:600]))
            continue
        matched += 1
        if sampled < 2 and len(meta['exp']) == 2 and 'multiline' in features(meta['lines']):
            sampled += 1
            ctx.sample({'kind': 'rendered text parsed back to the same records', 'text': meta['text'], 'records': meta['exp']})
    ctx.cov['syntax_vectors'] = len(batch.meta)
    ctx.cov['unspecified_texts_accepted_by_parse'] = unspec_accepted
    ctx.cov['traces_validated_against_impl'] += matched

    # ==================================================================
    # B. record syntax, code -> model: random texts decided by TLC
    # ==================================================================
    obs, obs_meta = [], []
    tb = ParseBatch()
    specials = []
    try:
        with open(os.path.join(REPO, 'internal', 'chartconfig', 'config.txt'), encoding='utf-8') as f:
            specials.append(f.read())
    except OSError:
        pass
    specials.append(DOC_EXAMPLE)
    specials += ['', '\n', '---', '---\n---\n', '#', 'counter: x:{a,\n', 'counter: x:{a,\n---\nb}\n', 'title: t\ntitle: u\n', '}', 'counter: a{\n\n\nb}\n']
    for t in specials:
        tb.add(t, src='special')
    ntext = ctx.pick(1500, 20000)
    alphabet_ok = ['sep', 'blank', 'field', 'field', 'field', 'field', 'issue', 'counter1', 'counterb', 'multi']
    for k in range(ntext):
        lr = random.Random(ctx.seed * 7368787 + k)
        conc = U.Concretizer(lr)
        n = lr.choice([1, 2, 3, 5, 8, 13, 30])
        pj = lr.choice([0, 0, 0.03, 0.15, 0.5])
        lines = []
        nv = 0
        while len(lines) < n:
            nv += 1
            what = 'junk' if lr.random() < pj else lr.choice(alphabet_ok)
            if what == 'field':
                key = lr.choice(U.STR_KEYS + U.NUM_KEYS)
                lines.append(U.L('field', key, '7' if key in U.NUM_KEYS and lr.random() < 0.8 else ('0' if key in U.NUM_KEYS else 't%d' % nv)))
            elif what == 'issue':
                lines.append(U.L('field', 'issue', 't%d' % nv))
            elif what == 'counter1':
                lines.append(U.L('field', 'counter', 't%d' % nv))
            elif what == 'counterb':
                lines.append(U.L('field', 'counter', 't%d' % nv, ['b%d.%d' % (nv, j) for j in range(lr.randint(1, 4))]))
            elif what == 'multi':
                style = lr.choice(['trail', 'trail', 'lead', 'own-line', 'random'])
                first = lr.random() < 0.5 and style != 'own-line'
                nmid = lr.randint(0 if first else 1, 3)
                flag = lambda: lr.random() < 0.5
                lines.append(U.L('copen', 'counter', 't%d' % nv, ['b%d.0' % nv] if first else [],
                                 False, first and (style == 'trail' or (style == 'random' and flag()))))
                for j in range(nmid):
                    if lr.random() < 0.2:
                        lines.append(U.L('blank'))
                    have = first or j > 0
                    last = j == nmid - 1
                    lines.append(U.L('cmid', '', '', ['b%d.%d.%d' % (nv, j, q) for q in range(lr.randint(1, 2))],
                                     flag() if style == 'random' else (style == 'lead' and have),
                                     flag() if style == 'random' else (style == 'trail' or (style == 'own-line' and not last))))
                if lr.random() < 0.9:
                    if style == 'own-line':
                        lines.append(U.L('cclose'))
                    else:
                        lines.append(U.L('cclose', '', '', ['b%d.z' % nv], flag() if style == 'random' else style == 'lead', False))
            else:
                lines.append(U.L(what))
        text = conc.text(lines)
        if lr.random() < 0.1:
            text = text.replace('\n', '\r\n')
        if lr.random() < 0.05:
            text += '\n'
        tb.add(text, src='random')
    res, summ = run_parse(ctx, tb)
    for i, meta in enumerate(tb.meta):
        x = res.get(i)
        if x is None:
            if summ.get('aborted'):
                continue
            raise Infra('parse harness: no record for text %d' % i)
        if judge_crash(ctx, meta, x):
            continue
        ctx.cov['evaluations'] += 1
        o = {'kind': 'parse', 'lines': U.lex(meta['text']), 'ok': bool(x.get('ok')),
             'recs': [U.abstract_record(g) for g in (x.get('recs') or [])]}
        obs.append(o)
        obs_meta.append(meta)
    nparse_obs = len(obs)

    # ==================================================================
    # C. generation, model -> code
    # ==================================================================
    # the known versions: a seed-dependent subset of the pools, as ranks (= index in the pool)
    go_known = {i + 1: v for i, v in enumerate(U.GO_POOL) if rng.random() < 0.7 or i in (6, 9)}
    mod_known = {i + 1: v for i, v in enumerate(U.SEMVER_POOL) if rng.random() < 0.7 or i in (2, 6)}
    for pool, key in ((U.GO_POOL, U.go_key), (U.SEMVER_POOL, U.sem_key)):
        ks = [key(v) for v in pool]
        if None in ks or ks != sorted(ks) or len(set(ks)) != len(ks):
            raise Infra('version pool is not strictly ascending under the independent order')
    # minimum versions the records may carry: a few ranks spread over the pools (the same ranks for both programs)
    top = min(len(U.GO_POOL), len(U.SEMVER_POOL))
    mins = sorted(rng.sample(range(1, top + 1), ctx.pick(3, 4)))
    ctr_names = {1: 'gopls/editor:{emacs,vim,vscode,other}', 2: 'gopls/bug'}
    depth = rng.choice([1, 5, 16])
    gen_cfgs = []      # (MaxRecs, Ctrs, Mins, NProgs)
    if ctx.thorough():
        gen_cfgs.append((3, '{1, 2}', mins, 2))
        gen_cfgs.append((2, '{1, 2}', mins, 4))
    else:
        gen_cfgs.append((2, '{1, 2}', mins[:1] + mins[-1:], 4))      # two toolchain and two module programs
        gen_cfgs.append((3, '{1}', mins[:1] + mins[-1:], 2))
    cases, exps = [], []
    for (mr, ctrs, ms, npg) in gen_cfgs:
        cfg = ('SPECIFICATION Spec\nINVARIANTS OrderIndependent EachListedOnce PrefixMonotone OwnMinListed Isolated\nCHECK_DEADLOCK FALSE\nCONSTANTS\n'
               ' MaxRecs = %d\n Ctrs = %s\n Depths = {0, %d}\n Mins = {0, %s}\n NProgs = %d\n ToolProgs = {%s}\n Known1 = {%s}\n Known2 = {%s}\n' % (
                   mr, ctrs, depth, ', '.join(map(str, ms)), npg, ', '.join(str(i + 1) for i in range(npg) if PROGS[i][2]),
                   ', '.join(map(str, go_known)), ', '.join(map(str, mod_known))))
        r = ctx.tlc('ChartConfigGen', cfg_text=cfg, dump=True, label='ChartConfigGen-%d-%dprogs' % (mr, npg), timeout=2400)
        if not r.ok:
            raise Infra('ChartConfigGen: a sanity theorem fails: %s %s\n%s' % (r.error, r.error_name, r.out[-3000:]))
        for st in tlaval.read_dump(r.dump):
            recs = [(x['prog'], x['ctr'], x['depth'], x['min']) for x in st['recs']]
            if mr == 3 and len(gen_cfgs) > 1 and len(recs) < 3:
                continue
            # nctr / nstk are indexed by position in Ctrs
            for k in ('nctr', 'nstk'):
                st[k] = [list(v) + [0] * (2 - len(v)) for v in st[k]] + [[0, 0]] * (NP - len(st[k]))
            st['present'] = list(st['present']) + [False] * (NP - len(st['present']))
            st['req'] = list(st['req']) + [[]] * (NP - len(st['req']))
            st['minv'] = list(st['minv']) + [-1] * (NP - len(st['minv']))
            cr = random.Random(ctx.seed * 31 + len(cases))
            cases.append(gen_case(len(cases), recs, cr, go_known, mod_known, ctr_names))
            exps.append((recs, st))
    ctx.log('generation vectors:', len(cases))

    # D. generation + padding, code -> model (random record lists, exhaustive small padding parameters)
    rcases, rmeta = [], []
    for k in range(ctx.pick(300, 4000)):
        cr = random.Random(ctx.seed * 8191 + k)
        dens = cr.choice([0.0, 0.1, 0.6, 0.6, 0.6, 1.0])      # no / few / all versions known
        gk = {i + 1: v for i, v in enumerate(U.GO_POOL) if cr.random() < dens}
        mk = {pi + 1: {i + 1: v for i, v in enumerate(U.SEMVER_POOL) if cr.random() < cr.choice([0.0, 0.6, 0.6, 1.0])} for pi in range(NP) if not PROGS[pi][2]}
        names = {i + 1: n for i, n in enumerate(cr.sample(['gopls/editor:{emacs,vim}', 'gopls/bug', 'go/invocations', 'crash/crash', 'go/goexperiment:{a,b}'], 3))}
        recs = [(cr.choice([1, 1, 2, 2, 3, 4]), cr.randint(1, 3), cr.choice([0, 0, 1, 8, 16]), cr.choice([0] + list(range(1, top + 1)))) for _ in range(cr.randint(1, 6))]
        rcases.append(gen_case(len(cases) + k, recs, cr, gk, mk, names))
        rmeta.append((recs, [set(gk) if PROGS[pi][2] else set(mk[pi + 1]) for pi in range(NP)], names))
    pads = []
    universe = ['v%d.%d.%d%s' % (a, b, c, p) for a in range(0, 3) for b in range(0, 3) for c in range(0, 3) for p in ('', '-pre.1', '-pre.2', '-pre.4', '-rc.1')]
    lists = [[], ['v0.1.0'], ['v0.14.0', 'v0.15.0-pre.1', 'v0.15.0'], ['v1.0.0-pre.1'], ['v0.0.0'], ['v0.2.0', 'v0.2.1-pre.1', 'v0.2.1-pre.2'],
             ['v1.2.2', 'v1.2.3-pre.2'], ['v2.2.2', 'v0.0.1'],
             # two-digit components: numeric, not lexical, order (v0.9.0 < v0.10.0; the padding of v0.0.9 is v0.0.10)
             # real versions that are not in canonical form must come back as they are (exact string)
             ['v1.9.0', 'v2.0.0+incompatible'], ['v2.0.0', 'v2.0.0+incompatible', 'v2.0.1-pre.1+incompatible'], ['v1.2', 'v1.2.1'], ['v1', 'v1.0.0'],
             ['v0.15.0+build.7', 'v0.15.0-pre.1+exp.sha.5114f85'], ['v3'],
             ['v0.9.0', 'v0.10.0'], ['v0.0.9'], ['v1.9.9', 'v1.10.0-pre.1'], ['v9.9.9', 'v10.0.0-pre.2', 'v0.10.0']]
    real_pads = [(6, 1, 3, 6, 4), (8, 1, 4, 5, 0), (4, 1, 1, 4, 0), (2, 1, 1, 2, 2), (2, 1, 1, 2, 0), (2, 1, 2, 0, 0)]      # configgen's own tables
    for _ in range(ctx.pick(6, 40)):
        lists.append(rng.sample(universe, rng.randint(1, 12)))
    pvals = [0, 1, 2] if not ctx.thorough() else [0, 1, 2, 3]
    allp = list(itertools.product(pvals, [0, 1, 2], [0, 1, 2], pvals, pvals))
    for li, vs in enumerate(lists):
        plist = (allp if (li < 3 or ctx.thorough()) else rng.sample(allp, 40)) + real_pads
        for pd in plist:
            pats = ['pre.1', 'pre.2', 'pre.3', 'pre.4', 'pre.5', 'pre.6', 'pre.7', 'pre.8'] if (li + sum(pd)) % 4 else ['rc.1', 'rc.2']
            if (li * 7 + sum(pd)) % 11 == 0:
                pats = []          # no prerelease patterns at all
            vv = list(vs)
            rng.shuffle(vv)
            pads.append({'id': len(pads), 'versions': vv, 'patterns': pats, 'padding': list(pd)})
    grecs, rc, out = ctx.run_harness('./internal/configgen', 'TestVerifC17Gen', inp={'gen': cases + rcases, 'pad': pads}, timeout=1500)
    if not [x for x in grecs if x.get('kind') == 'summary']:
        raise Infra('C17 gen harness wrote no summary:\n' + out[-2000:])
    gobs = {x['id']: x for x in grecs if x.get('kind') == 'gen'}
    pobs = {x['id']: x for x in grecs if x.get('kind') == 'pad'}

    def gen_crash(case, x):
        if x.get('panic') or x.get('hang'):
            ctx.violation('C17:generate:%s' % ('panic' if x.get('panic') else 'hang'), {'case': case, 'obs': x}, 'generate %s on %s' % (x.get('panic') or 'hung', json.dumps(case['records'])[:500]))
            return True
        if x.get('err'):
            ctx.violation('C17:generate:error', {'case': case, 'error': x['err']}, 'generate fails on valid records: %s' % x['err'])
            return True
        return False

    # C (cont.): compare the model-generated vectors with the model's expectation
    gmatched = 0
    for case, (recs, st) in zip(cases, exps):
        x = gobs.get(case['id'])
        if x is None:
            raise Infra('gen harness: no record for case %d' % case['id'])
        if gen_crash(case, x):
            continue
        ctx.cov['evaluations'] += 1
        o, extra = abstract_gen(case, x, recs, [set(go_known) if PROGS[i][2] else set(mod_known) for i in range(NP)], ctr_names)
        ok = not extra
        for p in range(1, NP + 1):
            op = o['out'][p - 1]
            ok = ok and op['present'] == st['present'][p - 1]
            ok = ok and set(st['req'][p - 1]) <= set(op['versions'])
            for c in (1, 2):
                ok = ok and op['counters'].count(c) == st['nctr'][p - 1][c - 1]
                ok = ok and sum(1 for s in op['stacks'] if s[0] == c) == st['nstk'][p - 1][c - 1]
                ok = ok and all(any(r[0] == p and r[1] == c and r[2] == s[1] for r in recs) for s in op['stacks'] if s[0] == c)
            ok = ok and len(op['counters']) == sum(st['nctr'][p - 1]) and len(op['stacks']) == sum(st['nstk'][p - 1])
        if ok:
            gmatched += 1
            continue
        sig = classify_gen(o) if not extra else 'C17:generate:program-invented'
        ctx.violation(sig, {'case': case, 'abstract_records': recs, 'expected': {k: st[k] for k in ('present', 'minv', 'req', 'nctr', 'nstk')}, 'observed': x},
                      'generate(%s): specification demands versions %s (minimum rank %s), counters %s, stacks %s; the real configuration lists %s' % (
                          [(r['Program'], r['Counter'], r['Depth'], r['Version']) for r in case['records']], st['req'], st['minv'], st['nctr'], st['nstk'],
                          [(p['name'], p['versions'], [c['name'] for c in p['counters']], [(c['name'], c['depth']) for c in p['stacks']]) for p in x.get('programs', [])]))
    ctx.cov['generation_vectors'] = len(cases)
    ctx.cov['traces_validated_against_impl'] += gmatched
    if cases:
        c0 = cases[len(cases) // 2]
        ctx.sample({'kind': 'generation vector', 'records': [(r['Program'], r['Counter'], r['Depth'], r['Version']) for r in c0['records']],
                    'expected': {k: exps[len(cases) // 2][1][k] for k in ('minv', 'req', 'nctr', 'nstk')}})

    # D (cont.): observations for TLC
    for case, (recs, kr, names) in zip(rcases, rmeta):
        x = gobs.get(case['id'])
        if x is None:
            raise Infra('gen harness: no record for case %d' % case['id'])
        if gen_crash(case, x):
            continue
        ctx.cov['evaluations'] += 1
        o, extra = abstract_gen(case, x, recs, kr, names)
        if extra:
            ctx.violation('C17:generate:program-invented', {'case': case, 'obs': x}, 'generate lists programs %s no record names' % extra)
            continue
        obs.append(o)
        obs_meta.append({'case': case, 'obs': x})
        # the version list of the module program is a padded list: all real versions >= min, sorted, no duplicates
        for p in x.get('programs') or []:
            pn = [i + 1 for i, pr in enumerate(PROGS) if pr[0] == p['name'] and not pr[2]]
            if pn:
                mins_ = [r[3] for r in recs if r[0] == pn[0]]
                mm = 0 if 0 in mins_ else min(mins_)
                src = [U.SEMVER_POOL[v - 1] for v in sorted(kr[pn[0] - 1]) if mm == 0 or v >= mm]
                add_pad_obs(ctx, obs, obs_meta, src, p['versions'], {'case': case, 'via': 'generate'})
    for pc in pads:
        x = pobs.get(pc['id'])
        if x is None:
            raise Infra('gen harness: no record for pad case %d' % pc['id'])
        if x.get('panic') or x.get('hang'):
            ctx.violation('C17:pad:%s' % ('panic' if x.get('panic') else 'hang'), {'case': pc, 'obs': x}, 'padVersions(%s, %s): %s' % (pc['versions'], pc['padding'], x.get('panic') or 'hung'))
            continue
        ctx.cov['evaluations'] += 1
        add_pad_obs(ctx, obs, obs_meta, pc['versions'], x['out'], {'case': pc, 'via': 'padVersions'})
    ctx.cov['observations'] = len(obs)

    # ==================================================================
    # E. TLC decides the observations
    # ==================================================================
    nexpl = 0
    chunk = 4000
    for i in range(0, len(obs), chunk):
        part = obs[i:i + chunk]
        r = ctx.tlc('ChartConfigTrace', files={'c17obs.ndjson': ndjson_text(part)}, workers=1, label='ChartConfigTrace[%d]' % (i // chunk),
                    count=False, timeout=1500, stack='64m')
        badix = []
        if r.error == 'invariant':
            st = r.trace[-1][1] if r.trace else {}
            badix = list(st.get('bad') or [])
            if not badix:
                raise Infra('ChartConfigTrace: invariant violated but no unexplained record found\n' + r.out[-2000:])
        elif not r.ok:
            raise Infra('ChartConfigTrace: %s\n%s' % (r.error, r.out[-3000:]))
        nexpl += len(part) - len(badix)
        for l in badix:
            o, meta = part[l - 1], obs_meta[i + l - 1]
            if o['kind'] == 'parse':
                why = 'error' if not o['ok'] else 'records'
                ctx.violation('C17:parse:observed:%s:%s' % (why, features(o['lines'])), {'text': meta['text'], 'lines': o['lines'], 'got': o['recs'], 'ok': o['ok']},
                              'a text that is a rendering of records in the documented syntax was parsed to %s\n--- text ---\n%s' % (
                                  'an error' if not o['ok'] else json.dumps(o['recs'])[:600], meta['text'][:800]))
            elif o['kind'] == 'gen':
                case, x = meta['case'], meta['obs']
                ctx.violation(classify_gen(o), {'case': case, 'abstract': o, 'observed': x},
                              'generate(%s) with known Go versions %s / module versions %s lists %s' % (
                                  [(r['Program'], r['Counter'], r['Depth'], r['Version']) for r in case['records']],
                                  sorted(case['versions']['golang.org/toolchain']), {k: sorted(v) for k, v in case['versions'].items() if k != 'golang.org/toolchain'},
                                  [(p['name'], p['versions'], [c['name'] for c in p['counters']], [(c['name'], c['depth']) for c in p['stacks']]) for p in x.get('programs', [])]))
            else:
                missing = [s for s in meta['src'] if s not in meta['dst']]
                kind = 'real-version-missing' if missing else 'unsorted-or-duplicate'
                ctx.violation('C17:pad:%s' % kind, meta, 'padded list of %s (%s) is %s' % (meta['src'], meta['info'].get('via'), meta['dst']))
    ctx.cov['observations_explained'] = nexpl
    ctx.cov['traces_validated_against_impl'] += nexpl
    if nparse_obs:
        k = min(len(specials), nparse_obs - 1)
        ctx.sample({'kind': 'random text decided by TLC', 'text': obs_meta[k]['text'][:400], 'parse_ok': obs[k]['ok'], 'records': len(obs[k]['recs'])})
    ctx.cov['rule'] = ('vectors = every abstract line sequence of <= %d lines (ChartConfigWalk) and every record set x rendering choice (ChartConfigRender), each concretized '
                       'with random values / white space / comments / comma styles and parsed by the real Parse; every record sequence of <= 3 records over 2 programs '
                       '(ChartConfigGen) generated by the real generate; observations = random texts, random record lists and padVersions results decided by TLC') % L
    ctx.cov['distinct_nontrivial'] = nwalk + nrender + len(cases)


def add_pad_obs(ctx, obs, obs_meta, src, dst, info):
    rk = U.ranks(list(src) + list(dst), U.sem_key)
    if rk is None:
        ctx.warn('padded list contains a version outside the canonical semver grammar: %s' % [v for v in dst if U.sem_key(v) is None][:3])
        return
    obs.append({'kind': 'pad', 'src': [rk[v] for v in src], 'dst': [rk[v] for v in dst]})
    obs_meta.append({'src': list(src), 'dst': list(dst), 'info': info})


DOC_EXAMPLE = '''# This config defines an ordinary counter.
counter: gopls/editor:{emacs,vim,vscode,other} # TODO(golang/go#34567): add more editors
title: Editor Distribution
description: measure editor distribution for gopls users.
type: partition
issue: https://go.dev/issue/12345
program: golang.org/x/tools/gopls
module: golang.org/x/tools/gopls
version: v1.0.0

---

# This config defines a stack counter.
counter: gopls/bug
title: Gopls bug reports.
description: Stacks of bugs encountered on the gopls server.
issue: https://go.dev/12345
issue: https://go.dev/23456 # increase stack depth
type: stack
program: golang.org/x/tools/gopls
module: golang.org/x/tools/gopls
depth: 10
'''
