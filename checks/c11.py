"""C11 — uploader, upload server and local viewer agree on what is approved.

Approval.tla defines the documented configuration semantics (build approval on
program / version / Go version / GOOS / GOARCH, counters after expanding
chart:{bucket,...}, stacks by the text before the first newline) and the three
verdicts (UploadReport5, ServerAccepts, ViewerSetExcluded / ViewerExcludedNames).
Every vector of ApprovalVec (families names, builds, server) and every seeded
random case goes through the three real deciders:

  * the uploader (upload.Run, harness internal/verifh/c01),
  * the upload endpoint (newHandler of godev/cmd/telemetrygodev) — fed with the
    bodies the real uploader produced, with TLC's report vectors and with random
    reports,
  * the viewer (files/newCounterFile/summary of cmd/gotelemetry/internal/view).
"""
import html
import json
import random
import re

from vlib.core import Infra

from . import _approval as A

P = 'C11'


def viol(ctx, sig, detail, text):
    fc = ctx.cov.setdefault('finding_counts', {})
    fc[sig] = fc.get(sig, 0) + 1
    return ctx.violation(sig, detail, text)


# ------------------------------------------------------------------ uploader vs the semantics
def uploader_diff(ctx, cfg, d, x, exp, body, detail):
    """exp: up5 / b5 / local as python sets.  True when the body is what the
    documented semantics demand."""
    # a counter present with value 0: "present locally" is not explicit about it; left out of the comparison
    body.data = set(x_ for x_ in body.data if x_[2] != 0)
    exp = dict(exp, up5=set(x_ for x_ in exp['up5'] if x_[2] != 0))
    if body.data == exp['up5'] and body.progs <= exp['b5']:
        return True
    flagged = set()
    for b in sorted(body.progs - exp['b5']):
        unl = A.Sem.unlisted_fields(cfg, b)
        flagged.add(b)
        viol(ctx, '%s:uploader:names-build-with-unlisted:%s' % (P, '+'.join(unl) or 'none'),
             dict(detail, build=b, config=A.concrete_cfg(cfg, d), body=body.text),
             'the uploader\'s report names the program build %r although the configuration does not list its %s' % (b, '/'.join(unl)))
    sigs = {}
    for t in sorted(body.data - exp['up5']):
        if t[0] not in flagged:
            sigs.setdefault(A.classify_datum(cfg, x, exp['local'], t, 'extra'), t)
    for t in sorted(exp['up5'] - body.data):
        sigs.setdefault(A.classify_datum(cfg, x, exp['local'], t, 'missing'), t)
    for s, t in sigs.items():
        viol(ctx, '%s:uploader:%s' % (P, s), dict(detail, datum=t, config=A.concrete_cfg(cfg, d), X=x / d, body=body.text),
             'the uploader\'s report for X=%g %s %r, against the documented semantics (%s)' % (
                 x / d, 'carries' if s.startswith('extra') else 'lacks', t, s))
    return False


def reject_reason(cfg, body):
    """Why would the documented semantics reject this body (naming only)."""
    fields = set()
    for b in body.progs:
        fields |= set(A.Sem.unlisted_fields(cfg, b))
    if fields:
        order = ['program', 'version', 'gover', 'goos', 'goarch']
        return 'build-unlisted:' + '+'.join(f for f in order if f in fields)
    for (b, n, _v) in body.data:
        if '\n' in n:
            if not A.Sem.stack_rates(cfg, b[0], n.split('\n', 1)[0]):
                return 'stack-unlisted'
        elif not A.Sem.counter_rates(cfg, b[0], n):
            return 'counter-unlisted'
    return 'nothing-unlisted'


# ------------------------------------------------------------------ server
def rep_body(rep, week_date, x=0.5, cfgver='v0.77.0'):
    """A report vector (set of entries with token names) -> JSON body."""
    progs = []
    for e in sorted(rep, key=lambda e: (A.btuple(e['build']), sorted(e['counters']), sorted(e['stacks']))):
        b = e['build']
        progs.append({'Program': b['program'], 'Version': b['version'], 'GoVersion': b['gover'], 'GOOS': b['goos'], 'GOARCH': b['goarch'],
                      'Counters': {n: 1 + i for i, n in enumerate(sorted(e['counters']))},
                      'Stacks': {n: 2 + i for i, n in enumerate(sorted(e['stacks']))}})
    return json.dumps({'Week': week_date, 'LastWeek': '', 'X': x, 'Programs': progs, 'Config': cfgver})


def abs_rep_of_body(body_text):
    """The abstract report ApprovalTrace's `server` records carry, from a body."""
    j = json.loads(body_text)
    rep = []
    for p in j.get('Programs') or []:
        rep.append({'build': {'program': p.get('Program'), 'version': p.get('Version'), 'gover': p.get('GoVersion'),
                              'goos': p.get('GOOS'), 'goarch': p.get('GOARCH')},
                    'counters': [A.chars(n) for n in (p.get('Counters') or {})],
                    'stacks': [A.chars(n) for n in (p.get('Stacks') or {})]})
    return rep


def random_reports(rng, c):
    """Reports around a random case: the local aggregate as it is, the aggregate
    restricted to each build, and single-field variations."""
    out = []
    by = {}
    for f in c['files']:
        e = by.setdefault(A.btuple(f['build']), {'build': f['build'], 'counters': set(), 'stacks': set()})
        for cn in f['counts']:
            (e['stacks'] if '\n' in cn['n'] else e['counters']).add(cn['n'])
    entries = list(by.values())
    cfg = c['cfg']

    def listed_only(e):
        prog = e['build']['program']
        return {'build': e['build'],
                'counters': set(n for n in e['counters'] if A.Sem.counter_rates(cfg, prog, n)),
                'stacks': set(n for n in e['stacks'] if A.Sem.stack_rates(cfg, prog, n.split('\n', 1)[0]))}
    out.append(entries)
    out.append([listed_only(e) for e in entries])
    for e in entries:
        le = listed_only(e)
        out.append([le])
        k = rng.randrange(4)
        if k == 0 and e['counters'] - le['counters']:
            out.append([dict(le, counters=le['counters'] | {rng.choice(sorted(e['counters'] - le['counters']))})])
        elif k == 1 and e['stacks'] - le['stacks']:
            out.append([dict(le, stacks=le['stacks'] | {rng.choice(sorted(e['stacks'] - le['stacks']))})])
        elif k == 2:
            b = dict(e['build'])
            fld = rng.choice(A.BUILD_KEYS)
            b[fld] = rng.choice({'program': A.PROGRAMS, 'version': A.VERSIONS, 'gover': A.GOVERS, 'goos': A.GOOSES, 'goarch': A.GOARCHES}[fld])
            out.append([dict(le, build=b)])
        else:
            # a counter filed among the stacks and the other way round
            out.append([dict(le, counters=set(le['stacks']), stacks=set(le['counters']))])
    return out


# ------------------------------------------------------------------ viewer
SET_PHRASE = 'No data from this set would be uploaded'


def decode_viewer(rec):
    s = rec.get('summary') or ''
    setx = SET_PHRASE in s
    labels = []
    m = re.search(r'Unregistered counter\(s\) (.*) would be excluded from a report', s, re.S)
    if m:
        labels = [html.unescape(x) for x in re.findall(r'<code>(.*?)</code>', m.group(1), re.S)]
    xnames = [c['name'] for c in rec.get('counts') or [] if not c['active']]
    xnames += [c['name'] + '\n' + c['trace'] for c in rec.get('stacks') or [] if not c['active']]
    allnames = [c['name'] for c in rec.get('counts') or []] + [c['name'] + '\n' + c['trace'] for c in rec.get('stacks') or []]
    return {'setx': setx, 'labels': labels, 'xnames': xnames, 'meta': rec.get('meta') or {}, 'names': allnames}


def viewer_diff(ctx, cfg, d, f, want, got, detail):
    """want: the vector's viewer entry (setx, meta, xnames); got: decode_viewer."""
    good = True
    prog = f['build']['program']
    det = dict(detail, file=f, config=A.concrete_cfg(cfg, d), viewer=got)
    if got['setx'] != want['setx']:
        unl = A.Sem.unlisted_fields(cfg, A.btuple(f['build']))
        viol(ctx, '%s:viewer:summary:data-set-%s:%s' % (P, 'shown-excluded-but-approved' if got['setx'] else 'not-shown-excluded', '+'.join(unl) or 'all-listed'), det,
             'the viewer %s the data set of build %r as excluded from upload; the configuration %s it (%s)' % (
                 'describes' if got['setx'] else 'does not describe', A.btuple(f['build']), 'approves' if got['setx'] else 'does not approve', '/'.join(unl)))
        good = False
    for k, v in want['meta'].items():
        if got['meta'].get(k) != v:
            viol(ctx, '%s:viewer:active-meta:%s:%s' % (P, k, 'shown-active-but-unlisted' if not v else 'shown-inactive-but-listed'), det,
                 'the viewer flags %s=%r as %s; the configuration says otherwise' % (k, f['build'], 'active' if got['meta'].get(k) else 'inactive'))
            good = False

    def cls(n, shown_excluded):
        kind = 'stack' if '\n' in n else 'counter'
        if kind == 'stack':
            listed = bool(A.Sem.stack_rates(cfg, prog, n.split('\n', 1)[0]))
        else:
            listed = bool(A.Sem.counter_rates(cfg, prog, n))
        if shown_excluded:
            return 'approved-%s-shown-excluded' % kind if listed else '%s-shown-excluded' % kind
        return 'unlisted-%s-shown-active' % kind
    wantx, gotx = set(want['xnames']), set(got['xnames'])
    for n in sorted(gotx - wantx):
        viol(ctx, '%s:viewer:active-flag:%s' % (P, cls(n, True)), dict(det, name=n),
             'the viewer shows %r of %s as inactive (excluded); the configuration approves it' % (n, prog))
        good = False
    for n in sorted(wantx - gotx):
        viol(ctx, '%s:viewer:active-flag:%s' % (P, cls(n, False)), dict(det, name=n),
             'the viewer shows %r of %s as active; the configuration does not list it' % (n, prog))
        good = False
    if set(got['names']) != set(c['n'] for c in f['counts']):
        viol(ctx, '%s:viewer:names-differ-from-file' % P, det, 'the viewer lists other counters than the file holds')
        good = False
    if not want['setx'] and not got['setx']:
        wl = set(n.split('\n', 1)[0] for n in wantx)
        gl = set(got['labels'])
        for lab in sorted(gl - wl):
            src = [n for n in (c['n'] for c in f['counts']) if n.split('\n', 1)[0] == lab]
            # every name with this first line is approved; if a stack is among them the summary's
            # stack lookup is the one that produced the label
            kind = 'stack' if any('\n' in n for n in src) else ('counter' if src else 'unknown')
            viol(ctx, '%s:viewer:summary:approved-%s-listed-unregistered' % (P, kind), dict(det, label=lab),
                 'the viewer\'s summary lists %r as an unregistered counter that would be excluded; the configuration approves it' % lab)
            good = False
        for lab in sorted(wl - gl):
            viol(ctx, '%s:viewer:summary:unlisted-name-not-mentioned' % P, dict(det, label=lab),
                 'the viewer\'s summary does not mention %r, which the uploader would exclude' % lab)
            good = False
    return good


def run(ctx):
    ctx.assumptions += [
        'rates and X are multiples of 1/8 (vectors) or 1/1024 (random half); X is chosen by replacing crypto/rand.Reader; X = 0 is not used '
        '(the server refuses X = 0 for reasons unrelated to approval, see C12)',
        'configurations outside the domain of the documented semantics are not generated (a program, an expanded counter name or a stack name listed twice; malformed collapsed entries; stack entries with a newline)',
        'the viewer cannot know X: its verdict is compared with the configuration semantics without rates, i.e. with what the uploader drops whatever X is',
        'reports posted to the server carry a valid Week, a semver Config and 0 < X < 1 (request validation other than approval belongs to C12)',
        'viewer: only files/newCounterFile/summary (counter files); the charts page is not part of the statement',
        'viewer process lifetime: three consecutive cases form one viewer session (one Server, one -config file rewritten before each page load, configuration obtained as the index page does: Server.configAt("latest")); '
        'each load is judged under the configuration current at that load',
        'stack frames avoid the ditto form so that counter.DecodeStack is the identity (C15)',
        'the summary sentence names excluded stacks by their first line only; it is compared as the set of first lines',
    ]
    ctx.inject('internal/verifh/c01', 'godev/cmd/telemetrygodev', 'cmd/gotelemetry/internal/view')
    rng = random.Random(1100 + ctx.seed)

    vecs = A.run_vec(ctx, 'c11', ctx.thorough())
    fvecs = [v for v in vecs if v['fam'] != 'server']
    svecs = [v for v in vecs if v['fam'] == 'server']
    ctx.log('vectors: %d with files, %d reports for the server' % (len(fvecs), len(svecs)))
    nrand = ctx.pick(300, 5000)
    rcases = []
    while len(rcases) < nrand:
        c = A.rand_case(rng, A.D_RND)
        if c['x'] == 0:
            c['x'] = 1
        rcases.append(c)

    # ---------------- the uploader ------------------------------------------------------
    cases = [{'id': i, 'steps': [A.step_of(v['cfg'], v['d'], v['files'], v['x'])]} for i, v in enumerate(fvecs)]
    cases += [{'id': len(fvecs) + k, 'steps': [A.step_of(c['cfg'], A.D_RND, c['files'], c['x'])]} for k, c in enumerate(rcases)]
    recs, rc, out = ctx.run_harness('./internal/verifh/c01', 'TestVerifC01Run', inp={'cases': cases}, timeout=2400)
    by = {}
    for r in recs:
        if r.get('kind') == 'step':
            if r.get('infra') or (r.get('err') or '').startswith('error:'):
                raise Infra('C11 uploader harness: %s' % (r.get('infra') or r.get('err')))
            by[r['id']] = r
    if len(by) != len(cases):
        raise Infra('C11 uploader harness: %d records for %d cases\n%s' % (len(by), len(cases), out[-2000:]))
    ctx.cov['uploader_runs'] = len(by)

    server_cases = []       # {'id', 'cfg', 'reports': [{'rid','path','body'}]}
    server_meta = {}        # (id, rid) -> dict(kind=..., ...)
    obs, obs_src = [], []   # ApprovalTrace records and where they came from
    n_up_ok = n_up = 0

    def add_server(cid, cfgc, body, meta):
        sc = server_cases[-1] if server_cases and server_cases[-1]['id'] == cid else None
        if sc is None:
            sc = {'id': cid, 'cfg': cfgc, 'reports': []}
            server_cases.append(sc)
        rid = len(sc['reports'])
        week = meta.get('date') or A.week_end(1).isoformat()
        sc['reports'].append({'rid': rid, 'path': '/upload/' + week, 'body': body})
        server_meta[(cid, rid)] = meta

    for i, v in enumerate(fvecs):
        rec = by[i]
        if rec.get('err'):
            viol(ctx, '%s:uploader:run:%s' % (P, rec['err'].split(':')[0]), {'vector': v, 'err': rec['err']}, 'upload.Run: ' + rec['err'])
            continue
        reqs = {q['path'].lstrip('/'): q for q in rec.get('requests') or []}
        for wk in [wk for wk in v['weeks'] if wk['x'] == v['x']]:     # every draw of a C11 run returns v['x']
            date = A.week_end(wk['w']).isoformat()
            exp = {'up5': A.tdata(wk['up5']), 'b5': set(A.btuple(b) for b in wk['b5']), 'local': A.tdata(wk['local'])}
            detail = {'vector': {'fam': v['fam'], 'cfg': v['cfg'], 'files': v['files'], 'x': v['x'], 'd': v['d']}, 'week': date}
            q = reqs.get(date)
            n_up += 1
            if q is None:
                if exp['up5'] and wk['mustsend']:
                    viol(ctx, '%s:uploader:no-report-although-approved-data' % P, detail, 'no report posted for %s' % date)
                else:
                    n_up_ok += 1
                continue
            body = A.Body(q['body'])
            if body.problems or body.x != v['x'] / v['d']:
                viol(ctx, '%s:uploader:malformed-report' % P, dict(detail, body=q['body'], problems=body.problems), 'malformed report or foreign X')
                continue
            if uploader_diff(ctx, v['cfg'], v['d'], v['x'], exp, body, detail):
                n_up_ok += 1
            add_server(i, A.concrete_cfg(v['cfg'], v['d']), q['body'], {'kind': 'uploader', 'cfg': v['cfg'], 'd': v['d'], 'date': date, 'body': body, 'detail': detail})
    ctx.cov['uploader_weeks_matching'] = n_up_ok
    ctx.cov['traces_validated_against_impl'] += n_up_ok

    for k, c in enumerate(rcases):
        cid = len(fvecs) + k
        rec = by[cid]
        if rec.get('err'):
            viol(ctx, '%s:uploader:run:%s' % (P, rec['err'].split(':')[0]), {'case': c, 'err': rec['err']}, 'upload.Run: ' + rec['err'])
            continue
        acfg, afiles = A.abs_cfg(c['cfg']), A.abs_files(c['files'])
        reqs = {A.week_of_date(q['path'].lstrip('/')): q for q in rec.get('requests') or []}
        cfgc = A.concrete_cfg(c['cfg'], A.D_RND)
        for w in sorted(set(f['week'] for f in c['files'])):
            o = {'kind': 'upload', 'sem': 'c11', 'cfg': acfg, 'files': afiles, 'w': w, 'x': c['x'], 'sent': w in reqs, 'progs': [], 'data': []}
            if w in reqs:
                body = A.Body(reqs[w]['body'])
                if body.problems or body.x != c['x'] / A.D_RND:
                    viol(ctx, '%s:uploader:malformed-report' % P, {'case': c, 'body': body.text, 'problems': body.problems}, 'malformed report or foreign X')
                    continue
                o['progs'] = [A.bdict(b) for b in sorted(body.progs)]
                o['data'] = A.abs_data(body.data)
                add_server(cid, cfgc, reqs[w]['body'], {'kind': 'uploader', 'cfg': c['cfg'], 'd': A.D_RND, 'date': A.week_end(w).isoformat(), 'body': body,
                                                        'detail': {'case': {'config': cfgc, 'X': c['x'] / A.D_RND, 'files': [A.concrete_file(f) for f in c['files']]}}})
            obs.append(o)
            obs_src.append(('upload', c, w))
        for rep in random_reports(rng, c):
            add_server(cid, cfgc, rep_body(rep, A.week_end(1).isoformat(), x=max(c['x'], 1) / A.D_RND), {'kind': 'random', 'cfg': c['cfg'], 'd': A.D_RND, 'case': c})

    # ---------------- the server ----------------------------------------------------------
    base = len(fvecs) + len(rcases)
    for j, v in enumerate(svecs):
        add_server(base + j, A.concrete_cfg(v['cfg'], v['d']), rep_body(v['rep'], A.week_end(1).isoformat()), {'kind': 'vector', 'vec': v})
    # cases with the same configuration share one handler
    grouped, order = {}, []
    for sc in server_cases:
        key = json.dumps(sc['cfg'], sort_keys=True)
        if key not in grouped:
            grouped[key] = {'id': len(order), 'cfg': sc['cfg'], 'reports': []}
            order.append(key)
        g = grouped[key]
        for r in sc['reports']:
            rid = len(g['reports'])
            g['reports'].append({'rid': rid, 'path': r['path'], 'body': r['body']})
            server_meta[('g', g['id'], rid)] = server_meta[(sc['id'], r['rid'])]
    gcases = [grouped[k] for k in order]
    recs, rc, out = ctx.run_harness('./cmd/telemetrygodev', 'TestVerifC11Server', inp={'cases': gcases}, timeout=2400, module_dir='godev')
    verdicts = [r for r in recs if r.get('kind') == 'verdict']
    if not verdicts or sum(len(g['reports']) for g in gcases) != len(verdicts):
        raise Infra('C11 server harness: %d verdicts for %d reports\n%s' % (len(verdicts), sum(len(g['reports']) for g in gcases), out[-3000:]))
    n_srv_ok = n_acc = n_rej = 0
    for r in verdicts:
        if r.get('infra'):
            raise Infra('C11 server harness: ' + r['infra'])
        meta = server_meta[('g', r['id'], r['rid'])]
        body_text = gcases[r['id']]['reports'][r['rid']]['body']
        status = r.get('status')
        det = {'config': gcases[r['id']]['cfg'], 'body': body_text, 'status': status, 'resp': r.get('resp'), 'panic': r.get('panic')}
        if status not in (200, 400):
            viol(ctx, '%s:server:status-%s' % (P, status if status is not None else 'panic'), det, 'the upload endpoint answered %s' % status)
            continue
        ok = status == 200
        n_acc += ok
        n_rej += not ok
        if meta['kind'] == 'vector':
            v = meta['vec']
            if ok != v['accept']:
                why = reject_reason(v['cfg'], A.Body(body_text))
                viol(ctx, '%s:server:%s:%s' % (P, 'accepts-report-outside-config' if ok else 'rejects-report-inside-config', why), dict(det, vector=v),
                     'the upload endpoint answered %d to a report the documented semantics would %s (%s)' % (status, 'accept' if v['accept'] else 'reject', why))
            else:
                n_srv_ok += 1
            continue
        if meta['kind'] == 'uploader' and not ok:
            why = reject_reason(meta['cfg'], meta['body'])
            viol(ctx, '%s:server:rejects-uploader-report:%s' % (P, why), dict(det, **meta['detail']),
                 'the upload endpoint answered %d (%s) to a report the real uploader produced under the same configuration (%s)' % (
                     status, (r.get('resp') or '').strip()[:120], why))
        # TLC decides whether the verdict is the documented one
        obs.append({'kind': 'server', 'cfg': A.abs_cfg(meta['cfg']), 'rep': abs_rep_of_body(body_text), 'ok': ok})
        obs_src.append(('server', meta, det))
    ctx.cov['server_verdicts'] = len(verdicts)
    ctx.cov['server_accepted'] = n_acc
    ctx.cov['server_rejected'] = n_rej
    ctx.cov['traces_validated_against_impl'] += n_srv_ok
    if n_acc == 0 or n_rej == 0:
        raise Infra('the server harness accepted %d and rejected %d reports: it does not discriminate' % (n_acc, n_rej))

    # ---------------- the viewer ------------------------------------------------------------
    vcases = []
    for i, v in enumerate(fvecs):
        fs = sorted(v['files'], key=lambda f: f['id'])
        vcases.append({'id': i, 'session': 'v%d' % (i // 3), 'cfg': A.concrete_cfg(v['cfg'], v['d']), 'files': [dict(A.concrete_file(f), fid=f['id']) for f in fs if f['counts']]})
    for k, c in enumerate(rcases):
        vcases.append({'id': len(fvecs) + k, 'session': 'r%d' % (k // 3), 'cfg': A.concrete_cfg(c['cfg'], A.D_RND), 'files': [dict(A.concrete_file(f), fid=f['id']) for f in c['files']]})
    recs, rc, out = ctx.run_harness('./cmd/gotelemetry/internal/view', 'TestVerifC11Viewer', inp={'cases': vcases}, timeout=2400)
    frecs = {}
    for r in recs:
        if r.get('kind') == 'file':
            if r.get('infra'):
                raise Infra('C11 viewer harness: ' + r['infra'])
            if r.get('panic'):
                viol(ctx, '%s:viewer:panic' % P, {'case': vcases[r['id']], 'panic': r['panic']}, 'the viewer panicked: ' + r['panic'])
                continue
            frecs[(r['id'], r['fid'])] = r
    n_view = sum(len(c['files']) for c in vcases)
    if len(frecs) != n_view:
        raise Infra('C11 viewer harness: %d file records for %d files\n%s' % (len(frecs), n_view, out[-2000:]))
    n_view_ok = 0
    for i, v in enumerate(fvecs):
        want = {w['id']: w for w in v['viewer']}
        for f in v['files']:
            if not f['counts']:
                continue
            got = decode_viewer(frecs[(i, f['id'])])
            if viewer_diff(ctx, v['cfg'], v['d'], f, want[f['id']], got, {'vector': {'fam': v['fam']}}):
                n_view_ok += 1
    for k, c in enumerate(rcases):
        for f in c['files']:
            got = decode_viewer(frecs[(len(fvecs) + k, f['id'])])
            if set(got['names']) != set(cn['n'] for cn in f['counts']):
                viol(ctx, '%s:viewer:names-differ-from-file' % P, {'case': c, 'file': f, 'viewer': got}, 'the viewer lists other counters than the file holds')
                continue
            obs.append({'kind': 'viewer', 'cfg': A.abs_cfg(c['cfg']), 'file': A.abs_files([f])[0], 'setx': got['setx'], 'meta': got['meta'],
                        'xnames': [A.chars(n) for n in got['xnames']], 'labels': [A.chars(n) for n in got['labels']]})
            obs_src.append(('viewer', c, f, got))
    ctx.cov['viewer_files'] = n_view
    ctx.cov['viewer_files_matching'] = n_view_ok
    ctx.cov['traces_validated_against_impl'] += n_view_ok

    # ---------------- code -> model: TLC decides the random half ------------------------------
    bad = A.validate_trace(ctx, obs, A.D_RND, 'ApprovalTrace[C11]')
    ctx.cov['observations_validated'] = len(obs)
    ctx.cov['observation_kinds'] = {k: sum(1 for o in obs if o['kind'] == k) for k in ('upload', 'server', 'viewer')}
    ctx.cov['traces_validated_against_impl'] += len(obs) - len(bad)
    for i in bad:
        explain(ctx, obs[i], obs_src[i])

    ctx.cov['evaluations'] += len(by) + len(verdicts) + n_view
    ctx.cov['distinct_nontrivial'] = len(vecs) + len(obs)
    ctx.cov['rule'] = ('every state of ApprovalVec family c11 (config-entry x local-name, build fields x config lists, reports that differ from an approved '
                       'one in one field) and seeded random configurations / file sets / reports, each put through the real uploader, upload '
                       'endpoint (also fed with the uploader\'s own bodies) and viewer; vectors compared with the outputs ApprovalVec demands, '
                       'random observations decided by TLC (ApprovalTrace)')
    v = fvecs[len(fvecs) // 2]
    ctx.sample({'kind': 'vector', 'fam': v['fam'], 'config': A.concrete_cfg(v['cfg'], v['d']), 'files': [A.concrete_file(f) for f in v['files']][:1],
                'viewer_demanded': v['viewer'][:1]})
    if svecs:
        s = svecs[len(svecs) // 2]
        ctx.sample({'kind': 'server-vector', 'report': json.loads(rep_body(s['rep'], A.week_end(1).isoformat())), 'accept': s['accept']})
    for o in obs:
        if o['kind'] == 'viewer':
            ctx.sample({'kind': 'viewer-observation', 'setx': o['setx'], 'meta': o['meta'], 'labels': [''.join(x) for x in o['labels']][:4]})
            break


def explain(ctx, o, src):
    """TLC rejected observation o: name the class."""
    d = A.D_RND
    if o['kind'] == 'upload':
        _k, c, w = src
        cfg = c['cfg']
        agg = {}
        for f in c['files']:
            if f['week'] == w:
                for cn in f['counts']:
                    k = (A.btuple(f['build']), cn['n'])
                    agg[k] = agg.get(k, 0) + cn['v']
        local = set((b, n, v) for (b, n), v in agg.items())
        detail = {'case': {'config': A.concrete_cfg(cfg, d), 'X': c['x'] / d, 'files': [A.concrete_file(f) for f in c['files']]}, 'week': A.week_end(w).isoformat()}
        if not o['sent']:
            viol(ctx, '%s:uploader:no-report-although-approved-data' % P, detail, 'no report posted although approved data exists')
            return
        data = set((A.btuple(t['b']), ''.join('\n' if ch == 'NL' else ch for ch in t['n']), t['v']) for t in o['data'])
        progs = set(A.btuple(b) for b in o['progs'])
        flagged, sigs = set(), {}
        for b in sorted(progs):
            unl = A.Sem.unlisted_fields(cfg, b)
            if unl:
                flagged.add(b)
                viol(ctx, '%s:uploader:names-build-with-unlisted:%s' % (P, '+'.join(unl)), dict(detail, build=b),
                     'the uploader\'s report names the program build %r although the configuration does not list its %s' % (b, '/'.join(unl)))
        for t in sorted(data):
            if t[0] in flagged:
                continue
            s = A.classify_datum(cfg, c['x'], local, t, 'extra')
            if not s.endswith(':other'):
                sigs.setdefault(s, t)
        for t in sorted(local - data):
            s = A.classify_datum(cfg, c['x'], local, t, 'missing')
            if s.endswith(':approved') or 'same-name' in s:
                sigs.setdefault(s, t)
        if not sigs and not flagged:
            sigs['unexplained'] = None
        for s, t in sigs.items():
            viol(ctx, '%s:uploader:%s' % (P, s), dict(detail, datum=t), 'random case: TLC rejects the uploader\'s report (%s %r)' % (s, t))
    elif o['kind'] == 'server':
        _k, meta, det = src
        why = reject_reason(meta['cfg'], A.Body(det['body']))
        viol(ctx, '%s:server:%s:%s' % (P, 'accepts-report-outside-config' if o['ok'] else 'rejects-report-inside-config', why), det,
             'random report: the upload endpoint answered %s; the documented semantics say %s (%s)' % (det['status'], 'reject' if o['ok'] else 'accept', why))
    else:
        _k, c, f, got = src
        cfg = c['cfg']
        # name the class with the same comparison the vectors use, against the naming-only semantics
        prog = f['build']['program']
        unl = A.Sem.unlisted_fields(cfg, A.btuple(f['build']))
        p = A.Sem.prog(cfg, prog)
        want = {'setx': bool(unl),
                'meta': {'Program': p is not None, 'Version': p is not None and f['build']['version'] in p['versions'],
                         'GoVersion': f['build']['gover'] in cfg['gover'], 'GOOS': f['build']['goos'] in cfg['goos'], 'GOARCH': f['build']['goarch'] in cfg['goarch']},
                'xnames': [cn['n'] for cn in f['counts'] if not (A.Sem.stack_rates(cfg, prog, cn['n'].split('\n', 1)[0]) if '\n' in cn['n'] else A.Sem.counter_rates(cfg, prog, cn['n']))]}
        if viewer_diff(ctx, cfg, d, f, want, got, {'random': True}):
            viol(ctx, '%s:viewer:unexplained' % P, {'case': c, 'file': f, 'viewer': got}, 'random case: TLC rejects the viewer\'s description of a file')
