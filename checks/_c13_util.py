"""Concretization / abstraction helpers of check C13 (worker merge + chart).

Nothing here looks at the code under test: reports are built and read as the
documented JSON (telemetry.Report field names), configurations as
telemetry.UploadConfig, charts as the worker's chart JSON."""
import datetime
import json
import random
import re

SCAN_LIMIT = 64 * 1024        # bufio.MaxScanTokenSize: a line of >= this many bytes does not fit
UPLOAD_LIMIT = 100 * 1024     # GO_TELEMETRY_MAX_REQUEST_BYTES default of the upload server

BASES = [datetime.date(2024, 2, 27),      # crosses Feb 29 / Mar 1 of a leap year
         datetime.date(2023, 12, 27),     # crosses the year boundary
         datetime.date(2025, 2, 25),      # crosses Feb 28 / Mar 1 of a common year
         datetime.date(2024, 10, 28)]     # crosses a month of 31 days
BASE = BASES[0]


def date_of(d, base=0):
    """model day number (1-based) -> YYYY-MM-DD"""
    return (BASES[base] + datetime.timedelta(days=d - 1)).isoformat()


# ----------------------------------------------------------------- reports
def enc(obj):
    return json.dumps(obj, separators=(',', ':'), ensure_ascii=False)


def prog(program, version, gover, goos, goarch, counters=None, stacks=None):
    # key order = field order of telemetry.ProgramReport; maps sorted like encoding/json does
    return {'Program': program, 'Version': version, 'GoVersion': gover, 'GOOS': goos, 'GOARCH': goarch,
            'Counters': dict(sorted((counters or {}).items())), 'Stacks': dict(sorted((stacks or {}).items()))}


def report(week, x, progs, config='v0.0.1', last=''):
    return {'Week': week, 'LastWeek': last, 'X': x, 'Programs': progs, 'Config': config}


def pad_report(rep, target):
    """Add stack counters (each name <= 4000 bytes, as real stack counters are
    <= 4096) to the first program so that the one-line JSON encoding has
    exactly `target` bytes."""
    if not rep['Programs']:
        rep['Programs'].append(prog('example.com/unlisted', 'v0.0.1', 'go1.21.0', 'linux', 'amd64'))
    st = rep['Programs'][0]['Stacks']
    base = len(enc(rep))
    need = target - base
    if need <= 0:
        return rep
    k = 0
    while need > 0:
        # one entry costs len('"":1') + name + separating comma (none for the first entry of an empty map)
        name_prefix = 'pad/%03d:' % k
        overhead = len(enc({name_prefix: 1})) - 2 + (1 if st else 0)
        if need < overhead + 1:
            # too small a remainder for one more entry: lengthen an existing name
            if st:
                key = next(iter(st))
                v = st.pop(key)
                st[key + 'y' * need] = v
            else:
                rep['Config'] += 'y' * need
            need = 0
            break
        fill = min(4000 - len(name_prefix), need - overhead)
        st[name_prefix + 'x' * fill] = 1
        need -= overhead + fill
        k += 1
    rep['Programs'][0]['Stacks'] = dict(sorted(st.items()))
    assert len(enc(rep)) == target, (len(enc(rep)), target)
    return rep


# ------------------------------------------------------------ abstraction
def split_counter(name):
    """'chart:bucket' -> (chart, bucket); a name without ':' is its own chart and bucket"""
    if ':' in name:
        c, b = name.split(':', 1)
        return c, b
    return name, name


def expand(name):
    """'chart:{a,b}' -> ['chart:a', 'chart:b'] (documented compact syntax)"""
    if '{' in name:
        pre, rest = name.split('{', 1)
        if rest.endswith('}'):
            rest = rest[:-1]
        return [pre + b for b in rest.split(',')]
    return [name]


_mm = re.compile(r'^go(\d+)\.(\d+)')


def major_minor(v):
    m = _mm.match(v)
    return 'go%s.%s' % (m.group(1), m.group(2)) if m else None


def is_toolchain(p):
    return p.startswith('cmd/')


def abstract_report(rep):
    """-> set of (program, chart, bucket) the report carries"""
    out = set()
    for p in rep.get('Programs') or []:
        if p is None:
            continue
        n = p.get('Program', '')
        out.add((n, 'Version', p.get('Version', '')))
        out.add((n, 'GOOS', p.get('GOOS', '')))
        out.add((n, 'GOARCH', p.get('GOARCH', '')))
        out.add((n, 'GoVersion', p.get('GoVersion', '')))
        for c in (p.get('Counters') or {}):
            ch, b = split_counter(c)
            out.add((n, ch, b))
    return out


def abstract_config(cfg):
    """UploadConfig -> list of chart descriptors {p, c, bk: [(bucket, key)]} in
    the order the worker documents (Version unless toolchain, GOOS, GOARCH,
    GoVersion, then one chart per counter config)."""
    out = []
    for p in cfg['Programs']:
        n = p['Name']
        if not is_toolchain(n):
            out.append({'p': n, 'c': 'Version', 'bk': [(v, v) for v in p.get('Versions') or []]})
        out.append({'p': n, 'c': 'GOOS', 'bk': [(v, v) for v in cfg['GOOS']]})
        out.append({'p': n, 'c': 'GOARCH', 'bk': [(v, v) for v in cfg['GOARCH']]})
        out.append({'p': n, 'c': 'GoVersion', 'bk': [(v, major_minor(v)) for v in cfg['GoVersion']]})
        for c in p.get('Counters') or []:
            ch, _ = split_counter(c['Name'])
            bk = []
            for e in expand(c['Name']):
                _, b = split_counter(e)
                bk.append((b, b))
            out.append({'p': n, 'c': ch, 'bk': bk})
    # the documented order of the data points of each chart, as a rank per key
    for d in out:
        keys = sorted(set(k for (_, k) in d['bk']), key=key_order(d['c']))
        d['bk'] = [(b, k, keys.index(k) + 1) for (b, k) in d['bk']]
    return out


# ---- the total orders in which data points are listed (independent of the code) ----
_num = r'(0|[1-9][0-9]*)'
_re_semver = re.compile(r'^v%s(?:\.%s(?:\.%s(?:-([0-9A-Za-z.-]+))?(?:\+([0-9A-Za-z.-]+))?)?)?$' % (_num, _num, _num))


def semver_prec(v):
    """precedence key of a semantic version in the vMAJOR[.MINOR[.PATCH[-PRE][+BUILD]]]
    grammar of golang.org/x/mod/semver, or None if v is not one.  Build metadata
    does not take part in precedence; v2 = v2.0 = v2.0.0."""
    m = _re_semver.match(v)
    if not m:
        return None
    core = (int(m.group(1)), int(m.group(2) or 0), int(m.group(3) or 0))
    for grp in (m.group(4), m.group(5)):
        if grp is not None and any(x == '' for x in grp.split('.')):
            return None
    if m.group(4) is None:
        return core + ((1,),)
    ids = []
    for part in m.group(4).split('.'):
        if part.isdigit():
            if len(part) > 1 and part[0] == '0':
                return None
            ids.append((0, int(part), ''))
        else:
            ids.append((1, 0, part))
    return core + ((0, tuple(ids)),)


def key_order(chart):
    """sort key realizing the documented order of a chart's data points: program
    versions by semver precedence (strings that are no versions first), equal
    precedence lexically; Go major.minor by number; everything else lexically
    (byte order = code point order)"""
    if chart == 'Version':
        def f(k):
            pk = semver_prec(k)
            return ((0,), k) if pk is None else ((1,) + pk, k)
        return f
    if chart == 'GoVersion':
        def g(k):
            m = _mm.match(k or '')
            return (int(m.group(1)), int(m.group(2)), k) if m else (-1, -1, k or '')
        return g
    return lambda k: k


def chart_kind(c):
    return c if c in ('Version', 'GOOS', 'GOARCH', 'GoVersion') else 'counter'


def py_chart(reps, descs):
    """Mirror of WorkerChart!ChartOf, used ONLY to classify a mismatch that TLC
    or the model state has already established (never to decide one).
    reps: list of (id, carries)."""
    val = {}
    for d in descs:
        for (b, k, _r) in d['bk']:
            val.setdefault((d['p'], d['c'], k), set())
        for (i, car) in reps:
            for (b, k, _r) in d['bk']:
                if (d['p'], d['c'], b) in car:
                    val[(d['p'], d['c'], k)].add(i)
    return len(reps), {t: len(s) for t, s in val.items()}


def read_chart(text):
    """chart JSON -> (NumReports, {(program, chart, key): value}, problems)"""
    probs = []
    try:
        j = json.loads(text)
    except Exception as e:
        return None, {}, ['chart object is not JSON: %s' % e]
    vals = {}
    for p in j.get('Programs') or []:
        for c in p.get('Charts') or []:
            for d in c.get('Data') or []:
                t = (p.get('Name'), c.get('Name'), d.get('Key'))
                v = d.get('Value')
                if t in vals and vals[t] != v:
                    probs.append('two data points for %s: %s and %s' % (t, vals[t], v))
                vals[t] = v
    return j.get('NumReports'), vals, probs


# --------------------------------------------------------------- tla text
def tla_str(s):
    return '"' + s.replace('\\', '\\\\').replace('"', '\\"') + '"'


def tla_triples(car):
    return '{' + ', '.join('<<%s, %s, %s>>' % (tla_str(a), tla_str(b), tla_str(c)) for (a, b, c) in sorted(car)) + '}'


def tla_charts(descs):
    items = []
    for d in descs:
        bk = '{' + ', '.join('<<%s, %s, %d>>' % (tla_str(b), tla_str(k), r) for (b, k, r) in sorted(set(d['bk']))) + '}'
        items.append('[p |-> %s, c |-> %s, bk |-> %s]' % (tla_str(d['p']), tla_str(d['c']), bk))
    return '{' + ',\n   '.join(items) + '}'


# ------------------------------------------------------------- generators
GOVERS = ['go1.21.0', 'go1.21.5', 'go1.22.1', 'go1.22rc1', 'go1.9.7', 'go1.20']   # go1.9 < go1.20 only numerically
P_GOPLS = 'golang.org/x/tools/gopls'
P_GO = 'cmd/go'
P_VULN = 'golang.org/x/vuln/cmd/govulncheck'


def base_config(variant=0):
    cfg = {
        'GOOS': ['darwin', 'linux'],
        'GOARCH': ['amd64', 'arm64'],
        'GoVersion': list(GOVERS[:5 if variant % 2 == 0 else 6]),
        'SampleRate': 1,
        'Programs': [
            # versions of equal semver precedence but different text, and non-versions
            {'Name': P_GOPLS, 'Versions': ['v0.14.0', 'v0.15.0-pre.1', 'v0.15.0', 'v0.15.0+incompatible', 'v0.15', 'v0.15.0+build.7', 'devel', 'v0.14'],
             'Counters': [{'Name': 'gopls/editor:{emacs,vim}', 'Rate': 1}, {'Name': 'main', 'Rate': 1}]},
            {'Name': P_GO, 'Versions': list(GOVERS[:5]),
             'Counters': [{'Name': 'go/flag:{a,b}', 'Rate': 1}]},
        ],
    }
    if variant % 3 == 1:
        cfg['Programs'].append({'Name': P_VULN, 'Versions': ['v1.0.0', 'v1.0.1', 'v1', 'v1.0.1+meta', '(devel)'],
                                'Counters': [{'Name': 'govulncheck/scan:{source,binary,source}', 'Rate': 1},   # duplicate bucket
                                             # non-ASCII and characters encoding/json escapes
                                             {'Name': 'govulncheck/\u00e9diteur:{vim<1>,emacs&co,\u65e5\u672c}', 'Rate': 1},
                                             {'Name': 'gopls/editor:{emacs,vim}', 'Rate': 1}],
                                'Stacks': [{'Name': 'govulncheck/bug', 'Rate': 1, 'Depth': 8}]})
    if variant % 3 == 2:
        cfg['Programs'][0]['Counters'].append({'Name': 'gopls/gotoolchain:auto', 'Rate': 1})
        # a bucket that itself contains ':' (the name splits at the FIRST colon) and a program
        # the configuration knows nothing about but its name
        cfg['Programs'][0]['Counters'].append({'Name': 'gopls/a:b:{c,d:e}', 'Rate': 1})
        cfg['Programs'].append({'Name': 'example.com/bare', 'Versions': []})
    return cfg


def random_prog(rng, cfg, off_config=0.25):
    """a program report; values mostly inside the configuration, sometimes not
    (never an unlisted Go version of a listed major.minor, see assumptions)"""
    pc = rng.choice(cfg['Programs'])
    name = pc['Name'] if rng.random() > 0.1 else 'example.com/unlisted'
    def pick(xs, alt):
        return rng.choice(xs) if xs and rng.random() > off_config else alt
    gover = pick(cfg['GoVersion'], 'go1.18.3')
    ver = gover if is_toolchain(name) else pick(pc.get('Versions') or [], 'v9.9.9')
    counters = {}
    for cc in pc.get('Counters') or []:
        for e in expand(cc['Name']):
            if rng.random() < 0.45:
                counters[e] = rng.choice([0, 1, 1, 2, 7, 1000000, 9223372036854775807, -1])
        ch, _ = split_counter(cc['Name'])
        if rng.random() < 0.15:
            counters[ch + ':unlisted'] = 3
        if rng.random() < 0.05:
            counters[ch] = 1          # chart name used as a counter without bucket
    if rng.random() < 0.1:
        counters['other/thing:x'] = 1
    stacks = {}
    if rng.random() < 0.2:
        stacks['gopls/bug\ngolang.org/x/tools/gopls/internal/bug.Report:+35'] = rng.randint(1, 3)
    return prog(name, ver, gover, pick(cfg['GOOS'], 'plan9'), pick(cfg['GOARCH'], 'riscv64'), counters, stacks)


def random_report(rng, cfg, week, x, size=None):
    n = rng.choice([0, 1, 1, 1, 2, 2, 3, 8])
    rep = report(week, x, [random_prog(rng, cfg) for _ in range(n)])
    if size:
        pad_report(rep, size)
    return rep


# ------------------------------------------------------- light TLC reader
_var_re = re.compile(r'^/\\ ([A-Za-z_][A-Za-z0-9_]*) = (.*)$')


def read_sim_raw(path):
    """Like vlib.tlaval.read_simulate but leaves the variables unparsed:
    returns [ {var: text} ] (the big `ch` variable need not be parsed)."""
    out, cur, name = [], None, None
    with open(path, encoding='utf-8', errors='surrogateescape') as f:
        for ln in f:
            ln = ln.rstrip('\n')
            if re.match(r'^STATE_\d+ ==', ln):
                cur = {}
                out.append(cur)
                name = None
                continue
            if cur is None or ln.startswith('\\*') or ln.startswith('====') or ln.startswith('----') or not ln.strip():
                continue
            m = _var_re.match(ln)
            if m:
                name = m.group(1)
                cur[name] = m.group(2)
            elif name is not None:
                cur[name] += '\n' + ln
    return out
