"""C06 — reading a counter file is total and faithful
(FileFormat.tla, FileFormatParse.tla, FileFormatParseTrace.tla)."""
import json
import random

from vlib import tlaval
from vlib.core import Infra, ndjson_text

PKG = './internal/verifh/c06'
P1 = 'golang.org/x/tools/gopls/internal/server'
P2 = 'runtime'
DITTO, NODOT, EMPTY = 0, -1, -2


def exp(p, f):
    return {'kind': 'exp', 'p': p, 'f': f}


def ditto(f):
    return {'kind': 'ditto', 'p': '', 'f': f}


def nodot(f):
    return {'kind': 'nodot', 'p': '', 'f': f}


def empty(f):
    return {'kind': 'empty', 'p': '', 'f': f}


# The name catalogue: shapes of counter names.  1..8 are names every reading of
# the documentation expands the same way; 9..12 are shapes for which the
# property is silent (they must still be read without crash or hang).
CATALOGUE = [
    dict(pre='c', lines=[], nlen=1, pad=-1, group=0),
    dict(pre='a.b"c:', lines=[], nlen=0, pad=-1, group=0),
    dict(pre='long/', lines=[], nlen=4096, pad=-1, group=1),
    dict(pre='s', lines=[exp(P1, 'f:+1,+0x1a'), exp(P2, 'g:+2,+0x2')], nlen=0, pad=1, group=0),
    dict(pre='s.t', lines=[exp(P1, 'f1:+1,+0x1'), ditto('f2:+3,+0x9'), ditto('f3:=7,+0x4'), exp(P2, 'f4:+0,+0x0'), ditto('f5:+1,+0x1')],
         nlen=0, pad=4, group=2),
    dict(pre='crash/crash', lines=[exp(P1, 'f:+1,+0x1'), ditto('g:+2,+0x2'), exp(P2, 'cut'), nodot('truncated'), nodot('')],
         nlen=4096, pad=2, group=1),
    dict(pre='c', lines=[exp(P1, 'f1:+1,+0x1'), ditto('f2:+2,+0x2')], nlen=-1, pad=1, group=2),   # leader of group 2: shares its chain with 5
    dict(pre='s', lines=[exp(P1, 'f:+1,+0x1'), nodot('x'), exp(P2, 'g:+1,+0x1'), ditto('h:+1,+0x1')], nlen=0, pad=3, group=4),
    dict(pre='s', lines=[ditto('f1:+1,+0x1')], nlen=0, pad=0, group=1),
    dict(pre='".x', lines=[exp(P1, 'f:+1,+0x1')], nlen=0, pad=0, group=1),
    dict(pre='c', lines=[exp(P1, 'f1:+1,+0x1'), exp(P1, 'f2:+2,+0x2')], nlen=-1, pad=1, group=3),   # the expansion of 7
    dict(pre='s', lines=[exp(P1, 'f:+1,+0x1'), empty('g:+1,+0x1'), ditto('h:+1,+0x1')], nlen=0, pad=2, group=1),
    # 13..18 (review round): record sizes without padding (16+n = 32, 64, 4096), one byte below the cap, import
    # paths that themselves contain dots / receivers / instantiations, an empty prefix and an empty symbol
    dict(pre='n16/', lines=[], nlen=16, pad=-1, group=0),
    dict(pre='n48:', lines=[], nlen=48, pad=-1, group=5),
    dict(pre='s', lines=[exp(P1, 'f:+1,+0x1'), ditto('g:+2,+0x2')], nlen=4080, pad=1, group=1),
    dict(pre='l4095/', lines=[], nlen=4095, pad=-1, group=1),
    dict(pre='gopls/bug', lines=[exp(P1 + '.(*T)', 'outer:+1,+0x1'), ditto('inner:+2,+0x2'), exp('main.g[...]', 'func1:+1,+0x1'),
                                 ditto('func2:+0,+0x3'), exp('example.com/a.b/c.d', 'e:=9,+0x0')], nlen=0, pad=3, group=0),
    dict(pre='', lines=[exp(P2, 'f:+1,+0x1'), ditto('')], nlen=0, pad=0, group=5),
]
IN_SCOPE = [1, 2, 3, 4, 5, 6, 7, 8, 13, 14, 15, 16, 17, 18]
TRIPLES = [1, 4, 5, 6, 7, 13, 15, 17]          # names combined three at a time

TYPICAL = ('TimeBegin: 2024-01-03T00:00:00Z\nTimeEnd: 2024-01-07T00:00:00Z\nProgram: golang.org/x/tools/gopls\nVersion: v0.16.1\n'
           'GoVersion: go1.23.5\nGOOS: linux\nGOARCH: amd64\n\n')


def meta_catalogue():
    fill = 'Program: a: b\nK: ' + 'v' * 8 + '\n\n'
    while (32 + len(fill)) % 32:
        fill = fill.replace('K: ', 'K: w', 1)
    mx = 'Program: ' + 'x' * 300 + '\nVersion: \n'
    mx += 'Y: ' + 'y' * (512 - len(mx) - 5) + '\n\n'
    assert len(mx) == 512 and (32 + len(fill)) % 32 == 0
    over = 'A: ' + 'z' * 508 + '\n\n'
    assert len(over) == 513
    return [
        TYPICAL,                              # 1
        '',                                   # 2 no metadata at all
        fill,                                 # 3 fills the header exactly (no NUL), value containing ": "
        mx,                                   # 4 at the size cap
        'TimeBegin 2024-01-03\nK: V\n\n',     # 5 a line without separator
        'K: 1\nL: 2\nK: 3\n\n',               # 6 a key twice
        'A: 1\n\x00B: 2\n',                   # 7 text after the NUL terminator
        over,                                 # 8 above the size cap
        'A: 1\n\nB: 2\n\n',                   # 9 a blank line between two lines
        ': v\nK: \n',                         # 10 empty key, empty value
        'K: V',                               # 11 no newline at all
        'K\xff: \xfe\r\n\tT: x\r\n',          # 12 invalid UTF-8, CR LF line ends, a tab
    ]


WF_METAS = [1, 2, 3, 4, 7, 9, 10, 11, 12]


class Intern:
    def __init__(self):
        self.ids = {}
        self.texts = {}

    def id(self, b):
        if b not in self.ids:
            self.ids[b] = len(self.ids) + 1
            self.texts[self.ids[b]] = b
        return self.ids[b]


def abstract_meta(it, text):
    raw = text.encode('latin-1')
    cut = raw.split(b'\x00')[0]
    lines = []
    for ln in cut.split(b'\n'):
        if not ln:
            continue
        i = ln.find(b': ')
        if i >= 0:
            lines.append({'k': it.id(ln[:i]), 'v': it.id(ln[i + 2:]), 'sep': True})
        else:
            lines.append({'k': it.id(ln), 'v': it.id(b''), 'sep': False})
    return {'len': len(cut), 'lines': lines}


def tla(v):
    return tlaval.to_tla(v)


def build_mc(ctx, names, metas_abs):
    """MC module: catalogues and the families of files to enumerate."""
    ncat = []
    for n in names:
        ncat.append('[id |-> %d, pre |-> %d, preDitto |-> %s, lines |-> %s, nlen |-> %d, b |-> %d]' % (
            n['id'], n['pre_id'], 'TRUE' if n['preDitto'] else 'FALSE',
            '<<' + ', '.join('[p |-> %d, f |-> %d]' % (l['p'], l['f']) for l in n['alines']) + '>>', n['nlen'], n['b']))
    mcat = ['[len |-> %d, lines |-> <<%s>>]' % (m['len'], ', '.join('[k |-> %d, v |-> %d, sep |-> %s]' % (l['k'], l['v'], 'TRUE' if l['sep'] else 'FALSE')
                                                                     for l in m['lines'])) for m in metas_abs]
    ns = '{%s}' % ', '.join(map(str, IN_SCOPE))
    ns3 = '{%s}' % ', '.join(map(str, TRIPLES))
    if ctx.thorough():
        vs = '{0, 1, 2, 3}'
        pats3 = '{<<0, 1, 2>>, <<2, 2, 2>>, <<1, 0, 3>>, <<4, 1, 1>>}'
        trip = 'Ns'
        four = ('\\cup {<<[n |-> a, v |-> 1], [n |-> b, v |-> 2], [n |-> c, v |-> 0], [n |-> d, v |-> 1]>> : a \\in Ns3, b \\in Ns3, c \\in Ns3, d \\in Ns3}')
        wfm = [1, 3]
    else:
        vs = '{0, 1, 2}'
        pats3 = '{<<0, 1, 2>>, <<2, 2, 1>>}'
        trip = 'Ns3'
        four = ''
        wfm = [1]
    # files of two pages: four names of ~4 KiB, then a record that starts the second page
    multi = ('{<<[n |-> 3, v |-> 1], [n |-> 6, v |-> 2], [n |-> 16, v |-> 0], [n |-> 15, v |-> 3]>>, '
             '<<[n |-> 15, v |-> 4], [n |-> 16, v |-> 1], [n |-> 6, v |-> 1], [n |-> 3, v |-> 2], [n |-> 13, v |-> 1], [n |-> 5, v |-> 2]>>}')
    items = '''LET Ns == %s  Ns3 == %s  Vs == %s  Pats == %s
               All == {<<>>} \\cup {<<[n |-> a, v |-> x]>> : a \\in 1..Len(MCNameCat), x \\in 0..4}
                 \\cup {<<[n |-> a, v |-> x], [n |-> b, v |-> y]>> : a \\in Ns, b \\in Ns, x \\in Vs, y \\in Vs}
                 \\cup {<<[n |-> a, v |-> p[1]], [n |-> b, v |-> p[2]], [n |-> c, v |-> p[3]]>> : a \\in %s, b \\in %s, c \\in %s, p \\in Pats}
                 %s
                 \\cup %s
                 \\cup {<<[n |-> 7, v |-> 1], [n |-> 11, v |-> 2]>>, <<[n |-> 11, v |-> 1], [n |-> 7, v |-> 2]>>, <<[n |-> 5, v |-> 1], [n |-> 12, v |-> 1], [n |-> 9, v |-> 0]>>}
           IN  {s \\in All : \\A i, j \\in DOMAIN s : i # j => s[i].n # s[j].n}''' % (ns, ns3, vs, pats3, trip, trip, trip, four, multi)
    meta_items = ('{<<>>, <<[n |-> 1, v |-> 1]>>, <<[n |-> 13, v |-> 2]>>, <<[n |-> 5, v |-> 1], [n |-> 7, v |-> 2]>>, '
                  '<<[n |-> 17, v |-> 1], [n |-> 3, v |-> 0]>>, <<[n |-> 3, v |-> 1], [n |-> 6, v |-> 2], [n |-> 16, v |-> 0], [n |-> 15, v |-> 3], [n |-> 14, v |-> 1]>>}')
    bases = [
        (1, [(7, 1), (5, 2)]),
        (1, [(2, 1), (4, 0), (3, 2)]),
        (2, [(1, 1)]),
        (1, []),
        (3, [(6, 1), (3, 2), (8, 1), (5, 1)]),
        (1, [(7, 1)]),
        (4, [(5, 2), (7, 0), (4, 1)]),
        (5, [(2, 1)]), (6, [(2, 1)]), (8, [(2, 1), (4, 1)]),      # damaged metadata
        (1, [(2, 1), (2, 2)]), (1, [(7, 1), (7, 2)]),            # the same name twice
    ]

    def base(b):
        return '[mi |-> %d, items |-> <<%s>>]' % (b[0], ', '.join('[n |-> %d, v |-> %d]' % x for x in b[1]))
    targets = ['self', 'head', 'other', 'zero', 'dead', 'mid', 'odd', 'hdr', 'table', 'beyond', 'edge', 'last16']
    dmg = [('none', 0, '-'), ('prefix', 0, '-'), ('swapheads', 0, '-')]
    dmg += [('size', 0, x) for x in ['empty', 'short', 'pagem1', 'odd', 'more']]
    dmg += [('hdrlen', 0, x) for x in ['zero', 'five', 'thirtyone', 'plus1', 'plus32', 'minus32', 'page', 'pageplus', 'size', 'huge']]
    dmg += [('limit', 0, x) for x in ['zero', 'intable', 'low', 'odd', 'beyond', 'huge', 'reserved', 'exact']]
    dmg += [('next', i, x) for i in (1, 2, 3) for x in targets]
    dmg += [('head', i, x) for i in (1, 2) for x in targets]
    dmg += [('nlen', i, x) for i in (1, 2) for x in ['zero', 'over', 'beyond', 'max24', 'tofileend', 'tofileend1']]
    dmg = [d + (0,) for d in dmg]
    # file size as a damage dimension: sparse files of hundreds of pages, alone (still well-formed) and together with
    # links at the top of the uint32 range, where off+8 / off+12 / off+16 wrap around
    big = [406, 470, 1024]
    tops = ['top1', 'top4', 'top8', 'top9', 'top12', 'top16', 'top17', 'dead', 'beyond', 'last16', 'edge']
    dmg += [('none', 0, '-', pg) for pg in big + [2, 64]]
    dmg += [(t, i, x, pg) for t in ('next', 'head') for i in (1, 2) for x in tops for pg in (big if ctx.thorough() else [470, 1024] if i == 1 else [406])]
    dmg += [(t, 1, x, 0) for t in ('next', 'head') for x in tops[:7]]
    dmg += [('nlen', 1, x, pg) for x in ('max24', 'beyond', 'tofileend', 'tofileend1') for pg in (470, 1024)]
    pair_bases = bases[:2] if ctx.thorough() else []
    mc = '''---- MODULE MCFileFormatParse ----
EXTENDS FileFormatParse
MCNameCat == <<%s>>
MCMetaCat == <<%s>>
MCWFItems == %s
MCWFMetas == {%s}
MCMetaItems == %s
MCMetaAll == {%s}
MCBadBases == {%s}
MCPairBases == {%s}
MCDamage == {%s}
====
''' % (',\n  '.join(ncat), ',\n  '.join(mcat), items, ', '.join(map(str, wfm)), meta_items, ', '.join(map(str, WF_METAS)), ', '.join(base(b) for b in bases),
       ', '.join(base(b) for b in pair_bases), ', '.join('[t |-> "%s", i |-> %d, x |-> "%s", pg |-> %d]' % d for d in dmg))
    return mc


def compose(it, pre, lines):
    """bytes of a name given as identifiers (the expansion TLA+ computed)."""
    out = it.texts[pre]
    for l in lines:
        f = it.texts[l['f']]
        p = l['p']
        if p >= 1:
            out += b'\n' + it.texts[p] + b'.' + f
        elif p == DITTO:
            out += b'\n".' + f
        elif p == EMPTY:
            out += b'\n.' + f
        else:
            out += b'\n' + f
    return out


def resumable(ctx, test, inp, total):
    """Run a harness test that stops after a few hangs (their goroutines
    leak) and is restarted where it stopped.  Every hang costs 2 s: after
    `cap` of them the rest of the inputs is skipped (and that is recorded)."""
    recs_all, summaries = [], []
    start = inp.get('start', 0)
    cap = ctx.pick(12, 80)
    for _attempt in range(60):
        inp['start'] = start
        recs, rc, out = ctx.run_harness(PKG, test, inp=inp, timeout=2400)
        summ = [x for x in recs if x.get('kind') == 'summary']
        if not summ:
            raise Infra('%s wrote no summary:\n%s' % (test, out[-2000:]))
        summaries.append(summ[0])
        recs_all += [x for x in recs if x.get('kind') != 'summary']
        nxt = summ[0]['next']
        if nxt >= total:
            return recs_all, summaries, total
        if nxt <= start:
            raise Infra('%s made no progress at %d' % (test, start))
        start = nxt
        nh = len([x for x in recs_all if x.get('kind') == 'obs' and x['out']['kind'] == 'hang'])
        if nh >= cap:
            ctx.warn('%s: %d calls did not return; inputs %d..%d skipped' % (test, nh, start, total - 1))
            ctx.cov.setdefault('skipped_after_hangs', {})[test] = total - start
            return recs_all, summaries, start
    raise Infra('%s: too many restarts' % test)


def validate_obs(ctx, obs, label):
    """code -> model: TLC decides every (abstract input, outcome) pair."""
    bad = []
    chunk = ctx.pick(2500, 5000)
    classes = {}
    disagree = 0
    for i in range(0, len(obs), chunk):
        part = obs[i:i + chunk]
        lines = [{'f': o['f'], 'out': o['out']} for o in part]
        r = ctx.tlc('FileFormatParseTrace', files={'c06obs.ndjson': ndjson_text(lines)}, workers=1, dump=True,
                    label='%s[%d]' % (label, i // chunk), count=False, stack='512m')     # chains of garbage files are walked recursively
        if not r.ok:
            raise Infra('FileFormatParseTrace: %s\n%s' % (r.error, r.out[-3000:]))
        n = 0
        for st in tlaval.read_dump(r.dump):
            l = st['l']
            if l == 0:
                continue
            n += 1
            o = part[l - 1]
            classes[st['cls']] = classes.get(st['cls'], 0) + 1
            if not st['agree']:
                disagree += 1
                if disagree <= 5:
                    ctx.warn('independent decoder and FileFormat!WellFormed disagree on input %s (%s), class %s' % (o.get('i'), o.get('src'), st['cls']))
            if st['verdict'] != 'ok':
                bad.append((o, st['verdict'], st['cls']))
        if n != len(part):
            raise Infra('FileFormatParseTrace decided %d of %d lines' % (n, len(part)))
    return bad, classes, disagree


def report(ctx, o, verdict, cls, origin):
    sig = 'C06:parse:%s:%s' % (verdict, cls)
    text = {
        'panic': 'counter.Parse panics',
        'hang': 'counter.Parse does not return within 2 s',
        'wellformed-rejected': 'counter.Parse returns an error for a well-formed file',
        'unfaithful-meta': 'counter.Parse returns metadata different from what the file holds',
        'unfaithful-counts': 'counter.Parse returns counters different from what the file holds',
    }.get(verdict, verdict)
    f = o['f']
    brief = {k: f[k] for k in ('size', 'prefix', 'hdrLen', 'metaLen', 'limit', 'heads')}
    brief['recs'] = [{k: r[k] for k in ('off', 'nlen', 'next', 'ok', 'bucket')} | {'ditto': any(l['p'] == 0 for l in r['name']['lines'])} for r in f['recs'][:8]]
    ctx.violation(sig, {'origin': origin, 'input_index': o.get('i'), 'source': o.get('src'), 'detail': o.get('detail'), 'file': brief, 'outcome': o['out']['kind']},
                  '%s (input class %s; %s #%s, %s): %s' % (text, cls, origin, o.get('i'), o.get('src'), json.dumps(brief)[:600]))


def reads_phase(ctx):
    """Process lifetime: successive uploaders of one process read a count file that is changed in place
    between the reads.  TLC checks the small state machine exhaustively and produces walks; every read of
    the real uploader must return a version the specification allows."""
    ctx.inject('internal/upload')
    r = ctx.tlc('FileFormatReads', label='FileFormatReads-bfs')
    if not r.ok:
        raise Infra('FileFormatReads: the specification itself violates %s %s' % (r.error, r.error_name))
    depth = ctx.pick(10, 14)
    cfg = ('SPECIFICATION Spec\nCHECK_DEADLOCK FALSE\nCONSTANTS\n NReaders = 3\n Kinds = {"inc", "new", "grow"}\n MaxOps = %d\n' % depth)
    r = ctx.tlc('FileFormatReads', cfg_text=cfg, simulate={'num': ctx.pick(60, 600), 'file': True}, depth=depth + 1,
                label='FileFormatReads-sim', count=False)
    if r.error:
        raise Infra('FileFormatReads simulate: %s' % r.error)
    behs = []
    for i, fn in enumerate(ctx.sim_files(r)):
        steps = []
        for (_a, _args, st) in tlaval.read_simulate(fn):
            last = st['last']
            steps.append({'op': last['op'], 'kind': last['kind'], 'r': last['r'], 'how': last['how'], 'allowed': sorted(last['allowed']),
                          'ver': st['ver'], 'pages': st['pages']})
        if len(steps) > 1:
            behs.append({'id': i, 'steps': steps})
    recs, rc, out = ctx.run_harness('./internal/upload', 'TestVerifC06Reads', inp={'behaviours': behs}, timeout=1200)
    summ = [x for x in recs if x.get('kind') == 'summary']
    if not summ:
        raise Infra('C06 reads harness wrote no summary:\n' + out[-2000:])
    for x in recs:
        if x.get('kind') == 'infra':
            raise Infra('C06 reads: %s' % json.dumps(x))
    ctx.cov['read_behaviours'] = summ[0]['behaviours']
    ctx.cov['reads_replayed'] = summ[0]['reads']
    ctx.cov['evaluations'] += summ[0]['reads']
    ctx.cov['traces_validated_against_impl'] += summ[0]['matched']
    ctx.sample({'kind': 'read-behaviour', 'ops': [(s['op'], s['kind'], s['r'], s['how'], s['allowed']) for s in behs[0]['steps'][:10]]})
    for m in [x for x in recs if x.get('kind') == 'mismatch']:
        ctx.violation('C06:reads:%s' % m['what'], m,
                      'behaviour %s step %s: uploader %s of the process read the count file and got %s (allowed versions %s, current %s): %s' % (
                          m.get('id'), m.get('step'), m.get('r'),
                          'version %s' % m.get('got_version') if m['what'] == 'stale' else m.get('err'), m.get('allowed'), m.get('current'), json.dumps(m)[:300]))


def run(ctx):
    ctx.assumptions += [
        'well-formed = FileFormat!WellFormed (documented layout incl. header length = round32(32 + metadata length), metadata <= 512 bytes, '
        'every metadata line "K: V" with distinct keys, 32-aligned non-overlapping records of 1..4096-byte names in the bucket of their hash, '
        'below an aligned limit <= size, size a multiple of 16 KiB); for every other input only termination without panic is demanded',
        'stack names whose expansion the documentation does not fix are excluded from faithfulness (a ditto with no import path above it, '
        'a ditto after a frame with an empty import path, a counter prefix of the form `".x`), as are files in which two names expand to the same text',
        'a call that has not returned after 2 s counts as not terminating',
        'coverage-guided fuzzing is not used: inputs are random bytes, structured mutations of valid files and the TLC enumeration',
        'texts and 64-bit values are compared as opaque identifiers by TLC (equality only); bytes are produced and compared by the harness',
        'an uploader may return what it parsed earlier for the same path (its documented memo); a NEW uploader of the same process must see the current content',
    ]
    ctx.inject('internal/counter', 'internal/verifh/c06')
    rnd = random.Random(ctx.seed)

    # ---- 0. concrete names for the catalogue --------------------------------
    specs = []
    for i, c in enumerate(CATALOGUE):
        specs.append({'n': i + 1, 'pre': c['pre'], 'lines': c['lines'], 'nlen': max(c['nlen'], 0), 'pad': c['pad'], 'group': c['group'],
                      'want': {1: 511, 4: 0}.get(c['group'], -1), 'nofill': c['nlen'] < 0})
    # names 7 and 11 must keep their texts (11 is the expansion of 7): no filler
    for s in specs:
        if s.pop('nofill'):
            s['nlen'] = len((s['pre'] + ''.join('\n' + (l['p'] + '.' if l['kind'] == 'exp' else '".' if l['kind'] == 'ditto' else '.' if l['kind'] == 'empty' else '') + l['f']
                                                 for l in s['lines'])).encode('latin-1'))
    order = {1: 0, 3: 1, 7: 2, 11: 3}              # group leaders first
    specs.sort(key=lambda s: (order.get(s['n'], 9), s['n']))
    recs, rc, out = ctx.run_harness(PKG, 'TestVerifC06Names', inp={'names': specs})
    got = sorted([x for x in recs if x.get('kind') == 'name'], key=lambda x: x['n'])
    if len(got) != len(specs):
        raise Infra('C06: name catalogue incomplete:\n' + out[-1500:])
    it = Intern()
    names = []
    for g in got:
        pre = bytes.fromhex(g['pre'])
        alines = []
        for l in g['lines']:
            f = it.id(bytes.fromhex(l['f']))
            p = {'exp': None, 'ditto': DITTO, 'nodot': NODOT, 'empty': EMPTY}[l['kind']]
            alines.append({'p': it.id(bytes.fromhex(l['p'])) if p is None else p, 'f': f})
        names.append({'n': g['n'], 'id': 1000 + g['n'], 'hex': g['hex'], 'nlen': g['nlen'], 'b': g['b'], 'pre_id': it.id(pre),
                      'preDitto': pre.rfind(b'.') == 1 and pre[:1] == b'"' and len(alines) > 0, 'alines': alines})
    metas = meta_catalogue()
    metas_abs = [abstract_meta(it, m) for m in metas]
    ctx.log('names: ' + ' '.join('%d:%d@%d' % (n['n'], n['nlen'], n['b']) for n in names))

    # ---- 1. model -> code: TLC enumerates files by structure ----------------
    mc = build_mc(ctx, names, metas_abs)
    r = ctx.tlc('MCFileFormatParse', cfg='FileFormatParse.cfg', files={'MCFileFormatParse.tla': mc}, dump=True, label='FileFormatParse', timeout=3000)
    if not r.ok:
        raise Infra('FileFormatParse: spec-level sanity failed: %s %s\n%s' % (r.error, r.error_name, r.out[-3000:]))
    vectors, decoded, meta_sets, meta_idx = [], {}, [], {}
    for st in tlaval.read_dump(r.dump):
        v = st['vec']
        if st['cls'] == 'name':
            decoded[v['name']] = compose(it, v['dec']['pre'], v['dec']['lines'])
            continue
        e = st['exp']
        key = tuple(sorted((tuple(p) for p in e['meta'])))
        if key not in meta_idx:
            meta_idx[key] = len(meta_sets)
            meta_sets.append([[it.texts[k].hex(), it.texts[x].hex()] for (k, x) in key])
        vectors.append({'vec': v, 'cls': st['cls'], 'kind': e['kind'], 'meta': meta_idx[key], 'counts': [list(c) for c in e['counts']]})
    if len(decoded) != len(names):
        raise Infra('C06: name expansions missing in the dump')
    # files of the known non-terminating class cost 2 s each: run a bounded, seed-chosen number of them, last
    loops = [v for v in vectors if v['cls'] == 'cycle-ditto']
    rest = [v for v in vectors if v['cls'] != 'cycle-ditto']
    rnd.shuffle(loops)
    keep = len(loops)          # all of them: they return at once on a correct decoder; if they hang the run is cut short after `cap` hangs
    ctx.cov['cycle_ditto_vectors'] = {'enumerated': len(loops), 'run': min(keep, len(loops))}
    vectors = rest + loops[:keep]
    hist = {}
    for v in vectors:
        hist[v['cls']] = hist.get(v['cls'], 0) + 1
    ctx.log('vectors: %d %s' % (len(vectors), hist))
    ctx.cov['vector_classes'] = hist
    wf = [v for v in vectors if v['kind'] == 'ok']
    ctx.sample({'kind': 'vector', 'cls': wf[len(wf) // 2]['cls'], 'vec': wf[len(wf) // 2]['vec'], 'expected_counts': wf[len(wf) // 2]['counts']})
    inp = {'names': [n['hex'] for n in names], 'decoded': [decoded[n['n']].hex() for n in names], 'metas': [m.encode('latin-1').hex() for m in metas],
           'meta_sets': meta_sets, 'vectors': vectors, 'start': 0, 'obs_every': ctx.pick(7, 9), 'via_file': ctx.pick(5, 3)}
    recs, summaries, _done = resumable(ctx, 'TestVerifC06Vec', inp, len(vectors))
    for x in recs:
        if x.get('kind') == 'infra':
            raise Infra('C06: %s' % json.dumps(x)[:1500])
    evaluated = sum(s['evaluated'] for s in summaries)
    ctx.cov['evaluations'] += evaluated
    ctx.cov['vectors_replayed'] = evaluated
    outcomes = {}
    for s in summaries:
        for k, n in s['outcomes'].items():
            outcomes[k] = outcomes.get(k, 0) + n
    ctx.cov['vector_outcomes'] = outcomes
    mism = [x for x in recs if x.get('kind') == 'mismatch']
    vobs = [x for x in recs if x.get('kind') == 'obs']
    crashed = {x['i'] for x in mism if x['what'] in ('panic', 'hang')}
    for m in mism:
        if m['what'] in ('panic', 'hang'):
            continue          # decided (and classified) by TLC on the abstracted bytes below
        ctx.violation('C06:parse:%s:%s' % (m['what'], m['cls']), m,
                      'vector %d (class %s): %s: %s' % (m['i'], m['cls'], m['what'], m.get('msg')))
    bad, classes, disagree = validate_obs(ctx, vobs, 'FileFormatParseTrace-vec')
    decided = {o.get('i') for (o, verdict, cls) in bad if verdict in ('panic', 'hang')}
    if crashed - decided:
        raise Infra('C06: crashed vectors %s were not decided by the trace module' % sorted(crashed - decided)[:5])
    for (o, verdict, cls) in bad:
        report(ctx, o, verdict, cls, 'vector')
    if not [b for b in bad if b[1] not in ('panic', 'hang')] and not [m for m in mism if m['what'] not in ('panic', 'hang')]:
        ctx.cov['traces_validated_against_impl'] += evaluated - len(crashed)

    # ---- 2. code -> model: random and mutated byte strings ------------------
    total = ctx.pick(5000, 100000)
    recs, summaries, done = resumable(ctx, 'TestVerifC06Fuzz', {'start': 0, 'end': total}, total)
    fobs = [x for x in recs if x.get('kind') == 'obs']
    if len(fobs) != done:
        raise Infra('C06: %d of %d fuzz observations' % (len(fobs), total))
    kinds = {}
    for s in summaries:
        for k, n in s['kinds'].items():
            kinds[k] = kinds.get(k, 0) + n
    ctx.cov['fuzz_kinds'] = kinds
    bad, fclasses, dis2 = validate_obs(ctx, fobs, 'FileFormatParseTrace-fuzz')
    for (o, verdict, cls) in bad:
        report(ctx, o, verdict, cls, 'fuzz input')
    ctx.cov['fuzz_classes'] = fclasses
    ctx.cov['observations_validated'] = len(fobs) + len(vobs)
    ctx.cov['decoder_spec_disagreements'] = disagree + dis2
    ctx.cov['evaluations'] += len(fobs)
    ctx.cov['traces_validated_against_impl'] += len(fobs) - len(bad)
    okwf = [o for o in fobs if o['out']['kind'] == 'ok' and o['src'].startswith('valid')]
    if okwf:
        o = okwf[0]
        ctx.sample({'kind': 'observation', 'source': o['src'], 'records': len(o['f']['recs']), 'outcome': o['out']['kind'],
                    'counts': len(o['out']['counts']), 'meta_keys': len(o['out']['meta'])})
    # ---- 3. the same path read several times in one process (FileFormatReads.tla) ----
    reads_phase(ctx)

    ctx.cov['rule'] = ('vectors = every file FileFormatParse.tla enumerates (well-formed files over the name/metadata catalogues; damaged files = bases x '
                       'corruptions), concretized and fed to counter.Parse (and ReadFile); observations = random / mutated byte strings abstracted by an '
                       'independent walk and decided by TLC (verdict + corruption class per input)')
    ctx.cov['distinct_nontrivial'] = len(vectors) + len({json.dumps(o['f'], sort_keys=True) for o in fobs})
