"""C07 — each expired counter file is folded into exactly one weekly report."""
from checks import _uploader


def run(ctx):
    _uploader.run(ctx, 'C07')
