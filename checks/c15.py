"""C15 — stack counter names (StackName*.tla).

model -> code : TLC enumerates (StackNameMC) every string over {", ., newline, x, y}
                up to a bound with its expansion, every frame sequence over
                import-path / function tokens with every valid (optional-ditto)
                encoding, and every pair of short sequences; it proves round trip,
                identity, bounds/marker, shortest form, injectivity on renderings and
                the agreement of the character-level and line-level readings.  The
                strings and encodings go to the real DecodeStack/IsStackCounter; the
                frame sequences become real call stacks (generated library with plain
                functions, methods, generics, a dotted package path and symbols
                without import path) ending in StackCounter.Inc on a private file.
                TLC's counter-example to "different stacks, different names" (two
                instantiations of a generic function) is replayed as a witness.
code -> model : every distinct real stack (incl. random and deep, truncated ones) is
                written as lines [k, v, r] (own splitter, own uncompressed rendering
                of the captured PCs) with the real name, the real expansion, cache and
                file-decoder observations, and pairs of stacks; TLC decides each
                record (StackNameTrace).
"""
import json

from vlib import tlaval
from vlib.core import Infra, ndjson_text

CONSTS = 'CONSTANTS\n MaxLen = %d\n StrLen = %d\n SeqLen = %d\n PairLen = %d\n Generic = %s\n Deeps = {5, 33, 40, 64}\n'

SIG = {
    1: ('C15:name:longer-than-4096', 'an encoded name is longer than 4096 bytes'),
    2: ('C15:encode:name-is-no-encoding-of-the-frames', 'an unmarked name does not expand (by the specification\'s reading) to the uncompressed rendering of the frames it was made from'),
    3: ('C15:decode:valid-name-not-restored', 'DecodeStack does not restore the uncompressed rendering from a valid encoded name'),
    5: ('C15:cache:same-stack-not-one-counter', 'incrementing from the same call stack did not hit one counter (a second counter appeared, or the stored value is not the number of increments)'),
    6: ('C15:file-decoder:expanded-name-not-listed', 'the file decoder does not list the counter under the uncompressed rendering of its frames'),
    13: ('C15:roundtrip:empty-import-path-dittoed', 'a frame without import path is abbreviated with the ditto mark; expanding the name does not give back the frames (F13)'),
    4: ('C15:distinct-stacks-same-name', 'two different untruncated call stacks with different renderings have the same counter name'),
}


def _verdict(out, tag):
    k = out.find('"%s"' % tag)
    if k < 0:
        return None, None
    k = out.rfind('<<', 0, k)
    depth, i = 0, k
    while i < len(out):
        two = out[i:i + 2]
        if two == '<<':
            depth += 1
            i += 2
        elif two == '>>':
            depth -= 1
            i += 2
            if depth == 0:
                break
        else:
            i += 1
    v = tlaval.parse(out[k:i])
    return v[1], [(x[0], x[1]) for x in v[2]]


def _s(x):
    """a TLA+ char sequence (list of 1-char strings) -> str"""
    return ''.join(x)


FN = {
    ('', 'x'): 'nodot.x', ('', 'y'): 'nodot.y',
    ('x', 'x'): 'x.X', ('x', 'y'): 'x.Y',
    ('y', 'x'): 'y.X', ('y', 'y'): 'y.Y',
    ('x.y', 'x'): 'x.(*T).M', ('x.y', 'y'): 'x.(*T).N',
    ('x..', 'x'): 'x.G', ('x..', 'y'): 'x.H',
}
# a second concretization of the same abstract sequences
FN2 = dict(FN)
FN2.update({('x', 'x'): 'y.x.X', ('x', 'y'): 'y.x.Y', ('y', 'x'): 'x.X', ('y', 'y'): 'x.Y',
            ('x.y', 'x'): 'x.T.V', ('x.y', 'y'): 'x.clo', ('x..', 'x'): 'x.(*R).M', ('x..', 'y'): 'x.H'})
PREFIX = {'': '', 'x': 'c15/stack', 'x.y': 'gopls.bug'}


def _chain(frs, table):
    out = []
    for fr in frs:
        n = table[(_s(fr['path']), _s(fr['fn']))]
        if n in ('x.G', 'x.H', 'x.(*R).M'):
            n += '#%d' % (fr['inst'] or 1)
        out.append(n)
    return out


def run(ctx):
    ctx.assumptions += [
        'the uncompressed rendering of a frame is IMPORTPATH.FUNC:LINE,+0xOFFSET with (IMPORTPATH, FUNC) the runtime function name cut at its '
        'last dot (a symbol without a dot has an empty import path and renders as ".SYMBOL:..."); symbolisation is the Go runtime\'s',
        'a call stack is the PC sequence StackCounter.Inc captured (read through an export added to the scratch copy); two stacks are '
        'different iff these sequences differ',
        'counter names given to NewStack contain no newline and no ditto mark; the first line of a name is the counter\'s own name',
        'on strings that are not encodings of a frame sequence only totality, identity on newline-free strings and IsStackCounter are '
        'demanded; differences between DecodeStack and the specification\'s Decode there are counted, not reported',
        '"visibly marked" = the word "truncated" occurs in the last 40 bytes of the name; when truncation may happen is not decided',
        'frames without import path are realised with go:linkname symbols (what assembly / C symbols and unresolvable PCs look like)',
    ]
    ctx.inject('internal/counter', 'internal/verifh/c15')
    maxlen, strlen, seqlen, pairlen = 14, ctx.pick(6, 7), ctx.pick(3, 4), ctx.pick(2, 3)
    consts = CONSTS % (maxlen, strlen, seqlen, pairlen, 'FALSE')

    # ---- 1. strings: Decode / IsStack ----------------------------------------
    r = ctx.tlc('StackNameMC', cfg_text='INIT InitDec\nNEXT Next\nINVARIANTS Identity DecodeShape AbsCommutes\nCHECK_DEADLOCK FALSE\n' + consts,
                dump=True, label='StackNameMC-dec', timeout=2400)
    if not r.ok:
        raise Infra('StackNameMC dec: the specification violates %s %s\n%s' % (r.error, r.error_name, r.out[-3000:]))
    strings = [{'id': i + 1, 's': _s(st['s']), 'dec': st['dec']} for i, st in enumerate(tlaval.read_dump(r.dump))]
    # ---- 2. frame sequences ------------------------------------------------------
    r = ctx.tlc('StackNameMC', cfg_text='INIT InitEnc\nNEXT Next\nINVARIANTS RoundTrip Bounded Shortest\nCHECK_DEADLOCK FALSE\n' + consts,
                dump=True, label='StackNameMC-enc', timeout=2400)
    if not r.ok:
        raise Infra('StackNameMC enc: the specification violates %s %s\n%s' % (r.error, r.error_name, r.out[-3000:]))
    seqs = list(tlaval.read_dump(r.dump))
    valid, chains = [], []
    for i, st in enumerate(seqs):
        for a in st['alts']:
            valid.append({'id': i + 1, 'enc': a, 'unc': st['unc']})
        pfx = PREFIX[_s(st['prefix'])]
        chains.append({'id': 2 * i + 1, 'fns': _chain(st['frs'], FN), 'prefix': pfx, 'extra': 0, 'src': 'tlc'})
        if i % 2 == 0:
            chains.append({'id': 2 * i + 2, 'fns': _chain(st['frs'], FN2), 'prefix': pfx, 'extra': 3 if i % 4 == 0 else 0, 'src': 'tlc'})
    ctx.sample({'kind': 'frame sequence', 'prefix': _s(seqs[len(seqs) // 2]['prefix']), 'frames': [(_s(f['path']), _s(f['fn'])) for f in seqs[len(seqs) // 2]['frs']],
                'enc': seqs[len(seqs) // 2]['enc'], 'unc': seqs[len(seqs) // 2]['unc']})
    # ---- 3. pairs; the generic-instantiation witness -----------------------------
    r = ctx.tlc('StackNameMC', cfg_text='INIT InitPair\nNEXT Next\nINVARIANTS InjectiveRender InjectiveStacks\nCHECK_DEADLOCK FALSE\n' + consts,
                label='StackNameMC-pair', timeout=2400)
    if not r.ok:
        raise Infra('StackNameMC pair: the specification violates %s %s\n%s' % (r.error, r.error_name, r.out[-3000:]))
    r = ctx.tlc('StackNameMC', cfg_text='INIT InitPair\nNEXT Next\nINVARIANTS InjectiveRender InjectiveStacks\nCHECK_DEADLOCK FALSE\n' +
                CONSTS % (maxlen, strlen, seqlen, 1, 'TRUE'), label='StackNameMC-generic-witness', count=False, timeout=600)
    witness = None
    if r.error == 'invariant' and r.error_name == 'InjectiveStacks' and r.trace:
        st = r.trace[0][1]
        witness = (st['frs'], st['frs2'], _s(st['prefix']))
        for k, frs in enumerate(witness[:2]):
            chains.append({'id': 1900000 + k, 'fns': _chain(frs, FN), 'prefix': PREFIX[witness[2]], 'extra': 0, 'src': 'witness'})
            chains.append({'id': 1900010 + k, 'fns': ['y.X'] + _chain(frs, FN) + ['x.Y'], 'prefix': PREFIX[witness[2]], 'extra': 3, 'src': 'witness'})
        ctx.cov['model_counterexample_generic'] = 'InjectiveStacks fails in the model when frames carry an unrendered instantiation: %s vs %s' % (
            _chain(witness[0], FN), _chain(witness[1], FN))
    elif not r.ok:
        raise Infra('StackNameMC generic witness: unexpected %s %s\n%s' % (r.error, r.error_name, r.out[-2000:]))

    # ---- 3b. deep stacks that differ in exactly one frame, at every depth ---------
    r = ctx.tlc('StackNameMC', cfg_text='INIT InitSingle\nNEXT Next\nINVARIANTS SingleDiffers DepthDecides\nCHECK_DEADLOCK FALSE\n' +
                CONSTS % (4096, strlen, seqlen, pairlen, 'FALSE'), dump=True, label='StackNameMC-single', timeout=1200)
    if not r.ok:
        raise Infra('StackNameMC single: the specification violates %s %s\n%s' % (r.error, r.error_name, r.out[-3000:]))
    nsingle, seen_single = 0, set()
    for st in tlaval.read_dump(r.dump):
        for frs in (st['frs'], st['frs2']):
            fns = tuple(_chain(frs, FN))
            # NewStack depth as the model chose it (fewer frames than the chain has: extra < 0)
            key = (fns, st['depth'])
            if key in seen_single:
                continue
            seen_single.add(key)
            chains.append({'id': 1600000 + nsingle, 'fns': list(fns), 'prefix': 'c15/deep', 'extra': st['depth'] - len(fns), 'src': 'single'})
            nsingle += 1
    ctx.cov['single_difference_stacks'] = nsingle

    # ---- 4. real DecodeStack on strings and valid encodings ----------------------
    recs, rc, out = ctx.run_harness('./internal/verifh/c15', 'TestVerifC15Dec', inp={'strings': strings, 'valid': valid}, timeout=1800)
    summ = [x for x in recs if x.get('kind') == 'summary']
    if not summ:
        raise Infra('C15 dec harness wrote no summary:\n' + out[-2000:])
    ctx.cov['evaluations'] += summ[0]['evaluated']
    ctx.cov['strings_replayed'] = len(strings)
    ctx.cov['valid_encodings_replayed'] = len(valid)
    ctx.cov['decode_differs_from_model_on_non_encodings'] = summ[0]['diverge']
    for m in [x for x in recs if x.get('kind') == 'mismatch']:
        what = m['what']
        sig = {'panic': 'C15:decode:panic', 'hang': 'C15:decode:hang', 'identity': 'C15:decode:not-identity-on-ordinary-name',
               'valid-encoding': 'C15:decode:valid-name-not-restored', 'isstack': 'C15:isstack:not-iff-newline'}[what]
        ctx.violation(sig, m, 'DecodeStack/IsStackCounter on %s: %s: got %s want %s %s' % (
            json.dumps(m['s']), what, json.dumps(m['got']), json.dumps(m['want']), m.get('extra', '')))
    if summ[0]['mismatches'] == 0:
        ctx.cov['traces_validated_against_impl'] += len(strings) + len(valid)
    dv = [x for x in recs if x.get('kind') == 'diverge']
    if dv:
        ctx.sample({'kind': 'non-encoding on which DecodeStack and the model differ (not demanded)', **dv[0]})

    # ---- 5. real call stacks -------------------------------------------------------
    inp = {'chains': chains, 'random': ctx.pick(1500, 20000), 'deep': ctx.pick(150, 1500)}
    recs, rc, out = ctx.run_harness('./internal/verifh/c15', 'TestVerifC15Enc', inp=inp, timeout=2400)
    summ = [x for x in recs if x.get('kind') == 'summary']
    if not summ:
        raise Infra('C15 enc harness wrote no summary:\n' + out[-3000:])
    su = summ[0]
    ctx.cov.update({'call_chains_run': su['chains'], 'distinct_stacks': su['stacks'], 'truncated_names': su['truncated'], 'pairs': su['pairs']})
    ctx.cov['evaluations'] += 2 * su['chains']
    ctx.cov['stacks_that_cannot_fit_4096'] = su['toolong']
    if su['toolong'] == 0:
        raise Infra('no deep chain was long enough to need truncation; the bound/marker clauses were not exercised')
    for c in [x for x in recs if x.get('kind') == 'cache']:
        ctx.violation('C15:cache:' + c['what'], c, 'stack counter cache: %s (%s)' % (c['what'], json.dumps(c)[:400]))
    obs = [x for x in recs if x.get('kind') == 'rec']
    keys = ('t', 'unc', 'enc', 'dec', 'marked', 'lenok', 'once', 'fileok', 'differ', 'untrunc', 'samename', 'samerender', 'generic')
    bad = []
    chunk = 20000
    for c in range(0, len(obs), chunk):
        part = obs[c:c + chunk]
        r = ctx.tlc('StackNameTrace', files={'c15obs.ndjson': ndjson_text([{k: x[k] for k in keys if k in x} for x in part])},
                    workers=1, label='StackNameTrace[%d]' % (c // chunk), count=False, timeout=2400)
        if not r.ok:
            raise Infra('StackNameTrace failed: %s\n%s' % (r.error, r.out[-3000:]))
        n, b = _verdict(r.out, 'C15BAD')
        if n != len(part) or r.distinct < len(part) + 1:
            raise Infra('StackNameTrace did not reach the end of the trace (%s of %d)\n%s' % (n, len(part), r.out[-2000:]))
        bad += [(part[l - 1], cls) for (l, cls) in b]
    ctx.cov['traces_validated_against_impl'] += len(obs) - len(bad)
    st = [x for x in obs if x['t'] == 'stack']
    if st:
        ctx.sample({'kind': 'observed stack', 'fns': st[len(st) // 2]['fns'], 'enc': st[len(st) // 2]['enc'], 'marked': st[len(st) // 2]['marked']})
    if witness and not any(c in (18, 19) and x.get('id', 0) >= 1900000 and x.get('id', 0) < 2000000 for (x, c) in bad):
        ctx.cov['generic_witness_on_real_code'] = 'the two instantiations got different names'
    if bad:
        per = {}
        for (x, c) in bad:
            per.setdefault(c, []).append(x)
        ctx.cov['unexplained_by_class'] = {str(k): len(v) for k, v in per.items()}
        first = [x for c in per for x in per[c][:3]]
        show = dict(inp)
        show['show'] = sorted({x['id'] for x in first})
        drecs, rc, out = ctx.run_harness('./internal/verifh/c15', 'TestVerifC15Enc', inp=show, timeout=2400)
        det = {x['id']: x for x in drecs if x.get('kind') == 'rec' and x.get('t') == 'stack' and 'name' in x}
        for c in per:
            for x in per[c][:3]:
                d = det.get(x['id'], {})
                detail = {'record': x, 'name': d.get('name'), 'uncompressed': d.get('uncompressed'), 'decoded': d.get('decoded')}
                if c in (18, 19):
                    if c == 18:
                        sig, text = 'C15:distinct-stacks-same-name:generic-instantiations', (
                            'two call stacks through different instantiations of one generic function have the same untruncated name (F18)')
                    else:
                        sig, text = 'C15:distinct-stacks-same-name:same-rendering', 'two different call stacks render alike and share one name'
                    text += ': %s vs %s -> %s' % (x['fns'], x['fns2'], json.dumps(x.get('name')))
                else:
                    sig, text = SIG.get(c, ('C15:unexplained', 'unexplained observation'))
                    text += ' [chain %s depth %s; name=%s; expanded=%s; want=%s; %s]' % (
                        x.get('fns'), x.get('depth'), json.dumps(d.get('name'))[:500], json.dumps(d.get('decoded'))[:500],
                        json.dumps(d.get('uncompressed'))[:500], x.get('extra', ''))
                ctx.violation(sig, detail, text)
    ctx.cov['distinct_nontrivial'] = len(strings) + len(seqs) + su['stacks']
    ctx.cov['rule'] = ('TLC: all strings of length <= %d over 5 characters (Identity, DecodeShape, AbsCommutes), all frame sequences of length <= %d over 10 frame '
                       'tokens x 2 prefixes with all optional-ditto encodings (RoundTrip, Bounded, Shortest; MaxLen %d), all pairs of length <= %d (injectivity); '
                       'each replayed on DecodeStack / as real call chains; %d distinct real stacks (%d truncated) and %d pairs decided by TLC (StackNameTrace)' % (
                           strlen, seqlen, maxlen, pairlen, su['stacks'], su['truncated'], su['pairs']))
