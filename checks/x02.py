"""X02 (extension engine) -- generation and distribution of the upload
configuration: chart config -> configgen.generate -> config.json -> module
proxy -> configstore.Download -> config.NewConfig lookups, plus
internal/unionfs.  Specifications: spec/ConfigDist*.tla (guarantees G1..G6 are
stated in the header of spec/ConfigDist.tla)."""
import json
import random
import threading

from vlib import tlaval
from vlib.core import Infra, ndjson_text
from checks import _x02_util as U

REL = U.REL
SIG_F1 = 'X02:G2:min-version-newer-than-every-known-release:padding-restarts-at-v0.0.0'
SIG_F2 = 'X02:G6:readdir:not-sorted-across-layers'
SIG_F3 = 'X02:G4:contains:sample-rate-ignored'

G_OF = {'program': 'G1', 'counter': 'G1', 'stack': 'G1', 'prefix': 'G1', 'rate': 'G1', 'nearmiss': 'G1', 'verlookup': 'G1',
        'eligible': 'G2', 'notbelow': 'G2', 'onlynext': 'G2', 'nextpatch': 'G2', 'nextminor': 'G2', 'ascending': 'G2', 'absent': 'G2',
        'order': 'G3', 'goversion': 'G3', 'function': 'G3', 'errs': 'G3', 'blamed': 'G3', 'allproblems': 'G3',
        'contains': 'G4', 'sound': 'G4'}
CLAUSE_TEXT = {
    'program': 'HasProgram / the program list does not name exactly the programs of the chart records',
    'counter': 'HasCounter does not accept exactly the names the program\'s counter records expand to',
    'stack': 'HasStack does not accept exactly the names of the program\'s stack records',
    'prefix': 'HasCounterPrefix does not know the chart name of a bucketed counter record (or knows a chart no counter record of the program has)',
    'rate': 'accepted names do not carry rate 1 in their own table and every other name rate 0',
    'nearmiss': 'a near miss of a name / program (expression itself, prefix, suffix, extra brace ...) is accepted by a lookup',
    'verlookup': 'HasVersion does not answer exactly the program\'s generated version list',
    'eligible': 'a known version not older than the program\'s smallest minimum version is not listed',
    'notbelow': 'a version OLDER than the program\'s smallest minimum version is listed',
    'onlynext': 'an unknown version is listed that is not newer than the newest known release (not a "potential next version"), or a toolchain program lists an unknown version',
    'nextpatch': 'the next patch release after the newest known release is not listed although the padding allows one release and one patch',
    'nextminor': 'the next minor release after the newest known release is not listed although the padding allows one release and one minor',
    'ascending': 'the version list is not strictly ascending (unsorted or with duplicates)',
    'absent': 'a program without chart records has versions',
    'order': 'programs are not listed once each in ascending order of their names',
    'goversion': 'GoVersion / HasGoVersion is not the ascending duplicate-free list of the toolchain\'s Go versions',
    'function': 'regenerating from the same records and the same version SETS (permuted lists, further os/arch variants) gave different bytes',
    'errs': 'generate fails although every record is coherent, or succeeds although one is not',
    'blamed': 'the error does not blame the first incoherent record',
    'allproblems': 'the error does not describe all problems of the blamed record',
    'contains': 'contains(outer, inner) differs from "outer lists all program versions of inner and is otherwise equivalent"',
    'sound': 'contains(outer, inner) holds although something accepted under inner is not accepted (at the same rate) under outer',
}


# =========================================================================
# scenario constants
# =========================================================================
def flow_scenario(seed):
    s = seed % 4
    g = 21 + seed % 3
    k1 = [[1, g, 0, 0], [1, g, 3, 0], [1, g, 3, 4], [1, g + 1, 2, 1], [1, g + 1, 3, 0]]
    k2 = [[0, 1 + s, 0, REL], [0, 2 + s, 0, 1]]
    k3 = [[0, 1 + s, 0, REL], [0, 2 + s, 0, 1], [0, 2 + s, 0, REL]]
    mins_tool = [[], [1, g, 3, 0], [1, g + 1, 2, 1], [1, g + 2, 3, 0]]
    mins_mod = [[], [0, 1 + s, 0, REL], [0, 2 + s, 0, 1], [0, 3 + s, 0, REL]]
    pad = {'rel': 1 + seed % 3, 'maj': seed % 2, 'majmin': 1 + (seed // 2) % 2, 'patch': 1 + seed % 2, 'pre': seed % 3}
    depth = [1, 5, 16][seed % 3]
    return dict(known={1: k1, 2: k2, 3: k3}, mins_tool=mins_tool, mins_mod=mins_mod, pad=pad, depth=depth)


def flow_mc(sc, nprog, exprs, sexprs, mins_tool, mins_mod):
    known = ' @@ '.join('%d :> %s' % (p, U.tset(sc['known'][p])) for p in range(1, nprog + 1))
    return '''---- MODULE MCConfigDistFlow ----
EXTENDS ConfigDistFlow
MCProgs == 1..%d
MCTools == {1}
MCExprs == {%s}
MCStackExprs == {%s}
MCDepths == {0, %d}
MCMinsTool == %s
MCMinsMod == %s
MCKnownOf == %s
MCPad == %s
====
''' % (nprog, ', '.join(U.tla({'chart': c, 'bks': b}) for c, b in exprs), ', '.join(U.tla({'chart': c, 'bks': b}) for c, b in sexprs),
       sc['depth'], U.tset(mins_tool), U.tset(mins_mod), known, U.tla(sc['pad']))


FLOW_CFG = '''SPECIFICATION Spec
INVARIANTS %s
CHECK_DEADLOCK FALSE
CONSTANTS
 MaxRecs = %d
 Progs <- MCProgs
 Tools <- MCTools
 Exprs <- MCExprs
 StackExprs <- MCStackExprs
 Depths <- MCDepths
 MinsTool <- MCMinsTool
 MinsMod <- MCMinsMod
 KnownOf <- MCKnownOf
 Pad <- MCPad
'''
FLOW_INVS = 'RepairedSatisfiesG2 AsBuiltFailsOnlyInClass ToolListIsEligible OrderIndependent Confined Monotone ExpansionCount PrefixImpliesActive'


def aslist(v):
    """TLA+ tuples / sequences come back as lists; the empty function <<>> as [] or {}"""
    if isinstance(v, dict):
        return [] if not v else [v[k] for k in sorted(v)]
    return list(v)


# =========================================================================
# flow cases
# =========================================================================
def flow_case(cid, recs, nprog, known, pads, rng, invalid_tool=False):
    """abstract records + known version tuples per program + paddings -> harness case"""
    versions = {}
    tv = []
    goknown = []
    for p in range(1, nprog + 1):
        name, module, tool = U.PROGS[p]
        if tool:
            for t in known[p]:
                if t not in goknown:
                    goknown.append(t)
        else:
            vs = [U.sem_str(t) for t in known[p]]
            rng.shuffle(vs)
            versions[module] = vs
    for t in goknown:
        tv.append(U.toolchain_version(U.go_str(t), rng))
        if rng.random() < 0.3:
            tv.append('v0.0.1-%s.%s' % (U.go_str(t), 'freebsd-riscv64'))
    if invalid_tool:
        tv.append('v0.0.1-go1.9.2rc2.linux-amd64')      # the invalid version the real proxy lists
    rng.shuffle(tv)
    versions[U.TOOLCHAIN] = tv
    for r in recs:
        if len(r['bks']) == 1:
            r.setdefault('form', rng.choice(['single', 'braced']))
        if len(r['bks']) >= 2:
            r.setdefault('multiline', rng.random() < 0.4)
    paddings = {U.PROGS[p][0]: pads[p] for p in range(1, nprog + 1) if not U.PROGS[p][2]}
    vuni = set()
    for p in range(1, nprog + 1):
        tool = U.PROGS[p][2]
        for t in known[p]:
            vuni.add(U.ver_str(t, tool))
    for r in recs:
        if r['min']:
            vuni.add(U.ver_str(r['min'], U.PROGS[r['prog']][2]))
    vuni |= {'go1.9.2rc2', 'v0.0.0', 'v0.0.1', 'go1.1', 'devel', ''}
    return {'id': cid, 'text': U.render_text(recs, rng), 'versions': versions, 'paddings': paddings, 'vuniverse': sorted(vuni),
            'perm': rng.randrange(1 << 30),
            '_recs': recs, '_nprog': nprog, '_known': known, '_pads': pads, '_goknown': goknown}


def abstract_flow(ctx, case, x):
    """harness record -> observation in the vocabulary of ConfigDistTrace (or None after reporting)"""
    recs, nprog = case['_recs'], case['_nprog']
    detail = {'text': case['text'], 'versions': case['versions'], 'paddings': case['paddings'], 'observed': x}
    if x.get('hang') or x.get('panic'):
        ctx.violation('X02:G3:generate:%s' % ('hang' if x.get('hang') else 'panic'), detail,
                      'G3: generate %s on a valid chart configuration: %s\n%s' % ('hung' if x.get('hang') else 'panicked', x.get('panic'), case['text'][:600]))
        return None
    if x.get('parse_err'):
        ctx.violation('X02:G1:pipeline:parse-error', detail, 'G1: a chart configuration in the documented syntax is rejected by Parse: %s\n%s' % (x['parse_err'], case['text'][:800]))
        return None
    if x.get('gen_err'):
        ctx.violation('X02:G3:errs:error-on-coherent-records', detail, 'G3: generate fails on coherent chart records: %s\n%s' % (x['gen_err'], case['text'][:800]))
        return None
    rank = U.name_rank(nprog)
    byname = {U.PROGS[p][0]: p for p in range(1, nprog + 1)}
    o = {'kind': 'flow', 'nprog': nprog, 'nchart': len(U.CHARTS), 'nbucket': len(U.BUCKETS),
         'recs': [{'prog': r['prog'], 'chart': r['chart'], 'bks': r['bks'], 'depth': r['depth'], 'min': r['min']} for r in recs],
         'tools': [p for p in range(1, nprog + 1) if U.PROGS[p][2]],
         'known': [case['_known'][p] for p in range(1, nprog + 1)],
         'pads': [dict(zip(('rel', 'maj', 'majmin', 'patch', 'pre'), case['_pads'][p])) for p in range(1, nprog + 1)],
         'order': [rank.get(byname.get(n, 0), 0) for n in x['order']],
         'stable': bool(x.get('stable')), 'goknown': case['_goknown']}
    for k in ('listed', 'hasver', 'present', 'inlist', 'ctr', 'stk', 'rate1', 'srate1', 'pfx', 'odd', 'near'):
        o[k] = []
    for p in range(1, nprog + 1):
        px = x['progs'][p - 1]
        tool = U.PROGS[p][2]
        listed = []
        for s in px['listed']:
            t = U.ver_tuple(s, tool)
            if t is None:
                ctx.violation('X02:G2:unparseable-version-listed', detail, 'G2: program %s lists %r, which is neither a known nor a potential next version' % (px['name'], s))
                return None
            listed.append(t)
        o['listed'].append(listed)
        ls = set(px['listed'])
        o['hasver'].append([U.ver_tuple(s, tool) if s in ls else [-1, 0, 0, 0] for s in px['hasver']])
        o['present'].append(bool(px['present']))
        o['inlist'].append(px['inlist'] == 1)
        for k in ('ctr', 'stk', 'rate1', 'srate1', 'pfx', 'odd', 'near'):
            o[k].append(px[k])
    gl = set(x['goversion'])
    o['gover'] = [t for t in (U.go_tuple(s) for s in x['goversion']) if t is not None]
    o['hasgover'] = [(U.go_tuple(s) or [-2, 0, 0, 0]) if s in gl else [-1, 0, 0, 0] for s in x['hasgover'] if not (s in gl and U.go_tuple(s) is None)]
    return o


def flow_text(case, x, clause, p):
    name = U.PROGS[p][0] if p else '-'
    progs = {q['name']: q for q in x.get('progs', [])}
    px = progs.get(name, {})
    recs = [(U.PROGS[r['prog']][0], U.expr_str(r['chart'], r['bks'], r.get('form')), r['depth'],
             U.ver_str(r['min'], U.PROGS[r['prog']][2]) if r['min'] else '') for r in case['_recs']]
    s = '%s (%s): %s.\n  chart records (program, counter, depth, version): %s\n' % (G_OF.get(clause, 'G?'), clause, CLAUSE_TEXT.get(clause, clause), recs)
    if p:
        tool = U.PROGS[p][2]
        s += '  program %s: proxy lists %s; padding %s; generated Versions %s\n' % (
            name, [U.ver_str(t, tool) for t in case['_known'][p]], case['_pads'][p], px.get('listed'))
        if clause in ('counter', 'stack', 'rate', 'prefix', 'nearmiss'):
            s += '  accepted counters %s stacks %s prefixes %s near-miss hit: %s\n' % (
                [U.CHARTS[c - 1] + (':' + U.BUCKETS[b - 1] if b else '') for c, b in px.get('ctr', [])],
                [U.CHARTS[c - 1] + (':' + U.BUCKETS[b - 1] if b else '') for c, b in px.get('stk', [])],
                [U.CHARTS[c - 1] for c in px.get('pfx', [])], px.get('nearex'))
    else:
        s += '  program order %s GoVersion %s regenerate: %s\n' % (x.get('order'), x.get('goversion'), x.get('regen'))
    return s


# =========================================================================
# validation cases
# =========================================================================
SEMVERS = ['v0.14.0', 'v1.2.3', 'v0.15.0-pre.1', 'v1.2']
GOVERS = ['go1.21', 'go1.21.0', 'go1.22rc1', 'go1.23.4']
JUNKS = ['1.2.3', 'latest', 'v1.2.3.4', 'go', 'gov1', '1.21', 'v1.x']
VALID_VERSIONS = {U.TOOLCHAIN: ['v0.0.1-go1.21.0.linux-amd64', 'v0.0.1-go1.22rc1.linux-amd64', 'v0.0.1-go1.23.4.darwin-arm64'],
                  'golang.org/x/tools/gopls': ['v0.14.0', 'v0.15.0-pre.1', 'v1.2.3']}
VALID_PADS = {'golang.org/x/tools/gopls': [1, 0, 1, 1, 1]}


def valid_record(f, rng, k):
    prog = {'none': '', 'tool': 'cmd/go', 'mod': 'golang.org/x/tools/gopls'}[f['prog']]
    ver = {'none': '', 'semver': rng.choice(SEMVERS), 'gover': rng.choice(GOVERS), 'junk': rng.choice(JUNKS)}[f['ver']]
    return {'Title': 'T%d' % k if f['title'] else '', 'Description': rng.choice(['', 'd']),
            'Issue': ['https://go.dev/issue/%d' % (7 + i) for i in range(f['nissue'])],
            'Type': {'none': '', 'partition': 'partition', 'stack': 'stack'}[f['type']],
            'Program': prog, 'Module': 'cmd' if f['prog'] == 'tool' else 'golang.org/x/tools/gopls',
            'Counter': rng.choice(['gopls/bug', 'x:{a,b}', 'y:z']) if f['counter'] else '',
            'Depth': f['depth'], 'Error': 0, 'Version': ver}


def abstract_valid(ctx, fs, case, x):
    detail = {'records': case['records'], 'observed': x}
    if x.get('hang') or x.get('panic'):
        ctx.violation('X02:G3:generate:%s' % ('hang' if x.get('hang') else 'panic'), detail, 'G3: generate %s: %s on %s' % (
            'hung' if x.get('hang') else 'panicked', x.get('panic'), json.dumps(case['records'])[:600]))
        return None
    o = {'kind': 'valid', 'fs': fs, 'err': bool(x.get('err')), 'blamed': 0, 'nprob': 0}
    if x.get('err'):
        if not x.get('cfg_nil', True):
            ctx.violation('X02:G3:errs:config-returned-with-error', detail, 'G3: generate returns a configuration together with the error %r' % x.get('msg'))
        o['blamed'] = x.get('blamed', -1)
    return o


def valid_nprob(o, x):
    """the number of problems reported for the blamed record (-1: not all of them are in generate's message)"""
    per = x.get('per') or []
    b = o['blamed']
    if o['err'] and 1 <= b <= len(per):
        o['nprob'] = per[b - 1]['n'] if per[b - 1]['inmsg'] else -1


# =========================================================================
# still-valid cases
# =========================================================================
def concrete_cfg(c):
    def cc(e, stack):
        d = {'Name': ('stack%d' % e['name']) if stack else 'chart%d:{a,b}' % e['name'], 'Rate': e['rate'] / 100.0}
        if e['depth']:
            d['Depth'] = e['depth']
        return d
    return {'GOOS': ['os%d' % i for i in aslist(c['goos'])], 'GOARCH': ['arch%d' % i for i in aslist(c['goarch'])],
            'GoVersion': ['go1.%d' % i for i in aslist(c['gover'])], 'SampleRate': c['rate'] / 100.0,
            'Programs': [{'Name': 'prog/p%d' % p['name'], 'Versions': ['v1.%d.0' % v for v in aslist(p['versions'])],
                          'Counters': [cc(e, False) for e in aslist(p['counters'])], 'Stacks': [cc(e, True) for e in aslist(p['stacks'])]}
                         for p in aslist(c['progs'])]}


def norm_cfg(c):
    return {'goos': aslist(c['goos']), 'goarch': aslist(c['goarch']), 'gover': aslist(c['gover']), 'rate': c['rate'],
            'progs': [{'name': p['name'], 'versions': aslist(p['versions']),
                       'counters': [dict(e) for e in aslist(p['counters'])], 'stacks': [dict(e) for e in aslist(p['stacks'])]} for p in aslist(c['progs'])]}


STILL_BASE = {'goos': [1, 2], 'goarch': [1], 'gover': [1, 2], 'rate': 100,
              'progs': [{'name': 1, 'versions': [1, 2], 'counters': [{'name': 1, 'rate': 100, 'depth': 0}, {'name': 2, 'rate': 100, 'depth': 0}], 'stacks': []},
                        {'name': 2, 'versions': [1], 'counters': [{'name': 3, 'rate': 100, 'depth': 0}], 'stacks': [{'name': 4, 'rate': 100, 'depth': 5}]}]}


def random_edit(c, rng):
    c = json.loads(json.dumps(c))
    k = rng.choice(['addver', 'dropver', 'shufflever', 'addctr', 'rate', 'samplerate', 'goos', 'addprog', 'dropprog', 'depth', 'gover', 'dropstk'])
    ps = c['progs']
    p = rng.choice(ps) if ps else None
    if k == 'addver' and p:
        p['versions'].append(rng.randint(3, 9))
    elif k == 'dropver' and p and p['versions']:
        p['versions'].pop(rng.randrange(len(p['versions'])))
    elif k == 'shufflever' and p:
        rng.shuffle(p['versions'])
    elif k == 'addctr' and p:
        p['counters'].append({'name': rng.randint(5, 9), 'rate': 100, 'depth': 0})
    elif k == 'rate' and p and p['counters']:
        rng.choice(p['counters'])['rate'] = rng.choice([50, 100, 10])
    elif k == 'samplerate':
        c['rate'] = rng.choice([50, 100, 25])
    elif k == 'goos':
        c['goos'].append(rng.randint(3, 9))
    elif k == 'addprog':
        n = max([q['name'] for q in ps] + [0]) + 1
        ps.insert(rng.randint(0, len(ps)), {'name': n, 'versions': [1], 'counters': [], 'stacks': []})
    elif k == 'dropprog' and ps:
        ps.pop(rng.randrange(len(ps)))
    elif k == 'depth' and p and p['stacks']:
        p['stacks'][0]['depth'] += 1
    elif k == 'gover':
        c['gover'].append(rng.randint(3, 9))
    elif k == 'dropstk' and p and p['stacks']:
        p['stacks'].pop()
    return c


# =========================================================================
# union cases
# =========================================================================
def union_case(cid, layers, rng, real=False, missing=None):
    ls = []
    for l in layers:
        ls.append({n: {'k': e['k'], 'kids': sorted(aslist(e['kids']))} for n, e in l.items()})
    c = {'id': cid, 'layers': ls, 'real': real, 'missing': '', 'at': 0}
    if missing:
        c['missing'], c['at'] = missing, rng.randint(0, len(ls))
    return c


UNION_PATHS = [[], ['a'], ['b'], ['d'], ['a', 'a'], ['a', 'c'], ['b', 'a'], ['b', 'c'], ['d', 'a']]


def as_built_order(lst):
    """the order internal/unionfs is known to produce: layer by layer"""
    return sorted(lst, key=lambda e: (e['layer'], e['name']))


# =========================================================================
# TLC trace judgement
# =========================================================================
def printed_values(out, tag):
    """the values <<tag, ...>> TLC printed with PrintT (long values are wrapped over several lines)"""
    vals = []
    lines = out.split('\n')
    i = 0
    while i < len(lines):
        ln = lines[i]
        if ln.replace(' ', '').startswith('<<"%s"' % tag):
            buf = ln
            while buf.count('<<') > buf.count('>>') and i + 1 < len(lines):
                i += 1
                buf += '\n' + lines[i]
            vals.append(tlaval.parse(buf))
        i += 1
    return vals


def judge(ctx, module, fname, obs, label, chunk=3000, cfg_text=None, par=6):
    """run the trace module over the observations; returns {index: [failed items]}"""
    jobs = []
    for i in range(0, len(obs), chunk):
        kw = dict(files={fname: ndjson_text(obs[i:i + chunk])}, workers=1, label='%s[%d]' % (label, i // chunk), count=False, timeout=1500, stack='64m')
        if cfg_text:
            kw['cfg_text'] = cfg_text
        jobs.append(((module,), kw))
    failed = {}
    for k, r in enumerate(ctx.tlc_many(jobs, par=par)):
        if not r.ok:
            raise Infra('%s: %s %s\n%s' % (module, r.error, r.error_name, r.out[-3000:]))
        for item in printed_values(r.out, 'X02BAD'):
            failed[k * chunk + item[1] - 1] = [list(t) if isinstance(t, (list, tuple)) else t for t in item[2]]
    return failed


def run(ctx):
    if ctx.replay:
        try:
            with open(ctx.replay) as f:
                rp = json.load(f)
            ctx.seed, ctx.tier = int(rp.get('seed', ctx.seed)), rp.get('tier', ctx.tier)
        except (OSError, ValueError):
            raise Infra('cannot read replay file %s' % ctx.replay)
    rng = random.Random(ctx.seed * 7919 + 2)
    ctx.assumptions += [
        'G1/G2 are stated per program: an upload configuration has one version list per program, so a chart\'s counters are also accepted between the program\'s smallest minimum version and the chart\'s own',
        'chart records are valid and written in the documented syntax (bucket lists without blanks, on one line or one bucket per line); stack records carry bare names (a bucketed stack expression is not documented); '
        'type is partition or stack; module is always set; no record carries an error field (the documentation lets it determine the collection rate): every listed counter then has rate 1',
        'versions: canonical semantic versions vA.B.C / vA.B.C-pre.K and Go versions go1.N / go1.NbetaK / go1.NrcK / go1.N.K with N >= 21; proxy lists are duplicate-free for modules; '
        'the invalid toolchain version go1.9.2rc2 the real proxy lists is passed through but not judged',
        'HasCounterPrefix is judged as: true for the chart name of a bucketed counter record, false for a chart no counter record of the program has; for a bare (bucket-less) counter name it is not judged',
        'G3 validation: "coherent" = title, issue, program, counter, type present; depth >= 0; depth only on type stack; version valid for the kind of program; unsupported type strings and a missing module are not judged',
        'G4: pairs differing only in the order of counters / GOOS / GOARCH / GoVersion are not generated (whether that is "equivalent" is not documented)',
        'G5: file:// module proxy written by the repository\'s own internal/proxy; every version is published once and never withdrawn; a fresh module cache per history; requests: exact version, latest, "", an unpublished version, a non-version string',
        'G6: layers are trees of depth <= 2 whose directories are non-empty; paths that are a file in one layer and a directory in another are judged for Open only; '
        'an existing EMPTY directory for which ReadDir reports "not exist" (observed on the pinned code) is outside the domain; Sub with a FILE instead of a directory is not judged',
    ]
    ctx.inject('internal/configgen', 'internal/verifh/x02')
    sc = flow_scenario(ctx.seed)
    thorough = ctx.thorough()

    # ==================================================================
    # 1. TLC: exhaustive enumeration + theorems, all modules in parallel
    # ==================================================================
    exprs = [(1, []), (1, [1]), (1, [1, 2]), (2, [2, 3])]
    sexprs = [(3, []), (1, [])]
    flow_runs = [('q', 3, exprs, sexprs, sc['mins_tool'], sc['mins_mod'], 2)]
    if thorough:
        flow_runs.append(('t', 2, [(1, []), (1, [1, 2]), (2, [2])], [(3, [])], sc['mins_tool'][:3], [sc['mins_mod'][0], sc['mins_mod'][2], sc['mins_mod'][3]], 3))
    jobs = []
    for (tag, nprog, ex, sx, mt, mm, maxrecs) in flow_runs:
        mc = flow_mc(sc, nprog, ex, sx, mt, mm)
        jobs.append((('MCConfigDistFlow',), dict(files={'MCConfigDistFlow.tla': mc}, cfg_text=FLOW_CFG % (FLOW_INVS, maxrecs), dump=True,
                                                 label='ConfigDistFlow-%s' % tag, timeout=2400, workers=4)))
    # the finding at design level: the as-built order of filtering and padding violates G2 (expected counter-example)
    mcq = flow_mc(sc, 3, exprs, sexprs, sc['mins_tool'], sc['mins_mod'])
    jobs.append((('MCConfigDistFlow',), dict(files={'MCConfigDistFlow.tla': mcq}, cfg_text=FLOW_CFG % ('NoWitness', 1), label='ConfigDistFlow-witness', count=False, workers=1)))
    nflow = len(flow_runs)
    mcvalid = '''---- MODULE MCConfigDistValid ----
EXTENDS ConfigDistValid
MCDepthVals == {-1, 0, %d}
MCNeighbours == {[title |-> TRUE, nissue |-> 1, prog |-> "tool", counter |-> TRUE, type |-> "partition", depth |-> 0, ver |-> "gover"],
                 [title |-> TRUE, nissue |-> 2, prog |-> "mod", counter |-> TRUE, type |-> "stack", depth |-> 3, ver |-> "none"],
                 [title |-> FALSE, nissue |-> 1, prog |-> "mod", counter |-> TRUE, type |-> "partition", depth |-> 0, ver |-> "junk"]}
====
''' % sc['depth']
    jobs.append((('MCConfigDistValid',), dict(files={'MCConfigDistValid.tla': mcvalid}, dump=True, label='ConfigDistValid', workers=4,
                                              cfg_text='SPECIFICATION Spec\nINVARIANTS CompleteIsValid DepthOnlyOnStacks VersionKind BlameIsFirst\nCHECK_DEADLOCK FALSE\n'
                                                       'CONSTANTS\n DepthVals <- MCDepthVals\n Neighbours <- MCNeighbours\n')))
    mcstill = '---- MODULE MCConfigDistStill ----\nEXTENDS ConfigDistStill\nMCBase == %s\n====\n' % U.tla(STILL_BASE)
    jobs.append((('MCConfigDistStill',), dict(files={'MCConfigDistStill.tla': mcstill}, dump=True, label='ConfigDistStill', workers=4,
                                              cfg_text='SPECIFICATION Spec\nINVARIANTS Sound Reflexive Antisymmetric OnlyVersionsDiffer\nCHECK_DEADLOCK FALSE\n'
                                                       'CONSTANTS\n Base <- MCBase\n MaxEdits = %d\n' % ctx.pick(2, 3))))
    ucfg = ('SPECIFICATION Spec\nINVARIANTS Coherent EntryIsOpen Shadow UnionOfLayers SortedUnique Idempotent\nCHECK_DEADLOCK FALSE\n'
            'CONSTANTS\n NL = %d\n TopNames = {"a", "b"}\n KidNames = {%s}\n NameOrder <- ABCD\n')
    union_runs = [(2, '"a", "c"'), (3, '"c"')] if not thorough else [(2, '"a", "c"'), (3, '"a", "c"')]
    for (nl, kids) in union_runs:
        jobs.append((('ConfigDistUnion',), dict(dump=True, label='ConfigDistUnion-%d' % nl, workers=4,
                                                  cfg_text=ucfg % (nl, kids), timeout=2400)))
    nv = 5
    releases = [[1, 3, 5], [2, 3], [1, 2, 4], [3], [1, 4, 5]][ctx.seed % 5]
    scfg = ('SPECIFICATION Spec\nINVARIANTS OnlyPublished ExactIsExact LatestIsNewest NeverPartial NoSilentFallback\nPROPERTIES Immutable CountedOnce\n'
            'CHECK_DEADLOCK FALSE\nCONSTANTS\n NV = %d\n Releases = {%s}\n Contents = {"ok", "badjson", "nofile", "badtype"}\n MaxOps = %d\n')
    jobs.append((('ConfigDistStore',), dict(cfg_text=scfg % (4, ', '.join(str(v) for v in releases if v <= 4), ctx.pick(5, 6)), label='ConfigDistStore-bfs', workers=4, timeout=2400)))
    res = ctx.tlc_many(jobs, par=8)
    names = ['ConfigDistFlow'] * nflow + ['witness', 'ConfigDistValid', 'ConfigDistStill'] + ['ConfigDistUnion'] * len(union_runs) + ['ConfigDistStore']
    for nm, r in zip(names, res):
        if nm == 'witness':
            if r.error != 'invariant':
                raise Infra('ConfigDistFlow: the design-level witness of finding F1 was not found (NoWitness holds): the finding class is vacuous')
            continue
        if not r.ok:
            raise Infra('%s: the specification violates its own theorem %s %s\n%s' % (nm, r.error, r.error_name, r.out[-3000:]))
    r_flow, r_valid, r_still = res[:nflow], res[nflow + 1], res[nflow + 2]
    r_union = res[nflow + 3:nflow + 3 + len(union_runs)]
    wit = res[nflow].trace[-1][1] if res[nflow].trace else {}
    ctx.cov['design_witness_F1'] = {'records': wit.get('recs'), 'note': 'as-built order (filter by minimum version, then pad) violates G2 in the model; pad-then-filter satisfies G2 for every enumerated input'}

    # store behaviours: -simulate walks
    rs = ctx.tlc('ConfigDistStore', cfg_text=(scfg % (nv, ', '.join(map(str, releases)), 10)).replace('PROPERTIES Immutable CountedOnce\n', ''),
                 simulate={'num': ctx.pick(60, 600), 'file': True}, depth=10, label='ConfigDistStore-sim', count=False)
    if rs.error:
        raise Infra('ConfigDistStore simulate: %s\n%s' % (rs.error, rs.out[-2000:]))

    # ==================================================================
    # 2. harness inputs
    # ==================================================================
    # ---- flow: vectors from the dumps
    fcases, fexp = [], []
    for (tag, nprog, ex, sx, mt, mm, maxrecs), r in zip(flow_runs, r_flow):
        for st in tlaval.read_dump(r.dump):
            recs = [{'prog': x['prog'], 'chart': x['chart'], 'bks': aslist(x['bks']), 'depth': x['depth'], 'min': aslist(x['min'])} for x in aslist(st['recs'])]
            if tag == 't' and len(recs) < 3:
                continue
            cr = random.Random(ctx.seed * 31 + len(fcases))
            pads = {p: [sc['pad'][k] for k in ('rel', 'maj', 'majmin', 'patch', 'pre')] for p in range(1, nprog + 1)}
            fcases.append(flow_case(len(fcases), recs, nprog, {p: sc['known'][p] for p in range(1, nprog + 1)}, pads, cr))
            fexp.append(st)
    nvec_flow = len(fcases)
    ctx.log('flow vectors:', nvec_flow)
    # ---- flow: random record lists (code -> model)
    sem_pool = [[0, 1, 0, REL], [0, 1, 1, REL], [0, 2, 0, 1], [0, 2, 0, 2], [0, 2, 0, REL], [0, 2, 1, REL], [1, 0, 0, 1], [1, 0, 0, REL], [1, 1, 0, REL]]
    go_pool = [[1, 21, 0, 0], [1, 21, 1, 1], [1, 21, 2, 1], [1, 21, 3, 0], [1, 21, 3, 5], [1, 22, 2, 2], [1, 22, 3, 0], [1, 22, 3, 1], [1, 23, 2, 1], [1, 23, 3, 0]]
    for k in range(ctx.pick(400, 6000)):
        cr = random.Random(ctx.seed * 8191 + k)
        nprog = 5
        gk = [t for t in go_pool if cr.random() < 0.6]
        known = {}
        for p in range(1, nprog + 1):
            known[p] = list(gk) if U.PROGS[p][2] else [t for t in sem_pool if cr.random() < cr.choice([0.3, 0.6, 0.9])]
        recs = []
        for _ in range(cr.randint(1, 6)):
            p = cr.choice([1, 2, 2, 3, 4, 5])
            tool = U.PROGS[p][2]
            stack = cr.random() < 0.25
            chart = cr.randint(1, len(U.CHARTS))
            bks = [] if (stack or cr.random() < 0.3) else cr.sample(range(1, len(U.BUCKETS) + 1), cr.randint(1, 4))
            pool = go_pool if tool else sem_pool
            m = cr.choice([[], [], cr.choice(pool), cr.choice(pool), [1, 24, 3, 0] if tool else [2, 0, 0, REL]])
            recs.append({'prog': p, 'chart': chart, 'bks': bks, 'depth': cr.choice([1, 8, 16]) if stack else 0, 'min': list(m)})
        pads = {p: [cr.randint(0, 3), cr.randint(0, 1), cr.randint(0, 2), cr.randint(0, 2), cr.randint(0, 2)] for p in range(1, nprog + 1)}
        fcases.append(flow_case(len(fcases), recs, nprog, known, pads, cr, invalid_tool=cr.random() < 0.3))
    # ---- validation: vectors + random lists
    vcases, vfs = [], []
    for st in tlaval.read_dump(r_valid.dump):
        fs = [dict(f) for f in aslist(st['fs'])]
        cr = random.Random(ctx.seed * 131 + len(vcases))
        vcases.append({'id': len(vcases), 'records': [valid_record(f, cr, k) for k, f in enumerate(fs)]})
        vfs.append((fs, st))
    nvec_valid = len(vcases)
    for k in range(ctx.pick(300, 3000)):
        cr = random.Random(ctx.seed * 523 + k)
        fs = []
        for _ in range(cr.randint(1, 4)):
            good = cr.random() < 0.7
            prog = cr.choice(['tool', 'mod'])
            f = {'title': True, 'nissue': cr.randint(1, 2), 'prog': prog, 'counter': True, 'type': cr.choice(['partition', 'stack']), 'depth': 0,
                 'ver': cr.choice(['none', 'gover' if prog == 'tool' else 'semver'])}
            if f['type'] == 'stack':
                f['depth'] = cr.choice([0, 4])
            if not good:
                for _ in range(cr.randint(1, 3)):
                    what = cr.choice(['title', 'nissue', 'prog', 'counter', 'type', 'depth', 'ver', 'depthtype'])
                    if what == 'title':
                        f['title'] = False
                    elif what == 'nissue':
                        f['nissue'] = 0
                    elif what == 'prog':
                        f['prog'] = 'none'
                    elif what == 'counter':
                        f['counter'] = False
                    elif what == 'type':
                        f['type'] = 'none'
                    elif what == 'depth':
                        f['depth'] = -cr.randint(1, 3)
                    elif what == 'ver':
                        f['ver'] = cr.choice(['junk', 'semver' if f['prog'] == 'tool' else 'gover'])
                    else:
                        f['type'], f['depth'] = 'partition', cr.randint(1, 9)
            fs.append(f)
        vcases.append({'id': len(vcases), 'records': [valid_record(f, cr, j) for j, f in enumerate(fs)]})
        vfs.append((fs, None))
    # ---- still valid: vectors + random pairs
    scases, sabs = [], []
    for st in tlaval.read_dump(r_still.dump):
        o, i = norm_cfg(st['outer']), norm_cfg(st['inner'])
        scases.append({'id': len(scases), 'outer': concrete_cfg(o), 'inner': concrete_cfg(i)})
        sabs.append((o, i, st['want'], [aslist(st['eo']), aslist(st['ei'])]))
    nvec_still = len(scases)
    for k in range(ctx.pick(300, 3000)):
        cr = random.Random(ctx.seed * 977 + k)
        o = i = STILL_BASE
        for _ in range(cr.randint(0, 3)):
            if cr.random() < 0.6:
                o = random_edit(o, cr)
            else:
                i = random_edit(i, cr)
        scases.append({'id': len(scases), 'outer': concrete_cfg(o), 'inner': concrete_cfg(i)})
        sabs.append((norm_cfg(o), norm_cfg(i), None, None))
    # ---- union: vectors + random stacks
    ucases = []
    for r in r_union:
        for st in tlaval.read_dump(r.dump):
            ucases.append(union_case(len(ucases), aslist(st['layers']), rng, real=(len(ucases) % 23 == 0), missing='nope' if len(ucases) % 7 == 0 else None))
    nvec_union = len(ucases)
    for k in range(ctx.pick(200, 2000)):
        cr = random.Random(ctx.seed * 389 + k)
        layers = []
        for _ in range(cr.randint(1, 4)):
            l = {}
            for n in cr.sample(['a', 'b', 'c', 'd'], cr.randint(0, 4)):
                kind = cr.choice(['file', 'dir', 'dir'])
                l[n] = {'k': kind, 'kids': sorted(cr.sample(['a', 'b', 'c', 'd'], cr.randint(1, 3))) if kind == 'dir' else []}
            for n in ['a', 'b', 'c', 'd']:
                l.setdefault(n, {'k': 'none', 'kids': []})
            layers.append(l)
        ucases.append(union_case(len(ucases), layers, cr, real=cr.random() < 0.2, missing=cr.choice([None, None, 'zz', 'L9'])))
    # ---- store: simulate walks + random histories
    vers = []
    for i in range(1, nv + 1):
        vers.append('v0.%d.0' % (i + ctx.seed % 3) if i in releases else 'v0.%d.0-rc.%d' % (i + ctx.seed % 3, 1 + ctx.seed % 2))
    hists, hexp = [], []
    for fn in ctx.sim_files(rs):
        steps, exp = [], []
        for (_a, _args, st) in tlaval.read_simulate(fn):
            last = st['last']
            if last['op'] == 'publish':
                steps.append({'op': 'publish', 'v': last['v'], 'c': last['c']})
                exp.append(None)
            elif last['op'] == 'download':
                steps.append({'op': 'download', 'req': {'k': last['req']['k'], 'v': last['req']['v']}})
                exp.append(last['res'])
        if steps:
            hists.append({'id': len(hists), 'steps': steps})
            hexp.append(exp)
    nvec_store = len(hists)
    for k in range(ctx.pick(40, 400)):
        cr = random.Random(ctx.seed * 613 + k)
        steps, unpub = [], list(range(1, nv + 1))
        for _ in range(cr.randint(4, 12)):
            if unpub and cr.random() < 0.4:
                v = unpub.pop(cr.randrange(len(unpub)))
                steps.append({'op': 'publish', 'v': v, 'c': cr.choice(['ok', 'ok', 'ok', 'badjson', 'nofile', 'badtype'])})
            else:
                kq = cr.choice(['exact', 'exact', 'latest', 'latest', 'empty', 'unknown', 'garbage'])
                steps.append({'op': 'download', 'req': {'k': kq, 'v': cr.randint(1, nv) if kq == 'exact' else 0}})
        hists.append({'id': len(hists), 'steps': steps})
        hexp.append(None)

    # ==================================================================
    # 3. the real code
    # ==================================================================
    inp_a = {'flow': {'charts': U.CHARTS, 'buckets': U.BUCKETS, 'progs': U.prog_table(5),
                      'cases': [{k: v for k, v in c.items() if not k.startswith('_')} for c in fcases]},
             'valid': {'versions': VALID_VERSIONS, 'paddings': VALID_PADS, 'cases': vcases},
             'still': {'cases': scases}}
    inp_b = {'store': {'vers': vers, 'hists': hists}, 'union': {'paths': UNION_PATHS, 'cases': ucases}}
    out_b = {}

    def job_b():
        try:
            out_b['r'] = ctx.run_harness('./internal/verifh/x02', 'TestVerifX02', inp=inp_b, timeout=2400)
        except Exception as e:  # noqa: BLE001
            out_b['e'] = e
    th = threading.Thread(target=job_b)
    th.start()
    recs_a, rc, out = ctx.run_harness('./internal/configgen', 'TestVerifX02', inp=inp_a, timeout=2400)
    th.join()
    if 'e' in out_b:
        raise out_b['e']
    recs_b, rc_b, outb = out_b['r']
    summ = {x.get('of'): x for x in recs_a + recs_b if x.get('kind') == 'summary'}
    for need, txt in (('flow', out), ('valid', out), ('still', out), ('store', outb), ('union', outb)):
        if need not in summ and not any(x.get('hang') for x in recs_a + recs_b):
            raise Infra('X02 harness wrote no %s summary:\n%s' % (need, txt[-2000:]))

    # ==================================================================
    # 4. observations
    # ==================================================================
    obs, meta = [], []
    # ---- flow
    fx = {x['id']: x for x in recs_a if x.get('kind') == 'flow'}
    vec_ok = 0
    for case in fcases:
        x = fx.get(case['id'])
        if x is None:
            raise Infra('flow harness: no record for case %d' % case['id'])
        ctx.cov['evaluations'] += 1
        o = abstract_flow(ctx, case, x)
        if o is None:
            continue
        obs.append(o)
        meta.append(('flow', case, x))
        # direct comparison of the enumerated vectors with what the dump demands
        if case['id'] < nvec_flow:
            st = fexp[case['id']]
            good = True
            for p in range(1, case['_nprog'] + 1):
                want_c = sorted(list(n) for n in st['ctr'][p - 1])
                want_s = sorted(list(n) for n in st['stk'][p - 1])
                good = good and sorted(o['ctr'][p - 1]) == want_c and sorted(o['stk'][p - 1]) == want_s
                good = good and o['present'][p - 1] == st['present'][p - 1]
                good = good and all(list(v) in o['listed'][p - 1] for v in st['elig'][p - 1])
            if good:
                vec_ok += 1
            else:
                meta[-1] = ('flow', case, x, 'vector')
    # ---- embedded pair
    emb = [x for x in recs_a if x.get('kind') == 'embedded']
    if emb:
        e = emb[0]
        ctx.cov['embedded_config'] = {k: e.get(k) for k in ('nrecs', 'nprogs', 'names_checked', 'diffs', 'missing', 'skip')}
        ctx.cov['evaluations'] += 1
        for k in ('read_err', 'load_err', 'gen_err'):
            if e.get(k):
                ctx.violation('X02:G1:embedded:%s' % k, e, 'G1/G3: the repository\'s own chart configuration / config.json cannot be processed: %s' % e[k])
        diffs = [d for d in (e.get('diffs') or []) if not (d.startswith('versions of') and e.get('shared_modules'))]
        if diffs:
            ctx.violation('X02:G1:embedded:config.json-is-not-generated-from-config.txt:%s' % diffs[0].split(' ')[0], e,
                          'G1/G2: config/config.json is not what generation produces from internal/chartconfig/config.txt and the version lists config.json names: %s' % diffs)
        if e.get('missing'):
            ctx.violation('X02:G1:embedded:chart-counter-not-accepted', e,
                          'G1: the published config/config.json does not accept names the chart configuration names: %s' % e['missing'][:8])
        if not diffs and not e.get('missing') and not e.get('skip'):
            ctx.cov['traces_validated_against_impl'] += 1
    # ---- validation
    vx = {x['id']: x for x in recs_a if x.get('kind') == 'valid'}
    for case, (fs, st) in zip(vcases, vfs):
        x = vx.get(case['id'])
        if x is None:
            raise Infra('valid harness: no record for case %d' % case['id'])
        ctx.cov['evaluations'] += 1
        o = abstract_valid(ctx, fs, case, x)
        if o is None:
            continue
        if o['err'] and o['blamed'] == -1:
            ctx.warn('generate\'s error does not carry a "chart config #i" index: %r' % x.get('msg'))
            o['blamed'] = st['blamed'] if st else 0
            if not st:
                continue
        valid_nprob(o, x)
        obs.append(o)
        meta.append(('valid', case, x))
    # ---- still valid
    sx_ = {x['id']: x for x in recs_a if x.get('kind') == 'still'}
    for case, (o_, i_, want, edits) in zip(scases, sabs):
        x = sx_.get(case['id'])
        if x is None:
            raise Infra('still harness: no record for case %d' % case['id'])
        ctx.cov['evaluations'] += 1
        if x.get('panic') or x.get('hang'):
            ctx.violation('X02:G4:contains:panic', {'case': case, 'observed': x}, 'G4: contains %s' % (x.get('panic') or 'hung'))
            continue
        obs.append({'kind': 'still', 'outer': o_, 'inner': i_, 'contains': bool(x['contains']), 'sub': bool(x['sub'])})
        meta.append(('still', case, x, edits))
    # ---- union
    ux = {x['id']: x for x in recs_b if x.get('kind') == 'union'}
    for case in ucases:
        x = ux.get(case['id'])
        if x is None:
            raise Infra('union harness: no record for case %d' % case['id'])
        ctx.cov['evaluations'] += 1
        if x.get('panic') or x.get('hang'):
            ctx.violation('X02:G6:panic', {'case': case, 'observed': x}, 'G6: unionfs %s on layers %s' % (x.get('panic') or 'hung', case['layers']))
            continue
        if not x.get('subok'):
            ctx.violation('X02:G6:sub:error-for-existing-directories', {'case': case, 'observed': x}, 'G6: Sub fails although every directory exists: %s' % x.get('suberr'))
            continue
        if any(op.get('panic') for op in x['ops']):
            bad = [op for op in x['ops'] if op.get('panic')][0]
            ctx.violation('X02:G6:%s:panic' % bad['op'], {'case': case, 'observed': bad}, 'G6: %s(%s) panicked: %s' % (bad['op'], '/'.join(bad['path']) or '.', bad['panic']))
            continue
        ops = [{k: op[k] for k in (('op', 'path', 'ok', 'layer', 'kind') if op['op'] == 'open' else ('op', 'path', 'ok', 'list'))} for op in x['ops']]
        submissing = bool(case['missing'])
        obs.append({'kind': 'union', 'layers': case['layers'], 'ops': ops,
                    'subok': (not x.get('sub_missing_err')) if submissing else True, 'submissing': submissing})
        meta.append(('union', case, x))

    # ==================================================================
    # 5. TLC decides
    # ==================================================================
    failed = judge(ctx, 'ConfigDistTrace', 'x02obs.ndjson', obs, 'ConfigDistTrace', chunk=ctx.pick(2500, 4000))
    nexpl = len(obs) - len(failed)
    sampled = set()
    for idx in sorted(failed):
        m = meta[idx]
        kind, case, x = m[0], m[1], m[2]
        for item in failed[idx]:
            clause, p, known = item[0], item[1], item[2]
            if kind == 'flow':
                sig = SIG_F1 if (known and clause in ('notbelow', 'onlynext', 'nextpatch', 'nextminor')) else 'X02:%s:%s' % (G_OF.get(clause, 'G?'), clause)
                ctx.violation(sig, {'text': case['text'], 'versions': case['versions'], 'paddings': case['paddings'], 'clause': clause,
                                    'program': U.PROGS[p][0] if p else None, 'observed': x}, flow_text(case, x, clause, p))
            elif kind == 'valid':
                ctx.violation('X02:G3:%s' % clause, {'records': case['records'], 'observed': x},
                              'G3 (%s): %s.\n  records: %s\n  generate: %s' % (clause, CLAUSE_TEXT[clause], json.dumps(case['records'])[:700], x.get('msg') if x.get('err') else 'no error'))
            elif kind == 'still':
                sig = SIG_F3 if known else 'X02:G4:%s' % clause
                ctx.violation(sig, {'outer': case['outer'], 'inner': case['inner'], 'observed': x, 'edits': m[3]},
                              'G4 (%s): %s.\n  contains(outer, inner) = %s, lookups of inner all accepted by outer = %s (%s)\n  outer = %s\n  inner = %s' % (
                                  clause, CLAUSE_TEXT[clause], x['contains'], x['sub'], x.get('why'), json.dumps(case['outer'])[:500], json.dumps(case['inner'])[:500]))
            else:
                if clause == 'sub':
                    ctx.violation('X02:G6:sub:missing-directory-accepted', {'case': case, 'observed': x}, 'G6: Sub succeeds although directory %r does not exist' % case['missing'])
                    continue
                op = x['ops'][p - 1]
                sig = 'X02:G6:%s' % clause
                if clause == 'readdir-sorted' and [(e['name'], e['layer']) for e in op['list']] == [(e['name'], e['layer']) for e in as_built_order(op['list'])]:
                    sig = SIG_F2
                ctx.violation(sig, {'layers': case['layers'], 'real': case['real'], 'op': op},
                              'G6 (%s): %s(%s) over layers %s returned %s' % (clause, op['op'], '/'.join(op['path']) or '.', json.dumps(case['layers']),
                                                                             json.dumps({k: op.get(k) for k in ('ok', 'layer', 'kind', 'list', 'err')})))
    def interesting(m):
        if m[0] == 'flow':
            return len(m[1]['_recs']) >= 2 and any(len(r['bks']) >= 2 for r in m[1]['_recs']) and any(r['min'] for r in m[1]['_recs']) \
                and len(set(r['prog'] for r in m[1]['_recs'])) >= 2
        if m[0] == 'union':
            return sum(1 for l in m[1]['layers'] for e in l.values() if e['k'] == 'dir') >= 2
        if m[0] == 'still':
            return bool(m[3]) and bool(m[3][0]) and m[2]['contains']
        if m[0] == 'valid':
            return len(m[1]['records']) == 2 and m[2].get('err')
        return False
    for idx, m in enumerate(meta):
        if idx not in failed and m[0] not in sampled and interesting(m):
            sampled.add(m[0])
            if m[0] == 'flow':
                ctx.sample({'kind': 'flow: chart configuration -> Parse -> generate -> JSON -> NewConfig, explained by ConfigDistTrace', 'text': m[1]['text'],
                            'proxy': m[1]['versions'], 'paddings': m[1]['paddings'],
                            'programs': [{k: q[k] for k in ('name', 'listed', 'ctr', 'stk', 'pfx')} for q in m[2]['progs'] if q['present']]})
            elif m[0] == 'union':
                ctx.sample({'kind': 'union: layers, Open / ReadDir results explained by ConfigDistTrace', 'layers': m[1]['layers'], 'on_disk': m[1]['real'],
                            'ops': [{k: op.get(k) for k in ('op', 'path', 'ok', 'layer', 'kind', 'list') if k in op} for op in m[2]['ops'][:8]]})
            elif m[0] == 'still':
                ctx.sample({'kind': 'still valid: edits of (outer, inner), contains() as ContainsSpec demands', 'edits': m[3], 'contains': m[2]['contains'], 'lookups_preserved': m[2]['sub']})
            else:
                ctx.sample({'kind': 'validation: records, error as Problems / FirstInvalid demand', 'records': m[1]['records'], 'error': m[2].get('msg')})
    # vectors whose direct comparison with the dump failed must have been rejected by TLC as well
    for idx, m in enumerate(meta):
        if len(m) == 4 and m[3] == 'vector' and idx not in failed:
            raise Infra('flow vector %d differs from the dump but ConfigDistTrace accepts it (driver / trace module disagree)' % m[1]['id'])

    # ---- store: direct comparison of the walks + TLC on all histories
    sx2 = {}
    for x in recs_b:
        if x.get('kind') == 'store' and x.get('op') != 'reset':
            sx2[(x['id'], x['step'])] = x
    sobs, smeta = [], []
    walks_ok = 0
    for h, exp in zip(hists, hexp):
        sobs.append({'op': 'reset'})
        smeta.append(None)
        good = True
        for si, s in enumerate(h['steps']):
            x = sx2.get((h['id'], si))
            if x is None:
                raise Infra('store harness: no record for history %d step %d' % (h['id'], si))
            if s['op'] == 'publish':
                sobs.append({'op': 'publish', 'v': s['v'], 'c': s['c']})
                smeta.append(None)
                continue
            ctx.cov['evaluations'] += 1
            if x.get('panic') or x.get('hang'):
                ctx.violation('X02:G5:download:%s' % ('hang' if x.get('hang') else 'panic'), {'history': h, 'step': si, 'observed': x}, 'G5: Download(%r) %s' % (x.get('arg'), x.get('panic') or 'hung'))
                good = False
                break
            sobs.append({'op': 'download', 'req': s['req'], 'ok': bool(x['ok']), 'ver': x['ver'], 'cfg': x['cfg'], 'delta': x['delta']})
            smeta.append((h, si, x))
            if exp and exp[si] is not None:
                w = exp[si]
                good = good and (bool(x['ok']), x['ver'], x['cfg']) == (w['ok'], w['ver'], w['cfg'])
        if exp and good:
            walks_ok += 1
    stcfg = ('INIT TInit\nNEXT TNext\nINVARIANT WellFormed\nPOSTCONDITION Accepted\nCHECK_DEADLOCK FALSE\nCONSTANTS\n NV = %d\n Releases = {%s}\n'
             ' Contents = {"ok", "badjson", "nofile", "badtype"}\n MaxOps = 0\n' % (nv, ', '.join(map(str, releases))))
    sfailed = judge(ctx, 'ConfigDistStoreTrace', 'x02store.ndjson', sobs, 'ConfigDistStoreTrace', chunk=10 ** 9, cfg_text=stcfg, par=1)
    for idx in sorted(sfailed):
        h, si, x = smeta[idx]
        pubs = [(vers[s['v'] - 1], s['c']) for s in h['steps'][:si] if s['op'] == 'publish']
        for why in sfailed[idx]:
            ctx.violation('X02:G5:%s:%s' % (why, h['steps'][si]['req']['k']), {'versions': vers, 'history': h, 'step': si, 'observed': x},
                          'G5 (%s): after publishing %s, Download(%r) returned ok=%s version=%r config-of=%s err=%s (Downloads() +%s)' % (
                              why, pubs, x.get('arg'), x.get('ok'), x.get('verstr'), vers[x['cfg'] - 1] if x.get('cfg', 0) > 0 else x.get('cfg'), x.get('err', '')[:200], x.get('delta')))
    ndl = len([m for m in smeta if m])
    nexpl_store = ndl - len(sfailed)
    if hists:
        h = hists[0]
        ctx.sample({'kind': 'store history (TLC -simulate walk replayed on configstore.Download)', 'versions': vers,
                    'steps': [(s['op'], s.get('v') or s.get('req'), s.get('c') or {k: sx2[(h['id'], i)].get(k) for k in ('ok', 'verstr', 'cfg')}) for i, s in enumerate(h['steps'])][:8]})

    # ==================================================================
    # 6. evidence
    # ==================================================================
    ctx.cov['vectors'] = {'flow': nvec_flow, 'valid': nvec_valid, 'still': nvec_still, 'union': nvec_union, 'store_walks': nvec_store}
    ctx.cov['random_cases'] = {'flow': len(fcases) - nvec_flow, 'valid': len(vcases) - nvec_valid, 'still': len(scases) - nvec_still,
                               'union': len(ucases) - nvec_union, 'store_histories': len(hists) - nvec_store}
    ctx.cov['flow_vectors_matching_dump'] = vec_ok
    ctx.cov['store_walks_matching_model'] = walks_ok
    ctx.cov['downloads'] = ndl
    ctx.cov['observations'] = len(obs) + ndl
    ctx.cov['observations_explained'] = nexpl + nexpl_store
    ctx.cov['traces_validated_against_impl'] += nexpl + nexpl_store
    ctx.cov['distinct_nontrivial'] = nvec_flow + nvec_valid + nvec_still + nvec_union + nvec_store
    ctx.cov['rule'] = ('vectors = every state TLC enumerates in ConfigDistFlow (record lists), ConfigDistValid (field classes), ConfigDistStill (edit pairs), '
                       'ConfigDistUnion (layer stacks) and the -simulate walks of ConfigDistStore, each run through the real Parse/generate/NewConfig, contains, '
                       'unionfs.FS and configstore.Download; every observation (vectors and randomized cases) is decided clause by clause by TLC in ConfigDistTrace / ConfigDistStoreTrace')
