"""C05 — telemetry failures never crash, hang or block the host program
(Faults.tla / FaultsTrace.tla / Corrupt.tla)."""
import json
import os
import random

from vlib import tlaval
from vlib.core import Infra, ndjson_text


def S(op, ctr='', n=0):
    return {'op': op, 'ctr': ctr, 'n': n}


COUNTER_SCENARIOS = [
    dict(name='open', setup='fresh', mode='', steps=[S('open'), S('add', 'c1', 2), S('add', 'c1', 1)]),
    dict(name='firstadd', setup='existing', mode='local', steps=[S('add', 'c1', 1), S('open'), S('add', 'c1', 2), S('add', 'o1', 3), S('add', 'c2', 1)]),
    dict(name='growth', setup='full', mode='on 2020-01-01', steps=[S('open'), S('add', 'o1', 1), S('add', 'Lnew', 2), S('add', 'o2', 1), S('add', 'Lnew', 1), S('add', 'c1', 1)]),
    dict(name='rotation', setup='existing', mode='local', steps=[S('open'), S('add', 'c1', 1), S('add', 'o1', 1), S('week2'), S('rotate'), S('add', 'c1', 2), S('add', 'o1', 1), S('rotate'), S('add', 'c2', 1)]),
    dict(name='read', setup='existing', mode='on 2020-01-01', steps=[S('open'), S('add', 'c1', 2), S('read', 'c1'), S('add', 'c1', 1), S('read', 'o1'), S('add', 'o2', 1)]),
    dict(name='rmfile', setup='full', mode='local', steps=[S('open'), S('add', 'o1', 1), S('rmfile'), S('add', 'o1', 1), S('add', 'Lnew', 1), S('read', 'o1'), S('add', 'c1', 1), S('week2'), S('rotate'), S('add', 'o1', 1)]),
    dict(name='rmdir', setup='full', mode='local', steps=[S('open'), S('add', 'o1', 1), S('rmdir'), S('add', 'o1', 1), S('add', 'Lnew', 1), S('read', 'o1'), S('add', 'c1', 1), S('week2'), S('rotate'), S('add', 'o1', 1)]),
]


UPLOAD_SCENARIOS = [
    dict(name='run_local', mode='local', junk=False, debug=False, steps=['run', 'run']),
    dict(name='run_on', mode='on 2020-01-01', junk=False, debug=True, steps=['run', 'run']),
    dict(name='run_on_junk', mode='on 2020-01-01', junk=True, debug=False, steps=['run']),
    dict(name='run_nomode', mode='', junk=True, debug=False, steps=['run']),
]


def run(ctx):
    ctx.inject('internal/counter', 'internal/upload', 'internal/verifh/c05')
    ctx.log(ctx.instrument('-files', 'internal/counter', 'internal/upload', 'internal/telemetry').strip())
    recs, rc, out = ctx.run_harness('./internal/counter', 'TestVerifC05Faults', inp={'scenarios': COUNTER_SCENARIOS, 'plans': []})
    for r in recs:
        print(r['scn'], r['ncalls'], [(s['op'], s['ret'], s['steps']) for s in r['steps']])
    recs, rc, out = ctx.run_harness('./internal/upload', 'TestVerifC05Upload', inp={'scenarios': UPLOAD_SCENARIOS, 'plans': []})
    for r in recs:
        print(r['scn'], r['ncalls'], r['posts'], r['tree'])
        print(json.dumps(r['steps']))
        print([(c['i'], c['step'], c['kind'], c['pc'], c.get('err', False)) for c in r['calls']])
