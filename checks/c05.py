"""C05 — telemetry failures never crash, hang or block the host program
(Faults.tla / FaultsTrace.tla: fault plans over recorded call sequences;
Corrupt.tla / CorruptTrace.tla: counter files that are corrupt at rest)."""
import json
import os
import random
import threading
from concurrent.futures import ThreadPoolExecutor

from vlib import tlaval
from vlib.core import Infra, ndjson_text, read_ndjson

ERRNOS = ['ENOENT', 'EACCES', 'ENOSPC', 'EIO', 'EROFS']


def S(op, ctr='', n=0):
    return {'op': op, 'ctr': ctr, 'n': n, 'toolong': ctr.startswith('X'), 'odd': ctr == 'N:empty' or op == 'foreign'}


# API scenarios of internal/counter.  setup: fresh = no telemetry directory at all, existing = a count file of
# the current week with counters o1, o2 (independent writer), full = the same with its first page used up.
# Counters whose name starts with L have 3000-byte names, H 4096-byte names (the longest the format stores; three
# fill a page), X 5000-byte names (cannot be stored: the amount stays in memory).
COUNTER_SCENARIOS = [
    dict(name='open', setup='fresh', mode='', steps=[S('open'), S('add', 'c1', 2), S('add', 'c1', 1)]),
    dict(name='firstadd', setup='existing', mode='local',
         steps=[S('add', 'c1', 1), S('open'), S('add', 'c1', 2), S('add', 'o1', 3), S('add', 'c2', 1)]),
    dict(name='growth', setup='full', mode='on 2020-01-01',
         steps=[S('open'), S('add', 'o1', 1), S('add', 'Lnew', 2), S('add', 'o2', 1), S('add', 'Lnew', 1), S('add', 'c1', 1)]),
    dict(name='rotation', setup='existing', mode='local',
         steps=[S('open'), S('add', 'c1', 1), S('add', 'o1', 1), S('week2'), S('rotate'), S('add', 'c1', 2), S('add', 'o1', 1), S('rotate'), S('add', 'c2', 1)]),
    dict(name='read', setup='existing', mode='on 2020-01-01',
         steps=[S('open'), S('add', 'c1', 2), S('read', 'c1'), S('add', 'c1', 1), S('read', 'o1'), S('add', 'o2', 1)]),
    # a failed first growth (any single fault in it) is followed by a successful growth caused by ANOTHER new counter while the
    # first still has its amount pending in memory; fault-free, the second growth happens at Hd
    dict(name='growth2', setup='full', mode='local',
         steps=[S('open'), S('add', 'Ha', 2), S('add', 'Hb', 1), S('add', 'Ha', 1), S('add', 'Hc', 1), S('add', 'Hd', 1), S('add', 'Ha', 1), S('add', 'o1', 1)]),
    # no fault needed: a name that is too long to be stored stays pending, then another counter makes the file grow
    dict(name='toolong', setup='full', mode='local',
         steps=[S('open'), S('add', 'Xbig', 2), S('add', 'o1', 1), S('add', 'Lnew', 1), S('add', 'Xbig', 1), S('add', 'Lnew', 1), S('add', 'c1', 1)]),
    # counter names: NUL, invalid UTF-8, multi-byte, stack-like (newline, ditto marks), text that looks like metadata, one byte; Add(0)
    dict(name='names', setup='existing', mode='local',
         steps=[S('open'), S('add', 'N:nul', 1), S('add', 'N:utf8', 1), S('add', 'N:multibyte', 2), S('add', 'N:nl', 1), S('add', 'N:ditto', 1), S('add', 'N:meta', 1),
                S('add', 'N:one', 1), S('add', 'o1', 0), S('read', 'o1'), S('read', 'N:nl'), S('read', 'N:multibyte'), S('add', 'N:utf8', 1), S('read', 'N:meta')]),
    # the empty name (nothing is specified about it; whatever happens must be safe for the other counters)
    dict(name='emptyname', setup='existing', mode='local', steps=[S('open'), S('add', 'o1', 1), S('add', 'N:empty', 1), S('add', 'o1', 1), S('read', 'o1'), S('add', 'c1', 1)]),
    # the clock: a later day of the same week, the next week, and back again (a second and third rotation, re-opening an older file)
    dict(name='time', setup='existing', mode='local',
         steps=[S('open'), S('add', 'c1', 1), S('day2'), S('rotate'), S('add', 'c1', 1), S('read', 'c1'), S('week2'), S('rotate'), S('add', 'c1', 1),
                S('week1'), S('rotate'), S('add', 'c1', 1), S('read', 'c1'), S('week2'), S('rotate'), S('add', 'o1', 2)]),
    # another process grows the file: it adds n colliding ~3.9 kB names (K...: all in one bucket), so that the chain of that bucket leads
    # beyond this process's mapping; the next new counter of that bucket has to re-map before it can walk the chain, then grows the file again.
    # The foreign step itself is fault-free; what is predicted after it is left open (odd), the universal clauses stay.
    dict(name='foreigngrowth', setup='existing', mode='local',
         steps=[S('open'), S('add', 'c1', 1), S('foreign', '', 7), S('add', 'Knew', 2), S('add', 'Ksecond', 1), S('add', 'c1', 1), S('add', 'Knew', 1),
                S('read', 'c1'), S('add', 'c2', 1)]),
    # files deleted while in use
    dict(name='rmfile', setup='full', mode='local',
         steps=[S('open'), S('add', 'o1', 1), S('rmfile'), S('add', 'o1', 1), S('add', 'Lnew', 1), S('read', 'o1'), S('add', 'c1', 1), S('week2'), S('rotate'), S('add', 'o1', 1)]),
    dict(name='rmdir', setup='full', mode='local',
         steps=[S('open'), S('add', 'o1', 1), S('rmdir'), S('add', 'o1', 1), S('add', 'Lnew', 1), S('read', 'o1'), S('add', 'c1', 1), S('week2'), S('rotate'), S('add', 'o1', 1)]),
]
# upload.Run (the exported entry point) on a directory with expired / active / unreadable count files and a waiting report
UPLOAD_SCENARIOS = [
    dict(name='run_local', mode='local', junk=False, debug=False, steps=['run', 'run']),
    dict(name='run_on', mode='on 2020-01-01', junk=False, debug=True, steps=['run', 'run']),
    dict(name='run_on_junk', mode='on 2020-01-01', junk=True, debug=False, steps=['run']),
    dict(name='run_nomode', mode='', junk=True, debug=False, steps=['run']),
    # the other modes: off; on with an opt-in date inside the data
    dict(name='run_off', mode='off 2020-01-01', junk=False, debug=False, steps=['run']),
    dict(name='run_on_asof', mode='on 2024-01-05', junk=False, debug=False, steps=['run']),
    # nothing to do at all: no count files, no reports, no upload directory
    dict(name='run_empty', mode='on 2020-01-01', junk=False, debug=False, empty=True, steps=['run', 'run']),
    # the server refuses (4xx: the report is dropped) / fails (5xx: it is kept for the next run)
    dict(name='run_on_400', mode='on 2020-01-01', junk=False, debug=False, reply=400, steps=['run', 'run']),
    dict(name='run_on_503', mode='on 2020-01-01', junk=False, debug=False, reply=503, steps=['run', 'run']),
    # odd but well-formed state: a count file without counters, too old / backwards weeks, unusable TimeEnd, only a stack counter,
    # a stale lock, a report that is already there, a report from the future, debug is a file
    dict(name='run_odd', mode='on 2020-01-01', junk=False, debug=False, odd=True, steps=['run', 'run']),
]
PERSIST_SCENARIOS = {'open', 'firstadd', 'growth', 'growth2', 'rotation', 'read', 'time', 'run_local', 'run_on', 'run_odd', 'run_on_503'}
PAIR_SCENARIOS = {'open', 'firstadd', 'growth', 'growth2', 'toolong', 'rotation', 'read', 'run_local', 'run_on'}
LEAF = ('load32', 'cas32', 'entryAt', 'load', 'update', 'Load', 'Store', 'CompareAndSwap')


def printed(out, tag):
    """The value of ASSUME PrintT(<<tag, value>>) in TLC's output."""
    j = out.find('"%s"' % tag)
    if j < 0:
        return None
    i = out.rfind('<<', 0, j)
    depth, k = 0, i
    while k < len(out):
        if out.startswith('<<', k):
            depth += 1
            k += 2
            continue
        if out.startswith('>>', k):
            depth -= 1
            k += 2
            if depth == 0:
                break
            continue
        if out[k] == '"':
            k = out.index('"', k + 1)
        k += 1
    return tlaval.parse(out[i:k])[1]


def hang_fn(label):
    """The function a non-returning call loops in: the outermost frame of the
    yield label that is not a leaf accessor."""
    parts = [p for p in (label or '').split('<') if p]
    for p in parts:
        if not any(p.endswith('.' + x) or p == x for x in LEAF):
            return p
    return parts[0] if parts else '?'


_PM = {}        # plan id -> (matcher kind, value) of persistent fault plans
_HSEQ = [0]
_HLOCK = threading.Lock()


def harness(ctx, pkg, test, inp, timeout=3000):
    """ctx.run_harness with private VERIF_IN / VERIF_OUT names, so that several
    harness processes can run at the same time."""
    with _HLOCK:
        _HSEQ[0] += 1
        n = _HSEQ[0]
    inp_path = os.path.join(ctx.work, 'c05-in-%d.json' % n)
    out_path = os.path.join(ctx.work, 'c05-out-%d.ndjson' % n)
    with open(inp_path, 'w') as f:
        json.dump(inp, f)
    rc, out = ctx.go_test(None, pkg, test, env={'VERIF_IN': inp_path, 'VERIF_OUT': out_path}, timeout=timeout)
    recs = read_ndjson(out_path) if os.path.exists(out_path) else []
    if rc != 0:
        raise Infra('harness %s %s failed (rc=%d):\n%s' % (pkg, test, rc, out[-4000:]))
    return recs, out


DEATH = ('panic: ', 'fatal error: ', 'unexpected signal', 'signal: ')


def surviving(ctx, pkg, test, base, key, items, item_id, rec_id, timeout=3000, max_deaths=12):
    """Run `items` in a child process that may DIE (a panic on a goroutine the code under test started cannot be recovered
    by anybody: it kills the host process, which is exactly what the property forbids).  The harness flushes one record
    per finished item; when the child dies, the first unfinished item is the one that killed it: it gets a synthetic
    record {'died': text, 'where': function} and the rest is run in a new child.  Returns (records, deaths)."""
    recs, deaths, rest = [], [], list(items)
    while rest:
        with _HLOCK:
            _HSEQ[0] += 1
            n = _HSEQ[0]
        inp_path = os.path.join(ctx.work, 'c05-in-%d.json' % n)
        out_path = os.path.join(ctx.work, 'c05-out-%d.ndjson' % n)
        inp = dict(base)
        inp[key] = rest
        with open(inp_path, 'w') as f:
            json.dump(inp, f)
        rc, out = ctx.go_test(None, pkg, test, env={'VERIF_IN': inp_path, 'VERIF_OUT': out_path}, timeout=timeout)
        got = read_ndjson(out_path) if os.path.exists(out_path) else []
        recs += got
        if rc == 0:
            break
        if not any(d in out for d in DEATH) or '[build failed]' in out or '[setup failed]' in out:
            raise Infra('harness %s %s failed (rc=%d):\n%s' % (pkg, test, rc, out[-4000:]))
        done = {rec_id(x) for x in got}
        k = next((i for i, it in enumerate(rest) if item_id(it) not in done), None)
        if k is None:
            raise Infra('harness %s %s died after its last item:\n%s' % (pkg, test, out[-3000:]))
        i = min(out.find(d) for d in DEATH if d in out)
        text = out[i:].split('\n', 1)[0].strip()
        where = '?'
        for ln in out[i:].split('\n'):
            for pk in ('internal/upload.', 'internal/counter.', 'internal/telemetry.'):
                j = ln.find(pk)
                if j >= 0 and 'c05' not in ln and 'verifrt' not in ln and where == '?':
                    where = ln[j + len(pk):].split('(0x')[0].rsplit('(', 1)[0] if '(*' not in ln[j:] else ln[j + len(pk):].rsplit('(', 1)[0]
        deaths.append(dict(item=rest[k], text=text, where=where.split('.func')[0], stack=out[i:i + 1500]))
        rest = rest[k + 1:]
        if len(deaths) >= max_deaths:
            break
    return recs, deaths


def sharded(ctx, pool, pkg, test, base, key, items, shards, timeout=3000):
    """Run `items` (the list under base[key]) in `shards` concurrent harness processes."""
    shards = max(1, min(shards, len(items) // 50 or 1))
    futs = []
    for k in range(shards):
        inp = dict(base)
        inp[key] = items[k::shards]
        futs.append(pool.submit(harness, ctx, pkg, test, inp, timeout))
    return futs


def sharded_surviving(ctx, pool, pkg, test, base, key, items, item_id, rec_id, shards, timeout=3000):
    shards = max(1, min(shards, len(items) // 50 or 1))
    return [pool.submit(surviving, ctx, pkg, test, base, key, items[k::shards], item_id, rec_id, timeout) for k in range(shards)]


def gather_surviving(futs):
    recs, deaths = [], []
    for f in futs:
        r, d = f.result()
        recs += r
        deaths += d
    return recs, deaths


UPLOAD_STEP = dict(op='run', ret='ok', fired=0, steps=0, where='', text='', err=False, recovered=0, orphans=[], touched=[], deleted=0)


def dead_steps(nsteps, d):
    """Observation of an uploader scenario whose process died: the first step never returned."""
    out = []
    for k in range(nsteps):
        st = dict(UPLOAD_STEP)
        st.update(ret='panic-escapes' if k == 0 else 'skipped', where=d['where'] if k == 0 else '', text=d['text'] if k == 0 else '')
        out.append(st)
    return out


def gather(futs):
    recs, outs = [], []
    for f in futs:
        r, o = f.result()
        recs += r
        outs.append(o[-1500:])
    return recs, '\n'.join(outs)


def pcclass(pc):
    return pc.split(':')[0]


def run(ctx):
    ctx.assumptions += [
        'faults are injected at the file-system / mmap / HTTP calls the CURRENT tree makes in the recorded scenarios (the recording is redone on every run); '
        'plans are single faults and pairs; errnos ENOENT, EACCES, ENOSPC, EIO; no short writes; the failing call has no side effect',
        'one goroutine; a private counter file value per case (not the process-wide default file); CounterTime and build info fixed; '
        'the time.AfterFunc rotation timer is replaced by explicit rotate calls',
        'step budget: every atomic operation, lock acquisition and shimmed call of internal/counter, internal/upload and internal/telemetry counts as one step; '
        'a call that exceeds the budget (20000 for counter calls under fault plans, 100000 on corrupt files — 32 times the number of record slots of the file —, 200000 for upload.Run; fault-free calls need < 2500) is a hang',
        'the class an outcome must have is taken from the documentation (rotate1/openMapped/weekEnd/Add/Dir.Mode/createReport comments); where it is silent '
        '(e.g. an Add after its own growth failed, a name longer than 4096 bytes inside the file, an unaligned or too large limit) only the universal clauses are decided',
        'the uploader clause "a count file is deleted only if a report of its week exists" is the documented behaviour of createReport, used as the outcome class of upload.Run under faults',
        'other counters\' values are read by the independent decoder rt.DecodeV1 from the files on disk (MAP_SHARED coherence of the kernel is trusted); '
        'a counter that the decoder could not reach before the operation is not an "other counter"',
        'corrupt files: one base layout (records E and C in one bucket, V alone on the second page), damage classes concretized by fixed representative values; '
        'random damage uses 32-aligned or out-of-range pointers only, so that decoder and library agree on which records exist',
        'truncation of a file that is currently mapped is outside the property; files deleted while in use are scenario steps (rmfile / rmdir)',
        'leftover files in local/ whose names only look like reports (shorter than a date, as long as a date, invalid dates, prefixed, upper case, directory; StrayNames.tla) in modes on and local; '
        'the uploader runs in a child process per batch: a child that dies (panic on a goroutine the code started, fatal error, signal) is the verdict "panic-escapes" for the case it was running',
        'the mode file is one of the damaged files: every prefix of the three texts SetMode writes plus garbage classes (ModeBytes.tla), through open + Add + Read and upload.Run; telemetry.Start (sidecar start-up) is C16 and not run here',
        'mode on: the uploader fetches its config through a file proxy (go mod download) as the repository tests do; the exec itself is not a fault point',
    ]
    ctx.inject('internal/counter', 'internal/upload', 'internal/verifh/c05')
    ctx.log(ctx.instrument('-files', 'internal/counter', 'internal/upload', 'internal/telemetry').strip())
    rng = random.Random(ctx.seed)
    rng2 = random.Random(ctx.seed * 7919 + 1)
    pool = ThreadPoolExecutor(max_workers=14)
    # the corruption product is enumerated by TLC while the scenarios are being recorded
    maxdmg = ctx.pick(3, 6)
    fut_corrupt = pool.submit(ctx.tlc, 'Corrupt', cfg_text='SPECIFICATION Spec\nINVARIANT Sane\nCHECK_DEADLOCK FALSE\nCONSTANTS\n MaxDamage = %d\n MaxDamageParse = 2\n' % maxdmg,
                              dump=True, workers=4, label='Corrupt (MaxDamage=%d)' % maxdmg)
    fut_cases = pool.submit(lambda: corrupt_replay(ctx, rng2, fut_corrupt.result(), pool))
    fut_mode = pool.submit(mode_part, ctx, pool)
    fut_stray = pool.submit(stray_part, ctx, pool)
    fstate = faults_replay(ctx, rng, pool)
    faults_decide(ctx, *fstate)
    corrupt_decide(ctx, *fut_cases.result())
    fut_mode.result()
    fut_stray.result()
    pool.shutdown()
    ctx.cov['rule'] = ('a case is one fault plan (which calls fail with which errno) replayed over one API scenario of the instrumented real packages, or one corrupt '
                       'counter file written to disk and opened + incremented by the real library; each is decided by TLC against Faults.tla / Corrupt.tla')


# --------------------------------------------------------------------- stray names
STRAY = {'dotjson': '.json', 'one': 'x.json', 'space': ' .json', 'multibyte': 'd\u00e4t\u00e4.json', 'nine': '123456789.json', 'ten-text': 'notadate10.json',
         'baddate': '2024-13-45.json', 'future': '2031-01-06.json', 'prefixed': 'report-2024-01-01.json', 'upper': 'X.JSON', 'local-short': 'local.x.json',
         'dir-short': 'y.json/'}


def stray_part(ctx, pool):
    """Leftover files in local/ whose names only look like reports (StrayNames.tla), in modes on and local."""
    r = ctx.tlc('StrayNames', dump=True, workers=1, label='StrayNames (name class x mode)')
    if not r.ok:
        raise Infra('StrayNames.tla: spec-level sanity failed: %s %s\n%s' % (r.error, r.error_name, r.out[-3000:]))
    vectors = sorted((st['cls'], st['mode']) for st in tlaval.read_dump(r.dump))
    scn = [dict(name='stray:%d' % k, mode='on 2020-01-01' if m == 'on' else 'local', junk=False, debug=False, stray=[STRAY[c]], steps=['run'])
           for k, (c, m) in enumerate(vectors)]
    recs, deaths = gather_surviving(sharded_surviving(ctx, pool, './internal/upload', 'TestVerifC05Upload', {'plans': [], 'budget': 200000}, 'scenarios', scn,
                                                      lambda it: it['name'], lambda x: x.get('scn'), 1))
    for d in deaths:
        recs.append(dict(kind='recording', scn=d['item']['name'], steps=dead_steps(1, d), tree=['local/' + d['item']['stray'][0].rstrip('/')], stack=d['stack']))
    got = {x['scn']: x for x in recs if x.get('kind') == 'recording'}
    lines, keep = [], []
    for k, (c, m) in enumerate(vectors):
        x = got.get('stray:%d' % k)
        if x is None:
            continue        # not run any more after too many deaths
        st = x['steps'][0]
        lines.append(dict(c=c, m=m, o=dict(ret=st['ret'], others=bool(st['orphans'] or st['touched']), gone=('local/' + STRAY[c].rstrip('/')) not in x.get('tree', []))))
        keep.append((c, m, st, x))
    r = ctx.tlc('StrayNamesTrace', files={'c05stray.ndjson': ndjson_text(lines)}, workers=1, label='StrayNamesTrace', count=False)
    b = printed(r.out, 'C05SBAD')
    if b is None or not r.ok:
        raise Infra('StrayNamesTrace: no verdict (%s)\n%s' % (r.error, r.out[-3000:]))
    ctx.cov['stray_name_cases'] = len(lines)
    ctx.cov['evaluations'] += len(lines)
    ctx.cov['traces_validated_against_impl'] += len(lines) - len(b)
    ctx.cov['distinct_nontrivial'] += len(lines)
    ctx.cov['panics_recovered_by_Run_on_stray_names'] = sum(x['steps'][0].get('recovered', 0) for (_, _, _, x) in keep)
    for (i, verdict) in sorted(tuple(x) for x in b):
        c, m, st, x = keep[i - 1]
        if verdict == 'stray-file-removed':
            ctx.cov['divergences'] += 1
            ctx.warn('MODEL-DIVERGENCE stray file %r in local/ (mode %s) was removed by upload.Run although it is not taken for a report' % (STRAY[c], m))
            continue
        where = hang_fn(st.get('where')) if verdict in ('hang', 'blocked') else (st.get('where') or '?')
        ctx.violation('C05:stray:%s:%s:%s:mode=%s' % (verdict, where, c, m), {'name': STRAY[c], 'class': c, 'mode': m, 'observed': x['steps'], 'stack': x.get('stack')},
                      'a file named %r in local/, mode %s: upload.Run: %s: %s' % (STRAY[c], m, verdict, (st.get('where', '') + ' ' + st.get('text', '')).strip()))
    ctx.sample({'kind': 'stray name', 'name': STRAY[keep[1][0]], 'mode': keep[1][1], 'observed': lines[1]['o']})


# ------------------------------------------------------------------------ mode file
def mode_part(ctx, pool):
    """The mode file truncated / overwritten with arbitrary bytes (ModeBytes.tla), through opening counters +
    incrementing + reading back, and through upload.Run."""
    r = ctx.tlc('ModeBytes', dump=True, workers=2, label='ModeBytes (contents x entry points)')
    if not r.ok:
        raise Infra('ModeBytes.tla: spec-level sanity failed: %s %s\n%s' % (r.error, r.error_name, r.out[-3000:]))
    vectors = sorted(((st['content'], st['ep'], st['exp']) for st in tlaval.read_dump(r.dump)), key=lambda v: json.dumps(v[:2], sort_keys=True))
    cscn, uscn = [], []
    for k, (c, ep, exp) in enumerate(vectors):
        mc = dict(file=c['file'], kind=c['kind'], base=c['base'], cut=c['cut'], g=c['g'])
        if c['file'] == 'weekends':
            cscn.append(dict(name='mode:%d' % k, setup='bare', mode='local', modeClass=mc, steps=[S('open'), S('add', 'c1', 2), S('add', 'o1', 1), S('read', 'c1')]))
        elif ep == 'counter':
            cscn.append(dict(name='mode:%d' % k, setup='existing', mode='', modeClass=mc, steps=[S('open'), S('add', 'c1', 2), S('add', 'o1', 1), S('read', 'c1')]))
        else:
            uscn.append(dict(name='mode:%d' % k, mode='', modeClass=mc, junk=False, debug=False, steps=['run']))
    fc = pool.submit(harness, ctx, './internal/counter', 'TestVerifC05Faults', {'scenarios': cscn, 'plans': [], 'budget': 20000})
    fu = sharded_surviving(ctx, pool, './internal/upload', 'TestVerifC05Upload', {'plans': [], 'budget': 200000}, 'scenarios', uscn, lambda it: it['name'], lambda x: x.get('scn'), 2)
    (crecs, out), (urecs, deaths) = fc.result(), gather_surviving(fu)
    out2 = ''
    for d in deaths:
        urecs.append(dict(kind='recording', scn=d['item']['name'], steps=dead_steps(1, d), tree=[]))
    got = {x['scn']: x for x in crecs + urecs if x.get('kind') == 'recording'}
    if len(got) != len(vectors):
        raise Infra('C05 mode file: %d results for %d cases\n%s\n%s' % (len(got), len(vectors), out[-1500:], out2[-1500:]))
    lines, info = [], []
    for k, (c, ep, exp) in enumerate(vectors):
        x = got['mode:%d' % k]
        steps = x['steps']
        bad = [s for s in steps if s['ret'] not in ('ok', 'skipped')]
        ret = bad[0]['ret'] if bad else 'ok'
        if ep == 'counter':
            adds = [s for s in steps if s['op'] == 'add']
            o = dict(ret=ret, open='parks' if steps[0]['parked'] else ('opens' if steps[0]['cur'] else 'inconsistent'),
                     persisted=all(s['dP'] == s['n'] and s['dE'] == 0 for s in adds), others=any(s['others'] for s in steps), uploads=False)
        else:
            o = dict(ret=ret, open='-', persisted=False, others=any(s['orphans'] or s['touched'] for s in steps),
                     uploads=any(t.startswith('upload/2024-') for t in x.get('tree', [])))
        lines.append(dict(c=c, ep=ep, o=o))
        info.append((bad[0] if bad else None, x))
    r = ctx.tlc('ModeBytesTrace', files={'c05mode.ndjson': ndjson_text(lines)}, workers=1, label='ModeBytesTrace', count=False)
    b = printed(r.out, 'C05MBAD')
    if b is None or not r.ok:
        raise Infra('ModeBytesTrace: no verdict (%s)\n%s' % (r.error, r.out[-3000:]))
    ctx.cov['mode_file_cases'] = len(lines)
    ctx.cov['evaluations'] += len(lines)
    ctx.cov['traces_validated_against_impl'] += len(lines) - len(b)
    ctx.cov['distinct_nontrivial'] += len(lines)
    ndiv = 0
    for (i, verdict) in sorted(tuple(x) for x in b):
        c, ep, o = lines[i - 1]['c'], lines[i - 1]['ep'], lines[i - 1]['o']
        st, x = info[i - 1]
        if c['kind'] == 'prefix':
            wl = len(c['base'])
            region = 'in-word' if c['cut'] < wl else 'word' if c['cut'] == wl else 'blank' if c['cut'] == wl + 1 else 'in-date' if c['cut'] < wl + 11 else 'whole'
            text = repr(('%s 2023-09-26' % c['base'])[:c['cut']])
        else:
            region, text = c['g'], 'garbage class ' + c['g']
        if c['file'] == 'weekends':
            text = 'week-end file: ' + text
        if verdict.startswith('mode-'):
            ndiv += 1
            if ndiv <= 5:
                ctx.warn('MODEL-DIVERGENCE %s file %s, %s: %s (observed %s)' % (c['file'], text, ep, verdict, json.dumps(o)))
            continue
        where = (hang_fn(st.get('where')) if verdict in ('hang', 'blocked') else st.get('where')) if st else '?'
        ctx.violation('C05:modefile:%s:%s:%s:%s' % (verdict, ep, where or '?', region),
                      {'mode_file': c, 'bytes': text, 'entry_point': ep, 'observed': x['steps']},
                      'mode file holding %s, %s: %s in step %s: %s' % (
                          text, 'open + Add + Read' if ep == 'counter' else 'upload.Run', verdict, (st or {}).get('op'), ((st or {}).get('where', '') + ' ' + (st or {}).get('text', '')).strip()))
    ctx.cov['divergences'] += ndiv
    ctx.sample({'kind': 'mode file content', 'content': lines[len(lines) // 2]['c'], 'entry_point': lines[len(lines) // 2]['ep'], 'observed': lines[len(lines) // 2]['o']})


# --------------------------------------------------------------------------- faults
def faults_replay(ctx, rng, pool):
    fc = pool.submit(harness, ctx, './internal/counter', 'TestVerifC05Faults', {'scenarios': COUNTER_SCENARIOS, 'plans': [], 'budget': 20000})
    fu = pool.submit(surviving, ctx, './internal/upload', 'TestVerifC05Upload', {'plans': [], 'budget': 200000}, 'scenarios', UPLOAD_SCENARIOS, lambda it: it['name'], lambda x: x.get('scn'))
    (crecs, out), (urecs, deaths) = fc.result(), fu.result()
    out2 = ''
    dead_scn = set()
    for d in deaths:
        # the fault-free run of the scenario already kills the process: nothing to enumerate for it
        dead_scn.add(d['item']['name'])
        ctx.violation('C05:fault:panic-escapes:%s:run:fault-free' % d['where'], {'scenario': d['item'], 'stack': d['stack']},
                      'scenario %s, fault-free: upload.Run does not return - the process dies: %s (in %s; a panic on a goroutine that Run started is not covered by its recover)' % (
                          d['item']['name'], d['text'], d['where']))
    recording = {r['scn']: r for r in crecs + urecs if r.get('kind') == 'recording'}
    scns = [(s, 'counter') for s in COUNTER_SCENARIOS] + [(s, 'upload') for s in UPLOAD_SCENARIOS if s['name'] not in dead_scn]
    if len(recording) != len(scns):
        raise Infra('C05: %d recordings for %d scenarios\n%s\n%s' % (len(recording), len(scns), out[-1500:], out2[-1500:]))
    lines, index = [], {}
    for s, fam in scns:
        r = recording[s['name']]
        steps = s['steps'] if fam == 'counter' else [S(o) for o in s['steps']]
        lines.append(dict(scn=s['name'], family=fam, pairs=s['name'] in PAIR_SCENARIOS, persist=s['name'] in PERSIST_SCENARIOS, steps=steps,
                          calls=[dict(i=c['i'], step=c['step'], op=c['op'], kind=c['kind'], pc=c['pc'], err=bool(c.get('err'))) for c in r['calls']]))
        index[s['name']] = len(lines)
    ctx.cov['recorded_calls'] = {l['scn']: len(l['calls']) for l in lines}
    ctx.sample({'kind': 'recorded call sequence', 'scenario': 'rotation',
                'calls': ['%s:%s@%s' % (c['op'], c['kind'], c['pc']) for c in lines[index['rotation'] - 1]['calls']]})
    rec_text = ndjson_text(lines)

    # ---- model: every single and pairwise plan with its predicted class ----------
    combos = [(a, b) for a in ERRNOS for b in ERRNOS]
    rng.shuffle(combos)
    pair_errnos = combos[:ctx.pick(1, 3)]
    mc = ('---- MODULE MCFaults ----\nEXTENDS Faults\nMCErrnos == {%s}\nMCPairErrnos == {%s}\n====\n' % (
        ', '.join('"%s"' % e for e in ERRNOS), ', '.join('<<"%s", "%s">>' % p for p in pair_errnos)))
    cfg = 'SPECIFICATION Spec\nINVARIANT Sane\nCHECK_DEADLOCK FALSE\nCONSTANTS\n Errnos <- MCErrnos\n PairErrnos <- MCPairErrnos\n'
    r = ctx.tlc('MCFaults', cfg_text=cfg, files={'c05rec.ndjson': rec_text, 'MCFaults.tla': mc}, dump=True, label='Faults (plans x predicted class)', timeout=2400)
    if not r.ok:
        raise Infra('Faults.tla: spec-level sanity failed: %s %s\n%s' % (r.error, r.error_name, r.out[-3000:]))
    plans = {}
    for st in tlaval.read_dump(r.dump):
        pm = st['pm']
        plans.setdefault(lines[st['scn'] - 1]['scn'], []).append((tuple(tuple(f) for f in st['fplan']), st['pred'], None if pm['m'] == '-' else (pm['m'], pm['v'])))
    ctx.cov['plans_enumerated'] = {k: len(v) for k, v in plans.items()}
    ctx.cov['pair_errnos'] = ['%s+%s' % p for p in pair_errnos]

    # ---- which plans are replayed ---------------------------------------------------
    def select(name, fam):
        ps = sorted(plans.get(name, []), key=lambda p: (p[0], p[2] or ()))
        persistent = [p for p in ps if p[2]]
        single = [p for p in ps if not p[2] and len(p[0]) <= 1]
        pair = [p for p in ps if not p[2] and len(p[0]) == 2]
        if fam == 'counter' and not ctx.thorough() and name not in ('open', 'firstadd', 'growth', 'rotation', 'read'):
            keep = {}
            for p in single:
                if p[0]:
                    keep.setdefault(p[0][0][0], []).append(p)
            single = [p for p in single if not p[0]] + [q for _, v in sorted(keep.items()) for q in rng.sample(v, 2)]
        if fam == 'upload' and not ctx.thorough() and name != 'run_local':
            # a mode-on run costs ~50 ms (config download): one errno per call in the quick tier (two for run_on)
            keep = {}
            for p in single:
                if p[0]:
                    keep.setdefault(p[0][0][0], []).append(p)
            single = [p for p in single if not p[0]] + [q for _, v in sorted(keep.items()) for q in rng.sample(v, 2 if name == 'run_on' else 1)]
        if ctx.thorough():
            cap_pairs = len(pair) if fam == 'counter' else 2600
        elif fam == 'counter':
            cap_pairs = 220
        else:
            # the config download makes a mode-on run cost ~50 ms
            cap_pairs = {'run_local': 300, 'run_on': 150}.get(name, 0)
        if len(pair) > cap_pairs:
            pair = rng.sample(pair, cap_pairs)
        return single + pair + persistent

    cplans, uplans, meta = [], [], {}
    _PM.clear()
    for s, fam in scns:
        for (pl, pred, pm) in select(s['name'], fam):
            pid = len(meta) + 1
            meta[pid] = (s['name'], fam, pl, pred)
            if pm:
                errno = {'kind': 'EIO', 'pc': 'EACCES', 'writes': 'EROFS', 'all': 'EIO'}[pm[0]]
                (cplans if fam == 'counter' else uplans).append(dict(id=pid, scn=s['name'], faults=[], match=dict(m=pm[0], v=pm[1], errno=errno)))
                _PM[pid] = pm
                continue
            (cplans if fam == 'counter' else uplans).append(dict(id=pid, scn=s['name'], faults=[dict(idx=i, errno=e) for (i, e) in pl]))
    ctx.log('fault plans to replay: counter %d, upload %d' % (len(cplans), len(uplans)))
    fc = sharded(ctx, pool, './internal/counter', 'TestVerifC05Faults', {'scenarios': COUNTER_SCENARIOS, 'budget': 20000}, 'plans', cplans, 2)
    fu = sharded_surviving(ctx, pool, './internal/upload', 'TestVerifC05Upload', {'scenarios': UPLOAD_SCENARIOS, 'budget': 200000}, 'plans', uplans, lambda it: it['id'], lambda x: x.get('id'), 4)
    (crecs, out), (urecs, deaths) = gather(fc), gather_surviving(fu)
    out2 = ''
    nsteps = {s['name']: len(s['steps']) for s in UPLOAD_SCENARIOS}
    for d in deaths:
        urecs.append(dict(kind='case', id=d['item']['id'], scn=d['item']['scn'], steps=dead_steps(nsteps[d['item']['scn']], d), fired=[], ncalls=0, posts=0, tree=[], stack=d['stack']))
    done = {r['id'] for r in crecs + urecs if r.get('kind') == 'case'}
    if deaths and len(done) != len(meta):
        # too many deaths: the rest was not run
        for pid in [p for p in meta if p not in done]:
            del meta[pid]
        ctx.log('%d fault plans were not run after %d deaths of the uploader process' % (len(cplans) + len(uplans) - len(done), len(deaths)))
    cases = {r['id']: r for r in crecs + urecs if r.get('kind') == 'case'}
    if len(cases) != len(meta):
        raise Infra('C05: %d results for %d fault plans\n%s\n%s' % (len(cases), len(meta), out[-1500:], out2[-1500:]))
    ctx.cov['fault_plans_replayed'] = len(cases)
    ctx.cov['evaluations'] += len(cases)
    ctx.cov['faults_fired'] = sum(len(c['fired']) for c in cases.values())
    ctx.cov['panics_recovered_by_Run'] = sum(s.get('recovered', 0) for c in cases.values() for s in c['steps'])

    return cases, meta, scns, index, rec_text, mc


def faults_decide(ctx, cases, meta, scns, index, rec_text, mc):
    # ---- code -> model: TLC decides every observed step ----------------------------
    obs, ids = [], []
    for pid in sorted(cases):
        name, fam, pl, pred = meta[pid]
        c = cases[pid]
        steps = []
        for s in c['steps']:
            if fam == 'counter':
                steps.append({k: s[k] for k in ('op', 'n', 'ret', 'parked', 'cur', 'today', 'dbl', 'others', 'files', 'dP', 'dE', 'pe', 'rv', 'pv', 'rerr')})
            else:
                steps.append({k: s[k] for k in ('op', 'ret', 'orphans', 'touched')})
        obs.append(dict(id=pid, scn=index[name], plan=[[i, e] for (i, e) in pl],
                        fired=[dict(idx=f['idx'], step=f['step'], kind=f['kind'], pc=f['pc']) for f in c['fired']], steps=steps))
        ids.append(pid)
    bad, diverged = [], []
    chunk = 6000
    tcfg = 'SPECIFICATION TSpec\nCHECK_DEADLOCK FALSE\nCONSTANTS\n Errnos <- MCErrnos\n PairErrnos <- MCPairErrnos\n'
    tmc = mc.replace('MODULE MCFaults', 'MODULE MCFaultsTrace').replace('EXTENDS Faults', 'EXTENDS FaultsTrace')
    jobs = []
    for i in range(0, len(obs), chunk):
        jobs.append((('MCFaultsTrace',), dict(cfg_text=tcfg, files={'c05rec.ndjson': rec_text, 'c05obs.ndjson': ndjson_text(obs[i:i + chunk]), 'MCFaultsTrace.tla': tmc},
                                              workers=1, label='FaultsTrace[%d]' % (i // chunk), count=False, timeout=2400)))
    for k, r in enumerate(ctx.tlc_many(jobs, par=4)):
        b, d = printed(r.out, 'C05BAD'), printed(r.out, 'C05DIV')
        if b is None or d is None or not r.ok:
            raise Infra('FaultsTrace: no verdict (%s)\n%s' % (r.error, r.out[-3000:]))
        bad += [(ids[k * chunk + x[0] - 1], x[1], x[2]) for x in b]
        diverged += [ids[k * chunk + x - 1] for x in d]
    if ctx.thorough():
        # binding demonstration: one observed field changed => the trace must be rejected
        demo = [json.loads(json.dumps(o)) for o in obs if not o['plan'] and o['scn'] == index['rotation']][:1]
        if demo:
            demo[0]['steps'][2]['others'] = True
            r = ctx.tlc('MCFaultsTrace', cfg_text=tcfg, files={'c05rec.ndjson': rec_text, 'c05obs.ndjson': ndjson_text(demo), 'MCFaultsTrace.tla': tmc},
                        workers=1, label='FaultsTrace binding demo', count=False)
            b = printed(r.out, 'C05BAD')
            if not b:
                raise Infra('FaultsTrace accepted a trace in which another counter changed')
            ctx.cov['binding_demo'] = 'fault-free rotation trace with step 3 altered to "another counter changed" is rejected: %s' % [list(x) for x in b]
    # the empty counter name: nothing is specified, so what the library makes of it is only noted
    for pid in sorted(cases):
        name, fam, pl, pred = meta[pid]
        if name == 'emptyname' and not pl and pid not in _PM:
            st = cases[pid]['steps']
            later = [x for x in st[3:] if x['op'] == 'read' and (x['rerr'] or x['rv'] != x['pv'])]
            if later or (st[2]['dP'] == 0 and st[2]['dE'] == 0):
                ctx.cov['divergences'] += 1
                ctx.warn('MODEL-DIVERGENCE (documentation silent) Add on a counter with an EMPTY name returns, but the record it writes has name length 0: '
                         'the amount is neither in memory nor readable (dP=%s dE=%s) and afterwards counter.Read of another counter %s' % (
                             st[2]['dP'], st[2]['dE'], 'fails: the library cannot parse its own file any more (belongs to C10 / C06)' if later else 'still works'))
    okcases = set(ids) - {b[0] for b in bad} - set(diverged)
    ctx.cov['traces_validated_against_impl'] += len(okcases)
    ctx.cov['divergences'] += len(diverged)
    for pid in sorted(diverged)[:5]:
        name, fam, pl, pred = meta[pid]
        ctx.warn('MODEL-DIVERGENCE fault plan %s of scenario %s did not hit the recorded calls: fired %s' % (list(pl), name, json.dumps(cases[pid]['fired'])))
    for (pid, k, rule) in sorted(bad):
        name, fam, pl, pred = meta[pid]
        c = cases[pid]
        st = c['steps'][k - 1]
        fired = [f for f in c['fired'] if f['step'] <= k]
        fdesc = '+'.join(sorted({'%s@%s' % (f['kind'], pcclass(f['pc'])) for f in fired})) or 'fault-free'
        if pid in _PM:
            fdesc = 'persistent:%s=%s' % (_PM[pid][0], pcclass(_PM[pid][1]))
        sig = 'C05:fault:%s:%s:%s' % (rule, st['op'], fdesc)
        if rule in ('hang', 'blocked'):
            sig = 'C05:fault:%s:%s:%s:%s' % (rule, hang_fn(st.get('where')), st['op'], fdesc)
        elif rule in ('panic', 'memfault', 'panic-escapes'):
            if rule == 'panic-escapes':
                fdesc = ('persistent:%s=%s' % (_PM[pid][0], pcclass(_PM[pid][1]))) if pid in _PM else ('%d-fault plan' % len(pl))
            sig = 'C05:fault:%s:%s:%s:%s' % (rule, st.get('where') or '?', st['op'], fdesc)
        scn = [s for s, _ in scns if s['name'] == name][0]
        ctx.violation(sig, {'scenario': scn, 'plan': [dict(idx=i, errno=e) for (i, e) in pl], 'persistent': _PM.get(pid), 'fired': c['fired'][:40], 'step': k, 'rule': rule,
                            'observed': c['steps'], 'predicted': pred},
                      'scenario %s, plan %s (fired: %s): step %d (%s %s) breaks "%s": %s' % (
                          name, ('every call matching %s=%s fails' % _PM[pid]) if pid in _PM else (list(pl) or 'fault-free'), ', '.join('%s %s@%s' % (f['errno'], f['kind'], f['pc']) for f in c['fired'][:6]) or '-', k, st['op'],
                          st.get('ctr', ''), rule, json.dumps({x: st[x] for x in st if x not in ('where',)})[:700]))
    some = [pid for pid in sorted(cases) if len(meta[pid][2]) == 2 and meta[pid][1] == 'counter']
    if some:
        pid = some[len(some) // 2]
        ctx.sample({'kind': 'fault plan', 'scenario': meta[pid][0], 'plan': list(meta[pid][2]), 'fired': cases[pid]['fired'], 'predicted': meta[pid][3],
                    'observed': [{k: s[k] for k in ('op', 'ctr', 'ret', 'parked', 'dP', 'dE')} for s in cases[pid]['steps']]})
    some = [pid for pid in sorted(cases) if meta[pid][1] == 'upload' and cases[pid]['fired']]
    if some:
        pid = some[len(some) // 3]
        ctx.sample({'kind': 'fault plan', 'scenario': meta[pid][0], 'plan': list(meta[pid][2]), 'fired': cases[pid]['fired'],
                    'observed': [{k: s[k] for k in ('op', 'ret', 'err', 'recovered', 'deleted', 'orphans', 'touched')} for s in cases[pid]['steps']], 'tree': cases[pid].get('tree')})
    ctx.cov['distinct_nontrivial'] += len({(meta[p][0], tuple(i for i, _ in meta[p][2])) for p in cases})


# -------------------------------------------------------------------------- corrupt
DIMS = ('hdr', 'trunc', 'limit', 'headE', 'headN', 'nlenC', 'nextC', 'nextE', 'vals')
UNDAMAGED = dict(hdr='ok', trunc='none', limit='ok', headE='ok', headN='zero', nlenC='ok', nextC='ok', nextE='ok', vals='nz')


def corrupt_replay(ctx, rng, r, pool):
    if not r.ok:
        raise Infra('Corrupt.tla: spec-level sanity failed: %s %s\n%s' % (r.error, r.error_name, r.out[-3000:]))
    vectors = [(st['file'], st['op'], st['exp']) for st in tlaval.read_dump(r.dump)]
    ctx.cov['corrupt_vectors_enumerated'] = len(vectors)

    def damage(f):
        return sum(1 for d in DIMS if f[d] != UNDAMAGED[d])

    def cyclic(f, op):
        # lookups that may meet a damaged link (the known non-terminating walk costs a full step budget each)
        return op in ('addE', 'addM') and (f['nextC'] == 'self' or f['nextE'] in ('self', 'cycle2'))
    sel = []
    if ctx.thorough():
        slow = [v for v in vectors if cyclic(v[0], v[1])]
        sel = [v for v in vectors if not cyclic(v[0], v[1])] + (rng.sample(slow, 1500) if len(slow) > 1500 else slow)
    else:
        lo = [v for v in vectors if damage(v[0]) <= 2 or v[0]['hdr'] != 'ok' or v[0]['trunc'] != 'none']
        hi = [v for v in vectors if not (damage(v[0]) <= 2 or v[0]['hdr'] != 'ok' or v[0]['trunc'] != 'none')]
        slow = [v for v in hi if cyclic(v[0], v[1])]
        fast = [v for v in hi if not cyclic(v[0], v[1])]
        lo_fast = [v for v in lo if not cyclic(v[0], v[1])]
        lo_slow = [v for v in lo if cyclic(v[0], v[1])]
        lo_slow = rng.sample(lo_slow, min(len(lo_slow), 40))
        # whole-file reads by the uploader cost a process-level run each: all files with at most one damaged dimension, all cyclic
        # ones, and a sample of the rest
        up_keep = [v for v in lo_fast if v[1] != 'upload' or damage(v[0]) <= 1 or v[0]['nextC'] == 'self' or v[0]['nextE'] in ('self', 'cycle2')]
        up_rest = [v for v in lo_fast if not (v[1] != 'upload' or damage(v[0]) <= 1 or v[0]['nextC'] == 'self' or v[0]['nextE'] in ('self', 'cycle2'))]
        lo_fast = up_keep + rng.sample(up_rest, min(len(up_rest), 250))
        sel = lo_fast + lo_slow + rng.sample(fast, min(len(fast), 4000)) + rng.sample(slow, min(len(slow), 20))
    cases = []
    for (f, op, exp) in sel:
        c = dict(f)
        c.update(id=len(cases) + 1, op=op, rand=0)
        cases.append(c)
    nenum = len(cases)
    for k in range(ctx.pick(2000, 30000)):
        c = dict(UNDAMAGED)
        c.update(id=len(cases) + 1, op=['addE', 'addN', 'addM', 'read', 'addE', 'addN', 'addM', 'upload'][k % 8], rand=rng.randrange(1, 1 << 40))
        cases.append(c)
    ctx.log('corrupt files to replay: %d enumerated + %d random' % (nenum, len(cases) - nenum))
    recs, out = gather(sharded(ctx, pool, './internal/counter', 'TestVerifC05Corrupt', {'budget': 100000, 'maxHangs': ctx.pick(12, 400)}, 'cases', cases, ctx.pick(3, 5)))
    res = {x['id']: x for x in recs if x.get('kind') == 'case'}
    skipped = {x['id'] for x in recs if x.get('kind') == 'skipped'}
    # the files of the "upload" operation are handed to the uploader harness
    handed = {x['id']: x for x in recs if x.get('kind') == 'bytes'}
    if handed:
        files = [dict(id=i, name=x['name'], data=x['data']) for i, x in sorted(handed.items())]
        urecs, deaths = gather_surviving(sharded_surviving(ctx, pool, './internal/upload', 'TestVerifC05UploadCorrupt', {'budget': 200000, 'maxHangs': ctx.pick(8, 100)}, 'files', files,
                                                           lambda it: it['id'], lambda x: x.get('id'), ctx.pick(2, 3)))
        for d in deaths:
            urecs.append(dict(kind='case', id=d['item']['id'], ret='panic-escapes', steps=0, where=d['where'], text=d['text'], state='-', bystanders='', recovered=0))
        ran = {x['id'] for x in urecs}
        for f in files:
            if f['id'] not in ran:
                skipped.add(f['id'])
        for x in urecs:
            if x.get('kind') == 'skipped':
                skipped.add(x['id'])
            elif x.get('kind') == 'case':
                h = handed[x['id']]
                wrong = x['state'] not in ('kept', 'reported') or bool(x['bystanders'])
                res[x['id']] = dict(kind='case', id=x['id'], open='-', ret=x['ret'], steps=x['steps'], where=x['where'], text=x['text'], mode='-', dP=0, dE=0,
                                    others=wrong, untouched=x['state'] == 'kept', dbl=False, chain=h.get('chain', '-'), limClass=h.get('limClass', '-'), damage=h.get('damage'),
                                    lost=('count file %s; %s' % (x['state'], x['bystanders'])) if wrong else '', state=x['state'], recovered=x['recovered'], reports=x.get('reports'))
        ctx.cov['uploader_runs_on_corrupt_files'] = len(files)
    if len(res) + len(skipped) != len(cases):
        raise Infra('C05: %d results for %d corrupt files\n%s' % (len(res), len(cases), out[-2000:]))
    if skipped:
        ctx.log('%d corrupt files with a cyclic chain were not run (cap on calls that never return)' % len(skipped))
        ctx.cov['corrupt_files_skipped'] = len(skipped)
        renum, keep = {}, []
        for c in cases:
            if c['id'] in res:
                keep.append(c)
        nenum = sum(1 for c in keep if not c['rand'])
        for k, c in enumerate(keep):
            renum[k + 1] = res[c['id']]
            c['id'] = k + 1
        cases, res = keep, renum
    return cases, res, nenum


def corrupt_decide(ctx, cases, res, nenum):
    ctx.cov['corrupt_files_replayed'] = len(cases)
    ctx.cov['evaluations'] += len(cases)
    lines = []
    for c in cases:
        o = res[c['id']]
        lines.append(dict(free=bool(c['rand']), file={d: c[d] for d in DIMS}, op=c['op'],
                          o=dict(open=o['open'], ret=o['ret'], mode=o['mode'], others=o['others'], untouched=o['untouched'], dbl=o['dbl'], dec=bool(o.get('dec')))))
    bad = []
    chunk = 40000
    jobs = [(('CorruptTrace',), dict(files={'c05corrupt.ndjson': ndjson_text(lines[i:i + chunk])}, workers=1, label='CorruptTrace[%d]' % (i // chunk), count=False, timeout=2400))
            for i in range(0, len(lines), chunk)]
    for k, r in enumerate(ctx.tlc_many(jobs, par=4)):
        b = printed(r.out, 'C05CBAD')
        if b is None or not r.ok:
            raise Infra('CorruptTrace: no verdict (%s)\n%s' % (r.error, r.out[-3000:]))
        bad += [(k * chunk + x[0], x[1], x[2], x[3]) for x in b]
    ctx.cov['traces_validated_against_impl'] += len(cases) - len({b[0] for b in bad})
    outcome = {}
    for c in cases:
        o = res[c['id']]
        key = '%s/%s/%s' % (o['open'], o['ret'], o['mode'])
        outcome[key] = outcome.get(key, 0) + 1
    ctx.cov['corrupt_outcomes'] = outcome
    ndiv = 0
    for (cid, verdict, lookup, want) in sorted(bad):
        c, o = cases[cid - 1], res[cid]
        free = bool(c['rand'])
        look = o.get('chain', '-') if free else lookup
        dmg = o.get('damage') if free else {d: c[d] for d in DIMS if c[d] != UNDAMAGED[d]}
        lim = o.get('limClass', '-') if free else c['limit']
        if verdict in ('open-class', 'mode-class', 'parked-file-written'):
            # the documented class differs, but nothing the property forbids happened
            ndiv += 1
            if ndiv <= 5:
                ctx.warn('MODEL-DIVERGENCE corrupt file %s, %s: %s (expected mode %s; observed open=%s mode=%s untouched=%s)' % (
                    json.dumps(dmg), c['op'], verdict, want, o['open'], o['mode'], o['untouched']))
            continue
        if c['op'] in ('read', 'upload'):
            # reading the whole file (counter.Read / the uploader's parse)
            what = hang_fn(o.get('where')) if verdict in ('hang', 'blocked') else (o.get('where') or '?') if verdict in ('panic', 'memfault') else o.get('state', 'file-changed')
            sig = 'C05:corrupt:%s:%s:%s' % (c['op'], verdict, what)
        elif verdict in ('hang', 'blocked'):
            sig = 'C05:corrupt:%s:%s:lookup=%s' % (verdict, hang_fn(o.get('where')), look)
        elif verdict in ('panic', 'memfault'):
            sig = 'C05:corrupt:%s:%s:lookup=%s' % (verdict, o.get('where') or '?', look)
        elif verdict == 'other-counter-changed':
            sig = 'C05:corrupt:other-counter-changed:lookup=%s:limit=%s' % (look, lim)
        else:
            sig = 'C05:corrupt:%s:%s' % (verdict, c['op'])
        ctx.violation(sig, {'case': c, 'damage': dmg, 'observed': o},
                      'corrupt file at rest (%s), then open + %s: %s%s; observed open=%s ret=%s mode=%s dP=%s dE=%s %s %s' % (
                          json.dumps(dmg), c['op'], verdict, (' (lookup class %s)' % look), o['open'], o['ret'], o['mode'], o.get('dP'), o.get('dE'),
                          ('lost: ' + o['lost']) if o.get('lost') else '', (o.get('where', '') + ' ' + o.get('text', '')).strip()))
    ctx.cov['divergences'] += ndiv
    ctx.cov['corrupt_class_divergences'] = ndiv
    pick = [c for c in cases[:nenum] if sum(1 for d in DIMS if c[d] != UNDAMAGED[d]) == 2]
    if pick:
        c = pick[len(pick) // 2]
        ctx.sample({'kind': 'corrupt file', 'damage': {d: c[d] for d in DIMS if c[d] != UNDAMAGED[d]}, 'op': c['op'],
                    'observed': {k: res[c['id']][k] for k in ('open', 'ret', 'mode', 'dP', 'dE', 'others', 'untouched')}})
    if len(cases) > nenum:
        c = cases[nenum]
        ctx.sample({'kind': 'randomly damaged file', 'damage': res[c['id']].get('damage'), 'op': c['op'],
                    'observed': {k: res[c['id']][k] for k in ('open', 'ret', 'mode', 'others', 'limClass', 'chain')}})
    ctx.cov['distinct_nontrivial'] += len({tuple(sorted((k, str(v)) for k, v in c.items() if k != 'id')) for c in cases})
