"""C02 — nothing is uploaded or recorded beyond what the consent mode allows
(spec/ModeFile.tla, ConsentOps.tla, Consent.tla, ConsentTrace.tla)."""
import json
import random

from vlib import tlaval
from vlib.core import Infra, ndjson_text

B = 18250            # 2019-12-20; the model's day numbers are absolute
E = B + 10           # the week the tables are built around (2019-12-30)
NODATE, BADDATE = -1, -2


# ----------------------------------------------------------------- TLA+ text
def mf_tla(k, w='', d=NODATE, pad=False):
    if k == 'absent':
        return 'Absent'
    if k == 'unreadable':
        return 'Unreadable'
    return 'Text(%s, %d, %s)' % (tlaval.to_tla(w), d, 'TRUE' if pad else 'FALSE')


def fset(fs):
    return '{' + ', '.join('[p |-> "%s", b |-> %d, e |-> %d]' % f for f in fs) + '}'


def iset(xs):
    return '{' + ', '.join(str(x) for x in xs) + '}'


def rep(lo, re, up):
    return '[local |-> %s, ready |-> %s, uploaded |-> %s]' % (iset(lo), iset(re), iset(up))


def pts(ps):
    return '{' + ', '.join('<<%d, %d>>' % p for p in ps) + '}'


def subsets(xs):
    out = [[]]
    for x in xs:
        out += [s + [x] for s in out]
    return out


def mc(name, modefiles, initfiles, initreports, starts, clock=()):
    return '''---- MODULE %s ----
EXTENDS Consent
MCModeFiles == {%s}
MCInitFiles == {%s}
MCInitReports == {%s}
MCStarts == %s
MCClock == %s
====
''' % (name, ', '.join(modefiles), ', '.join(fset(f) for f in initfiles), ', '.join(initreports), pts(starts), pts(clock))


def cfg(props=True, W=0, collectors=(), longprogs=(), maxproc=0, setmodes=(), setpads=('',), setzones=('',), emptyprogs=(), setdays=(), xs=(0,), rates=(0,), maxrun=1, maxset=0, maxedit=0, maxcollect=0, maxadv=0):
    t = 'SPECIFICATION Spec\nCHECK_DEADLOCK FALSE\n'
    if props:
        t += ('INVARIANTS TypeOK OneRequestPerWeek RequestsRecorded\n'
              'PROPERTIES RequestOnlyWhenOn UploadableOnlyIf SentOnlyIf OffChangesNothing OtherBehavesLocal SetGet NoNewReadyLeftBehind DisabledStaysSilent NoFileBornUnderOff\n')
    t += 'CONSTANTS\n W = %d\n Collectors = {%s}\n LongProgs = {%s}\n MaxProc = %d\n' % (W, ', '.join('"%s"' % c for c in collectors), ', '.join('"%s"' % c for c in longprogs), maxproc)
    t += ' ModeFiles <- MCModeFiles\n InitFiles <- MCInitFiles\n InitReports <- MCInitReports\n Starts <- MCStarts\n ClockPoints <- MCClock\n'
    t += ' SetZones = {%s}\n EmptyProgs = {%s}\n' % (', '.join(tlaval.to_tla(z) for z in setzones), ', '.join(tlaval.to_tla(z) for z in emptyprogs))
    t += ' SetModes = {%s}\n SetPads = {%s}\n SetDays = %s\n Xs = %s\n Rates = %s\n' % (', '.join(tlaval.to_tla(m) for m in setmodes), ', '.join(tlaval.to_tla(m) for m in setpads),
                                                                       iset(setdays), iset(xs), iset(rates))
    t += ' MaxRun = %d\n MaxSet = %d\n MaxEdit = %d\n MaxCollect = %d\n MaxAdv = %d\n' % (maxrun, maxset, maxedit, maxcollect, maxadv)
    return t


MODES3 = ['on', 'off', 'local']
PADS = ['', 'lead', 'trail', 'tab', 'nl', 'crlf', 'both']     # ModeFile.tla, Pads
NOINTENT = {'k': 'none', 'w': '', 'd': NODATE, 'pad': False}
NOPROC = {'st': 'none', 'p': '', 'b': -1, 'e': -1}
OTHERS = ['ON', 'onn', 'of', 'Local', 'true']
ALL_DATES = [NODATE, BADDATE, E - 8, E - 7, E - 6, E - 4, E - 3, E - 2, E - 1, E, E + 1, E + 6, E + 7, E + 8]
ALL_STARTS = [(E - 1, 86399), (E, 0), (E, 1), (E + 1, 0), (E + 6, 86399), (E + 7, 1), (E + 20, 86399), (E + 21, 0), (E + 21, 1), (E + 22, 0), (E + 28, 1)]
EMPTY_PROG = 'pZ'     # the program whose pre-existing count files hold no counter (Consent.tla, EmptyProgs)
# a week whose only file is empty; an empty file that begins before / after the file with data; the same program twice in a week
FILESETS_X = [[('pZ', E - 7, E)], [('pZ', E - 7, E), ('pA', E - 3, E)], [('pA', E - 7, E), ('pZ', E - 3, E)], [('pA', E - 7, E), ('pA', E - 3, E)],
              [('pZ', E - 3, E), ('pB', E + 1, E + 7)]]
FILESETS = [[], [('pA', E - 7, E)], [('pA', E - 1, E)], [('pA', E - 3, E), ('pB', E - 7, E)], [('pA', E - 7, E), ('pB', E - 1, E)],
            [('pA', E - 3, E), ('pB', E + 1, E + 7)]]


def all_modefiles(pads=True):
    out = ['Absent', 'Unreadable']
    out += [mf_tla('text', w, d) for w in MODES3 for d in ALL_DATES]
    out += [mf_tla('text', w, d) for w in OTHERS[:3] for d in (NODATE, E - 8)]
    out += [mf_tla('text', '', NODATE)]
    if pads:
        out += [mf_tla('text', w, d, True) for w in MODES3 for d in (NODATE, E - 8)]
    return out


# ------------------------------------------------------------- TLC -> python
def mf_py(m):
    return {'k': m['k'], 'w': m['w'], 'd': m['d'], 'pad': m['pad']}


def files_py(v):
    """files variable: function record -> count ([] when empty), or a set of records."""
    out = []
    if isinstance(v, dict):
        for k, n in v.items():
            kk = dict(k)
            out.append({'p': kk['p'], 'b': kk['b'], 'e': kk['e'], 'n': n})
    else:
        for kk in v:
            out.append({'p': kk['p'], 'b': kk['b'], 'e': kk['e'], 'n': 1})
    out.sort(key=lambda f: (f['p'], f['b'], f['e']))
    return out


def state_py(st):
    return {'modeFile': mf_py(st['modeFile']), 'intent': mf_py(st['intent']) if 'intent' in st else dict(NOINTENT),
            'day': st['day'], 'tod': st['tod'], 'files': files_py(st['files']),
            'local': sorted(st['local']), 'ready': sorted(st['ready']), 'uploaded': sorted(st['uploaded']),
            'requests': sorted(({'wk': r['wk'], 'run': r['run']} for r in st.get('requests', [])), key=lambda r: (r['run'], r['wk'])),
            'proc': {'st': st['proc']['st'], 'p': st['proc']['f']['p'], 'b': st['proc']['f']['b'], 'e': st['proc']['f']['e']} if 'proc' in st else dict(NOPROC)}


def act_py(a):
    return {'op': a['op'], 'a': a['a'], 'p': a.get('p', ''), 'tz': a.get('tz', ''), 'n1': a['n1'], 'n2': a['n2'], 'ok': a['ok']}


def norm_obs_state(s):
    return {'modeFile': s['modeFile'], 'intent': s.get('intent', NOINTENT), 'day': s['day'], 'tod': s['tod'],
            'files': sorted(s['files'], key=lambda f: (f['p'], f['b'], f['e'])),
            'local': sorted(s['local']), 'ready': sorted(s['ready']), 'uploaded': sorted(s['uploaded']),
            'requests': sorted(s['requests'], key=lambda r: (r['run'], r['wk'])), 'proc': s.get('proc', NOPROC)}


def shifts(ctx, n):
    """Multiples of 7 (weekdays are preserved) that move the model's window to
    other parts of the calendar: year ends, leap days, seed-dependent weeks."""
    rng = random.Random(ctx.seed * 1000003 + 11)
    fixed = [0, 1519, 364, 371, 2975, 1883, 6209]   # 2019-12-30, 2024-02-26, 2020-12-28, 2021-01-04, 2028-02-21, 2025-02-24, 2036-12-29
    return [fixed[i] if i < len(fixed) and i % 2 == 0 else 7 * rng.randrange(0, 900) for i in range(n)]


def run(ctx):
    ctx.assumptions += [
        'dates are UTC calendar days; count files begin and end at 00:00 UTC (C09 decides that); opt-in dates, begin/end days and '
        'start instants (1 s around every boundary) range over 2019..2037 by shifting the model window by multiples of 7 days',
        'white space around the mode-file text is not part of the value; the mode word is separated from the date by one blank; '
        'tab/newline separated or doubly blank separated contents are not generated (the property is silent on them)',
        'a text that follows the mode word but is not a calendar date counts as "no opt-in date recorded"',
        'mode arguments given to SetMode are the three modes, clearly invalid words, and both with white space around them (a padded valid '
        'mode may be rejected or taken without its padding); what follows an accepted SetMode is judged by the mode that was set; the date of '
        'an as-of instant is its UTC date in whatever zone the instant is given (the mode file is read back as a UTC day and counter files begin at '
        '00:00 UTC); SetMode on an unwritable (directory) mode file is not generated',
        'the library consults the mode when a process opens its counter file and at every rotation (Open / rotate1; no document promises more): '
        'one long-running process is driven through open, increments, mode changes and rotations past the recorded end, and once it has seen the '
        'mode off nothing it rotates or increments may reach the disk; increments made between the user turning telemetry off and the next '
        'rotation, into the file the process already held, are not generated and not judged; that a disabled process stays disabled after the '
        'mode is turned on again is the specification\'s (and the code\'s) choice, a deviation there is a divergence, not a violation; the mode '
        'does not change while an uploader runs',
        'every count file holds at least one counter; ready/uploaded report names are well-formed dates; the server answers 200 '
        '(other replies: C08); sample rates are 0 or positive',
        'an uploader that makes LESS uploadable than the property allows (or builds no report in mode on) is reported as a '
        'model divergence (warning), not as a violation: the property bounds uploads from above',
    ]
    ctx.inject('internal/counter', 'internal/verifh/vmode', 'internal/verifh/c02')
    th = ctx.thorough()

    # ---- 1. the decision table of one uploader run: exhaustive, model only -----
    if th:
        reports = [rep(l, r, u) for l in subsets([E]) for r in subsets([E, E + 7, E - 14]) for u in subsets([E, E - 14])]
    else:
        reports = [rep(l, r, u) for l in subsets([E]) for r in subsets([E, E + 7]) for u in subsets([E])]
    m = mc('MCConsentCross', all_modefiles(), FILESETS + (FILESETS_X[1:4] if th else FILESETS_X[1:3]), reports, ALL_STARTS)
    r = ctx.tlc('MCConsentCross', files={'MCConsentCross.tla': m}, cfg_text=cfg(xs=(0, 512, 513) if th else (513,), rates=(0, 512, 1024) if th else (0, 512), emptyprogs=(EMPTY_PROG,)), label='Consent-cross', timeout=1500)
    if not r.ok:
        raise Infra('Consent.tla (cross table) violates its own %s %s\n%s' % (r.error, r.error_name, r.out[-3000:]))
    cross_states = r.distinct

    # ---- 2. histories: exhaustive, model only ---------------------------------------
    hist_modes = ['Absent', mf_tla('text', 'on', B - 2), mf_tla('text', 'off'), mf_tla('text', 'local'), mf_tla('text', 'ON')]
    hist_clock = [(B + 1, 0), (B + 8, 1), (B + 9, 0), (B + 30, 1)]
    m = mc('MCConsentHist', hist_modes, [[]], [rep([], [], [])], [(B, 1)], hist_clock)
    hcfg = cfg(W=6, collectors=('c1', 'c2') if th else ('c1',), setmodes=('on', 'off', 'local', 'auto'), setpads=('', 'nl', 'trail') if th else ('',), setdays=(B - 1, B + 2), xs=(0, 600), rates=(0, 512),
               maxrun=2, maxset=2, maxedit=1, maxcollect=2 if th else 1, maxadv=3 if th else 2)
    r = ctx.tlc('MCConsentHist', files={'MCConsentHist.tla': m}, cfg_text=hcfg, label='Consent-hist', timeout=3000)
    if not r.ok:
        raise Infra('Consent.tla (histories) violates its own %s %s\n%s' % (r.error, r.error_name, r.out[-3000:]))
    # one long-running counting process interleaved with mode changes and the clock: exhaustive, model only
    m = mc('MCConsentProc', ['Absent', mf_tla('text', 'on', B - 2), mf_tla('text', 'off'), mf_tla('text', 'local')], [[]], [rep([], [], [])], [(B, 1)], hist_clock)
    pcfg = cfg(W=6, longprogs=('lp',), maxproc=4 if th else 3, setmodes=('on', 'off', 'local'), setpads=('', 'nl'), setdays=(B + 1,), xs=(0,), rates=(0,),
               maxrun=1, maxset=2, maxedit=1 if th else 0, maxadv=3)
    r = ctx.tlc('MCConsentProc', files={'MCConsentProc.tla': m}, cfg_text=pcfg, label='Consent-proc', timeout=3000)
    if not r.ok:
        raise Infra('Consent.tla (long-running process) violates its own %s %s\n%s' % (r.error, r.error_name, r.out[-3000:]))

    # ---- 3. tables that are replayed completely (model -> code) ----------------------
    scenarios = []
    expected = {}     # (id, step) -> expected successor state

    def add_table(name, modefiles, filesets, reps, starts, xs, rates, op='run', **kw):
        m = mc(name, modefiles, filesets, reps, starts)
        ctext = cfg(props=False, xs=xs, rates=rates, **kw)
        if min(rates) < 0:      # a cfg file cannot hold negative numbers
            m = m.replace('\n====', '\nMCRates == %s\n====' % iset(rates))
            ctext = ctext.replace(' Rates = %s\n' % iset(rates), ' Rates <- MCRates\n')
        r = ctx.tlc(name, files={name + '.tla': m}, cfg_text=ctext, dump=True, label=name, count=False)
        if not r.ok:
            raise Infra('%s: %s\n%s' % (name, r.error, r.out[-2000:]))
        n = 0
        for st in tlaval.read_dump(r.dump):
            if st['last']['op'] != op:
                continue
            if op == 'set' and st['last']['p'] != '' and st['last']['a'] in MODES3 and not st['last']['ok']:
                continue      # the same call as the accepting branch; which branch the code takes is observed
            ini = st['init']
            sid = len(scenarios)
            ifiles = files_py(ini['files'])
            for f in ifiles:
                if f['p'] in kw.get('emptyprogs', ()):
                    f['n'] = 0
            init = {'modeFile': mf_py(ini['modeFile']), 'day': ini['day'], 'tod': ini['tod'], 'files': ifiles,
                    'local': sorted(ini['local']), 'ready': sorted(ini['ready']), 'uploaded': sorted(ini['uploaded']), 'requests': []}
            scenarios.append({'id': sid, 'src': name, 'w': 0, 'shift': 0, 'variant': sid, 'child': False, 'init': init,
                              'steps': [{'a': act_py(st['last']), 'modeFile': init['modeFile'], 'day': st['day'], 'tod': st['tod']}]})
            expected[(sid, 0)] = state_py(st)
            n += 1
        return n

    on_dates = [mf_tla('text', 'on', d) for d in ALL_DATES]
    n1 = add_table('MCConsentT1', on_dates, FILESETS[1:5], [rep([], [], [])], ALL_STARTS, (512, 513) if not th else (0, 512, 513, 1023), (512,) if not th else (0, 512, 1024))
    n2 = add_table('MCConsentT2', all_modefiles(), [FILESETS[3], FILESETS[5]],
                   [rep([], [], []), rep([], [E + 7, E - 14], []), rep([E], [E, E + 7], [E - 14])] + ([rep([], [E], [E]), rep([E], [], [])] if th else []),
                   [(E + 1, 0), (E + 21, 1)] + ([(E, 0), (E + 8, 1)] if th else []), (256,), (0,))
    ready_sets = [rep([], rd, up) for rd in subsets([E, E + 7, E - 14]) for up in ([], [E])]
    n3 = add_table('MCConsentT3', [mf_tla('text', 'on', d) for d in (NODATE, BADDATE, E - 15, E - 14, E - 1, E, E + 6, E + 7)] + [mf_tla('text', 'local', E - 15), mf_tla('text', 'off', E - 15)],
                   [[], FILESETS[1]], ready_sets, [(E, 0), (E + 6, 86399), (E + 7, 0), (E + 7, 1), (E + 30, 0)], (256,), (1024,))
    # SetMode with every padding of every word, from several mode files
    n4 = add_table('MCConsentT4', ['Absent', mf_tla('text', 'on', E - 8), mf_tla('text', 'off'), mf_tla('text', 'local', E), mf_tla('text', 'ON'), mf_tla('text', 'off', E - 8, True)],
                   [[]], [rep([], [], [])], [(E, 1)], (0,), (0,), op='set', setmodes=('on', 'off', 'local', 'auto', 'On', ''), setpads=PADS, setdays=(E - 1, E + 3),
                   maxrun=0, maxset=1)
    # the same instant given in zones far east / west of UTC, dates decades away, with and without padding
    n4 += add_table('MCConsentT4z', ['Absent', mf_tla('text', 'off')], [[]], [rep([], [], [])], [(E, 1)], (0,), (0,), op='set', setmodes=('on', 'off', 'auto'),
                    setpads=('', 'nl'), setzones=('east', 'west'), setdays=(E - 1, 3, 84006), maxrun=0, maxset=1)
    # extremes: opt-in dates decades before / after, a run more than a year late, X at 0 / 1 / 2 / 1023 against sample rates below zero,
    # 1/1024 and above one, the same program twice in a week
    n5 = add_table('MCConsentT5', [mf_tla('text', 'on', d) for d in (NODATE, 3, 84006, E - 8)], [FILESETS[1], FILESETS_X[3], FILESETS_X[1]], [rep([], [], [])],
                   [(E + 1, 0), (E + 400, 5)], (0, 1, 2, 1023), (-512, 1, 2048), emptyprogs=(EMPTY_PROG,))
    # count files that are valid but hold no counter, alone and next to files with data, against every kind of existing report
    n6 = add_table('MCConsentT6', [mf_tla('text', 'on'), mf_tla('text', 'on', E - 5), mf_tla('text', 'on', E), mf_tla('text', 'local'), mf_tla('text', 'off')],
                   [FILESETS_X[0], FILESETS_X[1], FILESETS_X[2], FILESETS_X[4]], [rep([], [], []), rep([], [E], []), rep([E], [], []), rep([], [], [E])],
                   [(E + 1, 0), (E + 8, 1)], (256,), (0,), emptyprogs=(EMPTY_PROG,))
    ctx.log('table vectors: dates %d, mode classes %d, ready reports %d, set arguments %d, extremes %d, empty files %d' % (n1, n2, n3, n4, n5, n6))
    # the surroundings: no telemetry directory at all / no local directory yet / foreign, corrupt and zero-length files, a sub-directory and
    # a debug directory lying around (they must be ignored and, in mode off, left exactly as they are)
    for sc in scenarios:
        ini = sc['init']
        empty = not (ini['files'] or ini['local'] or ini['ready'])
        if empty and not ini['uploaded'] and ini['modeFile']['k'] == 'absent' and sc['id'] % 3 == 1:
            sc['nodir'] = True
        elif empty and sc['id'] % 4 == 2:
            sc['bare'] = True
        elif sc['id'] % 5 == 1:
            sc['extras'] = True
    # directed histories (judged by TLC like every other observation): set a padded mode, then count and upload.  What follows
    # a SetMode is judged by the mode the user set: data from before the opt-in date, a program run and uploader runs after "off".
    for ini_mf in ({'k': 'absent', 'w': '', 'd': NODATE, 'pad': False}, {'k': 'text', 'w': 'local', 'd': NODATE, 'pad': False}):
        for mode in MODES3:
            for pad in PADS:
                sid = len(scenarios)
                scenarios.append({'id': sid, 'src': 'directed', 'w': (ctx.seed + sid) % 7, 'shift': 0, 'variant': sid, 'child': False,
                                  'init': {'modeFile': ini_mf, 'intent': dict(NOINTENT), 'day': E + 1, 'tod': 1, 'files': [{'p': 'pA', 'b': E - 7, 'e': E, 'n': 1}],
                                           'local': [], 'ready': [], 'uploaded': [], 'requests': []},
                                  'steps': [{'a': {'op': 'set', 'a': mode, 'p': pad, 'n1': E - 3, 'n2': 0, 'ok': True}, 'modeFile': ini_mf, 'day': E + 1, 'tod': 1},
                                            {'a': {'op': 'collect', 'a': 'c1', 'p': '', 'n1': 0, 'n2': 0, 'ok': True}, 'modeFile': ini_mf, 'day': E + 1, 'tod': 1},
                                            {'a': {'op': 'run', 'a': '', 'p': '', 'n1': 256, 'n2': 0, 'ok': True}, 'modeFile': ini_mf, 'day': E + 1, 'tod': 1},
                                            {'a': {'op': 'advance', 'a': '', 'p': '', 'n1': 0, 'n2': 0, 'ok': True}, 'modeFile': ini_mf, 'day': E + 9, 'tod': 1},
                                            {'a': {'op': 'run', 'a': '', 'p': '', 'n1': 256, 'n2': 0, 'ok': True}, 'modeFile': ini_mf, 'day': E + 9, 'tod': 1}]})
    # directed histories for the calendar of the opt-in date: the user opts in at an instant given in UTC or in a zone far west / east of it,
    # at the first or the last second of the UTC day D (so that the zone's own calendar shows the day before / after); a counter file that
    # began at 00:00 UTC of D holds data from before that instant, one that began on D+1 does not; then the week ends and the uploader runs.
    for zone in ('', 'west', 'east'):
        for k in range(4):                     # the harness derives the second of the day from variant + step: 0 -> 00:00:00, 1 -> 23:59:59
            for fileset in ([('pA', E - 4, E)], [('pA', E - 3, E)], [('pA', E - 4, E), ('pB', E - 3, E)]):
                sid = len(scenarios)
                stepsz = [{'a': {'op': 'set', 'a': 'on', 'p': '', 'tz': zone, 'n1': E - 4, 'n2': 0, 'ok': True}, 'modeFile': dict(NOINTENT), 'day': E - 4, 'tod': 1},
                          {'a': {'op': 'advance', 'a': '', 'p': '', 'tz': '', 'n1': 0, 'n2': 0, 'ok': True}, 'modeFile': dict(NOINTENT), 'day': E + 1, 'tod': 1},
                          {'a': {'op': 'run', 'a': '', 'p': '', 'tz': '', 'n1': 256, 'n2': 0, 'ok': True}, 'modeFile': dict(NOINTENT), 'day': E + 1, 'tod': 1}]
                scenarios.append({'id': sid, 'src': 'directed-zone', 'w': 0, 'shift': 0, 'variant': 4 * sid + k, 'child': False,
                                  'init': {'modeFile': {'k': 'text', 'w': 'local', 'd': NODATE, 'pad': False}, 'intent': dict(NOINTENT), 'day': E - 4, 'tod': 1,
                                           'files': [{'p': p_, 'b': b_, 'e': e_, 'n': 1} for (p_, b_, e_) in fileset], 'local': [], 'ready': [], 'uploaded': [],
                                           'requests': [], 'proc': dict(NOPROC)}, 'steps': stepsz})
    # directed histories of ONE long-running process (open under local/on, the user turns telemetry off, the rotation timer
    # fires after the recorded end, more increments; then on again)
    def stp(op, a='', n1=0, day=0, tod=1):
        return {'a': {'op': op, 'a': a, 'p': '', 'n1': n1, 'n2': 0, 'ok': True}, 'modeFile': dict(NOINTENT), 'day': day, 'tod': tod}
    for start in ('local', 'on'):
        for k, gap in enumerate((8, 1, 7, 15)):
            for variant in range(3):
                sid = len(scenarios)
                d0 = E + 1
                steps = [stp('set', start, d0 - 5, d0), stp('protate', 'lp', 0, d0), stp('pinc', 'lp', 0, d0), stp('set', 'off', d0, d0)]
                if variant == 1:
                    steps += [stp('set', start, d0, d0)]           # back on before the rotation: the process goes on counting
                steps += [stp('advance', '', 0, d0 + gap), stp('protate', 'lp', 0, d0 + gap), stp('pinc', 'lp', 0, d0 + gap)]
                if variant == 2:
                    steps += [stp('set', 'on', d0 + gap, d0 + gap), stp('advance', '', 0, d0 + gap + 2), stp('protate', 'lp', 0, d0 + gap + 2), stp('pinc', 'lp', 0, d0 + gap + 2)]
                steps += [stp('advance', '', 0, d0 + gap + 12), stp('run', '', 256, d0 + gap + 12)]
                scenarios.append({'id': sid, 'src': 'directed-proc', 'w': (ctx.seed + sid) % 7, 'shift': 0, 'variant': sid, 'child': False,
                                  'init': {'modeFile': {'k': 'absent', 'w': '', 'd': NODATE, 'pad': False}, 'intent': dict(NOINTENT), 'day': d0, 'tod': 1, 'files': [],
                                           'local': [], 'ready': [], 'uploaded': [], 'requests': [], 'proc': dict(NOPROC)}, 'steps': steps})
    ntab = len(scenarios)
    sh = shifts(ctx, 16)
    for sc in scenarios:
        sc['shift'] = sh[sc['id'] % len(sh)] if sc['id'] % 3 else 0

    # ---- 4. behaviours: -simulate walks over histories (model -> code) ---------------
    sim_modes = all_modefiles() + [mf_tla('text', w, d) for w in MODES3 for d in (B, B + 1, B + 2, B + 8, B + 9)]
    sim_clock = [(B + d, t) for d in (0, 1, 2, 6, 7, 8, 9, 10, 15, 16, 22, 23, 29, 30, 31, 37, 38) for t in (0, 1, 86399)]
    m = mc('MCConsentSim', sim_modes, [[], [('pA', B - 3, B + 2)], [('pA', B - 6, B + 1), ('pB', B, B + 1)]],
           [rep([], [], []), rep([], [B + 1], []), rep([B + 2], [B + 9], [B - 6])], [(B, 1), (B + 1, 0)], sim_clock)
    nwalk = ctx.pick(140, 4200)
    behaviours = 0
    def walks(label, modname, modtext, scfg, W, num, depth):
        nonlocal behaviours
        r = ctx.tlc(modname, files={modname + '.tla': modtext}, cfg_text=scfg, simulate={'num': num, 'file': True}, depth=depth,
                    label=label, count=False, seed=ctx.seed * 31 + W)
        if r.error:
            raise Infra('Consent simulate: %s\n%s' % (r.error, r.out[-2000:]))
        for fn in ctx.sim_files(r):
            sts = tlaval.read_simulate(fn)
            if len(sts) < 2:
                continue
            sid = len(scenarios)
            s0 = sts[0][2]
            sc = {'id': sid, 'src': 'sim', 'w': W, 'shift': sh[sid % len(sh)], 'variant': sid, 'child': sid % 4 == 0, 'extras': sid % 5 == 1,
                  'init': state_py(s0), 'steps': []}
            for i, (_a, _args, st) in enumerate(sts[1:]):
                sc['steps'].append({'a': act_py(st['last']), 'modeFile': mf_py(st['modeFile']), 'day': st['day'], 'tod': st['tod']})
                expected[(sid, i)] = state_py(st)
            scenarios.append(sc)
            behaviours += 1

    for W in ((ctx.seed % 7, (ctx.seed + 3) % 7) if not th else tuple(range(7))):
        scfg = cfg(props=False, W=W, collectors=('c1', 'c2'), longprogs=('lp',), maxproc=5, setmodes=('on', 'off', 'local', 'auto', '', 'On'), setpads=PADS, setzones=('', 'east', 'west'),
                   setdays=(B - 1, B, B + 1, B + 2, B + 8, B + 9, B + 20), xs=(0, 300, 512, 513, 1023), rates=(0, 512, 1024),
                   maxrun=4, maxset=3, maxedit=2, maxcollect=4, maxadv=6)
        walks('Consent-sim-W%d' % W, 'MCConsentSim', m, scfg, W, nwalk // (2 if not th else 7), ctx.pick(16, 20))
    # walks of the long-running process alone with mode changes and the clock (so that open -> off -> rotation is frequent)
    mp = mc('MCConsentSimProc', ['Absent', mf_tla('text', 'on', B - 2), mf_tla('text', 'off'), mf_tla('text', 'local', B), mf_tla('text', 'ON')], [[]], [rep([], [], [])],
            [(B, 1), (B + 1, 0)], sim_clock)
    for W in ((ctx.seed + 1) % 7,) if not th else (1, 4, 6):
        pcfg2 = cfg(props=False, W=W, longprogs=('lp',), maxproc=7, setmodes=('on', 'off', 'local'), setpads=('', 'nl'), setzones=('', 'west'), setdays=(B, B + 2, B + 9), xs=(0, 600), rates=(0, 512),
                    maxrun=2, maxset=4, maxedit=1, maxadv=5)
        walks('Consent-simproc-W%d' % W, 'MCConsentSimProc', mp, pcfg2, W, ctx.pick(60, 600), ctx.pick(16, 20))
    ctx.log('behaviours: %d' % behaviours)
    if behaviours == 0:
        raise Infra('no behaviours from TLC simulate')
    ctx.sample({'kind': 'table-vector', **{k: scenarios[ntab // 2][k] for k in ('init', 'steps', 'shift')}})
    ctx.sample({'kind': 'behaviour', 'w': scenarios[ntab]['w'], 'ops': [(s['a']['op'], s['a']['a'], s['a']['n1'], s['a']['n2']) for s in scenarios[ntab]['steps']]})

    # ---- 5. run the real code ---------------------------------------------------------
    nrandom = ctx.pick(1000, 40000)
    recs, rc, out = ctx.run_harness('./internal/verifh/c02', 'TestVerifC02Replay', inp={'scenarios': scenarios, 'random': nrandom}, timeout=2400)
    if not [x for x in recs if x.get('kind') == 'summary']:
        raise Infra('C02 harness wrote no summary:\n' + out[-3000:])
    for x in recs:
        if x.get('kind') == 'infra':
            raise Infra('C02 harness: %s' % x)
        if x.get('kind') == 'hang':
            ctx.violation('C02:hang', x, 'the library did not return within 60 s in scenario %s step %s' % (x.get('id'), x.get('step')))
    obs = [x for x in recs if x.get('kind') == 'obs']
    ctx.cov['evaluations'] += len(obs)
    ctx.log('observed transitions: %d' % len(obs))

    # ---- 6. TLC judges every observed transition (code -> model) ----------------------
    keep = ('a', 's', 't', 'w', 'run', 'same', 'read', 'extra_s', 'extra_t', 'posted')
    verdicts = {}
    chunk = 40000
    for i in range(0, len(obs), chunk):
        part = obs[i:i + chunk]
        text = ndjson_text([{k: o[k] for k in keep} for o in part])
        r = ctx.tlc('ConsentTrace', files={'c02obs.ndjson': text}, workers=1, label='ConsentTrace[%d]' % (i // chunk), timeout=3000)
        if not r.ok:
            raise Infra('ConsentTrace: %s\n%s' % (r.error, r.out[-3000:]))
        for ln in r.out.split('\n'):
            if ln.startswith('<<"C02BAD"'):
                v = tlaval.parse(ln.strip())
                verdicts[i + v[1] - 1] = (sorted(v[2]), v[3])

    # ---- 7. verdicts ----------------------------------------------------------------------
    bad_scen = set()
    branch_off = set()
    ndiv = 0
    for idx, o in enumerate(obs):
        key = (o['id'], o['step'])
        clauses, diverges = verdicts.get(idx, ([], False))
        exp = expected.get(key)
        if o['a']['op'] == 'set' and o['a']['p'] != '' and exp is not None and not clauses and scenarios[o['id']]['steps'][o['step']]['a']['ok'] != o['a']['ok']:
            # a padded mode may be rejected or accepted; the code took the other branch than TLC's behaviour: from here on
            # the behaviour's states are not the code's (each step is still judged from the observed predecessor)
            branch_off.add(o['id'])
        if exp is not None and o['id'] not in branch_off and not diverges and not clauses and o['id'] not in bad_scen and norm_obs_state(o['t']) != exp:
            # TLC's step function explains the observed successor from the observed predecessor, every earlier step
            # of this behaviour matched, and still the state differs from the one in TLC's behaviour: the harness
            # (concretization / abstraction) is inconsistent with itself
            raise Infra('C02 replay inconsistency in scenario %s step %s: observed %s, behaviour has %s' % (
                o['id'], o['step'], json.dumps(norm_obs_state(o['t'])), json.dumps(exp)))
        mfs = o['s']['intent'] if o['s'].get('intent', NOINTENT)['k'] != 'none' else o['s']['modeFile']     # the governing mode (ConsentOps.tla, Gov)
        eff = mfs['w'] if (mfs['k'] == 'text' and mfs['w'] in ('on', 'off')) else 'local'
        for c in clauses:
            bad_scen.add(o['id'])
            sig = 'C02:%s:%s:%s' % (c, o['a']['op'], eff)
            ctx.violation(sig, {'observation': o, 'model_expected': exp},
                          '%s is false on an observed transition of the real code: op=%s args=(%s,%s,%s) mode file %s, before=%s after=%s %s %s' % (
                              c, o['a']['op'], o['a']['a'], o['a']['n1'], o['a']['n2'], o.get('mode_bytes'), json.dumps(o['s'])[:500], json.dumps(o['t'])[:500],
                              o.get('what', ''), o.get('err', '')))
        if diverges and not clauses:
            bad_scen.add(o['id'])
            ndiv += 1
            if ndiv <= 10:
                ctx.warn('MODEL-DIVERGENCE C02 scenario %s step %s op=%s: observed successor is not the specification\'s (no clause of the property is false): before=%s after=%s expected=%s err=%s' % (
                    o['id'], o['step'], o['a']['op'], json.dumps(o['s'])[:400], json.dumps(o['t'])[:400], json.dumps(exp)[:400] if exp else '-', o.get('err', '')))
    ctx.cov['divergences'] += ndiv
    ids = set(o['id'] for o in obs)
    ctx.cov['traces_validated_against_impl'] += len(ids - bad_scen)
    ctx.cov['table_vectors_replayed'] = ntab
    ctx.cov['behaviours_replayed'] = behaviours
    ctx.cov['random_scenarios_validated'] = len([i for i in ids if i >= 1000000])
    ctx.cov['cross_table_states'] = cross_states
    ctx.cov['distinct_nontrivial'] = len(ids)
    ctx.cov['rule'] = ('every observed transition of the real code (table vectors and -simulate behaviours of Consent.tla replayed step by step, '
                       'plus random concrete scenarios) is judged by TLC with the clauses of ConsentOps.tla on the abstracted directory snapshot '
                       'and server log; a trace counts as validated when every step satisfied all clauses and equalled the specification\'s successor')
    for o in obs:
        if o['src'] == 'random' and o['a']['op'] == 'run' and o['t']['requests']:
            ctx.sample({'kind': 'observation', **{k: o[k] for k in ('a', 's', 't', 'mode_bytes')}})
            break
