"""Helpers of the extension engine X02 (checks/x02.py): concrete <-> abstract
vocabulary of spec/ConfigDist*.tla.  Written from the documentation of
internal/chartconfig, golang.org/x/mod/semver and go/version -- independent of
the code under test."""
import re

REL = 99

# token tables (index + 1 = token id in the specification)
CHARTS = ['gopls/editor', 'gopls/edit', 'go/build/flag', 'crash/crash', 'vscgo/x-y']
BUCKETS = ['vim', 'vi', '10', 'other', 'auto']
# program id -> (package path, module path, toolchain program?)
PROGS = {
    1: ('cmd/go', 'cmd', True),
    2: ('golang.org/x/tools/gopls', 'golang.org/x/tools/gopls', False),
    3: ('golang.org/x/vuln/cmd/govulncheck', 'golang.org/x/vuln', False),
    4: ('cmd/compile', 'cmd', True),
    5: ('github.com/golang/vscode-go/vscgo', 'github.com/golang/vscode-go', False),
}
TOOLCHAIN = 'golang.org/toolchain'


def prog_table(n):
    return [{'name': PROGS[i][0], 'module': PROGS[i][1], 'tool': PROGS[i][2]} for i in range(1, n + 1)]


def name_rank(nprog):
    """program id -> rank of its name in plain string order"""
    names = sorted(PROGS[i][0] for i in range(1, nprog + 1))
    return {i: names.index(PROGS[i][0]) + 1 for i in range(1, nprog + 1)}


# ------------------------------------------------------------------ versions
def sem_str(t):
    s = 'v%d.%d.%d' % (t[0], t[1], t[2])
    return s if t[3] == REL else s + '-pre.%d' % t[3]


_sem_rx = re.compile(r'^v(0|[1-9]\d*)\.(0|[1-9]\d*)\.(0|[1-9]\d*)(?:-pre\.([1-9]\d?))?$')


def sem_tuple(s):
    m = _sem_rx.match(s)
    if not m:
        return None
    return [int(m.group(1)), int(m.group(2)), int(m.group(3)), int(m.group(4)) if m.group(4) else REL]


def go_str(t):
    n, ph, k = t[1], t[2], t[3]
    return 'go1.%d' % n + {0: '', 1: 'beta%d' % k, 2: 'rc%d' % k, 3: '.%d' % k}[ph]


_go_rx = re.compile(r'^go1\.(0|[1-9]\d*)(?:(beta|rc)([1-9]\d*)|\.(0|[1-9]\d*))?$')


def go_tuple(s):
    m = _go_rx.match(s)
    if not m:
        return None
    if m.group(2):
        return [1, int(m.group(1)), 1 if m.group(2) == 'beta' else 2, int(m.group(3))]
    if m.group(4) is not None:
        return [1, int(m.group(1)), 3, int(m.group(4))]
    return [1, int(m.group(1)), 0, 0]


def ver_str(t, tool):
    return go_str(t) if tool else sem_str(t)


def ver_tuple(s, tool):
    return go_tuple(s) if tool else sem_tuple(s)


def toolchain_version(gov, rng):
    return 'v0.0.1-%s.%s' % (gov, rng.choice(['linux-amd64', 'darwin-arm64', 'windows-386']))


# ------------------------------------------------------------- chart records
def expr_str(chart, bks, form=None):
    """the counter expression of the documented syntax"""
    c = CHARTS[chart - 1]
    if not bks:
        return c
    if len(bks) == 1 and form != 'braced':
        return c + ':' + BUCKETS[bks[0] - 1]
    return c + ':{' + ','.join(BUCKETS[b - 1] for b in bks) + '}'


def render_record(r, rng, idx):
    """one abstract record -> the lines of a chart record (documented syntax:
    key at column 0 followed by ':', comments from '#', bucket lists may
    continue over lines)"""
    name, module, tool = PROGS[r['prog']]
    fields = []
    bks = r['bks']
    expr = expr_str(r['chart'], bks, r.get('form'))
    if len(bks) >= 2 and r.get('multiline'):
        c = CHARTS[r['chart'] - 1]
        lines = ['counter: ' + c + ':{']
        for i, b in enumerate(bks):
            last = i == len(bks) - 1
            lines.append(rng.choice(['  ', '\t', '']) + BUCKETS[b - 1] + ('' if last else ',') + rng.choice(['', '  # bucket']))
        lines.append('}')
        fields.append('\n'.join(lines))
    else:
        fields.append('counter: ' + expr + rng.choice(['', ' # the counter', '   ']))
    fields.append('title: Chart %d of %s' % (idx, name.split('/')[-1]))
    if rng.random() < 0.6:
        fields.append('description: what chart %d shows' % idx)
    fields.append('type: ' + ('stack' if r['depth'] > 0 else 'partition'))
    for k in range(rng.choice([1, 1, 2])):
        fields.append('issue: https://go.dev/issue/%d' % (60000 + 10 * idx + k))
    fields.append('program: ' + name)
    fields.append('module: ' + module)
    if r['min']:
        fields.append('version: ' + ver_str(r['min'], tool))
    if r['depth'] > 0:
        fields.append('depth: %d' % r['depth'])
    rng.shuffle(fields)
    out = []
    for f in fields:
        if rng.random() < 0.15:
            out.append(rng.choice(['', '# a comment', '   ']))
        out.append(f)
    return out


def render_text(recs, rng):
    parts = []
    for i, r in enumerate(recs):
        parts.append('\n'.join(render_record(r, rng, i)))
    sep = rng.choice(['\n---\n', '\n\n---\n\n', '\n---\n\n'])
    text = sep.join(parts) + '\n'
    if rng.random() < 0.3:
        text = '# generated chart configuration\n' + text
    if rng.random() < 0.2:
        text += '---\n'
    return text


# ------------------------------------------------------------------ TLA+ text
def tla(v):
    if isinstance(v, bool):
        return 'TRUE' if v else 'FALSE'
    if isinstance(v, int):
        return str(v)
    if isinstance(v, str):
        return '"%s"' % v
    if isinstance(v, (set, frozenset)):
        return '{' + ', '.join(sorted(tla(x) for x in v)) + '}'
    if isinstance(v, (list, tuple)):
        return '<<' + ', '.join(tla(x) for x in v) + '>>'
    if isinstance(v, dict):
        return '[' + ', '.join('%s |-> %s' % (k, tla(x)) for k, x in v.items()) + ']'
    raise TypeError(type(v))


def tset(vs):
    """a TLA+ set of tuples from a list of lists"""
    return '{' + ', '.join(tla(list(v)) for v in vs) + '}'
