"""C03 — concurrent increments are counted exactly once and never crash
(Counter.tla / CounterTrace.tla / CounterObs.tla)."""
import json
import os
import random

from vlib import tlaval
from vlib.core import Infra, ndjson_text

INTERNAL = {"A_next", "A_relR", "A_done1", "RR_top", "RL_top", "RL_gotptr", "RL_flush", "RL_ret",
            "LK_ret", "NC_done", "IV_afterRL", "IV_ret", "RO_done", "T_end"}

# The repairs that are committed in /repo (fix: commits) are switched on in the
# model; see known_findings.json ("fixed" entries).
FIX = {'FixF3': 'TRUE', 'FixF15': 'TRUE'}
if os.environ.get('VERIF_C03_NOFIX'):
    FIX = {'FixF3': 'FALSE', 'FixF15': 'FALSE'}


def fam(name, adders, rot, counters, warm, init_open, clock, cap, max_extra=None, warm_cell=1, nrot=1, capnew=4, amt=None, unit=0):
    total = sum(n * (amt or {}).get(_t, 1) for (_t, _c, n) in adders) + len(warm)
    return dict(name=name, adders=adders, rot=rot, counters=counters, warm=warm, init_open=init_open, clock=clock,
                cap=cap, max_extra=max_extra or max(3, total), warm_cell=warm_cell, nrot=nrot, capnew=capnew, amt=amt or {}, unit=unit)


def families(tier):
    fs = [
        # first open: adders race the opener (rotate1 on an unopened file)
        fam('firstopen2', [('a1', 'c1', 1), ('a2', 'c1', 1)], ['r'], ['c1'], [], False, 1, 0),
        # weekly rotation: file of span 1 open and warm, the clock is in span 2
        fam('rotation2', [('a1', 'c1', 1), ('a2', 'c1', 1)], ['r'], ['c1'], ['c1'], True, 2, 2),
        # growth: the record of the second counter does not fit into the mapping
        fam('growth2', [('a1', 'c1', 1), ('a2', 'c2', 1)], [], ['c1', 'c2'], ['c1'], True, 1, 0),
        # two DIFFERENT cold counters registered concurrently while the file is opened (lock-free list insertion)
        fam('firstopen2c', [('a1', 'c1', 1), ('a2', 'c2', 1)], ['r'], ['c1', 'c2'], [], False, 1, 0),
        # two cold counters: one lookup waits for file.mu while the other grows the file
        fam('growth2cold', [('a1', 'c2', 1), ('a2', 'c3', 1)], [], ['c1', 'c2', 'c3'], ['c1'], True, 1, 0),
        # saturation: the persisted value is one below its limit and two increments arrive
        fam('saturate2', [('a1', 'c1', 1), ('a2', 'c1', 1)], [], ['c1'], ['c1'], True, 1, 2, warm_cell=14),
        # two rotations in a row (the clock moves on between them): the second one meets the state the first left
        # behind (a closed previous mapping, counters invalidated once already, a counter re-registered in between)
        fam('rotation2x', [('a1', 'c1', 2)], ['r'], ['c1'], ['c1'], True, 2, 2, nrot=2),
        # three counters were incremented before the file is opened; the file the opener finds has ONE free
        # slot: flushing the second pending counter grows the file in the middle of invalidateCounters, and the
        # nested invalidation meets the third, still pending, counter
        # amounts: one Add whose amount alone exceeds the limit of the in-memory value (2^33-1), next to a small one,
        # before the file is open: the pending value sticks at the limit (model unit = 2^31, limit = 4 units)
        fam('extrasat2', [('a1', 'c1', 1), ('a2', 'c1', 1)], [], ['c1'], [], False, 1, 0, max_extra=4, amt={'a2': 4}, unit=31),
        fam('openflush', [('a1', 'c1', 1)], ['r'], ['c1', 'c2', 'c3'], ['c1', 'c2', 'c3'], False, 1, 0, capnew=1),
    ]
    big = [
        fam('rotation1x2', [('a1', 'c1', 2)], ['r'], ['c1'], ['c1'], True, 2, 2),
        fam('growth1x2', [('a1', 'c1', 2), ('a2', 'c2', 1)], [], ['c1', 'c2'], ['c1'], True, 1, 0),
        fam('firstopen3', [('a1', 'c1', 1), ('a2', 'c1', 1), ('a3', 'c1', 1)], ['r'], ['c1'], [], False, 1, 0),
        fam('rotation3', [('a1', 'c1', 1), ('a2', 'c1', 1), ('a3', 'c1', 1)], ['r'], ['c1'], ['c1'], True, 2, 2),
        fam('growth3', [('a1', 'c1', 1), ('a2', 'c2', 1), ('a3', 'c1', 1)], [], ['c1', 'c2'], ['c1'], True, 1, 0),
        fam('growth3b', [('a1', 'c1', 1), ('a2', 'c2', 1), ('a3', 'c3', 1)], [], ['c1', 'c2', 'c3'], ['c1'], True, 1, 0),
        fam('growrot', [('a1', 'c1', 1), ('a2', 'c2', 1)], ['r'], ['c1', 'c2'], ['c1'], True, 2, 0),
    ]
    return fs, big


def sset(xs):
    return '{' + ', '.join('"%s"' % x for x in xs) + '}'


def mc_module(f, base='Counter', name='MCCounter'):
    ad = [a[0] for a in f['adders']]
    return '''---- MODULE %s ----
EXTENDS %s
MCAdders == %s
MCRot == %s
MCCtrOf == %s
MCNAdds == %s
MCNRot == %s
MCWarmSeq == <<%s>>
MCAmt == %s
====
''' % (name, base, sset(ad), sset(f['rot']),
       '(' + ' @@ '.join('"%s" :> "%s"' % (a[0], a[1]) for a in f['adders']) + ')' if ad else '<<>>',
       '(' + ' @@ '.join('"%s" :> %d' % (a[0], a[2]) for a in f['adders']) + ')' if ad else '<<>>',
       '(' + ' @@ '.join('"%s" :> %d' % (r, f.get('nrot', 1)) for r in f['rot']) + ')' if f['rot'] else '<<>>',
       ', '.join('"%s"' % c for c in f['warm']),
       '(' + ' @@ '.join('"%s" :> %d' % (a[0], f.get('amt', {}).get(a[0], 1)) for a in f['adders']) + ')' if ad else '<<>>')


def mc_cfg(f, spec='Spec', invariants=(), props=(), view=True, deadlock=False, fix=None):
    fx = fix or FIX
    s = 'SPECIFICATION %s\nCONSTANTS\n Adders <- MCAdders\n Rotators <- MCRot\n CtrOf <- MCCtrOf\n NAdds <- MCNAdds\n NRot <- MCNRot\n WarmSeq <- MCWarmSeq\n Amt <- MCAmt\n' % spec
    s += ' Counters = %s\n Warm = %s\n InitOpen = %s\n ClockSpan = %d\n Capacity = %d\n CapNew = %d\n GrowBy = 4\n MaxExtra = %d\n MaxCell = 15\n WarmCell = %d\n' % (
        sset(f['counters']), sset(f['warm']), 'TRUE' if f['init_open'] else 'FALSE', f['clock'], f['cap'], f.get('capnew', 4), f['max_extra'], f['warm_cell'])
    s += ' FixF3 = %s\n FixF15 = %s\n' % (fx['FixF3'], fx['FixF15'])
    if invariants:
        s += 'INVARIANTS ' + ' '.join(invariants) + '\n'
    if props:
        s += 'PROPERTIES ' + ' '.join(props) + '\n'
    if view:
        s += 'VIEW View\n'
    s += 'CHECK_DEADLOCK %s\n' % ('TRUE' if deadlock else 'FALSE')
    return s


def pending(state):
    for t, fr in state['stk'].items():
        if fr and fr[0]['pc'] in INTERNAL:
            return True
    return False


def schedule_of(states):
    """states: list of state dicts of one model behaviour -> list of task names,
    one per VISIBLE step."""
    sched = []
    for a, b in zip(states, states[1:]):
        if pending(a):
            continue
        moved = [t for t in b['stk'] if b['stk'][t] != a['stk'][t]]
        if len(moved) != 1:
            # a visible step always changes exactly one stack
            continue
        sched.append(moved[0])
    return sched


PC_LABEL = {
    'RG_nl': ('(*file).register', 'Pointer.Load'), 'RG_hl': ('(*file).register', 'Pointer.Load'),
    'RG_ncas': ('(*file).register', 'Pointer.CompareAndSwap'), 'RG_hcas': ('(*file).register', 'Pointer.CompareAndSwap'),
    'RG_nst': ('(*file).register', 'Pointer.Store'),
    'A_load': ('load<(*Counter).Add', 'Uint64.Load'), 'A_nilload': ('load<(*Counter).Add', 'Uint64.Load'),
    'A_cas1': ('update<(*Counter).Add', 'Uint64.CompareAndSwap'), 'A_cas2': ('update<(*Counter).Add', 'Uint64.CompareAndSwap'),
    'A_cas3': ('update<(*Counter).Add', 'Uint64.CompareAndSwap'), 'A_nilx': ('update<(*Counter).Add', 'Uint64.CompareAndSwap'),
    'RR_up': ('update<(*Counter).releaseReader', 'Uint64.CompareAndSwap'), 'RR_dec': ('update<(*Counter).releaseReader', 'Uint64.CompareAndSwap'),
    'RR_load': ('load<(*Counter).releaseReader', 'Uint64.Load'),
    'RL_setHP': ('update<(*Counter).releaseLock', 'Uint64.CompareAndSwap'), 'RL_clrEx': ('update<(*Counter).releaseLock', 'Uint64.CompareAndSwap'),
    'RL_unlock': ('update<(*Counter).releaseLock', 'Uint64.CompareAndSwap'), 'RL_load': ('load<(*Counter).releaseLock', 'Uint64.Load'),
    'D_load': ('(*Counter).add', 'Uint64.Load'), 'D_cas': ('(*Counter).add', 'Uint64.CompareAndSwap'),
    'LK_cur': ('(*file).lookup', 'Pointer.Load'), 'NC_lock': ('(*file).newCounter1', 'Mutex.Lock'),
    'NC_cur': ('(*file).newCounter1', 'Pointer.Load'), 'NC_store': ('(*file).newCounter1', 'Pointer.Store'),
    'IV_head': ('(*file).invalidateCounters', 'Pointer.Load'), 'IV_next1': ('(*file).invalidateCounters', 'Pointer.Load'),
    'IV_next2': ('(*file).invalidateCounters', 'Pointer.Load'),
    'IVa_load': ('load<(*Counter).invalidate', 'Uint64.Load'), 'IVa_cas': ('update<(*Counter).invalidate', 'Uint64.CompareAndSwap'),
    'IVr_load': ('load<(*Counter).refresh', 'Uint64.Load'), 'IVr_cas': ('update<(*Counter).refresh', 'Uint64.CompareAndSwap'),
    'RO_lock': ('(*file).rotate1', 'Mutex.Lock'), 'RO_prev': ('(*file).rotate1', 'Pointer.Load'),
    'RO_store': ('(*file).rotate1', 'Pointer.Store'), 'RO_defcur': ('(*file).rotate1.func', 'Pointer.Load'),
    'RO_tick': ('c03One', 'tick'),
}


def label_script(states, sequential=False):
    """Label-aligned form of a witness.  The witness is cut into segments of consecutive steps of one
    task; each segment becomes "task>>fn|kind|k": run the task until it has been suspended k times (counted
    over its whole life) in front of an operation of that class and stands in front of one now.  With
    sequential=True every task instead runs alone, in the order of the tasks' last steps, to where it
    stands in the window."""
    settled = [st for st in states if not pending(st)]
    if len(settled) < 2:
        return None
    moves = []          # (task, pc it is suspended at afterwards or 'done')
    for a, b in zip(settled, settled[1:]):
        for t in b['stk']:
            if b['stk'][t] != a['stk'][t]:
                fr = b['stk'][t]
                moves.append((t, fr[0]['pc'] if fr and fr[0]['pc'] != 'Fault' else 'done'))
    counts = {}
    entries = []        # (task, label class or None, absolute count)
    for (t, pc) in moves:
        lab = PC_LABEL.get(pc)
        if lab:
            counts[(t, lab)] = counts.get((t, lab), 0) + 1
        entry = (t, lab, counts.get((t, lab), 0)) if lab else (t, None, 0)
        if entries and entries[-1][0] == t:
            entries[-1] = entry
        else:
            entries.append(entry)
    if sequential:
        lastidx = {}
        for i, e in enumerate(entries):
            lastidx[e[0]] = i
        entries = [entries[i] for i in sorted(lastidx.values())]
    script = []
    for (t, lab, k) in entries:
        if lab is None:
            script.append('%s>>done|x|1' % t)
        else:
            script.append('%s>>%s|%s|%d' % (t, lab[0], lab[1], max(1, k)))
    return script


def run_cfg(f, rid, schedule, finish, seed, trace=True):
    return dict(id=rid, family=f['name'], adders=[dict(name=a[0], ctr=a[1], n=a[2], amt=f.get('amt', {}).get(a[0], 1)) for a in f['adders']], unit=f.get('unit', 0), rotators=f['rot'], nRot=f.get('nrot', 1), capNew=(f.get('capnew', 4) if f.get('capnew', 4) != 4 else -1),
                counters=f['counters'], warm=f['warm'], initOpen=f['init_open'], clock2=(f['clock'] == 2), capacity=f['cap'],
                maxExtra=f['max_extra'], warmCell=f['warm_cell'], maxCell=15, schedule=schedule, finish=finish, seed=seed, trace=trace)


SAFETY = ['TypeOK', 'UpperBound', 'NoDeadlock', 'NoFault', 'Quiescent', 'Flushed', 'PtrFresh']
WINDOWS = ['NotW%d' % i for i in range(1, 22)]


def classify(res):
    """signature of a failing real run (res = result record)."""
    flt = res.get('fault') or {}
    if res['status'] == 'fault':
        # the function whose shared operation faulted: the task was suspended in front of it
        # (the label is more reliable than parsing the panic's stack text)
        fn = (flt.get('label') or '').split('<')[0] or (flt.get('fn') or '')
        where = 'hold-before-close' if flt.get('holdStep', 0) < flt.get('closeStep', 0) else 'hold-after-close'
        if flt.get('closeStep', 0) == 0:
            where = 'no-close'
        return 'C03:fault:%s:%s' % (fn or 'unknown', where)
    if res['status'] in ('hang', 'deadlock', 'livelock'):
        return 'C03:%s' % res['status']
    return None


def run(ctx):
    ctx.assumptions += [
        'goroutines are interleaved at the shared operations the instrumenter exposes (sync/atomic, file.mu); code between two such operations is one step',
        'mappedFile internals are not interleaved (they are serialized by file.mu inside one process; cross-process interleavings are C04)',
        'munmap is replaced by mprotect(PROT_NONE) so that a use after close faults deterministically',
        'increment amounts are 1; saturation limits are modelled with small constants and not replayed',
    ]
    ctx.inject('internal/counter')
    ctx.instrument('internal/counter')
    small, big = families(ctx.tier)
    fams = small + (big if ctx.thorough() else [])
    rng = random.Random(ctx.seed)
    runs = []
    runfam = {}
    rid = 0
    model_results = {}

    def add_run(f, sched, finish, why):
        nonlocal rid
        rid = len(runs) + 1
        runs.append(run_cfg(f, rid, sched, finish, rng.randrange(1 << 30)))
        runfam[rid] = (f, why)

    jobs = []
    meta = []
    PROPS = ['NoFault', 'Quiescent', 'Flushed', 'PtrFresh']
    WNAMES = ['W_HolderOnClosedMapping', 'W_HalfRegistered', 'W_LockWithReaders', 'W_HavePtrNil', 'W_InvalidateDuringHold', 'W_RefreshLocks',
              'W_TwoGrowths', 'W_RefreshSeesReaders', 'W_RefreshSeesLocked', 'W_AddSeesReadersNoPtr', 'W_LastReaderUpgrade', 'W_UnlockRaced',
              'W_ClearExtraRaced', 'W_SetHPNoExtra', 'W_StoreDuringRead', 'W_RotStoreDuringRead', 'W_HeadCasRaced', 'W_NilReader',
              'W_InvalidateCasRaced', 'W_LookupBeforeOpen', 'W_CloseWhileLocked', 'W_LookupStaleCurrent', 'W_LookupStaleClosed', 'W_ListRace']
    oneshot = ['OneShot(i, W) == IF W /\\ TLCGet(i) = 0 THEN TLCSet(i, 1) /\\ FALSE ELSE TRUE',
               'ASSUME \\A i \\in 1..40 : TLCSet(i, 0)']
    onames = {}
    for i, p in enumerate(PROPS):
        oneshot.append('O_%s == OneShot(%d, ~%s)' % (p, i + 1, p))
        onames['O_' + p] = p
    for i, w in enumerate(WNAMES):
        oneshot.append('O_%s == OneShot(%d, %s)' % (w, i + 10, w))
        onames['O_' + w] = w
    for f in fams:
        mc = mc_module(f)
        mcw = mc.replace('====', '\n'.join(oneshot) + '\n====')
        exhaustive = ctx.thorough() or len(f['adders']) + len(f['rot']) <= 3
        # (1)+(2) one exhaustive run per family: the safety invariants that must hold in the design, and
        # one-shot invariants whose first violation (BFS => shortest) is a witness schedule into each
        # race window / to each property the faithful design still violates (known findings)
        jobs.append((('MCCounter',), dict(files={'MCCounter.tla': mcw},
                                          cfg_text=mc_cfg(f, invariants=['TypeOK', 'UpperBound', 'NoWrap', 'NoDeadlock'] + sorted(onames)),
                                          label='Counter[%s] exhaustive' % f['name'], timeout=3000, workers=1, extra=['-continue'])))
        meta.append((f, 'exhaustive'))
        # (3) random walks of the model
        jobs.append((('MCCounter',), dict(files={'MCCounter.tla': mc}, cfg_text=mc_cfg(f, view=False), simulate={'num': ctx.pick(60, 400), 'file': True},
                                          depth=400, label='Counter[%s] simulate' % f['name'], count=False)))
        meta.append((f, 'simulate'))
    if ctx.thorough():
        # liveness: under weak fairness of every task no call waits forever (faults of the known finding F1 aside:
        # a faulted task counts as done)
        for f in small[:3]:
            jobs.append((('MCCounter',), dict(files={'MCCounter.tla': mc_module(f)}, cfg_text=mc_cfg(f, spec='FairSpec', props=['Termination'], view=False),
                                              label='Counter[%s] liveness' % f['name'], timeout=3000, workers=4)))
            meta.append((f, 'liveness'))
    results_tlc = ctx.tlc_many(jobs, par=12)
    for (f, what), r in zip(meta, results_tlc):
        if what == 'simulate':
            for fn in ctx.sim_files(r):
                states = [s for (_a, _b, s) in tlaval.read_simulate(fn)]
                add_run(f, schedule_of(states), 'rr', 'simulate')
            continue
        if what == 'liveness':
            model_results['%s/Termination' % f['name']] = 'holds' if r.ok else 'VIOLATED in the model: %s' % r.error
            if not r.ok:
                ctx.warn('model: liveness %s: %s' % (f['name'], r.error))
            continue
        model_results[f['name']] = {'distinct': r.distinct, 'generated': r.generated}
        for (name, tr) in tlaval.read_all_traces(r.out):
            if name not in onames:
                ctx.warn('model: family %s violates %s (the design itself, or the model, is wrong)' % (f['name'], name))
                model_results['%s/%s' % (f['name'], name)] = 'VIOLATED in the model'
                continue
            inv = onames[name]
            sched = schedule_of([s for (_a, s) in tr])
            model_results['%s/%s' % (f['name'], inv)] = 'reachable (%d steps)' % len(sched)
            for fin in ('stick', 'rr', 'seq', 'random'):
                add_run(f, sched, fin, inv)
            for k in range(2):
                cut = rng.randrange(max(1, len(sched) // 2), len(sched) + 1)
                add_run(f, sched[:cut], 'random', inv + ':prefix')
            # label-aligned, sequentialized replay of the window (robust against added/removed operations)
            for seq in (False, True):
                scr = label_script([s for (_a, s) in tr], sequential=seq)
                if scr:
                    for fin in ('stick', 'rr'):
                        add_run(f, scr, fin, inv + (':aligned-seq' if seq else ':aligned'))
            # drift tolerance: a change to the code that adds or removes a shared operation shifts the
            # step counts of the witness; replay it also with the last two segments one step longer/shorter
            segs = []
            for t in sched:
                if segs and segs[-1][0] == t:
                    segs[-1][1] += 1
                else:
                    segs.append([t, 1])
            if len(segs) >= 2:
                for d1 in (-1, 0, 1):
                    for d2 in (-1, 0, 1):
                        if d1 == 0 and d2 == 0:
                            continue
                        js = [list(x) for x in segs]
                        js[-1][1] = max(0, js[-1][1] + d2)
                        js[-2][1] = max(0, js[-2][1] + d1)
                        add_run(f, [t for (t, n) in js for _ in range(n)], 'stick', inv + ':jitter')
    for f in fams:
        # (4) schedules chosen by the harness itself (random, and sequential orders)
        for k in range(ctx.pick(60, 600)):
            add_run(f, [], 'random', 'random')
        add_run(f, [], 'seq', 'seq')
        add_run(f, [], 'rr', 'rr')

    if ctx.replay:
        # re-run exactly the recorded case (its full executed schedule) and judge it again
        det = json.load(open(ctx.replay))['detail']
        r0 = det['run']
        fam0 = [f for f in small + big if f['name'] == r0['family']][0]
        if fam0 not in fams:
            fams.append(fam0)
        sched0 = det.get('schedule') or (det.get('result') or {}).get('schedule') or r0['schedule']
        runs, runfam, rid = [], {}, 0
        add_run(fam0, sched0, 'rr', 'replay')
    ctx.log('runs to replay:', len(runs))
    recs, rc, out = ctx.run_harness('./internal/counter', 'TestVerifC03', inp={'runs': runs}, timeout=3000)
    results = {r['run']: r for r in recs if r.get('kind') == 'result'}
    if len(results) != len(runs):
        raise Infra('C03 harness returned %d results for %d runs\n%s' % (len(results), len(runs), out[-3000:]))
    obs = {}
    for r in recs:
        if r.get('kind') == 'obs':
            obs.setdefault(r['run'], []).append(r)

    # (5) faults / hangs are violations by themselves (real behaviour)
    nfail = 0
    for k, res in sorted(results.items()):
        sig = classify(res)
        if sig:
            nfail += 1
            f, why = runfam[k]
            if sig.endswith('hold-after-close') and k in obs:
                sig += ':' + signature_context(res, obs[k], None, f)
            ctx.violation(sig, {'run': runs[k - 1], 'result': {x: res.get(x) for x in ('status', 'fault', 'st', 'ptr', 'cell1', 'cell2', 'cell3', 'begun', 'schedule')}},
                          '%s run %d (%s): %s %s' % (f['name'], k, why, res['status'], json.dumps(res.get('fault'))))
    ctx.cov['runs'] = len(runs)
    ctx.cov['runs_failed'] = nfail
    ctx.cov['evaluations'] += len(runs)
    ctx.cov['real_steps'] = sum(r['steps'] for r in results.values())

    # (6) TLC evaluates the property on every observed real state (CounterObs)
    lines = []
    index = []
    for k in sorted(obs):
        res = results[k]
        for o in obs[k]:
            o2 = {x: o[x] for x in ('run', 'i', 't', 'st', 'ptr', 'cur', 'open', 'cell1', 'cell2', 'cell3', 'begun', 'done', 'faulted', 'fileopen')}
            o2['ntasks'] = len(runs[k - 1]['adders']) + len(runs[k - 1]['rotators'])
            o2['final'] = False
            o2['sat'] = runs[k - 1]['warmCell'] != 1 or runs[k - 1]['unit'] > 0
            o2['satlimit'] = runs[k - 1]['maxExtra'] if runs[k - 1]['unit'] > 0 else runs[k - 1]['maxCell']
            lines.append(o2)
            index.append(k)
        if res['status'] == 'ok':
            lines[-1]['final'] = True
    chunk = 60000
    import re
    for i in range(0, len(lines), chunk):
        part = lines[i:i + chunk]
        r = ctx.tlc('CounterObs', files={'c03obs.ndjson': ndjson_text(part)}, workers=1,
                    label='CounterObs[%d]' % (i // chunk), count=False, timeout=1500)
        j = r.out.find('"C03BAD"')
        if j < 0:
            raise Infra('CounterObs: no verdict\n' + r.out[-2000:])
        k2 = r.out.find('Computing initial states', j)
        txt = r.out[r.out.rfind('<<', 0, j):k2 if k2 > 0 else len(r.out)].strip()
        bad = tlaval.parse(txt)[1]
        bad = [tuple(x) for x in bad]
        seen_runs = set()
        for (idx, clause) in sorted(bad):
            o = part[idx - 1]
            k = o['run']
            if (k, clause) in seen_runs:
                continue
            seen_runs.add((k, clause))
            f, why = runfam[k]
            ctx.violation('C03:%s:%s' % (clause, signature_context(results[k], obs[k], o, f)),
                          {'run': runs[k - 1], 'state': o, 'schedule': results[k].get('schedule')},
                          '%s run %d (%s) step %d: %s is false on the real state: st=%s ptr=%s cells=%s/%s begun=%s open=%s' % (
                              f['name'], k, why, o['i'], clause, o['st'], o['ptr'], o['cell1'], o['cell2'], o['begun'], o['open']))
        if not bad and not r.ok:
            raise Infra('CounterObs: %s\n%s' % (r.error, r.out[-2000:]))
    ctx.cov['observed_states_checked'] = len(lines)

    # (7) conformance: every recorded trace must be a behaviour of Counter.tla
    accepted = 0
    diverged = []
    byfam = {}
    for k in sorted(obs):
        byfam.setdefault(runfam[k][0]['name'], []).append(k)
    for f in fams:
        ks = byfam.get(f['name'], [])
        if not ks:
            continue
        remaining = list(ks)
        guard = 0
        while remaining and guard < 12:
            guard += 1
            tl = []
            for k in remaining:
                for o in obs[k]:
                    tl.append({x: o[x] for x in ('run', 'i', 't', 'st', 'ptr', 'nxt', 'head', 'cur', 'open', 'mu', 'cell1', 'cell2', 'cell3', 'begun', 'faulted')})
            r = ctx.tlc('MCCounterTrace', files={'MCCounterTrace.tla': mc_module(f, base='CounterTrace', name='MCCounterTrace'),
                                                 'c03trace.ndjson': ndjson_text(tl)},
                        cfg_text=mc_cfg(f, spec='TSpec', invariants=['Conform'], view=False, deadlock=True), workers=1,
                        label='CounterTrace[%s]' % f['name'], count=False, timeout=1500)
            if r.ok:
                accepted += len(remaining)
                remaining = []
                break
            if r.error in ('invariant', 'deadlock') and r.trace:
                lval = r.trace[-1][1].get('l', 2)
                line = tl[min(max(lval - 2, 0), len(tl) - 1)]
                bad = line['run']
                diverged.append({'run': bad, 'family': f['name'], 'step': line['i'], 'why': r.error, 'task': line['t']})
                pos = remaining.index(bad)
                accepted += pos
                remaining = remaining[pos + 1:]
            else:
                raise Infra('CounterTrace[%s]: %s\n%s' % (f['name'], r.error, r.out[-2500:]))
    ctx.cov['traces_validated_against_impl'] += accepted
    ctx.cov['divergences'] = len(diverged)
    ctx.cov['divergence_samples'] = diverged[:5]
    for d in diverged[:10]:
        ctx.warn('MODEL-DIVERGENCE %s' % json.dumps(d))
    ctx.cov['model_results'] = model_results
    ctx.cov['rule'] = ('a case is one schedule of one scenario family executed on the real instrumented code; schedules are TLC counter-examples '
                       '(race windows, property witnesses), TLC simulate walks, and harness-chosen random/sequential orders')
    ctx.cov['distinct_nontrivial'] = len({(r['family'], tuple(results[r['id']].get('schedule', []))) for r in runs})
    if runs:
        k = 1
        ctx.sample({'family': runs[0]['family'], 'why': runfam[1][1], 'schedule': results[1].get('schedule', [])[:60], 'status': results[1]['status']})


def _reach(x):
    reach = set()
    cur = x['head']
    guard = 0
    while cur not in ('nil', 'end', 'other') and guard < 10:
        reach.add(cur)
        cur = x['nxt'].get(cur, 'end')
        guard += 1
    return reach


def signature_context(res, obs_k, o, f):
    """narrow context of an invariant failure on the real state: which hazard
    the run went through (used to tell known findings apart).

    F2's window: while some task is inside invalidateCounters a counter has
    next # nil (somebody started registering it) but is not yet reachable from
    the list head -- and it IS published later.  A counter that never becomes
    reachable was dropped from the list, which is a different defect."""
    half = set()
    for x in obs_k:
        if 'invalidateCounters' not in x.get('label', ''):
            continue
        reach = _reach(x)
        for c, nx in x['nxt'].items():
            if nx != 'nil' and c not in reach:
                half.add(c)
    if not half:
        return 'plain'
    last = obs_k[-1]
    if any(c not in _reach(last) for c in half):
        return 'dropped-from-registration-list'
    return 'half-registered-during-invalidate'
