"""Helpers shared by checks/c06.py and checks/c10.py (kept out of vlib)."""
import re

from vlib.core import Infra


def tlc_trace(ctx, module, files, label, cfg=None):
    """Run a trace-validation module (line counter `l`, post-condition
    `Accepted` on the diameter).  Returns ('ok', None, r) when every line was
    explained, ('unexplained', k, None) when line k (1-based) is the first the
    specification cannot explain, ('invariant'|'action', (name, k), r) when the
    observed state reached by line k violates a property of the module.

    vlib.core does not recognise TLC's "Postcondition ... is false" message
    and raises Infra for it; that case is decoded here from the message."""
    try:
        r = ctx.tlc(module, cfg=cfg, files=files, workers=1, label=label, count=False)
    except Infra as e:
        msg = str(e)
        if re.search(r'Postcondition Accepted .* is false', msg):
            m = re.search(r'The depth of the complete state graph search is (\d+)', msg)
            if not m:
                raise
            return 'unexplained', int(m.group(1)), None
        raise
    if r.ok:
        return 'ok', None, r
    if r.error in ('invariant', 'action'):
        st = r.trace[-1][1] if r.trace else {}
        return r.error, (r.error_name, st.get('l', 1) - 1), r
    if r.error == 'postcondition':
        return 'unexplained', r.depth, None
    raise Infra('%s: %s\n%s' % (module, r.error, r.out[-2000:]))
