"""C19 — gotelemetry mode commands and clean touch exactly what they promise
(spec/ModeFile.tla, GotelemetryOps.tla, Gotelemetry.tla, GotelemetryTrace.tla)."""
import json
import random

from vlib import tlaval
from vlib.core import Infra, ndjson_text

TODAY = 20000          # the model's "today"; the harness maps it to the real UTC date
NODATE, BADDATE = -1, -2

# name pools: (loc, name, kind)
DATA = [
    ('local', 'gopls@v0.16.1-go1.22.1-linux-amd64-2024-01-01.v1.count', 'file'),
    ('local', 'a.v1.count', 'file'),
    ('local', 'local.2024-01-08.json', 'file'),
    ('local', '2024-01-08.json', 'file'),
    ('local', 'x.json', 'file'),
    ('upload', '2024-01-01.json', 'file'),
    ('upload', '2023-12-25.json', 'file'),
]
# more data files: a zero-length report and counter file, a hidden name, double suffixes, a name of 250 bytes
DATA_X = [
    ('local', 'empty.json', 'file'),
    ('local', 'empty-2024-01-01.v1.count', 'file'),
    ('local', '.hidden.json', 'file'),
    ('local', 'x.json.json', 'file'),
    ('local', 'x.json.v1.count', 'file'),
    ('local', 'y.v1.count.json', 'file'),
    ('upload', 'empty.json', 'file'),
    ('upload', 'n' * 245 + '.json', 'file'),
    ('local', 'm' * 241 + '.v1.count', 'file'),
]
NEAR = [
    ('local', 'prog-2024-01-01.v2.count', 'file'),
    ('local', 'prog.count', 'file'),
    ('local', 'prog.v1.count.tmp', 'file'),
    ('local', 'prog.v1.countx', 'file'),
    ('local', 'v1.count', 'file'),
    ('local', '2024-01-08.json.lock', 'file'),
    ('local', '2024-01-08.jsonx', 'file'),
    ('local', 'reportjson', 'file'),
    ('local', 'data.JSON', 'file'),
    ('local', 'json', 'file'),
    ('local', 'weekends', 'file'),
    ('local', 'notes.txt', 'file'),
    ('upload', '2024-01-01.json.lock', 'file'),
    ('upload', '2024-01-01.jsonl', 'file'),
    ('upload', 'README', 'file'),
    ('upload', 'gopls-2024-01-01.v1.countx', 'file'),
    ('local', '.json.bak', 'file'),
    ('local', 'x.v1.count.v1', 'file'),
    ('local', 'x.json.', 'file'),
    ('local', 'k' * 250, 'file'),
    ('upload', 'x.Json', 'file'),
]
# non-empty directories whose names look like data files (os.Remove cannot remove them): they and their contents must stay, and the
# data files that sort after them must still go.  By position among the data files of their directory: first, middle, last.
def _blk(loc, name, child):
    return [(loc, name, 'dir'), (loc + '/' + name, child, 'file')]


BLOCK_FIRST = _blk('local', '2020-01-01.json', 'keep.json') + _blk('upload', '2020-01-01.json', 'keep.txt')
BLOCK_MIDDLE = _blk('local', 'b.v1.count', 'inner.v1.count') + _blk('upload', '2023-12-31.json', '2023-12-31.json')
BLOCK_LAST = _blk('local', 'zz.json', 'keep.txt') + _blk('upload', '2025-01-01.json', 'x.json')
BLOCKS = BLOCK_FIRST + BLOCK_MIDDLE + BLOCK_LAST
FOREIGN = [
    ('root', 'upload.token', 'file'),
    ('root', 'stray.json', 'file'),
    ('root', 'stray.v1.count', 'file'),
    ('root', 'weekends', 'file'),
    ('root', 'debug', 'dir'),
    ('debug', 'gotelemetry-devel-go1.22.1-20240101-1.log', 'file'),
    ('debug', 'x.json', 'file'),
    ('local', 'sub', 'dir'),
    ('local/sub', 'inner.json', 'file'),
    ('local/sub', 'inner.v1.count', 'file'),
    ('upload', 'old', 'dir'),
    ('upload/old', '2023-01-01.json', 'file'),
]


def ent_tla(e, c):
    return '[loc |-> %s, name |-> %s, kind |-> "%s", c |-> %d]' % (tlaval.to_tla(e[0]), tlaval.to_tla(e[1]), e[2], c if e[2] == 'file' else 0)


def mf_tla(k, w='', d=NODATE, pad=False):
    if k == 'absent':
        return 'Absent'
    if k == 'unreadable':
        return 'Unreadable'
    return 'Text(%s, %d, %s)' % (tlaval.to_tla(w), d, 'TRUE' if pad else 'FALSE')


def mf_py(m):
    return {'k': m['k'], 'w': m['w'], 'd': m['d'], 'pad': m['pad']}


def tree_py(t):
    out = [{'loc': e['loc'], 'name': e['name'], 'kind': e['kind'], 'c': e['c']} for e in t]
    out.sort(key=lambda e: (e['loc'], e['name']))
    return out


def subsets(xs):
    out = [[]]
    for x in xs:
        out += [s + [x] for s in out]
    return out


def run(ctx):
    ctx.assumptions += [
        'a counter file is a regular file of local/ named *.v1.count, a report a regular file of local/ or upload/ named *.json '
        '(what the uploader itself treats as data); a non-empty directory with a data-file name is not data and stays with its contents; names equal to the bare suffix, EMPTY '
        'directories or symbolic links with data-file names, and *.v1.count files inside upload/ are not generated (the property is silent on them)',
        '`gotelemetry local` on a mode file whose word is not a mode (it already behaves as local) and mode commands on a mode file '
        'that is a directory are not generated',
        'the current date is the real UTC date read just before and after each command (either is accepted if midnight passes)',
        'the user configuration directory is redirected with XDG_CONFIG_HOME/HOME (linux)',
    ]
    ctx.inject('internal/verifh/vmode', 'internal/verifh/c19')
    th = ctx.thorough()
    rng = random.Random(ctx.seed * 7907 + 3)

    # ---- the family of initial directories ------------------------------------------
    LOCAL_IS_FILE, UPLOAD_IS_FILE = ('root', 'local', 'file'), ('root', 'upload', 'file')
    pool = DATA + DATA_X + NEAR + FOREIGN + BLOCKS + [LOCAL_IS_FILE, UPLOAD_IS_FILE]
    cid = {e: (9999 if e[1].startswith('empty') else i + 1) for i, e in enumerate(pool)}
    near_halves = [[], NEAR, NEAR[0::2], NEAR[1::2]] if th else [NEAR[ctx.seed % 2::2], NEAR]
    # foreign entries x blocking directories
    rest_opts = [[], FOREIGN, BLOCK_FIRST, FOREIGN + BLOCK_MIDDLE, BLOCK_LAST, FOREIGN + BLOCKS]
    if not th:
        rest_opts = [[], FOREIGN + BLOCK_MIDDLE, BLOCK_FIRST, BLOCK_LAST, FOREIGN + BLOCKS]
    if th:
        data_opts = [s for s in subsets(DATA) if len(s) in (0, 1, len(DATA) - 1, len(DATA))] + [[e for e in DATA if rng.random() < 0.5] for _ in range(14)]
    else:
        data_opts = [s for s in subsets(DATA) if len(s) in (0, 1, len(DATA))] + [[e for e in DATA if rng.random() < 0.5] for _ in range(3)]
    trees = []
    for d in data_opts:
        for n in near_halves:
            for f in rest_opts:
                trees.append(d + n + f)
    nspecial0 = len(trees)
    # the extra data-file shapes, alone and among everything else
    trees.append(DATA_X)
    trees.append(DATA + DATA_X + NEAR + FOREIGN + BLOCKS)
    trees.append([e for e in DATA_X if rng.random() < 0.5] + NEAR[::3] + BLOCK_MIDDLE)
    # local/ or upload/ is a plain file, not a directory
    trees.append([LOCAL_IS_FILE] + [e for e in DATA + DATA_X + NEAR if e[0] == 'upload'] + [e for e in FOREIGN if e[0] in ('root', 'debug')])
    trees.append([UPLOAD_IS_FILE] + [e for e in DATA + NEAR if e[0] == 'local'])
    trees.append([LOCAL_IS_FILE, UPLOAD_IS_FILE, ('root', 'stray.json', 'file')])
    special = list(range(nspecial0, len(trees)))
    # a few seed-dependent mixed directories
    for _ in range(ctx.pick(12, 60)):
        t = [e for e in DATA + NEAR + FOREIGN if rng.random() < 0.5 and not (e[0] in ('debug', 'local/sub', 'upload/old'))] + [e for e in FOREIGN if e[2] == 'dir']
        for blk in (BLOCK_FIRST, BLOCK_MIDDLE, BLOCK_LAST):
            for i in (0, 2):
                if rng.random() < 0.3:
                    t += blk[i:i + 2]
        trees.append(t)
    tree_tla = ['{' + ', '.join(ent_tla(e, cid[e]) for e in t) + '}' for t in trees]
    modes = ['Absent', 'Unreadable']
    mode_dates = (NODATE, BADDATE, TODAY, TODAY - 1, TODAY - 400) if th else (NODATE, TODAY - 1, (BADDATE, TODAY, TODAY - 400)[ctx.seed % 3])
    modes += [mf_tla('text', w, d) for w in ('on', 'off', 'local') for d in mode_dates]
    modes += [mf_tla('text', 'on', TODAY + 5)] + ([mf_tla('text', 'off', TODAY + 400)] if th else []) + [mf_tla('text', 'ON'), mf_tla('text', ''), mf_tla('text', 'lokal', TODAY - 3), mf_tla('text', 'on', TODAY - 1, True), mf_tla('text', 'off', NODATE, True),
              mf_tla('text', 'local', TODAY - 30, True)]
    def mcmod(tt):
        return '''---- MODULE MCGotelemetry ----
EXTENDS Gotelemetry
MCTrees == {%s}
MCModeFiles == {%s}
====
''' % (',\n  '.join(tt), ', '.join(modes))
    mc = mcmod(tree_tla)
    # the (directory, command) pairs that are replayed: every fifth (quick) / fourth (thorough) directory of the family, chosen by the seed, plus the special ones
    step = ctx.pick(5, 4)
    off = ctx.seed % step
    mc_pairs = mcmod(tree_tla[off::step] + [tree_tla[i] for i in special if (i - off) % step])

    def cfg(maxcmds, props=True, bad=()):
        t = 'SPECIFICATION Spec\nCHECK_DEADLOCK FALSE\n'
        if props:
            t += ('INVARIANTS TypeOK CleanedStaysClean\nPROPERTIES CleanRemovesData CleanNothingElse CleanKeepsNonEmptyDirs ModeOnlyMode NoOpWhenSame Records '
                  'NoCommandCreatesData AfterModeCmdItReads CleanIdempotent EnvShowsTheFile RefusedChangesNothing\n')
        t += 'CONSTANTS\n Trees <- MCTrees\n ModeFiles <- MCModeFiles\n Today = %d\n MaxCmds = %d\n BadCmds = {%s}\n' % (TODAY, maxcmds, ', '.join('"%s"' % b for b in bad))
        return t

    # ---- 1. exhaustive check of the model ------------------------------------------------
    r = ctx.tlc('MCGotelemetry', files={'MCGotelemetry.tla': mc}, cfg_text=cfg(ctx.pick(3, 4), bad=('clean all',) if not th else ('clean all', 'on now')), label='Gotelemetry-bfs', timeout=2400)
    if not r.ok:
        raise Infra('Gotelemetry.tla violates its own %s %s\n%s' % (r.error, r.error_name, r.out[-3000:]))

    # ---- 2. every (initial directory, command) pair: dumped and replayed -----------------
    r = ctx.tlc('MCGotelemetry', files={'MCGotelemetry.tla': mc_pairs}, cfg_text=cfg(1, props=False), dump=True, label='Gotelemetry-pairs', count=False)
    if not r.ok:
        raise Infra('Gotelemetry pairs: %s\n%s' % (r.error, r.out[-2000:]))
    scenarios = []
    expected = {}
    pairs = []
    for st in tlaval.read_dump(r.dump):
        if st['last'] == 'init':
            continue
        pairs.append(st)
    for st in pairs:
        sid = len(scenarios)
        scenarios.append({'id': sid, 'src': 'pairs', 'today': TODAY, 'variant': sid,
                          'init': {'tree': tree_py(st['init']['tree']), 'modeFile': mf_py(st['init']['modeFile'])}, 'cmds': [st['last']]})
        expected[(sid, 0)] = {'tree': tree_py(st['tree']), 'modeFile': mf_py(st['modeFile'])}
    npairs = len(scenarios)

    # ---- 3. command sequences: -simulate behaviours ---------------------------------------
    r = ctx.tlc('MCGotelemetry', files={'MCGotelemetry.tla': mc}, cfg_text=cfg(6, props=False, bad=('clean all', 'on now', 'local x', 'off x', 'env x', 'purge')), simulate={'num': ctx.pick(160, 2000), 'file': True},
                depth=8, label='Gotelemetry-sim', count=False)
    if r.error:
        raise Infra('Gotelemetry simulate: %s\n%s' % (r.error, r.out[-2000:]))
    nbeh = 0
    for fn in ctx.sim_files(r):
        sts = tlaval.read_simulate(fn)
        if len(sts) < 2:
            continue
        sid = len(scenarios)
        s0 = sts[0][2]
        sc = {'id': sid, 'src': 'sim', 'today': TODAY, 'variant': sid, 'init': {'tree': tree_py(s0['tree']), 'modeFile': mf_py(s0['modeFile'])}, 'cmds': []}
        for i, (_a, _args, st) in enumerate(sts[1:]):
            sc['cmds'].append(st['last'])
            expected[(sid, i)] = {'tree': tree_py(st['tree']), 'modeFile': mf_py(st['modeFile'])}
        scenarios.append(sc)
        nbeh += 1
    if nbeh == 0:
        raise Infra('no behaviours from TLC simulate')
    # the environment of the command: XDG_CONFIG_HOME set or only HOME; TZ unset or far east / west of UTC
    for sc in scenarios:
        sc['noxdg'] = sc['id'] % 5 == 2
        sc['tz'] = ('', '', '', 'Pacific/Kiritimati', '', 'Etc/GMT+12', '')[sc['id'] % 7]
        sc['path'] = (sc['id'] // 2) % 11 if sc['id'] % 2 else 0      # characters in the path of the telemetry directory (harness: pathNames)
    ctx.log('pairs %d, behaviours %d' % (npairs, nbeh))
    ctx.sample({'kind': 'pair', 'cmd': scenarios[0]['cmds'], 'modeFile': scenarios[0]['init']['modeFile'], 'names': [e['loc'] + '/' + e['name'] for e in scenarios[0]['init']['tree']][:12]})
    ctx.sample({'kind': 'behaviour', 'cmds': scenarios[npairs]['cmds'], 'modeFile': scenarios[npairs]['init']['modeFile']})

    # ---- 4. the real binary ------------------------------------------------------------------
    recs, rc, out = ctx.run_harness('./internal/verifh/c19', 'TestVerifC19', inp={'scenarios': scenarios, 'random': ctx.pick(700, 8000), 'today': TODAY}, timeout=2400)
    if not [x for x in recs if x.get('kind') == 'summary']:
        raise Infra('C19 harness wrote no summary:\n' + out[-3000:])
    for x in recs:
        if x.get('kind') == 'infra':
            raise Infra('C19 harness: %s' % x)
    obs = [x for x in recs if x.get('kind') == 'obs']
    ctx.cov['evaluations'] += len(obs)
    ctx.log('commands run on the real binary: %d' % len(obs))

    # ---- 5. TLC judges every command ---------------------------------------------------------
    keep = ('cmd', 's', 't', 'modeSame', 'env', 'lib', 'today0', 'today1', 'rc', 'tz')
    verdicts = {}
    chunk = 30000
    for i in range(0, len(obs), chunk):
        part = obs[i:i + chunk]
        r = ctx.tlc('GotelemetryTrace', files={'c19obs.ndjson': ndjson_text([{k: o[k] for k in keep} for o in part])}, workers=1,
                    label='GotelemetryTrace[%d]' % (i // chunk), timeout=3000)
        if not r.ok:
            raise Infra('GotelemetryTrace: %s\n%s' % (r.error, r.out[-3000:]))
        for ln in r.out.split('\n'):
            if ln.startswith('<<"C19BAD"'):
                v = tlaval.parse(ln.strip())
                verdicts[i + v[1] - 1] = (sorted(v[2]), v[3])

    def klass(o):
        """the narrow class of a failing clean: which name classes were wrongly kept / removed"""
        s = {(e['loc'], e['name']) for e in o['s']['tree']}
        t = {(e['loc'], e['name']) for e in o['t']['tree']}
        def suf(n):
            for x in ('.v1.count', '.json'):
                if n.endswith(x):
                    return '*' + x
            i = n.rfind('.')
            return '*' + n[i:] if i > 0 else 'plain'
        gone = sorted({'%s/%s' % (l.split('/')[0] if '/' not in l else 'sub', suf(n)) for (l, n) in s - t})
        return ','.join(gone[:3]) or '-'

    bad = set()
    ndiv = 0
    for idx, o in enumerate(obs):
        clauses, diverges = verdicts.get(idx, ([], False))
        mfs = o['s']['modeFile']
        exp = expected.get((o['id'], o['step']))
        if exp is not None and not diverges and not clauses and o['id'] not in bad:
            got_files = sorted((e['loc'], e['name'], e['c']) for e in o['t']['tree'] if e['kind'] == 'file')
            exp_files = sorted((e['loc'], e['name'], e['c']) for e in exp['tree'] if e['kind'] == 'file')
            exp_mf = dict(exp['modeFile'])
            got_mf = dict(o['t']['modeFile'])
            if exp_mf.get('d') == TODAY + 1 or got_mf.get('d') == TODAY + 1:      # midnight passed during the run
                exp_mf['d'] = got_mf['d'] = TODAY
            if got_files != exp_files or got_mf != exp_mf:
                raise Infra('C19 replay inconsistency in scenario %s step %s: observed %s %s, behaviour has %s %s' % (
                    o['id'], o['step'], got_files, got_mf, exp_files, exp_mf))
        for c in clauses:
            bad.add(o['id'])
            sig = 'C19:%s:%s' % (c, o['cmd'])
            if c.startswith('Clean'):
                sig += ':' + klass(o)
            else:
                sig += ':' + (mfs['w'] if mfs['k'] == 'text' else mfs['k'])
            ctx.violation(sig, {'observation': o, 'model_expected': expected.get((o['id'], o['step']))},
                          '%s is false for `gotelemetry %s` on the real binary: mode file before %s after %s (byte-identical: %s), env reports %s, library reads %s, '
                          'removed=%s added=%s stderr=%s' % (
                              c, o['cmd'], json.dumps(o['s']['modeFile']), json.dumps(o['t']['modeFile']), o['modeSame'], json.dumps(o['env']), json.dumps(o['lib']),
                              sorted({(e['loc'], e['name']) for e in o['s']['tree']} - {(e['loc'], e['name']) for e in o['t']['tree']})[:8],
                              sorted({(e['loc'], e['name']) for e in o['t']['tree']} - {(e['loc'], e['name']) for e in o['s']['tree']})[:8], o.get('stderr', '')))
        if (diverges or o.get('env_changed') or not o.get('env_dir_ok', True)) and not clauses:
            bad.add(o['id'])
            ndiv += 1
            if ndiv <= 10:
                ctx.warn('MODEL-DIVERGENCE C19 scenario %s step %s `gotelemetry %s` rc=%s: observed effect is not the specification\'s (no clause of the property is false): '
                         'mode before %s after %s env=%s lib=%s env_changed=%s stderr=%s' % (
                             o['id'], o['step'], o['cmd'], o['rc'], json.dumps(o['s']['modeFile']), json.dumps(o['t']['modeFile']), json.dumps(o['env']), json.dumps(o['lib']),
                             o.get('env_changed'), o.get('stderr', '')))
    for x in recs:
        if x.get('kind') == 'outside':
            ctx.warn('MODEL-DIVERGENCE C19 scenario %s: something outside the telemetry directory changed: %s' % (x.get('id'), x.get('path')))
            ndiv += 1
    ctx.cov['divergences'] += ndiv
    ids = set(o['id'] for o in obs)
    ctx.cov['traces_validated_against_impl'] += len(ids - bad)
    ctx.cov['pairs_replayed'] = npairs
    ctx.cov['behaviours_replayed'] = nbeh
    ctx.cov['random_directories_validated'] = len([i for i in ids if i >= 1000000])
    ctx.cov['initial_directories'] = len(trees)
    ctx.cov['distinct_nontrivial'] = len(ids)
    ctx.cov['rule'] = ('every command run on the real gotelemetry binary ((directory, command) pairs and -simulate behaviours of Gotelemetry.tla, plus random '
                       'directories with near-miss names) is judged by TLC with the clauses of GotelemetryOps.tla on the before/after snapshot, the env output and '
                       'the library read; a trace counts as validated when every command satisfied all clauses and had exactly the specified effect')
    for o in obs:
        if o['src'] == 'random' and o['cmd'] == 'clean' and len(o['s']['tree']) > len(o['t']['tree']):
            ctx.sample({'kind': 'observation', 'cmd': 'clean', 'before': [e['loc'] + '/' + e['name'] for e in o['s']['tree']], 'after': [e['loc'] + '/' + e['name'] for e in o['t']['tree']]})
            break
