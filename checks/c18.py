"""C18 — storage buckets confine, round-trip and list objects correctly
(Storage*.tla against godev/internal/storage.FSBucket and the object names the
upload / merge / chart services construct)."""
import json

from vlib import tlaval
from vlib.core import Infra, ndjson_text

from . import _godev_util as gu

PKG = './internal/verifh/c18'

# char-level homomorphisms used to concretize model names ('/' stays '/'); the
# images form a prefix code, so string-prefix relations are preserved both ways
VARIANTS = [
    {'a': 'a', 'b': 'b', 'c': 'c'},
    {'a': '2023-01-0', 'b': '1.json', 'c': 'q'},
    {'a': 'x-', 'b': 'x_', 'c': 'q'},
    {'a': '1e+30', 'b': '8.json', 'c': 'q'},
    {'a': 'A b', 'b': 'a.b', 'c': 'q'},
    {'a': 'Ab', 'b': 'ab', 'c': 'q'},
    {'a': 'é', 'b': '日本', 'c': 'q'},                         # multi-byte characters
    {'a': ' x~$%#?*', 'b': "[:]=,;@!&()'\"\\", 'c': 'q'},       # punctuation, blanks, quotes, a backslash
    {'a': '.a', 'b': '..b', 'c': 'q'},                        # leading dots (never "." or ".." alone)
]
BUCKETS = [
    {'u': 'u', 'u2': 'u2'},
    {'u': 'local-telemetry-uploaded', 'u2': 'local-telemetry-merged'},
    {'u': 'b', 'u2': 'a'},
]
DATAS = {'d0': '0:1', 'd1': '5:2', 'd2': '100000:3', 'd3': '5:4', 'd4': '32768:5', 'd5': '32769:6', 'd6': '1:7'}


def conc_str(chars, v):
    return ''.join(v.get(c, c) for c in chars)


def conc_name(name, v):
    return '/'.join(conc_str(c, v) for c in name)


def comps_of(text):
    """slash-separated text -> sequence of components, each a sequence of one-character strings
    (control characters are written ^hh so that the trace file stays printable)"""
    return [[c if ' ' <= c else '^%02x' % ord(c) for c in comp] for comp in text.split('/')]


def note_divergences(ctx, recs, what):
    """directories inside a bucket's own directory that the model does not expect (or expects and does not find): the property is about
    objects, not about directories, so this is a MODEL-DIVERGENCE, never a violation"""
    divs = [x for x in recs if x.get('kind') == 'divergence']
    if divs:
        ctx.cov['divergences'] += len(divs)
        d = divs[0]
        ctx.warn('MODEL-DIVERGENCE: %d steps leave directories inside a bucket that Storage.tla does not predict, e.g. %s %s step %s (%s %s): %s' % (
            len(divs), what, d.get('id'), d.get('step'), d.get('op'), d.get('name'), d.get('dirs')))


def plain_objs(objs):
    """model state -> JSON-friendly {bucket: {name: data}}"""
    out = {}
    for b, m in (objs or {}).items() if isinstance(objs, dict) else []:
        out[b] = {'/'.join(''.join(c) for c in n): d for n, d in m.items()} if isinstance(m, dict) else {}
    return out


def behaviours_from_wsim(ctx, files):
    """walks of StorageW.tla (writer lifetimes) -> harness behaviours"""
    behs = []
    for i, fn in enumerate(files):
        v = VARIANTS[(i + ctx.seed) % len(VARIANTS)]
        bm = BUCKETS[(i // len(VARIANTS) + ctx.seed) % len(BUCKETS)]
        steps = []
        for (_a, _args, st) in tlaval.read_simulate(fn):
            wl, last = st['wlast'], st['last']
            objs = {}
            for b, m in st['objs'].items():
                objs[bm[b]] = {conc_name(n, v): d for n, d in m.items()} if isinstance(m, dict) else {}
            opened = sorted(bm[w['b']] + '/' + conc_name(w['name'], v) for w in st['ws'].values() if w['st'] == 'open')
            s = {'op': wl['op'], 'objs': objs, 'via': st['via'], 'open': opened, 'w': wl['w']}
            if wl['op'] == 'wopen':
                s.update(b=bm[wl['b']], name=conc_name(wl['name'], v), data=wl['data'])
            elif wl['op'] in ('wwrite', 'wclose', 'wcloseagain'):
                s.update(b=bm[wl['b']], name=conc_name(wl['name'], v), data=wl['data'])
            elif wl['op'] == 'step':
                s['op'] = last['op']
                if last['op'] == 'read':
                    s.update(b=bm[last['b']], name=conc_name(last['name'], v), exists=st['res']['ok'], want=st['res'].get('data', ''))
                elif last['op'] == 'list':
                    s.update(b=bm[last['b']], prefix=conc_str(last['prefix'], v), list=[conc_name(n, v) for n in st['res']['names']])
            steps.append(s)
        if steps:
            behs.append({'id': i, 'buckets': sorted(bm.values()), 'steps': steps})
    return behs


def behaviours_from_sim(ctx, files):
    behs = []
    for i, fn in enumerate(files):
        v = VARIANTS[(i + ctx.seed) % len(VARIANTS)]
        bm = BUCKETS[(i // len(VARIANTS) + ctx.seed) % len(BUCKETS)]
        steps = []
        for (_a, _args, st) in tlaval.read_simulate(fn):
            last = st['last']
            objs = {}
            for b, m in st['objs'].items():
                objs[bm[b]] = {conc_name(n, v): d for n, d in m.items()} if isinstance(m, dict) else {}
            s = {'op': last['op'], 'objs': objs, 'via': st['via']}
            if last['op'] in ('write', 'read'):
                s['b'] = bm[last['b']]
                s['name'] = conc_name(last['name'], v)
            if last['op'] == 'write':
                s['data'] = last['data']
                s['style'] = last['style']
            if last['op'] == 'read':
                r = st['res']
                s['exists'] = r['ok']
                s['want'] = r.get('data', '')
            if last['op'] == 'copy':
                s['b'] = bm[last['b']]
                s['name'] = conc_name(last['name'], v)
                s['sb'] = bm[last['src']['b']]
                s['sname'] = conc_name(last['src']['name'], v)
                s['exists'] = st['res']['ok']
            if last['op'] == 'list':
                s['b'] = bm[last['b']]
                s['prefix'] = conc_str(last['prefix'], v)
                s['list'] = [conc_name(n, v) for n in st['res']['names']]
            steps.append(s)
        if steps:
            behs.append({'id': i, 'buckets': sorted(bm.values()), 'steps': steps})
    return behs


def run(ctx):
    ctx.assumptions += [
        'file-system backend only (FSBucket); the GCS backend is not exercised',
        'object names are non-empty sequences of ordinary components: any characters but "/" and NUL (letters, digits, punctuation, blanks, '
        'multi-byte UTF-8), never "." or ".." alone, never empty, each component at most 255 bytes; listing prefixes are cut at character boundaries; one operation at a time (no concurrent writers)',
        'name sets in which one name is a proper path prefix of another (a and a/b) are outside the property for a file-system backend: '
        'the generators never write or read a name that conflicts with a stored one (observation, not reported: reading "a" while "a/b" is '
        'stored yields an is-a-directory read error instead of not-exist)',
        'Copy(dst, src) is exercised between objects of the same bucket and of two FS buckets below one root, with stored and absent sources and '
        'existing destinations; copying an object onto itself is not generated; for an absent source only "an error and no effect" is required',
        'writer lifetimes: up to three writers are open at the same time on DIFFERENT objects, each closed once and possibly again; nothing is '
        'claimed about an object while a writer is open on it, nor about two writers open on one object; operations are still issued one at a '
        'time (interleaved, not parallel)',
        'listing order is not part of the property: results are compared as sets, duplicates are reported',
        'an object is written in one of five ways: Write calls in three chunkings (two halves; a short head, a long body and a one-byte tail; many 7-byte writes and the rest), NewWriter+Close with no Write call '
        '(empty data only), storage.Copy from a source object in another FS bucket; the result must be the same',
        'constructed names: the handlers of telemetrygodev (/, /charts/, /data/, /upload/) are served over recording BucketHandles on the routes of '
        'newHandler rebuilt by the harness; a name is judged only if newHandler answers the same request with the same status; worker handlers '
        '(merge, chart, copy) take the recording buckets directly; resolution is lexical (no symbolic links in the storage root); listing prefixes '
        'are logged but not judged (a prefix filters names, it is never resolved as a path); on this platform a backslash is an ordinary character',
        'the observer of every file-system comparison sees directories as well as files (below the storage root and up to three levels above it): a '
        'directory created OUTSIDE root/<bucket>/ is a confinement violation; which directories exist INSIDE a bucket directory is not part of '
        'the property (objects are): a surplus or missing one there is reported as a MODEL-DIVERGENCE warning and counted in divergences',
        'service names: the upload name is observed through the real upload handler chain, merge and chart names through the real worker '
        'handlers; only the location of what they create is decided here (C12 / C13 decide the rest)',
    ]
    gu.inject_files(ctx, 'godev/internal/verifh/c18', ['c18_test.go'])

    # ---- 1. the specification itself: exhaustive runs ------------------------
    cfgs = ['StorageBfs.cfg', 'StorageBfsCopy.cfg'] + (['StorageBfsSmall.cfg', 'StorageBfsCopy4.cfg', 'StorageBfs1.cfg', 'StorageBfsThorough.cfg'] if ctx.thorough() else [])
    for cfg in cfgs:
        r = ctx.tlc('StorageMC', cfg=cfg, label=cfg[:-4], timeout=3000)
        if not r.ok:
            raise Infra('Storage.tla violates its own property (%s %s) under %s:\n%s' % (r.error, r.error_name, cfg, r.out[-3000:]))

    # ---- 2. model -> code: simulate walks replayed into FSBuckets ------------
    nwalk = ctx.pick(120, 1500)
    depth = ctx.pick(40, 60)
    r = ctx.tlc('StorageMC', cfg='StorageSim.cfg', simulate={'num': nwalk, 'file': True}, depth=depth, label='StorageSim', count=False)
    if r.error:
        raise Infra('Storage simulate: %s\n%s' % (r.error, r.out[-2000:]))
    behs = behaviours_from_sim(ctx, ctx.sim_files(r))
    if not behs:
        raise Infra('no behaviours from TLC simulate')
    ctx.sample({'kind': 'behaviour', 'buckets': behs[0]['buckets'],
                'ops': [[s['op'], s.get('b', ''), s.get('name', s.get('prefix', '')), s.get('data', ''), s.get('style', '')] for s in behs[0]['steps'][:10]]})
    recs, rc, out = ctx.run_harness(PKG, 'TestVerifC18Replay', inp={'datas': DATAS, 'behaviours': behs}, module_dir='godev', timeout=1500)
    summ = gu.summary_of(recs, out, 'C18 replay')
    ctx.cov['behaviours_replayed'] = summ['behaviours']
    ctx.cov['behaviour_steps'] = summ['steps']
    ctx.cov['evaluations'] += summ['steps']
    ctx.cov['traces_validated_against_impl'] += summ['matched']
    note_divergences(ctx, recs, 'behaviour')
    for m in [x for x in recs if x.get('kind') == 'mismatch']:
        ctx.violation('C18:fsbucket:%s%s' % (m.get('what'), ':' + m['style'] if m.get('op') == 'write' and m.get('style') else ''), m,
                      'behaviour %s step %s (%s %s %s): real FSBucket differs from Storage.tla: %s' % (
                          m.get('id'), m.get('step'), m.get('op'), m.get('b'), m.get('name') or m.get('prefix'), json.dumps(m)[:700]))

    # ---- 2b. writer lifetimes: two or three writers open at the same time ------
    r = ctx.tlc('StorageWMC', cfg='StorageWBfs.cfg', label='StorageWBfs', timeout=3000)
    if not r.ok:
        raise Infra('StorageW.tla violates its own property (%s %s):\n%s' % (r.error, r.error_name, r.out[-3000:]))
    r = ctx.tlc('StorageWMC', cfg='StorageWSim.cfg', simulate={'num': ctx.pick(80, 800), 'file': True}, depth=ctx.pick(60, 80), label='StorageWSim', count=False)
    if r.error:
        raise Infra('StorageW simulate: %s\n%s' % (r.error, r.out[-2000:]))
    wbehs = behaviours_from_wsim(ctx, ctx.sim_files(r))
    nover = sum(1 for b in wbehs for s in b['steps'] if len(s['open']) >= 2)
    nagain = sum(1 for b in wbehs for s in b['steps'] if s['op'] == 'wcloseagain')
    if nover < 20 or nagain < 20:
        raise Infra('writer walks are degenerate: %d steps with two open writers, %d repeated closes' % (nover, nagain))
    ctx.sample({'kind': 'writer-lifetimes', 'ops': [[s['op'], s.get('w', ''), s.get('name', s.get('prefix', '')), s.get('data', '')] for s in wbehs[0]['steps'][:14]]})
    recs, rc, out = ctx.run_harness(PKG, 'TestVerifC18Replay', inp={'datas': DATAS, 'behaviours': wbehs}, module_dir='godev', timeout=1500)
    summ = gu.summary_of(recs, out, 'C18 writers')
    ctx.cov['writer_behaviours_replayed'] = summ['behaviours']
    ctx.cov['writer_steps'] = summ['steps']
    ctx.cov['writer_steps_with_two_open'] = nover
    ctx.cov['evaluations'] += summ['steps']
    ctx.cov['traces_validated_against_impl'] += summ['matched']
    note_divergences(ctx, recs, 'writer-lifetime behaviour')
    for m in [x for x in recs if x.get('kind') == 'mismatch']:
        ctx.violation('C18:fsbucket:writers:%s' % m.get('what'), m,
                      'writer-lifetime behaviour %s step %s (%s %s %s): real FSBucket differs from StorageW.tla: %s' % (
                          m.get('id'), m.get('step'), m.get('op'), m.get('b'), m.get('name') or m.get('prefix'), json.dumps(m)[:700]))

    # ---- 3. code -> model: random histories validated by TLC -----------------
    nh = ctx.pick(60, 600)
    nops = ctx.pick(60, 100)
    recs, rc, out = ctx.run_harness(PKG, 'TestVerifC18Random', inp={'histories': nh, 'ops': nops}, module_dir='godev', timeout=1500)
    summ = gu.summary_of(recs, out, 'C18 random')
    obs = [x for x in recs if x.get('kind') == 'obs']
    if any(o['op'] == 'error' for o in obs):
        raise Infra('C18 random: could not create a bucket: %s' % [o for o in obs if o['op'] == 'error'][:1])
    # split into chunks at history boundaries
    chunks, cur = [], []
    for o in obs:
        if o['op'] == 'reset' and len(cur) > 4000:
            chunks.append(cur)
            cur = []
        cur.append(o)
    if cur:
        chunks.append(cur)
    nacc = 0
    for ci, part in enumerate(chunks):
        slim = [{k: v for k, v in o.items() if k not in ('kind', 'text', 'err')} for o in part]
        r = ctx.tlc('StorageTrace', files={'c18obs.ndjson': ndjson_text(slim)}, workers=1, label='StorageTrace[%d]' % ci, count=False, timeout=1500)
        if r.error == 'invariant' and r.error_name == 'Explained':
            st = r.trace[-1][1] if r.trace else {}
            idx = st.get('l', 0)
            bad = part[idx - 1] if 0 < idx <= len(part) else None
            what = bad.get('op') if bad else '?'
            if bad and not bad.get('ok', True):
                what += '-error'
            if bad and bad.get('op') == 'write':
                what += ':' + str(bad.get('style'))
            if bad is not None:
                bad = {k: (v if k not in ('disk', 'names') else v[:12]) for k, v in bad.items()}
            ctx.violation('C18:fsbucket:observed:%s' % what, {'obs': bad, 'expected_state': plain_objs(st.get('objs'))},
                          'observed FSBucket result is not a behaviour of Storage.tla (record %d): %s' % (idx, json.dumps(bad)[:700]))
        elif not r.ok:
            raise Infra('StorageTrace: %s %s\n%s' % (r.error, r.error_name, r.out[-2500:]))
        else:
            nacc += sum(1 for o in part if o['op'] == 'reset')
    ctx.cov['traces_validated_against_impl'] += nacc
    ctx.cov['histories_recorded'] = summ['histories']
    ctx.cov['observations_validated'] = summ['ops']
    ctx.cov['evaluations'] += summ['ops']
    first = [o for o in obs if o['op'] != 'reset'][:3]
    ctx.sample({'kind': 'observed-history-prefix', 'ops': [{k: o.get(k) for k in ('op', 'b', 'text', 'data', 'style', 'exists', 'ok') if k in o} for o in first]})

    # ---- 4. names built by the services resolve inside their bucket ----------
    service_names(ctx)

    ctx.cov['rule'] = ('behaviours = TLC -simulate walks of Storage.tla (write / read / list / copy; 2 buckets, all 39 names of depth <= 3 over {a,b,ab}, 4 data values, every '
                       'string prefix) concretized by 9 name alphabets (ASCII, service-shaped, mixed case, multi-byte, punctuation, leading dots), every step and the file tree compared; observations = random histories on '
                       'random ordinary names recorded from FSBucket and validated by TLC (StorageTrace); distinct = behaviours + histories + '
                       'service requests')
    ctx.cov['distinct_nontrivial'] = len(behs) + summ['histories'] + ctx.cov.get('service_requests', 0)


# request targets for the pages of telemetrygodev; {charted} {merged} {uploaded} are replaced by the bucket names
PAGE_TARGETS = [
    '/', '/charts/', '/data/', '/charts/2024-03-11', '/charts/2024-03-12', '/charts/2024-03-11_2024-03-17', '/charts/x',
    '/charts/..%2F{merged}%2F2024-03-11', '/charts/%2e%2e%2f{merged}%2f2024-03-11', '/charts/%2e%2e/{merged}/2024-03-11',
    '/charts/..%2Fsentinel', '/charts/..%2F..%2Foutside', '/charts/%2E%2E%2F%2E%2E%2F%2E%2E%2F%2E%2E%2Fetc%2Fpasswd',
    '/charts/a%2F..%2F..%2F{merged}%2F2024-03-11', '/charts/a%2F%2F..%2F..%2F{merged}%2F2024-03-11', '/charts/2024-03-11%2F..%2F..%2Fsentinel',
    '/charts/..%2F{charted}%2F2024-03-11',                       # leaves and re-enters its own directory: resolves inside
    '/charts/.%2F2024-03-11', '/charts/a%2F..%2F2024-03-11',       # inside
    '/charts/..%5C{merged}%5C2024-03-11', '/charts/..%5C..%5Coutside', '/charts/%2Fetc%2Fpasswd', '/charts/%2F%2F{merged}%2F2024-03-11',
    '/charts/2024-03-11%00', '/charts/..%2F{merged}%2F2024-03-11%00', '/charts/%00..%2Fx', '/charts/..', '/charts/.', '/charts/%2e%2e',
    '/charts/..%2F', '/charts/%2F', '/charts/2024-03-11%3Fx', '/charts/..%252F{merged}%252F2024-03-11', '/charts/%c0%ae%c0%ae%2fx',
    '/charts/../{merged}/2024-03-11', '/charts//2024-03-11', '/charts/./2024-03-11',
    '/data/..%2Fx', '/data/2024-03-11', '/data/%2e%2e%2f{uploaded}', '/data/..%5Cx',
    '/..%2Froot', '/charts', '/%2e%2e/charts/..%2Fsentinel',
]

HOSTILE_DATES = ['../x', '../../x', '2023-01-01/../../x', '/tmp/c18-x', '2023-01-01/../x', '', '.', '..', '2023-1-1', '2023-01-01x',
                 '2023/01/01', '..%2fx', '2023-02-30', '2023-13-01', ' 2023-01-01', '2023-01-01\x00', '2023-01-01/', 'x/../../../y']
VALID_DATES = ['2023-01-01', '2024-02-29', '1999-12-31', '2023-01-07']


def service_names(ctx):
    gu.inject_files(ctx, 'godev/cmd/worker', ['c18_verif_test.go'])
    gu.inject_files(ctx, 'godev/cmd/telemetrygodev', ['c12_verif_test.go'])
    # worker: merge and chart
    reqs = []
    for d in VALID_DATES + HOSTILE_DATES:
        reqs.append({'svc': 'merge', 'query': {'date': d}})
        reqs.append({'svc': 'chart', 'query': {'date': d}})
    for s in VALID_DATES[:2] + HOSTILE_DATES[:6]:
        for e in VALID_DATES[:1] + ['2023-01-03'] + HOSTILE_DATES[:4]:
            reqs.append({'svc': 'chart', 'query': {'start': s, 'end': e}})
    reqs.append({'svc': 'merge', 'query': {'date': '2023-01-02'}})
    reqs.append({'svc': 'merge', 'query': {'date': '2023-01-03'}})
    reqs.append({'svc': 'chart', 'query': {'start': '2023-01-01', 'end': '2023-01-03'}})
    reqs.append({'svc': 'chart', 'query': {'date': '2023-01-01', 'start': '2023-01-01', 'end': '../x'}})
    reqs.append({'svc': 'chart', 'query': {'start': '2023-01-03', 'end': '2023-01-01'}})
    reqs.append({'svc': 'merge', 'query': {}})
    for q in ({'date': '2023-01-05'}, {'start': '2023-01-04', 'end': '2023-01-06'}, {'date': '../x'}, {'start': '2023-01-05', 'end': '../../x'},
              {'start': '2023-01-05/../..', 'end': '2023-01-06'}):
        reqs.append({'svc': 'copy', 'query': q})
    recs, rc, out = ctx.run_harness('./cmd/worker', 'TestVerifC18Worker', inp={'requests': reqs}, module_dir='godev', timeout=900)
    wrecs = recs
    summ = gu.summary_of(recs, out, 'C18 worker')
    created = 0
    for m in recs:
        if m.get('kind') == 'escape':
            ctx.violation('C18:service-name:%s:outside-bucket' % m.get('svc'), m,
                          '%s service, query %s: created or changed %s outside its bucket directory' % (m.get('svc'), m.get('query'), m.get('paths')))
        elif m.get('kind') == 'panic':
            ctx.violation('C18:service-name:%s:panic' % m.get('svc'), m, '%s service, query %s: panic %s' % (m.get('svc'), m.get('query'), m.get('err')))
        elif m.get('kind') == 'req':
            created += len(m.get('created') or [])
    if created == 0:
        raise Infra('C18 worker harness: no object was created by any valid request (vacuous)')
    ctx.cov['service_requests'] = summ['requests']
    ctx.cov['service_objects_created'] = created
    ok = [m for m in recs if m.get('kind') == 'req' and m.get('created')]
    if ok:
        ctx.sample({'kind': 'service-request', 'svc': ok[0]['svc'], 'query': ok[0]['query'], 'created': ok[0]['created']})

    # upload: the real handler chain of telemetrygodev (harness shared with C12)
    from . import c12
    steps = c12.service_name_steps()
    recs, rc, out = ctx.run_harness('./cmd/telemetrygodev', 'TestVerifC12', inp={'config': c12.config_json(), 'behaviours': [{'id': 0, 'steps': steps}]},
                                    module_dir='godev', timeout=900, env=gu.fast_tmp_env(ctx))
    summ = gu.summary_of(recs, out, 'C18 upload')
    prefix = summ['upload_prefix']
    nup = 0
    for m in recs:
        if m.get('kind') != 'step':
            continue
        esc = [p for p in (m.get('created', []) + m.get('changed', []) + m.get('removed', []) + m.get('dirs_created', []) + m.get('dirs_removed', [])) if not p.startswith(prefix)]
        if esc:
            ctx.violation('C18:service-name:upload:outside-bucket', m, 'upload service created or changed %s outside its bucket directory' % esc)
        nup += len(m.get('created', []))
    if nup == 0:
        raise Infra('C18 upload harness: no object stored (vacuous)')
    ctx.cov['service_requests'] += len(steps)
    ctx.cov['service_objects_created'] += nup

    # ---- names the handlers construct from request input (read and write side) ----
    gu.inject_files(ctx, 'godev/cmd/telemetrygodev', ['c18_names_verif_test.go'])
    import base64
    reqs = [{'method': 'GET', 'target': t} for t in PAGE_TARGETS]
    reqs += [{'method': 'HEAD', 'target': '/charts/..%2F{merged}%2F2024-03-11'}, {'method': 'POST', 'target': '/charts/..%2Fsentinel'}]
    for st in steps[::5]:
        reqs.append({'method': 'POST', 'target': '/upload/', 'body64': st['body64']})
    precs, rc, out = ctx.run_harness('./cmd/telemetrygodev', 'TestVerifC18Names',
                                     inp={'config64': base64.b64encode(json.dumps(c12.config_json()).encode()).decode(), 'requests': reqs},
                                     module_dir='godev', timeout=900)
    psumm = gu.summary_of(precs, out, 'C18 names')
    preq = {m['i']: m for m in precs if m.get('kind') == 'req'}
    names = [m for m in wrecs if m.get('kind') == 'name'] + [m for m in precs if m.get('kind') == 'name']
    objs = [m for m in names if m.get('call') == 'Object']
    if not objs or not any(m['svc'] == 'telemetrygodev' and m['bucket'] == 'chart' for m in objs):
        raise Infra('C18 names: the recording buckets saw no constructed name (vacuous)')
    for m in precs:
        if m.get('kind') == 'req' and (m.get('panic') or m.get('real_panic')):
            ctx.violation('C18:confine:page-panic', m, 'telemetrygodev %s %s: panic %s' % (m['method'], m['target'], m.get('panic') or m.get('real_panic')))
    trace = [{'base': comps_of(m['base'].lstrip('/')), 'name': comps_of(m['name'])} for m in objs]
    r = ctx.tlc('StorageNames', files={'c18names.ndjson': ndjson_text(trace)}, workers=1, label='StorageNames', count=False, timeout=900)
    badidx = []
    if r.error == 'invariant' and r.error_name == 'AllInside':
        stt = r.trace[-1][1] if r.trace else {}
        badidx = stt.get('bad') or []
        if not badidx:
            raise Infra('StorageNames: cannot locate the rejected records\n' + r.out[-2000:])
    elif not r.ok:
        raise Infra('StorageNames: %s %s\n%s' % (r.error, r.error_name, r.out[-2500:]))
    ndiv = 0
    for idx in badidx:
        m = objs[idx - 1]
        if m['svc'] == 'worker':
            ctx.violation('C18:confine:worker-%s-name-outside-bucket' % m['handler'], m,
                          'worker %s service, request %s: constructs object name %r for its %s bucket, which resolves outside %s' % (
                              m['handler'], m['req'], m['name'], m['bucket'], m['base']))
            continue
        rq = preq.get(m['i'], {})
        if rq.get('status') != rq.get('real_status'):
            # the routes rebuilt by the harness and newHandler disagree on this request: not evidence about the real chain
            ndiv += 1
            ctx.warn('C18 names: harness routes answer %s, newHandler answers %s for %s; name %r not judged' % (
                rq.get('status'), rq.get('real_status'), m['req'], m['name']))
            continue
        target = m['req'].split(' ', 1)[1]
        page = 'charts-page' if target.startswith('/charts/') else 'data-page' if target.startswith('/data/') else 'upload' if target.startswith('/upload/') else 'root-page'
        what = 'reads' if page != 'upload' else 'writes'
        ctx.violation('C18:confine:%s-%s-outside-bucket' % (page, what), dict(m, request=rq),
                      'telemetrygodev %s (status %s%s): the handler constructs object name %r for the %s bucket, which resolves outside %s' % (
                          m['req'], rq.get('real_status'), ', content of a file outside the bucket served' if rq.get('decoy_served') else '',
                          m['name'], m['bucket'], m['base']))
    ctx.cov['divergences'] += ndiv
    ctx.cov['service_requests'] += psumm['requests']
    ctx.cov['constructed_names_checked'] = len(objs)
    ctx.cov['listing_prefixes_seen'] = len(names) - len(objs)
    ctx.cov['traces_validated_against_impl'] += len(objs) - len(badidx)
    hostile = [m for m in objs if '..' in m['name'] or m['name'].startswith('/')]
    ctx.sample({'kind': 'constructed-name', 'request': (hostile or objs)[0]['req'], 'bucket': (hostile or objs)[0]['bucket'], 'name': (hostile or objs)[0]['name']})
    ctx.cov['evaluations'] += ctx.cov['service_requests']
