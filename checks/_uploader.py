"""Shared driver of C07 and C08 (Uploader.tla / UploaderTrace.tla / UploaderObs.tla)."""
import json
import random

from vlib import tlaval
from vlib.core import Infra, ndjson_text

INTERNAL = {"RP_pick", "CR_done", "UP_next"}
WNAMES = ['W_LockContention', 'W_KilledAfterAck', 'W_KilledAfterMarker', 'W_KilledBetweenCreateAndWrite', 'W_4xxThenRerun', 'W_5xxThenRerun',
          'W_StaleReadyList', 'W_ReadUnwritten', 'W_BothCreate', 'W_ExclLost', 'W_StatSeesUploaded', 'W_DeletedUnderParse', 'W_LocalExists']
C07_CLAUSES = {'PerBuildSums', 'OneLocalReport', 'DeleteOnlyAfterReport', 'ReportStable', 'Untouched', 'ReadyMatchesLocal'}
C08_CLAUSES = {'LeftoverRetried', 'NoLockLeft', 'OneBodyPerWeek', 'NoResendAfterRecorded', 'MarkerOnlyAfterAck', 'ReplyHandled'}
SAFETY = ['LeftoverRetried', 'NoLockLeft', 'ReadyMatchesLocal', 'OneLocalReport', 'OneBodyPerWeek', 'NoResendAfterRecorded', 'MarkerOnlyAfterAck', 'AtMostOneAck']
ACTIONP = ['DeleteOnlyAfterReport', 'ReportStable', 'ServerErrorKeeps', 'ClientErrorDiscards']


def fam(name, uploaders, files, weekof, maxruns, replies=('200', '4xx', '5xx', 'none'), kill=True, late=()):
    return dict(late=list(late), name=name, uploaders=uploaders, files=files, weekof=weekof, weeks=sorted(set(weekof)), maxruns=maxruns, replies=list(replies), kill=kill)


def families():
    small = [
        fam('two1w', ['u1', 'u2'], [1, 2], [1, 1], 2),
        fam('one2w', ['u1'], [1, 2], [1, 2], 2),
        fam('late1w', ['u1'], [1, 2], [1, 1], 2, late=[2]),
        fam('late2w', ['u1'], [1, 2], [1, 2], 2, late=[1]),
        # the files of one week are not neighbours in directory order: a file of the other week sorts between them
        fam('inter2w', ['u1'], [1, 2, 3], [1, 2, 1], 1),
    ]
    big = [
        fam('two2w', ['u1', 'u2'], [1, 2, 3], [1, 1, 2], 1),
        fam('three1w', ['u1', 'u2', 'u3'], [1], [1], 1),
    ]
    return small, big


def mc_module(f, base='Uploader', name='MCUploader', extra=''):
    return '''---- MODULE %s ----
EXTENDS %s
MCWeekOf == (%s)
%s
====
''' % (name, base, ' @@ '.join('%d :> %d' % (x, w) for x, w in zip(f['files'], f['weekof'])), extra)


def mc_cfg(f, spec='Spec', invariants=(), props=(), view=True, deadlock=False, kill=None, replies=None, maxruns=None):
    kill = f['kill'] if kill is None else kill
    s = 'SPECIFICATION %s\nCONSTANTS\n Uploaders = {%s}\n Files = {%s}\n LateFiles = {%s}\n WeekOfFile <- MCWeekOf\n Weeks = {%s}\n MaxRuns = %d\n Replies = {%s}\n AllowKill = %s\n' % (
        spec, ', '.join('"%s"' % u for u in f['uploaders']), ', '.join(str(x) for x in f['files']), ', '.join(str(x) for x in f['late']), ', '.join(str(w) for w in f['weeks']),
        maxruns or f['maxruns'], ', '.join('"%s"' % r for r in (replies or f['replies'])), 'TRUE' if kill else 'FALSE')
    if invariants:
        s += 'INVARIANTS ' + ' '.join(invariants) + '\n'
    if props:
        s += 'PROPERTIES ' + ' '.join(props) + '\n'
    if view:
        s += 'VIEW View\n'
    s += 'CHECK_DEADLOCK %s\n' % ('TRUE' if deadlock else 'FALSE')
    return s


def pending(st):
    return any(st['alive'][u] and st['pc'][u] in INTERNAL for u in st['pc'])


def schedule_of(states):
    """-> (schedule entries, replies in request order)"""
    sched, replies = [], []
    for a, b in zip(states, states[1:]):
        killed = [u for u in b['alive'] if a['alive'][u] and not b['alive'][u]]
        if killed:
            sched.append('kill:' + killed[0])
            continue
        arr = [x for x in b['arrived'] if x not in a['arrived']]
        if arr:
            sched.append('arrive:%d' % arr[0])
            continue
        if pending(a):
            continue
        moved = [u for u in b['pc'] if any(b[v][u] != a[v][u] for v in ('pc', 'runs', 'parseq', 'delq', 'buf', 'collected', 'seenCount', 'wk'))]
        if len(moved) == 1:
            u = moved[0]
            sched.append(u)
            if a['pc'][u] == 'UP_post':
                nxt = b['pc'][u]
                newposts = [q for q in b['posts'] if q not in a['posts']]
                replies.append(newposts[0]['reply'] if newposts else {'UP_mkmark': '200', 'UP_rm4xx': '4xx'}.get(nxt, '5xx'))
    return sched, replies


PC_LABEL = {
    'Start': ('c08One', 'run'),
    'FW_readdir': ('findWork', 'os.ReadDir'), 'FW_readup': ('findWork', 'os.ReadDir'),
    'FW_parse': ('parseCountFile', 'os.ReadFile'), 'DEL': ('deleteFiles', 'os.Remove'),
    'CR_statlocal': ('createReport', 'os.Stat'), 'CR_statready': ('createReport', 'os.Stat'),
    'CR_mkready': ('exclusiveWrite', 'os.OpenFile'), 'CR_mklocal': ('exclusiveWrite', 'os.OpenFile'),
    'CR_wrready': ('exclusiveWrite', 'file.Write'), 'CR_wrlocal': ('exclusiveWrite', 'file.Write'),
    'UP_read': ('uploadReport<', 'os.ReadFile'), 'UP_lock': ('uploadReportContents', 'os.OpenFile'),
    'UP_stat': ('uploadReportContents', 'os.Stat'), 'UP_post': ('uploadReportContents', 'http.Post'),
    'UP_mkmark': ('uploadReportContents', 'os.WriteFile'), 'UP_wrmark': ('uploadReportContents', 'os.WriteFile.write'),
    'UP_rmdup': ('uploadReportContents', 'os.Remove'), 'UP_rmready': ('uploadReportContents', 'os.Remove'),
    'UP_rm4xx': ('uploadReportContents', 'os.Remove'), 'UP_unlock': ('uploadReportContents', 'os.Remove'),
}


def label_script(states):
    """segment-wise, label-aligned form of a witness (see checks/c03.py); kills and arrivals are kept."""
    settled = [st for st in states if not pending(st)]
    moves = []
    for a, b in zip(settled, settled[1:]):
        killed = [u for u in b['alive'] if a['alive'][u] and not b['alive'][u]]
        if killed:
            moves.append(('kill:' + killed[0], None))
            continue
        arr = [x for x in b['arrived'] if x not in a['arrived']]
        if arr:
            moves.append(('arrive:%d' % arr[0], None))
            continue
        for u in b['pc']:
            if any(b[v][u] != a[v][u] for v in ('pc', 'runs', 'parseq', 'delq', 'buf', 'collected', 'seenCount', 'wk')):
                moves.append((u, b['pc'][u]))
    counts, entries = {}, []
    for (t, pc) in moves:
        if ':' in t:
            entries.append((t, None, 0, None))
            continue
        lab = PC_LABEL.get(pc)
        if lab:
            counts[(t, lab)] = counts.get((t, lab), 0) + 1
        entry = (t, lab, counts.get((t, lab), 0), pc)
        if entries and entries[-1][0] == t:
            entries[-1] = entry
        else:
            entries.append(entry)
    script = []
    for e in entries:
        if ':' in e[0]:
            script.append(e[0])
        elif e[1] is None:
            return None
        else:
            script.append('%s>>%s|%s|%d' % (e[0], e[1][0], e[1][1], max(1, e[2])))
    return script


def run(ctx, prop):
    mine = C07_CLAUSES if prop == 'C07' else C08_CLAUSES
    ctx.assumptions += [
        'uploaders are emulated by goroutines calling the real uploader.Run on one telemetry directory; interleaving points are the file-system / HTTP calls the instrumenter exposes',
        'the upload configuration is given to the uploader directly (no config download); mode is on; every count file holds one approved counter',
        'a kill is "never scheduled again"; the server is owned by the harness and answers what the schedule says; a reply that is lost is modelled as no answer',
    ]
    ctx.inject('internal/upload', also=('c08_verif_test.go',))
    ctx.instrument('-files', 'internal/upload')
    small, big = families()
    fams = small + (big if ctx.thorough() else [])
    rng = random.Random(ctx.seed)
    runs, runfam = [], {}
    model_results = {}

    def add_run(f, sched, replies, finish, why):
        rid = len(runs) + 1
        runs.append(dict(id=rid, family=f['name'], uploaders=f['uploaders'], files=f['files'], weekOf=f['weekof'], weeks=f['weeks'], maxRuns=f['maxruns'], late=f['late'],
                         schedule=sched, replies=replies, finish=finish, seed=rng.randrange(1 << 30), extras=False, dirDate=(why.startswith('late-after') or (rid % 5 == 0)), buildVar=rid % 6, modeLocal=False, endFmt=(rid // 6) % 3, aged=False))
        runfam[rid] = (f, why)

    oneshot = ['OneShot(i, W) == IF W /\\ TLCGet(i) = 0 THEN TLCSet(i, 1) /\\ FALSE ELSE TRUE', 'ASSUME \\A i \\in 1..40 : TLCSet(i, 0)',
               'O_AckedBodiesComplete == OneShot(1, ~AckedBodiesComplete)']
    onames = {'O_AckedBodiesComplete': 'AckedBodiesComplete'}
    for i, w in enumerate(WNAMES):
        oneshot.append('O_%s == OneShot(%d, %s)' % (w, i + 5, w))
        onames['O_' + w] = w
    jobs, meta = [], []
    for f in fams:
        jobs.append((('MCUploader',), dict(files={'MCUploader.tla': mc_module(f, extra='\n'.join(oneshot))},
                                           cfg_text=mc_cfg(f, invariants=SAFETY + sorted(onames), props=ACTIONP),
                                           label='Uploader[%s] exhaustive' % f['name'], timeout=3000, workers=ctx.pick(4, 8), extra=['-continue'])))
        meta.append((f, 'exhaustive'))
        jobs.append((('MCUploader',), dict(files={'MCUploader.tla': mc_module(f)}, cfg_text=mc_cfg(f, view=False),
                                           simulate={'num': ctx.pick(80, 600), 'file': True}, depth=300, label='Uploader[%s] simulate' % f['name'], count=False)))
        meta.append((f, 'simulate'))
    # liveness: no kills, the server answers 200 (after possibly one 5xx): every week is acknowledged exactly once
    fl = small[0]
    jobs.append((('MCUploader',), dict(files={'MCUploader.tla': mc_module(fl)},
                                       cfg_text=mc_cfg(fl, spec='FairSpec', props=['EventuallyOnce'], invariants=['AtMostOneAck'], kill=False, replies=['200'], maxruns=1),
                                       label='Uploader[%s] liveness' % fl['name'], timeout=3000, workers=4)))
    meta.append((fl, 'liveness'))
    for (f, what), r in zip(meta, ctx.tlc_many(jobs, par=6)):
        if what == 'simulate':
            for fn in ctx.sim_files(r):
                sched, replies = schedule_of([s for (_a, _b, s) in tlaval.read_simulate(fn)])
                add_run(f, sched, replies, 'rr', 'simulate')
            continue
        if what == 'liveness':
            model_results['%s/EventuallyOnce' % f['name']] = 'holds' if r.ok else 'VIOLATED in the model: %s' % r.error
            if not r.ok:
                ctx.warn('model: liveness: %s' % r.error)
            continue
        model_results[f['name']] = {'distinct': r.distinct, 'generated': r.generated}
        if r.error in ('action', 'temporal'):
            ctx.warn('model: family %s violates %s' % (f['name'], r.error_name))
            model_results[f['name'] + '/props'] = 'VIOLATED in the model: %s' % r.error_name
        for (name, tr) in tlaval.read_all_traces(r.out):
            if name not in onames:
                ctx.warn('model: family %s violates %s' % (f['name'], name))
                model_results['%s/%s' % (f['name'], name)] = 'VIOLATED in the model'
                continue
            sched, replies = schedule_of([s for (_a, s) in tr])
            model_results['%s/%s' % (f['name'], onames[name])] = 'reachable (%d steps)' % len(sched)
            for fin in ('stick', 'rr', 'random', 'randomkill'):
                add_run(f, sched, replies, fin, onames[name])
            scr = label_script([s for (_a, s) in tr])
            if scr:
                for fin in ('stick', 'rr'):
                    add_run(f, scr, replies, fin, onames[name] + ':aligned')
    for f in fams:
        for k in range(ctx.pick(60, 500)):
            add_run(f, [], [], 'randomkill' if k % 3 == 0 else 'random', 'random')
        add_run(f, [], [], 'rr', 'rr')
        add_run(f, [], ['5xx', '200'], 'stick', 'seq')
        add_run(f, [], ['4xx'], 'stick', 'seq4xx')
        if f['late']:
            for rep in (['4xx', '200'], ['5xx', '200'], ['200'], ['none', '4xx']):
                add_run(f, ['u1'] * 40 + ['arrive:%d' % f['late'][0]], rep, 'stick', 'late-after-' + rep[0])
    # the same with an active and an unreadable count file present (never touched; not part of the protocol model)
    nextra = 0
    for r0 in list(runs):
        if runfam[r0['id']][1] in ('random', 'rr', 'seq') and nextra < ctx.pick(40, 300):
            nextra += 1
            rid = len(runs) + 1
            r1 = dict(r0, id=rid, extras=True, seed=rng.randrange(1 << 30))
            runs.append(r1)
            runfam[rid] = (runfam[r0['id']][0], 'extras')
    # the same in mode local (reports are made, nothing is offered for upload; not part of the protocol model)
    nloc = 0
    for r0 in list(runs):
        if runfam[r0['id']][1] in ('random', 'rr', 'seq') and not r0['extras'] and nloc < ctx.pick(40, 300):
            nloc += 1
            rid = len(runs) + 1
            r1 = dict(r0, id=rid, modeLocal=True, extras=(nloc % 2 == 0), seed=rng.randrange(1 << 30), endFmt=(3 if nloc % 3 == 0 and not r0['late'] else r0['endFmt']))
            runs.append(r1)
            runfam[rid] = (runfam[r0['id']][0], 'modelocal')

    # the same two weeks later, with the reports already made by an earlier run that could not deliver them
    # (reports older than 21 days must still be delivered exactly once; not part of the protocol model)
    nag = {}
    for r0 in list(runs):
        why0 = runfam[r0['id']][1]
        fam0 = runfam[r0['id']][0]['name']
        if (why0.startswith('W_') or why0 in ('random', 'rr', 'seq')) and not r0['extras'] and not r0['modeLocal'] and nag.get(fam0, 0) < ctx.pick(130, 400):
            nag[fam0] = nag.get(fam0, 0) + 1
            rid = len(runs) + 1
            r1 = dict(r0, id=rid, aged=True, seed=rng.randrange(1 << 30))
            if why0.startswith('W_') and r1['finish'] == 'stick':
                r1['finish'] = 'rr'
            runs.append(r1)
            runfam[rid] = (runfam[r0['id']][0], 'aged:' + why0)

    if ctx.replay:
        det = json.load(open(ctx.replay))['detail']
        r0 = det['run']
        fam0 = [f for f in small + big if f['name'] == r0['family']][0]
        if fam0 not in fams:
            fams.append(fam0)
        sched0 = det.get('schedule') or r0['schedule']
        keep = dict(r0, id=1, schedule=sched0, finish='rr')
        del runs[:]
        runfam.clear()
        runs.append(keep)
        runfam[1] = (fam0, 'replay')
    ctx.log('runs to replay:', len(runs))
    recs, rc, out = ctx.run_harness('./internal/upload', 'TestVerifC08', inp={'runs': runs}, timeout=3000)
    results = {r['run']: r for r in recs if r.get('kind') == 'result'}
    if len(results) != len(runs):
        raise Infra('%s harness returned %d results for %d runs\n%s' % (prop, len(results), len(runs), out[-3000:]))
    obs = {}
    for r in recs:
        if r.get('kind') == 'obs':
            obs.setdefault(r['run'], []).append(r)
    ctx.cov['runs'] = len(runs)
    ctx.cov['evaluations'] += len(runs)
    ctx.cov['real_steps'] = sum(r['steps'] for r in results.values())

    for k, res in sorted(results.items()):
        f, why = runfam[k]
        if res['status'] == 'skipped':
            ctx.cov['runs_skipped_after_hangs'] = ctx.cov.get('runs_skipped_after_hangs', 0) + 1
            continue
        if res['status'] != 'ok':
            flt = res.get('fault') or {}
            ctx.violation('%s:%s:%s' % (prop, res['status'], flt.get('op', '')), {'run': runs[k - 1], 'fault': flt, 'schedule': res.get('schedule')},
                          '%s run %d (%s): %s %s' % (f['name'], k, why, res['status'], json.dumps(flt)[:300]))

    # TLC evaluates the clauses on every observed state
    lines = []
    for k in sorted(obs):
        rcfg = runs[k - 1]
        filesof = {str(w): [x for x, ww in zip(rcfg['files'], rcfg['weekOf']) if ww == w] for w in rcfg['weeks']}
        early = {str(w): [x for x, ww in zip(rcfg['files'], rcfg['weekOf']) if ww == w and x not in rcfg.get('late', [])] for w in rcfg['weeks']}
        killed = False
        for o in obs[k]:
            if o['t'] == 'kill':
                killed = True
            lines.append({'run': k, 'i': o['i'], 't': o['t'], 'lock': o['lock'], 'count': o['count'], 'ready': o['ready'], 'localr': o['localr'], 'uploaded': o['uploaded'],
                          'acks': o['acks'], 'posts': [{'w': q['w'], 'reply': q['reply'], 'after': q['after'], 'by': q['by'], 'n': q['n']} for q in o['posts']],
                          'nuploaders': len(rcfg['uploaders']), 'maxruns': rcfg['maxRuns'],
                          'untouched': o['untouched'], 'quiet': o['quiet'], 'nokill': not killed, 'filesof': filesof, 'early': early})
    # chunks end at run boundaries; every line knows the index of its run's first line
    chunks, cur = [], []
    for k in sorted(obs):
        mine_lines = [x for x in lines if x['run'] == k] if False else None
    byrun = {}
    for x in lines:
        byrun.setdefault(x['run'], []).append(x)
    for k in sorted(byrun):
        if len(cur) + len(byrun[k]) > 20000 and cur:
            chunks.append(cur)
            cur = []
        first = len(cur) + 1
        for x in byrun[k]:
            x['first'] = first
            cur.append(x)
    if cur:
        chunks.append(cur)
    for i, part in enumerate(chunks):
        r = ctx.tlc('UploaderObs', files={'c08obs.ndjson': ndjson_text(part)}, workers=1, label='UploaderObs[%d]' % i, count=False, timeout=1500)
        j = r.out.find('"C08BAD"')
        if j < 0:
            raise Infra('UploaderObs: no verdict\n' + r.out[-2000:])
        k2 = r.out.find('Computing initial states', j)
        bad = tlaval.parse(r.out[r.out.rfind('<<', 0, j):k2 if k2 > 0 else len(r.out)].strip())[1]
        seen = set()
        for (idx, clause) in sorted(tuple(x) for x in bad):
            if clause not in mine:
                continue
            o = part[idx - 1]
            k = o['run']
            if (k, clause) in seen:
                continue
            seen.add((k, clause))
            f, why = runfam[k]
            ctx.violation('%s:%s' % (prop, clause), {'run': runs[k - 1], 'state': o, 'schedule': results[k].get('schedule')},
                          '%s run %d (%s) step %d: %s is false on the real state: count=%s ready=%s local=%s uploaded=%s acks=%s posts=%s' % (
                              f['name'], k, why, o['i'], clause, o['count'], json.dumps(o['ready']), json.dumps(o['localr']), json.dumps(o['uploaded']),
                              json.dumps(o['acks'])[:200], json.dumps(o['posts'])[:200]))
    ctx.cov['observed_states_checked'] = len(lines)

    # conformance with Uploader.tla (runs without the extra files)
    accepted, diverged = 0, []
    byfam = {}
    for k in sorted(obs):
        if not runs[k - 1]['extras'] and not runs[k - 1].get('modeLocal') and not runs[k - 1].get('aged'):
            byfam.setdefault(runfam[k][0]['name'], []).append(k)
    for f in fams:
        remaining = list(byfam.get(f['name'], []))
        guard = 0
        while remaining and guard < 10:
            guard += 1
            tl = []
            for k in remaining:
                for o in obs[k]:
                    x = {x: o[x] for x in ('run', 'i', 't', 'count', 'ready', 'localr', 'uploaded', 'lock', 'acks', 'posts')}
                    if o['t'] == 'kill':
                        x['victim'] = o['victim']
                    if o['t'] == 'arrive':
                        x['file'] = o['file']
                    tl.append(x)
            cfgt = mc_cfg(f, spec='TSpec', view=False, deadlock=False, kill=True) + 'CONSTRAINT HighWater\nPOSTCONDITION Accepted\n'
            r = ctx.tlc('MCUploaderTrace', files={'MCUploaderTrace.tla': mc_module(f, base='UploaderTrace', name='MCUploaderTrace'),
                                                  'c08trace.ndjson': ndjson_text(tl)},
                        cfg_text=cfgt, workers=1, label='UploaderTrace[%s]' % f['name'], count=False, timeout=1500, dfs_queue=True)
            if r.ok:
                accepted += len(remaining)
                break
            import re as _re
            m = _re.search(r'<<"HIGHWATER", (\d+)>>', r.out)
            if r.error == 'postcondition' and m:
                lval = int(m.group(1))
                line = tl[min(max(lval - 1, 0), len(tl) - 1)]
                bad_run = line['run']
                prevline = tl[min(max(lval - 2, 0), len(tl) - 1)]
                diverged.append({'run': bad_run, 'family': f['name'], 'step': line['i'], 'why': 'unexplained', 'task': line['t'],
                                 'observed_prev': {x: prevline.get(x) for x in ('i', 't', 'count', 'ready', 'localr', 'uploaded', 'lock', 'acks')},
                                 'observed': {x: line.get(x) for x in ('i', 't', 'count', 'ready', 'localr', 'uploaded', 'lock', 'acks')}})
                pos = remaining.index(bad_run)
                accepted += pos
                remaining = remaining[pos + 1:]
            else:
                raise Infra('UploaderTrace[%s]: %s\n%s' % (f['name'], r.error, r.out[-2500:]))
    ctx.cov['traces_validated_against_impl'] += accepted
    ctx.cov['divergences'] = len(diverged)
    ctx.cov['divergence_samples'] = diverged[:5]
    for d in diverged[:10]:
        ctx.warn('MODEL-DIVERGENCE %s' % json.dumps(d, default=str)[:1800])
    ctx.cov['model_results'] = model_results
    ctx.cov['rule'] = ('a case is one schedule (with kills and planned server replies) of one scenario family executed on the real instrumented uploader; '
                       'schedules are TLC counter-examples into race windows, TLC simulate walks and harness-chosen random orders')
    ctx.cov['distinct_nontrivial'] = len({(r['family'], tuple(results[r['id']].get('schedule', []))) for r in runs})
    ctx.sample({'family': runs[0]['family'], 'why': runfam[1][1], 'schedule': results[1].get('schedule', [])[:80], 'replies': runs[0]['replies'], 'status': results[1]['status']})
