"""C04 — processes sharing a counter file never corrupt it, even when killed
(CounterFile.tla / CounterFileTrace.tla / CounterFileObs.tla)."""
import json
import random

from vlib import tlaval
from vlib.core import Infra, ndjson_text

K = 3   # records of the harness' name length per 16 KiB page

WNAMES = ['W_SameNameTwice', 'W_LostLink', 'W_DupFound', 'W_ScanBeyondMapping', 'W_BothExtend', 'W_LookupBeyondMapping',
          'W_ReserveRaced', 'W_ValueRaced', 'W_UnwrittenSeen', 'W_KilledAfterReserve', 'W_KilledAfterWrite', 'W_KilledMidAdd',
          'W_BothCreate', 'W_LateHeader', 'W_KilledCreating']


def names_of(p):
    """a process is (task, name) or (task, [name, name, ...]): the counters it increments one after the other"""
    return list(p[1]) if isinstance(p[1], (list, tuple)) else [p[1]]


def fam(name, procs, init_slots, warm=None, warmval=0, maxval=1000, create=False, nokill=False):
    # a process may give a record up and allocate another one (repaired F16): one spare slot per process
    # warm: a counter whose record exists before the race, with a value `maxval - warmval` short of the
    # saturation limit (the model counts relative to 2^64-1-maxval)
    return dict(name=name, procs=procs, init=init_slots, maxslots=init_slots + 2 * sum(len(names_of(p)) for p in procs) + (1 if warm else 0),
                warm=warm, warmval=warmval, maxval=maxval, create=create, nokill=nokill)


# Scripted scenarios for windows that need more processes than TLC can explore exhaustively: each entry is a
# label-aligned script ("task>>fn|kind|k" = run the task until it is suspended for the k-th time in front of that
# operation).  The recorded traces are still validated against CounterFile.tla and judged by CounterFileObs.tla.
DEEP = dict(name='deepremap', procs=[('pA', 'n1'), ('pC', 'n3'), ('pB', 'n2'), ('pD', 'n6'), ('pE', 'n7'), ('pF', 'n4')], init=5, maxslots=5 + 8, scripted=True,
            warm=None, warmval=0, maxval=1000, create=False)
DEEP_SCRIPTS = [
    # pA looks n1 up with a mapping that is two growths behind: the file is extended twice while pA is inside
    # newCounter's remap loop (second failure of the lookup after the first remap)
    ['pC>>done|x|1', 'pB>>done|x|1', 'pA>>(*mappedFile).lookup<(*mappedFile).newCounter|Uint32.Load|2',
     'pD>>done|x|1', 'pE>>done|x|1', 'pF>>done|x|1', 'pA>>done|x|1'],
    # the same with pA parked right after it read the allocation limit
    ['pC>>done|x|1', 'pB>>done|x|1', 'pA>>openMapped<(*mappedFile).newCounter|os.OpenFile|1',
     'pD>>done|x|1', 'pE>>done|x|1', 'pF>>done|x|1', 'pA>>done|x|1'],
    # ... and parked between the reopen and the mmap
    ['pC>>done|x|1', 'pB>>done|x|1', 'pA>>openMapped<(*mappedFile).newCounter|file.Stat|1',
     'pD>>done|x|1', 'pE>>done|x|1', 'pF>>done|x|1', 'pA>>done|x|1'],
]


def families():
    small = [
        fam('same2', [('p1', 'n1'), ('p2', 'n1')], 3),
        fam('collide2', [('p1', 'n1'), ('p2', 'n2')], 3),
        fam('mixed2', [('p1', 'n1'), ('p2', 'n3')], 2),
        fam('same2free', [('p1', 'n1'), ('p2', 'n1')], 1),
        # the second record lands on a page the first process has not mapped
        fam('collide2edge', [('p1', 'n1'), ('p2', 'n2')], 5),
        fam('same2edge', [('p1', 'n1'), ('p2', 'n1')], 5),
        # value addition at the saturation limit: the record exists with a value one short of the limit;
        # the first add reaches it, the second must stick (never wrap, never decrease, also when killed mid-add)
        fam('sat2', [('p1', 'n1'), ('p2', 'n1')], 1, warm='n1', warmval=2, maxval=3),
        # each process creates two counters one after the other, in opposite order: the second creation
        # starts from whatever mapping and table the first one (and the other process) left behind
        fam('twice2', [('p1', ['n1', 'n2']), ('p2', ['n2', 'n1'])], 1),
        # the file does not exist yet: both processes create it (openMapped's set-up block run concurrently,
        # a late process re-writing the header of a file that already has records, a creator killed half-way)
        fam('create2', [('p1', 'n1'), ('p2', 'n2')], 0, create=True),
        fam('create2same', [('p1', 'n1'), ('p2', 'n1')], 0, create=True),
        # three processes, two of them on one name and a third on a colliding name (a same-name record can sit
        # BEHIND a newly linked record of another name); without kills, to stay small enough for the quick tier
        fam('collide3nk', [('p1', 'n1'), ('p2', 'n2'), ('p3', 'n1')], 1, nokill=True),
    ]
    big = [
        fam('same3', [('p1', 'n1'), ('p2', 'n1'), ('p3', 'n1')], 3),
        fam('collide3', [('p1', 'n1'), ('p2', 'n2'), ('p3', 'n1')], 3),
        fam('mixed3', [('p1', 'n1'), ('p2', 'n2'), ('p3', 'n3')], 2),
        fam('collide3free', [('p1', 'n1'), ('p2', 'n2'), ('p3', 'n2')], 1),
        fam('sat3', [('p1', 'n1'), ('p2', 'n1'), ('p3', 'n1')], 1, warm='n1', warmval=2, maxval=4),
    ]
    return small, big


def mc_module(f, base='CounterFile', name='MCCounterFile', extra=''):
    ps = [p[0] for p in f['procs']]
    return '''---- MODULE %s ----
EXTENDS %s
MCProcs == {%s}
MCNamesOf == (%s)
MCNames == {"n1", "n2", "n3", "n4", "n6", "n7"}
MCBucketOf == ("n1" :> "b1" @@ "n2" :> "b1" @@ "n3" :> "b2" @@ "n4" :> "b1" @@ "n6" :> "b3" @@ "n7" :> "b3")
%s
====
''' % (name, base, ', '.join('"%s"' % p for p in ps), ' @@ '.join('"%s" :> <<%s>>' % (p[0], ', '.join('"%s"' % n for n in names_of(p))) for p in f['procs']), extra)


def mc_cfg(f, spec='Spec', invariants=(), props=(), kill=True, deadlock=False):
    s = ('SPECIFICATION %s\nCONSTANTS\n Procs <- MCProcs\n NamesOf <- MCNamesOf\n Names <- MCNames\n BucketOf <- MCBucketOf\n'
         ' Buckets = {"b1", "b2", "b3"}\n K = %d\n InitSlots = %d\n MaxSlots = %d\n MaxPages = 8\n MaxTries = 10\n AllowKill = %s\n FixF16 = TRUE\n MaxVal = %d\n WarmName = "%s"\n WarmVal = %d\n Create = %s\n') % (
        spec, K, f['init'], f['maxslots'], 'TRUE' if kill else 'FALSE', f['maxval'], f['warm'] or 'none', f['warmval'], 'TRUE' if f.get('create') else 'FALSE')
    if invariants:
        s += 'INVARIANTS ' + ' '.join(invariants) + '\n'
    if props:
        s += 'PROPERTIES ' + ' '.join(props) + '\n'
    s += 'CHECK_DEADLOCK %s\n' % ('TRUE' if deadlock else 'FALSE')
    return s


def schedule_of(states):
    out = []
    for a, b in zip(states, states[1:]):
        killed = [p for p in b['alive'] if a['alive'][p] and not b['alive'][p]]
        if killed:
            out.append('kill:' + killed[0])
            continue
        moved = [p for p in b['pc'] if any(b[v][p] != a[v][p] for v in ('pc', 'ph', 'lhead', 'off', 'lim', 'start', 'tries', 'old', 'vslot', 'vold', 'err', 'maplen'))]
        if len(moved) == 1:
            out.append(moved[0])
        elif not moved:
            # a step that changed only shared state (cannot happen: every action moves its pc or a local)
            continue
    return out


PC_LABEL = {
    'L_head': ('(*mappedFile).lookup', 'Uint32.Load'), 'L_len': ('entryAt<(*mappedFile).lookup', 'Uint32.Load'),
    'L_next': ('entryAt<(*mappedFile).lookup', 'Uint32.Load'),
    'M_limit': ('load32<(*mappedFile).newCounter', 'Uint32.Load'), 'R_limit': ('load32<(*mappedFile).newCounter', 'Uint32.Load'),
    'K_reload': ('load32<(*mappedFile).newCounter', 'Uint32.Load'),
    'M_open': ('openMapped<(*mappedFile).newCounter', 'os.OpenFile'), 'M_stat': ('openMapped<(*mappedFile).newCounter', 'file.Stat'),
    'E_stat': ('(*mappedFile).extend<', 'file.Stat'), 'E_write': ('(*mappedFile).extend<', 'file.WriteAt'),
    'E_open': ('openMapped<(*mappedFile).extend', 'os.OpenFile'), 'E_map': ('openMapped<(*mappedFile).extend', 'file.Stat'),
    'R_cas': ('cas32<(*mappedFile).newCounter', 'Uint32.CompareAndSwap'), 'K_cas': ('cas32<(*mappedFile).newCounter', 'Uint32.CompareAndSwap'),
    'W_len': ('writeEntryAt<', 'StoreUint32'),
    'K_store': ('(*mappedFile).newCounter<', 'Uint32.Store'), 'K_dead': ('(*mappedFile).newCounter<', 'Uint32.Store'),
    'K_giveup': ('(*mappedFile).newCounter<', 'Uint32.Store'),
    'S_len': ('entryAt<(*mappedFile).newCounter', 'Uint32.Load'), 'S_next': ('entryAt<(*mappedFile).newCounter', 'Uint32.Load'),
    'V_load': ('(*Counter).add', 'Uint64.Load'), 'V_cas': ('(*Counter).add', 'Uint64.CompareAndSwap'),
    'O_open': ('openMapped<(*file).rotate1', 'os.OpenFile'), 'O_stat': ('openMapped<(*file).rotate1', 'file.Stat'),
    'O_whdr': ('openMapped<(*file).rotate1', 'file.WriteAt'), 'O_wtail': ('openMapped<(*file).rotate1', 'file.WriteAt'),
    'O_stat2': ('openMapped<(*file).rotate1', 'file.Stat'),
}


def label_script(states):
    """segment-wise, label-aligned form of a witness (see checks/c03.py label_script); kills are kept."""
    moves = []
    for a, b in zip(states, states[1:]):
        killed = [p for p in b['alive'] if a['alive'][p] and not b['alive'][p]]
        if killed:
            moves.append(('kill:' + killed[0], None))
            continue
        for p in b['pc']:
            if any(b[v][p] != a[v][p] for v in ('pc', 'ph', 'lhead', 'off', 'lim', 'start', 'tries', 'old', 'vslot', 'vold', 'err', 'maplen')):
                moves.append((p, b['pc'][p]))
    counts, entries = {}, []
    for (t, pc) in moves:
        if t.startswith('kill:'):
            entries.append((t, None, 0))
            continue
        lab = PC_LABEL.get(pc)
        if lab:
            counts[(t, lab)] = counts.get((t, lab), 0) + 1
        entry = (t, lab, counts.get((t, lab), 0), pc)
        if entries and entries[-1][0] == t:
            entries[-1] = entry
        else:
            entries.append(entry)
    script = []
    for e in entries:
        if e[0].startswith('kill:'):
            script.append(e[0])
        elif e[1] is None:
            if e[3] == 'Done':
                script.append('%s>>done|x|1' % e[0])
            else:
                return None
        else:
            script.append('%s>>%s|%s|%d' % (e[0], e[1][0], e[1][1], max(1, e[2])))
    return script


def short(label):
    parts = [p.replace('(*mappedFile).', '').replace('(*Counter).', 'Counter.').replace('(*file).', 'file.') for p in label.split('<')]
    keep = []
    for p in parts:
        keep.append(p)
        if p in ('newCounter', 'lookup', 'Counter.add', 'extend'):
            break
    return '<'.join(keep[:3])


def run(ctx):
    ctx.assumptions += [
        'a process is emulated by an independent file value with its own mapping of the same count file inside one address space (MAP_SHARED page-cache coherence of the kernel is trusted)',
        'interleaving points: every atomic access to mapped memory and every Stat/WriteAt/OpenFile of mappedFile.lookup/newCounter/extend and Counter.add; process-local work is not interleaved',
        'a kill is "never scheduled again" (no deferred function runs, nothing is released)',
        'all names have one length, so K = 3 records fit a page; byte-level placement is C10',
    ]
    ctx.inject('internal/counter', also=('c03_verif_test.go',))
    ctx.instrument('-files', 'internal/counter')
    small, big = families()
    fams = small + (big if ctx.thorough() else [])
    rng = random.Random(ctx.seed)
    runs, runfam = [], {}
    model_results = {}

    def add_run(f, sched, finish, why):
        rid = len(runs) + 1
        runs.append(dict(id=rid, family=f['name'], procs=[dict(name=p[0], ctr=names_of(p)[0], ctrs=names_of(p)) for p in f['procs']], initSlots=f['init'],
                         maxSlots=f['maxslots'], schedule=sched, finish=finish, seed=rng.randrange(1 << 30), trace=True,
                         warm=f['warm'] or '', warmVal=f['warmval'], maxVal=f['maxval'] if f['warm'] else 0, create=bool(f.get('create'))))
        runfam[rid] = (f, why)

    oneshot = ['OneShot(i, W) == IF W /\\ TLCGet(i) = 0 THEN TLCSet(i, 1) /\\ FALSE ELSE TRUE', 'ASSUME \\A i \\in 1..40 : TLCSet(i, 0)',
               'O_NoSurvivorError == OneShot(1, ~NoSurvivorError)']
    onames = {'O_NoSurvivorError': 'NoSurvivorError'}
    for i, w in enumerate(WNAMES):
        oneshot.append('O_%s == OneShot(%d, %s)' % (w, i + 5, w))
        onames['O_' + w] = w
    jobs, meta = [], []
    for f in fams:
        mcw = mc_module(f, extra='\n'.join(oneshot))
        jobs.append((('MCCounterFile',), dict(files={'MCCounterFile.tla': mcw},
                                              cfg_text=mc_cfg(f, invariants=['WellFormed', 'UniqueNames', 'ValuesExact'] + sorted(onames),
                                                              props=['LimitMonotone', 'ValuesMonotone'], kill=not f.get('nokill')),
                                              label='CounterFile[%s] exhaustive' % f['name'], timeout=3000, workers=ctx.pick(2, 4), extra=['-continue'])))
        meta.append((f, 'exhaustive'))
        jobs.append((('MCCounterFile',), dict(files={'MCCounterFile.tla': mc_module(f)}, cfg_text=mc_cfg(f, kill=not f.get('nokill')),
                                              simulate={'num': ctx.pick(60, 500), 'file': True}, depth=200,
                                              label='CounterFile[%s] simulate' % f['name'], count=False)))
        meta.append((f, 'simulate'))
    if ctx.thorough():
        # liveness: surviving processes finish (kill-free, weak fairness per process)
        f = small[1]
        jobs.append((('MCCounterFile',), dict(files={'MCCounterFile.tla': mc_module(f)},
                                              cfg_text=mc_cfg(f, spec='FairSpec', props=['SurvivorsFinish'], kill=False),
                                              label='CounterFile[%s] liveness' % f['name'], timeout=3000, workers=4)))
        meta.append((f, 'liveness'))
    for (f, what), r in zip(meta, ctx.tlc_many(jobs, par=8)):
        if what == 'simulate':
            for fn in ctx.sim_files(r):
                add_run(f, schedule_of([s for (_a, _b, s) in tlaval.read_simulate(fn)]), 'rr', 'simulate')
            continue
        if what == 'liveness':
            model_results['%s/SurvivorsFinish' % f['name']] = 'holds' if r.ok else 'VIOLATED in the model: %s' % r.error
            if not r.ok:
                ctx.warn('model: liveness %s' % r.error)
            continue
        model_results[f['name']] = {'distinct': r.distinct, 'generated': r.generated}
        if r.error in ('action', 'temporal'):
            ctx.warn('model: family %s violates %s' % (f['name'], r.error_name))
            model_results[f['name'] + '/props'] = 'VIOLATED in the model'
        for (name, tr) in tlaval.read_all_traces(r.out):
            if name not in onames:
                ctx.warn('model: family %s violates %s' % (f['name'], name))
                model_results['%s/%s' % (f['name'], name)] = 'VIOLATED in the model'
                continue
            sched = schedule_of([s for (_a, s) in tr])
            model_results['%s/%s' % (f['name'], onames[name])] = 'reachable (%d steps)' % len(sched)
            for fin in ('stick', 'rr', 'random', 'randomkill'):
                add_run(f, sched, fin, onames[name])
            scr = label_script([s for (_a, s) in tr])
            if scr:
                for fin in ('stick', 'rr'):
                    add_run(f, scr, fin, onames[name] + ':aligned')
    fams = fams + [DEEP]
    for scr in DEEP_SCRIPTS:
        for fin in ('stick', 'rr'):
            add_run(DEEP, scr, fin, 'deep-remap script')
    for k in range(ctx.pick(20, 200)):
        add_run(DEEP, [], 'random', 'random')
    for f in fams:
        if f.get('scripted'):
            continue
        for k in range(ctx.pick(40, 400)):
            add_run(f, [], 'randomkill' if k % 2 else 'random', 'random')
        add_run(f, [], 'rr', 'rr')
        add_run(f, [], 'stick', 'seq')

    if ctx.replay:
        det = json.load(open(ctx.replay))['detail']
        r0 = det['run']
        fam0 = [f for f in small + big + [DEEP] if f['name'] == r0['family']][0]
        if fam0 not in fams:
            fams.append(fam0)
        sched0 = det.get('schedule') or r0['schedule']
        del runs[:]
        runfam.clear()
        add_run(fam0, sched0, 'rr', 'replay')
    ctx.log('runs to replay:', len(runs))
    recs, rc, out = ctx.run_harness('./internal/counter', 'TestVerifC04', inp={'runs': runs}, timeout=3000)
    results = {r['run']: r for r in recs if r.get('kind') == 'result'}
    if len(results) != len(runs):
        raise Infra('C04 harness returned %d results for %d runs\n%s' % (len(results), len(runs), out[-3000:]))
    obs = {}
    for r in recs:
        if r.get('kind') == 'obs':
            obs.setdefault(r['run'], []).append(r)
    ctx.cov['runs'] = len(runs)
    ctx.cov['evaluations'] += len(runs)
    ctx.cov['real_steps'] = sum(r['steps'] for r in results.values())

    # faults / hangs; survivors whose increment was not persisted
    for k, res in sorted(results.items()):
        f, why = runfam[k]
        if res['status'] != 'ok':
            flt = res.get('fault') or {}
            ctx.violation('C04:%s:%s' % (res['status'], short(flt.get('label', ''))), {'run': runs[k - 1], 'result': res.get('fault'), 'schedule': res.get('schedule')},
                          '%s run %d (%s): %s %s' % (f['name'], k, why, res['status'], json.dumps(flt)))
            continue
        for p, pend in sorted(res.get('pending', {}).items()):
            if pend:
                labels = [o.get('label', '') for o in obs.get(k, []) if o.get('t') == p]
                ctxs = '>'.join(short(x) for x in labels[-2:])
                ctx.violation('C04:survivor-unpersisted:%s' % ctxs, {'run': runs[k - 1], 'process': p, 'schedule': res.get('schedule')},
                              '%s run %d (%s): surviving process %s returned from Add but its increment is not in the file (pending=%d); its last file accesses: %s' % (
                                  f['name'], k, why, p, pend, ctxs))

    # TLC evaluates the file-integrity clauses on every observed state
    lines = []
    for k in sorted(obs):
        res = results[k]
        procs = {p['name']: p['ctrs'] for p in runs[k - 1]['procs']}
        for o in obs[k]:
            lines.append({'run': k, 'i': o['i'], 'size': o['size'], 'limit': o['limit'], 'head': o['head'], 'rec': o['rec'], 'begun': o['begun'],
                          'problems': o['problems'], 'final': False, 'survivors': {'n1': 0, 'n2': 0, 'n3': 0, 'n4': 0, 'n6': 0, 'n7': 0}})
        if res['status'] == 'ok' and lines:
            last = lines[-1]
            last['final'] = True
            surv = {'n1': 0, 'n2': 0, 'n3': 0, 'n4': 0, 'n6': 0, 'n7': 0}
            for p, fin in res['finished'].items():
                if fin and not res.get('pending', {}).get(p):
                    for n in procs[p]:
                        surv[n] += 1
            fk = runfam[k][0]
            if fk['warm']:
                surv[fk['warm']] = min(surv[fk['warm']] + fk['warmval'], fk['maxval'])
            last['survivors'] = surv
    chunk = 30000
    for i in range(0, len(lines), chunk):
        part = lines[i:i + chunk]
        r = ctx.tlc('CounterFileObs', files={'c04obs.ndjson': ndjson_text(part)}, workers=1, label='CounterFileObs[%d]' % (i // chunk), count=False, timeout=1500)
        j = r.out.find('"C04BAD"')
        if j < 0:
            raise Infra('CounterFileObs: no verdict\n' + r.out[-2000:])
        k2 = r.out.find('Computing initial states', j)
        bad = tlaval.parse(r.out[r.out.rfind('<<', 0, j):k2 if k2 > 0 else len(r.out)].strip())[1]
        seen = set()
        for (idx, clause) in sorted(tuple(x) for x in bad):
            o = part[idx - 1]
            k = o['run']
            if (k, clause) in seen:
                continue
            seen.add((k, clause))
            f, why = runfam[k]
            ctx.violation('C04:%s' % clause, {'run': runs[k - 1], 'state': o, 'schedule': results[k].get('schedule')},
                          '%s run %d (%s) step %d: %s is false on the real file: limit=%s head=%s problems=%s rec=%s' % (
                              f['name'], k, why, o['i'], clause, o['limit'], o['head'], o['problems'], json.dumps(o['rec'])[:400]))
    ctx.cov['observed_states_checked'] = len(lines)

    # records of different sizes and mappings of different ages (layout-independent clauses, CounterFileLite.tla)
    if not ctx.replay:
        mruns = [dict(id=i + 1, seed=rng.randrange(1 << 30), kill=(i % 2 == 1), chain=0) for i in range(ctx.pick(80, 800))]
        # hash chains far longer than a page's worth of records (legal: any number of names may share a bucket)
        for n in ctx.pick([470, 600], [449, 470, 600, 1500]):
            mruns.append(dict(id=len(mruns) + 1, seed=0, kill=False, chain=n))
        mrecs, rc, out = ctx.run_harness('./internal/counter', 'TestVerifMixedSizesC04', inp={'runs': mruns}, timeout=3000)
        mres = {r['run']: r for r in mrecs if r.get('kind') == 'result'}
        if len(mres) != len(mruns):
            raise Infra('C04 mixed harness returned %d results for %d runs\n%s' % (len(mres), len(mruns), out[-3000:]))
        ctx.cov['mixed_size_runs'] = len(mruns)
        ctx.cov['evaluations'] += len(mruns)
        for k, res in sorted(mres.items()):
            if res['status'] != 'ok':
                ctx.violation('C04:mixed:%s:%s' % (res['status'], short((res.get('fault') or {}).get('label', ''))), {'mixed_run': mruns[k - 1], 'fault': res.get('fault')},
                              'records of different sizes, run %d: %s %s' % (k, res['status'], json.dumps(res.get('fault'))))
            elif res.get('pending'):
                ctx.violation('C04:mixed:survivor-unpersisted', {'mixed_run': mruns[k - 1], 'pending': res['pending']},
                              'records of different sizes, run %d: surviving processes returned from Add but their increments are not in the file: %s' % (k, res['pending']))
        mlines = [{x: o[x] for x in ('run', 'i', 't', 'size', 'limit', 'problems', 'vals', 'begun', 'final', 'survivors')} for o in mrecs if o.get('kind') == 'obs']
        for i in range(0, len(mlines), 40000):
            part = mlines[i:i + 40000]
            r = ctx.tlc('CounterFileLite', files={'c04lite.ndjson': ndjson_text(part)}, workers=1, label='CounterFileLite[%d]' % (i // 40000), count=False, timeout=1500)
            j = r.out.find('"C04LITE"')
            if j < 0:
                raise Infra('CounterFileLite: no verdict\n' + r.out[-2000:])
            k2 = r.out.find('Computing initial states', j)
            bad = tlaval.parse(r.out[r.out.rfind('<<', 0, j):k2 if k2 > 0 else len(r.out)].strip())[1]
            seen = set()
            for (idx, clause) in sorted(tuple(x) for x in bad):
                o = part[idx - 1]
                if (o['run'], clause) in seen:
                    continue
                seen.add((o['run'], clause))
                ctx.violation('C04:mixed:%s' % clause, {'mixed_run': mruns[o['run'] - 1], 'state': o, 'previous': part[idx - 2] if idx > 1 else None},
                              'records of different sizes, run %d step %d (%s): %s is false on the real file: size=%s limit=%s problems=%s vals=%s begun=%s' % (
                                  o['run'], o['i'], o['t'], clause, o['size'], o['limit'], o['problems'], o['vals'], o['begun']))
        ctx.cov['observed_states_checked'] = ctx.cov.get('observed_states_checked', 0) + len(mlines)

    # conformance with CounterFile.tla
    accepted, diverged = 0, []
    byfam = {}
    for k in sorted(obs):
        byfam.setdefault(runfam[k][0]['name'], []).append(k)
    for f in fams:
        remaining = list(byfam.get(f['name'], []))
        guard = 0
        while remaining and guard < 10:
            guard += 1
            tl = []
            for k in remaining:
                for o in obs[k]:
                    x = {'run': k, 'i': o['i'], 't': o['t'], 'size': o['size'], 'limit': o['limit'], 'head': o['head'], 'rec': o['rec']}
                    if o['t'] == 'kill':
                        x['victim'] = o['victim']
                    tl.append(x)
            r = ctx.tlc('MCCounterFileTrace', files={'MCCounterFileTrace.tla': mc_module(f, base='CounterFileTrace', name='MCCounterFileTrace'),
                                                     'c04trace.ndjson': ndjson_text(tl)},
                        cfg_text=mc_cfg(f, spec='TSpec', invariants=['Conform'], deadlock=True), workers=1,
                        label='CounterFileTrace[%s]' % f['name'], count=False, timeout=1500)
            if r.ok:
                accepted += len(remaining)
                break
            if r.error in ('invariant', 'deadlock') and r.trace:
                lval = r.trace[-1][1].get('l', 2)
                line = tl[min(max(lval - 2, 0), len(tl) - 1)]
                bad_run = line['run']
                diverged.append({'run': bad_run, 'family': f['name'], 'step': line['i'], 'why': r.error, 'task': line['t']})
                pos = remaining.index(bad_run)
                accepted += pos
                remaining = remaining[pos + 1:]
            else:
                raise Infra('CounterFileTrace[%s]: %s\n%s' % (f['name'], r.error, r.out[-2500:]))
    ctx.cov['traces_validated_against_impl'] += accepted
    ctx.cov['divergences'] = len(diverged)
    ctx.cov['divergence_samples'] = diverged[:5]
    for d in diverged[:10]:
        ctx.warn('MODEL-DIVERGENCE %s' % json.dumps(d))
    ctx.cov['model_results'] = model_results
    ctx.cov['rule'] = ('a case is one schedule (with kills) of one scenario family executed on the real instrumented code; schedules are TLC '
                       'counter-examples into race windows, TLC simulate walks and harness-chosen random orders with random kills')
    ctx.cov['distinct_nontrivial'] = len({(r['family'], tuple(results[r['id']].get('schedule', []))) for r in runs})
    ctx.sample({'family': runs[0]['family'], 'why': runfam[1][1], 'schedule': results[1].get('schedule', [])[:80], 'status': results[1]['status']})
