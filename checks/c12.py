"""C12 — the upload endpoint stores exactly the valid reports it is sent
(Server*.tla against the real handler chain of godev/cmd/telemetrygodev)."""
import base64
import json
import os
import random
import re

from vlib import tlaval
from vlib.core import Infra, ndjson_text

from . import _godev_util as gu

PKG = './cmd/telemetrygodev'
TEST = 'TestVerifC12'
PAD = '@@PAD@@'
PATH_TEXT = {'root': '/upload/', 'named': '/upload/2000-01-01/9.json', 'dotdot': '/upload/..%2F..%2Fx.json', 'deep': '/upload/a/b/c/d.json',
             'query': '/upload/?Week=..%2Fx&X=9'}
PATHS = sorted(PATH_TEXT.values()) + ['/upload/1999-12-31/0.25.json', '/upload/x', '/upload/2023-01-01/0.5.json', '/upload/%2e%2e/%2e%2e/x', '/upload/%00']
LW_TEXT = {0: '', 1: '2022-12-25', 2: '日本語 \u2028 é ü', 3: '<script>&amp;"\\\'</script>', 4: '../../x'}

# must equal the constants of spec/ServerMC.tla (checked against the JSON TLC writes)
DEFAULT_CONFIG = {
    'GOOS': ['linux', 'darwin'], 'GOARCH': ['amd64', 'arm64'], 'GoVersion': ['go1.20', 'go1.20.1'],
    'Programs': {
        'golang.org/x/tools/gopls': {'versions': ['v0.10.1', 'v0.11.0'],
                                     'counters': [{'prefix': 'editor:', 'buckets': ['emacs', 'vim', 'vscode', 'other']},
                                                  {'prefix': 'gopls/completion/used', 'buckets': []}],
                                     'stacks': ['gopls/bug']},
        'cmd/go': {'versions': ['go1.20', 'go1.20.1'],
                   'counters': [{'prefix': 'go/buildcache/miss:', 'buckets': ['0', '0.1', '1']},
                                {'prefix': 'go/invocations', 'buckets': []}],
                   'stacks': []},
    },
}


def canon_cfg(c):
    return {'GOOS': sorted(c['GOOS']), 'GOARCH': sorted(c['GOARCH']), 'GoVersion': sorted(c['GoVersion']),
            'Programs': {p: {'versions': sorted(v['versions']),
                             'counters': sorted(((x['prefix'], tuple(sorted(x['buckets']))) for x in v['counters'])),
                             'stacks': sorted(v['stacks'])} for p, v in c['Programs'].items()}}


def config_json(c=None):
    """The upload config file of the server, in the documented collapsed form."""
    c = c or DEFAULT_CONFIG
    progs = []
    for name in sorted(c['Programs']):
        p = c['Programs'][name]
        ent = {'Name': name, 'Versions': sorted(p['versions'])}
        cs = []
        for x in sorted(p['counters'], key=lambda x: x['prefix']):
            nm = x['prefix'] + ('{' + ','.join(sorted(x['buckets'])) + '}' if x['buckets'] else '')
            cs.append({'Name': nm, 'Rate': 0.1})
        if cs:
            ent['Counters'] = cs
        if p['stacks']:
            ent['Stacks'] = [{'Name': s, 'Rate': 1, 'Depth': 16} for s in sorted(p['stacks'])]
        progs.append(ent)
    return {'Version': 'v0.0.1-c12', 'GOOS': sorted(c['GOOS']), 'GOARCH': sorted(c['GOARCH']), 'GoVersion': sorted(c['GoVersion']),
            'SampleRate': 1, 'Programs': progs}


# ---------------------------------------------------------------- concretizer
WEEK_TEXT = {
    'empty': '', 'short': '2023-1-1', 'slash': '2023/01/01', 'trailx': '2023-01-01x', 'trailslash': '2023-01-01/',
    'trailpath': '2023-01-01/../../x', 'dotdot': '../x', 'dotdot3': '../../../x', 'dot': '.', 'abs': '/tmp/c12-x',
    'lead': ' 2023-01-01', 'trailnl': '2023-01-01\n', 'nul': '2023-01-01\x00', 'time': '2023-01-01T00:00:00Z',
    'five': '02023-01-01', 'two': '23-01-01', 'compact': '20230101', 'dmy': '01-01-2023',
    'fullwidth': '２０２３-０１-０１', 'word': 'week', 'long': '2023-01-01' + 'x' * 4990, 'percent': '%s%d%!v(MISSING)%n%',
}
NUM_TEXT = {'lead0': '01', 'empty': '', 'bad': 'latest'}
PRE_TEXT = {'none': '', 'ok': '-rc.1', 'lead0': '-01', 'empty': '-', 'bad': '-a_b'}
BUILD_TEXT = {'none': '', 'ok': '+build.5', 'empty': '+', 'bad': '+a_b'}
COUNTER_VALUES = [1, 7, 9007199254740993, -3, 0, 123456, 9223372036854775807, -9223372036854775808]


def week_text(w):
    if w['shape'] in ('iso', 'isoesc'):
        return '%04d-%02d-%02d' % (w['y'], w['m'], w['d'])
    if w['shape'] == 'absent':
        return None
    if w['shape'] not in WEEK_TEXT:
        raise Infra('no concretization for week shape %r' % w['shape'])
    return WEEK_TEXT[w['shape']]


def config_text(c):
    nums = [NUM_TEXT[k] if k != 'num' else str(i + 1) for i, k in enumerate(c['nums'])]
    return ('v' if c['v'] else '') + '.'.join(nums) + PRE_TEXT[c['pre']] + BUILD_TEXT[c['build']]


def stack_text(s):
    if not s['more']:
        return s['first']
    if s['first'] == 'gopls/bug':
        return s['first'] + '\ngolang.org/x/tools/gopls/internal/bug.report:35\nruntime.goexit:0'
    return s['first'] + '\ngopls/bug\nruntime.goexit:0'


class RawNum(str):
    """A JSON number literal (or any JSON text) to be written verbatim."""


def escaped_json_string(t):
    """t as a JSON string in which every second character is a \\uXXXX escape"""
    return RawNum('"' + ''.join(('\\u%04x' % ord(c)) if i % 2 == 0 else c for i, c in enumerate(t)) + '"')


def program_obj(p):
    if p['nil']:
        return None
    o = {'Program': p['program'], 'Version': p['version'], 'GoVersion': p['goversion'], 'GOOS': p['goos'], 'GOARCH': p['goarch']}
    if p['program'] == '':
        # a partial program object: absent keys instead of empty strings
        o = {k: v for k, v in o.items() if v != ''}
    # an empty map is written in one of three ways: key absent, {}, null
    how = (len(p['version']) + len(p['goos']) + len(p['goarch'])) % 3
    cs = sorted(p['counters'])
    if cs:
        o['Counters'] = {c: COUNTER_VALUES[(i + how) % len(COUNTER_VALUES)] for i, c in enumerate(cs)}
    elif how:
        o['Counters'] = {} if how == 1 else None
    ss = sorted(stack_text(s) for s in p['stacks'])
    if ss:
        o['Stacks'] = {s: i + 1 for i, s in enumerate(ss)}
    elif how == 2:
        o['Stacks'] = {}
    return o


def report_fields(r):
    """Ordered (name, value) pairs of the report a request abstract stands for."""
    f = []
    w = week_text(r['week'])
    if w is not None:
        f.append(('Week', escaped_json_string(w) if r['week']['shape'] == 'isoesc' else w))
    lw = LW_TEXT[r.get('tag') or 0]
    if r.get('pad') == 'lastweek':
        lw = lw + PAD
    f.append(('LastWeek', lw))
    if r['x']['lit'] != 'absent':
        f.append(('X', RawNum(r['x']['lit'])))
    if r['pform'] == 'null':
        f.append(('Programs', None))
    elif r['pform'] == 'list':
        f.append(('Programs', [program_obj(p) for p in r['programs']]))
    f.append(('Config', config_text(r['config'])))
    return f


def pretty(v, ind=1):
    """JSON text laid out the other way: CRLF line ends, tab indentation, blanks around colons"""
    nl = '\r\n' + '\t' * ind
    if isinstance(v, RawNum):
        return str(v)
    if isinstance(v, dict):
        if not v:
            return '{ }'
        return '{' + nl + (',' + nl).join(json.dumps(k, ensure_ascii=False) + ' : ' + pretty(x, ind + 1) for k, x in v.items()) + '\r\n' + '\t' * (ind - 1) + '}'
    if isinstance(v, list):
        if not v:
            return '[ ]'
        return '[' + nl + (',' + nl).join(pretty(x, ind + 1) for x in v) + '\r\n' + '\t' * (ind - 1) + ']'
    return json.dumps(v, ensure_ascii=False)


def dumps(v):
    if isinstance(v, RawNum):
        return str(v)
    if isinstance(v, dict):
        return '{' + ','.join(json.dumps(k) + ':' + dumps(x) for k, x in v.items()) + '}'
    if isinstance(v, list):
        return '[' + ','.join(dumps(x) for x in v) + ']'
    return json.dumps(v)


def fields_json(fields, layout='compact'):
    if layout == 'trailing':      # a complete report, then a second JSON value and text
        return fields_json(fields) + b'\n{"Week":"../../x","X":1,"Config":"v9.9.9"}\n trailing bytes'
    if layout == 'unknown':       # a field no report has, in the middle
        fields = fields[:2] + [('Unknown', {'Week': '../x', 'n': [1, 2, None]})] + fields[2:]
    if layout == 'dupkey':        # Week twice: the first one hostile, the last one counts
        fields = [('Week', '../../x')] + fields
    if layout == 'reversed':
        fields = list(reversed(fields))
    if layout == 'pretty':
        return (' \r\n' + pretty(dict(fields)) + '\r\n').replace('\r\n}\r\n', '\r\n}').encode('utf-8')
    return ('{' + ','.join(json.dumps(k) + ':' + dumps(v) for k, v in fields) + '}').encode('utf-8')


VALID_BODY = (b'{"Week":"2023-01-01","LastWeek":"","X":0.5,"Programs":[{"Program":"golang.org/x/tools/gopls","Version":"v0.10.1",'
              b'"GoVersion":"go1.20","GOOS":"linux","GOARCH":"amd64","Counters":{"editor:vim":1}}],"Config":"v1.2.3"}')


def _with(old, new):
    assert old in VALID_BODY
    return VALID_BODY.replace(old, new)


GARBAGE = {
    'empty': b'', 'nobody': b'', 'notjson': b'hello', 'binary': bytes([0xff, 0xfe, 0x00, 0x01, 0x80, 0x7b]),
    'form': b'Week=2023-01-01&X=0.5&Config=v1.2.3', 'truncated': VALID_BODY[:len(VALID_BODY) // 2], 'truncated1': VALID_BODY[:-1],
    'unclosed-string': b'{"Week":"2023-01-01', 'wrongtype-week': _with(b'"Week":"2023-01-01"', b'"Week":20230101'),
    'wrongtype-x': _with(b'"X":0.5', b'"X":"0.5"'), 'wrongtype-config': _with(b'"Config":"v1.2.3"', b'"Config":1'),
    'wrongtype-programs': _with(b'"Programs":[', b'"Programs":{"a":[').replace(b'}],"Config"', b'}]},"Config"'),
    'wrongtype-program': b'{"Week":"2023-01-01","LastWeek":"","X":0.5,"Programs":["cmd/go"],"Config":"v1.2.3"}',
    'wrongtype-counters': _with(b'"Counters":{"editor:vim":1}', b'"Counters":["editor:vim"]'),
    'wrongtype-counter': _with(b'{"editor:vim":1}', b'{"editor:vim":"1"}'),
    'counter-float': _with(b'{"editor:vim":1}', b'{"editor:vim":1.5}'),
    'counter-overflow': _with(b'{"editor:vim":1}', b'{"editor:vim":9223372036854775808}'),
    'array': b'[' + VALID_BODY + b']', 'string': b'"2023-01-01"', 'number': b'5', 'null': b'null', 'emptyobj': b'{}', 'true': b'true',
    'deep': b'[' * 20000,
}
PAD_TARGET = {'lim-1': (1, -1), 'lim': (1, 0), 'lim+1': (1, 1), '3lim': (3, 0)}


def concretize(r, idx=0):
    """abstract request (TLA+ record as dict) -> harness step"""
    step = {'method': r['method'], 'path': PATH_TEXT[r['path']] if r.get('path') in PATH_TEXT else PATHS[idx % len(PATHS)]}
    pad = None
    if r['kind'] == 'garbage':
        if r['gshape'] not in GARBAGE:
            raise Infra('no concretization for garbage shape %r' % r['gshape'])
        body = GARBAGE[r['gshape']]
        if r['gshape'] == 'nobody' and r['lenc'] == 'small':
            step['nobody'] = True
        if r['lenc'] != 'small':
            body = body + PAD.encode()
            pad = 'x'
    else:
        body = fields_json(report_fields(r), r.get('layout', 'compact'))
        if r['pad'] == 'lastweek':
            pad = 'w'
        elif r['pad'] == 'lead':
            body = PAD.encode() + body
            pad = ' '
    if pad is not None:
        mul, add = PAD_TARGET[r['lenc']]
        step['pad'] = {'mul': mul, 'add': add, 'char': pad}
    if not r.get('declared', True) and not step.get('nobody'):
        step['undeclared'] = True
    step['body64'] = base64.b64encode(body).decode()
    return step


def model_key(r):
    """object key (week text, X as float) of a request the model stores"""
    return (week_text(r['week']), float(r['x']['val']))


_name_re = re.compile(r'([^/]+)/([^/]+)\.json')


def listing_keys(paths, prefix):
    """names below the bucket -> ({(week text, float X)}, [unparseable names])"""
    keys, bad = set(), []
    for p in paths:
        m = _name_re.fullmatch(p[len(prefix):]) if p.startswith(prefix) else None
        if not m:
            bad.append(p)
            continue
        try:
            x = float(m.group(2))
        except ValueError:
            bad.append(p)
            continue
        keys.add((m.group(1), x))
    return keys, bad


def devclass(r, dec=None):
    """short name of what is wrong with a request: the narrow part of a signature"""
    if r['kind'] == 'garbage':
        return 'garbage:' + r['gshape']
    out = []
    if r['method'] != 'POST':
        out.append('method')
    if r.get('lenc', 'small') in ('lim+1', '3lim') or r.get('toolarge'):
        out.append('oversize' if r.get('declared', True) else 'oversize-undeclared-length')
    if r['week']['shape'] not in ('iso', 'isoesc'):
        out.append('week-shape')
    elif not valid_date(r['week']['y'], r['week']['m'], r['week']['d']):
        out.append('week-date')
    c = r['config']
    if not (c['v'] and list(c['nums']) == ['num'] * 3 and c['pre'] in ('none', 'ok') and c['build'] in ('none', 'ok')):
        out.append('config')
    if r['x']['kind'] != 'nonzero':
        out.append('x-' + r['x']['kind'])
    if r.get('layout') in ('trailing', 'unknown', 'dupkey'):
        out.append('layout-' + r['layout'])
    if r['pform'] == 'list':
        if any(p['nil'] for p in r['programs']):
            out.append('programs-null-element')
        elif not all(approved(p) for p in r['programs']):
            out.append('programs-unapproved')
    return '+'.join(out) if out else 'valid'


# label helpers only (signatures / samples); the verdicts come from Server.tla
def valid_date(y, m, d):
    if not (1 <= y <= 9999 and 1 <= m <= 12 and d >= 1):
        return False
    leap = (y % 4 == 0 and y % 100 != 0) or y % 400 == 0
    return d <= [31, 29 if leap else 28, 31, 30, 31, 30, 31, 31, 30, 31, 30, 31][m - 1]


def approved(p, cfg=DEFAULT_CONFIG):
    pc = cfg['Programs'].get(p['program'])
    if pc is None:
        return False
    cs = set()
    for c in pc['counters']:
        cs |= {c['prefix'] + b for b in c['buckets']} if c['buckets'] else {c['prefix']}
    return (p['version'] in pc['versions'] and p['goversion'] in cfg['GoVersion'] and p['goos'] in cfg['GOOS'] and p['goarch'] in cfg['GOARCH']
            and set(p['counters']) <= cs and {s['first'] for s in p['stacks']} <= set(pc['stacks']))


# ------------------------------------------------------- judging one observation
def status_class(code):
    return '%dxx' % (code // 100) if isinstance(code, int) and 100 <= code < 600 else 'other'


def judge(ctx, r, dec, obs, prior, prefix, where):
    """Compare one observed step with what Server.tla allows for request r
    with decision `dec` on bucket `prior` (set of object keys).  Reports
    violations; returns the bucket after the step according to the model
    (None if the step did not match)."""
    cls = devclass(r)
    detail = {'request': {k: r[k] for k in ('method', 'kind', 'gshape', 'week', 'config', 'x', 'pform', 'programs', 'lenc', 'pad', 'declared') if k in r},
              'decision': dec, 'observed': {k: v for k, v in obs.items() if k not in ('listing',)}, 'where': where,
              'prior_bucket': sorted(map(str, prior)), 'body': body_preview(r)}
    sc = status_class(obs.get('status'))
    if obs.get('hang'):
        ctx.violation('C12:upload:hang:%s' % cls, detail, '%s: request (%s) did not return within 60 s' % (where, cls))
        return None
    if obs.get('panic'):
        ctx.violation('C12:upload:panic:%s' % cls, detail, '%s: request (%s) made the handler chain panic: %s' % (where, cls, obs['panic']))
        return None
    touched = obs['created'] + obs['changed'] + obs['removed'] + obs.get('dirs_created', []) + obs.get('dirs_removed', [])
    ok = True
    if sc == '5xx':
        ctx.violation('C12:upload:5xx:%s' % sig5(cls), detail, '%s: %s %s with body class [%s] answered %s (%s); no input may produce a 5xx answer' % (
            where, r['method'], 'report' if r['kind'] == 'report' else 'garbage', cls, obs['status'], (obs.get('resp') or '').strip()[:80]))
        ok = False
    outside = [p for p in touched if not p.startswith(prefix)]
    if outside:
        ctx.violation('C12:upload:outside-bucket:%s' % cls, detail, '%s: request (%s) created or changed %s outside the upload bucket' % (where, cls, outside))
        ok = False
    keys_after, badnames = listing_keys(obs['listing'], prefix)
    inside_touched, _ = listing_keys([p for p in obs['created'] + obs['changed'] if p.startswith(prefix)], prefix)
    key = model_key(r) if dec != 'reject' else None
    # which outcome did the real code choose?
    did_store = sc == '2xx' if dec == 'either' else dec == 'store'
    if did_store:
        want_after = set(prior) | {key}
        if sc != '2xx':
            if sc != '5xx':
                ctx.violation('C12:upload:valid-rejected:%s' % cls, detail, '%s: valid report (%s) answered %s %s' % (
                    where, cls, obs['status'], (obs.get('resp') or '').strip()[:100]))
            ok = False
        if badnames or keys_after != want_after:
            extra = sorted(map(str, keys_after - want_after)) + badnames
            missing = sorted(map(str, want_after - keys_after))
            ctx.violation('C12:upload:store-name:%s' % cls, dict(detail, unexpected=extra, missing=missing),
                          '%s: valid report (%s): bucket should hold the object named by week %r and X %r; unexpected %s missing %s' % (
                              where, cls, key[0], key[1], extra, missing))
            ok = False
        elif dir_problem(obs, want_after, prefix):
            ctx.violation('C12:upload:store-directories:%s' % cls, detail, '%s: valid report (%s): %s' % (where, cls, dir_problem(obs, want_after, prefix)))
            ok = False
        else:
            if not inside_touched <= {key} or (key not in prior and key not in inside_touched) or obs['removed']:
                ctx.violation('C12:upload:store-effect:%s' % cls, detail, '%s: valid report (%s): objects created/changed %s, expected only %s; removed %s' % (
                    where, cls, sorted(map(str, inside_touched)), key, obs['removed']))
                ok = False
            mkeys, _ = listing_keys(obs.get('matches') or [], prefix)
            if key not in mkeys:
                why = [s for s in (obs.get('stored') or [])]
                ctx.violation('C12:upload:roundtrip:%s' % cls, dict(detail, stored=why),
                              '%s: the object named by week %r and X %r does not decode to the report that was sent (%s)' % (
                                  where, key[0], key[1], '; '.join(str(x.get('decode_err') or x.get('request_decode_err') or 'fields differ') for x in why) or 'object not rewritten'))
                ok = False
        return want_after if ok else None
    # rejected
    if sc not in ('4xx', '5xx'):
        ctx.violation('C12:upload:invalid-accepted:%s' % cls, detail, '%s: request (%s) must be refused with 4xx but answered %s' % (where, cls, obs.get('status')))
        ok = False
    if touched:
        what = 'stored' if obs['created'] or obs['changed'] else 'removed' if obs['removed'] else 'created-directory' if obs.get('dirs_created') else 'removed-directory'
        ctx.violation('C12:upload:reject-%s:%s' % (what, cls), detail, '%s: request (%s, status %s) must create or change nothing but created %s changed %s removed %s; directories created %s removed %s' % (
            where, cls, obs.get('status'), obs['created'], obs['changed'], obs['removed'], obs.get('dirs_created'), obs.get('dirs_removed')))
        ok = False
    return set(prior) if ok else None


def ndev(req, primary):
    """in how many of the nine fields a report request differs from the primary one"""
    if req['kind'] != 'report':
        return 0
    n = sum(1 for f in ('method', 'week', 'config', 'x', 'path', 'layout') if req[f] != primary[f])
    n += req['tag'] != 0
    n += (req['pform'], req['programs']) != (primary['pform'], primary['programs'])
    n += (req['lenc'], req['pad'], req['declared']) != (primary['lenc'], primary['pad'], primary['declared'])
    return n


def sig5(cls):
    """5xx signatures: one class for every report that carries a null program"""
    return 'programs-null-element' if 'programs-null-element' in cls else cls


def dir_problem(obs, keys, prefix):
    """The only directories below the bucket directory are those of the weeks of
    the stored objects (Dirs(bucket) of Server.tla); '' if that holds."""
    want = {prefix + k[0] + '/' for k in keys}
    got = set(obs.get('dirs') or [])
    if got != want:
        return 'directories below the bucket should be %s; unexpected %s missing %s' % (sorted(want), sorted(got - want), sorted(want - got))
    return ''


def body_preview(r):
    try:
        st = concretize(r)
        return base64.b64decode(st['body64'])[:300].decode('latin-1')
    except Exception as e:  # noqa
        return '?'


def steps_of(recs):
    out = {}
    for x in recs:
        if x.get('kind') == 'step':
            out[(x['id'], x['i'])] = x
    return out


# -------------------------------------------------------------- random requests
class Gen:
    """Random concrete reports with their abstraction (tokenizers written here,
    independent of the server's parsers)."""

    def __init__(self, seed, cfg):
        self.r = random.Random(seed)
        self.cfg = cfg
        self.progs = sorted(cfg['Programs'])

    # ---- week
    def week(self):
        r = self.r
        k = r.random()
        if k < 0.5:
            y = r.choice([r.randint(1, 9999), r.randint(1990, 2040), 2024, 2023, 2000, 1900])
            m = r.randint(1, 12)
            d = r.randint(1, 28) if r.random() < 0.6 else r.randint(28, 31)
            return '%04d-%02d-%02d' % (y, m, d)
        if k < 0.6:
            return '%04d-%02d-%02d' % (r.choice([0, 2023, 2024, 1900, 2100]), r.choice([0, 2, 13, 12, 6]), r.choice([0, 29, 30, 31, 32, 99]))
        if k < 0.7:
            w = '%04d-%02d-%02d' % (r.randint(2000, 2030), r.randint(1, 12), r.randint(1, 28))
            return r.choice([w + 'x', ' ' + w, w + ' ', w + '\n', w[2:], w.replace('-', '/'), w.replace('-', ''), w + 'T00:00:00Z', w + '/', w + '/..',
                             w + '/../..', w + '/../../' + r.choice(['x', 'etc/passwd']), w.replace('0', 'O', 1), '+' + w, w[:5] + w[6:], w.upper() + '\t'])
        if k < 0.85:
            n = r.randint(1, 5)
            return '/'.join(r.choice(['..', '..', '.', 'x', '', '2023-01-01', 'tmp']) for _ in range(n))
        return r.choice(['', 'week', '2023', 'null', '0', '..', '/', '\\..\\x', '2023-W01', '2023-01', '%2e%2e%2fx', '٢٠٢٣-01-01'])

    @staticmethod
    def abs_week(t):
        if t is None:
            return {'shape': 'absent', 'y': 0, 'm': 0, 'd': 0, 'path': []}
        m = re.fullmatch(r'([0-9]{4})-([0-9]{2})-([0-9]{2})', t)
        if m:
            return {'shape': 'iso', 'y': int(m.group(1)), 'm': int(m.group(2)), 'd': int(m.group(3)), 'path': ['n']}
        path = []
        if t != '':
            for c in t.split('/'):
                path.append('dd' if c == '..' else 'd' if c == '.' else 'e' if c == '' else 'n')
        return {'shape': 'other', 'y': 0, 'm': 0, 'd': 0, 'path': path}

    # ---- config
    def config(self):
        r = self.r
        num = lambda: r.choice(['0', '1', '2', '10', '17', '123456789012345678901234567890'])  # noqa
        ident = lambda: r.choice(['rc', 'alpha', '1', '0', 'x-y', '20230822160736', '17171dbf1d76', 'beta2', '-'])  # noqa
        s = 'v%s.%s.%s' % (num(), num(), num())
        if r.random() < 0.4:
            s += '-' + '.'.join(ident() for _ in range(r.randint(1, 3)))
        if r.random() < 0.25:
            s += '+' + '.'.join(ident() for _ in range(r.randint(1, 2)))
        k = r.random()
        if k < 0.6:
            return s
        muts = [lambda s: s[1:], lambda s: 'V' + s[1:], lambda s: s + '.4' if '-' not in s and '+' not in s else s + '..', lambda s: s.replace('.', '.0', 1),
                lambda s: s + '-', lambda s: s + '+', lambda s: s + '-01', lambda s: s + '_', lambda s: ' ' + s, lambda s: s + '\n', lambda s: s.replace('.', '..', 1),
                lambda s: 'v' + s, lambda s: s.split('.')[0], lambda s: '.'.join(s.split('-')[0].split('+')[0].split('.')[:2]), lambda s: '', lambda s: 'latest',
                lambda s: s.replace('v', 'v-', 1), lambda s: s + '-é', lambda s: s + '+a+b', lambda s: 'v1.2.3-rc..1', lambda s: 'v1.2.x']
        return r.choice(muts)(s)

    @staticmethod
    def abs_config(t):
        if t is None:
            t = ''
        v = t.startswith('v')
        rest = t[1:] if v else t
        build = None
        if '+' in rest:
            rest, build = rest.split('+', 1)
        pre = None
        if '-' in rest:
            rest, pre = rest.split('-', 1)

        def numc(s):
            if s == '':
                return 'empty'
            if re.fullmatch(r'[0-9]+', s):
                return 'num' if s == '0' or s[0] != '0' else 'lead0'
            return 'bad'

        def idents(s, numeric_rule):
            if s is None:
                return 'none'
            worst = 'ok'
            for i in s.split('.'):
                if i == '':
                    c = 'empty'
                elif not re.fullmatch(r'[0-9A-Za-z-]+', i):
                    c = 'bad'
                elif numeric_rule and re.fullmatch(r'[0-9]+', i) and len(i) > 1 and i[0] == '0':
                    c = 'lead0'
                else:
                    c = 'ok'
                if c != 'ok':
                    worst = c if worst == 'ok' or c == 'bad' else worst
            return worst
        b = idents(build, False)
        return {'v': v, 'nums': [numc(x) for x in rest.split('.')], 'pre': idents(pre, True), 'build': b}

    # ---- X
    def x(self):
        r = self.r
        k = r.random()
        if k < 0.12:
            return r.choice(['0', '-0', '0.0', '0e5', '0.000', '-0.0e-3', 'absent'])
        if k < 0.2:
            return r.choice(['1e999', '-1e400', '1e-999', '123e-400', '1e309', '2e-324'])
        if k < 0.3:
            return r.choice(['1', '-1', '1e308', '1.7976931348623157e308', '5e-324', '1e-7', '0.1', '1E+2', '1e21', '1e20', '123456789', '0.000001', '1e-5'])
        if k < 0.8:
            return repr(r.random())
        f = r.uniform(-1, 1) * 10 ** r.randint(-30, 30)
        return repr(f) if f != 0 else '0.5'

    @staticmethod
    def abs_x(lit):
        if lit == 'absent':
            return {'kind': 'zero', 'val': '0', 'lit': lit}
        f = float(lit)
        if f in (float('inf'), float('-inf')):
            return {'kind': 'overflow', 'val': repr(f), 'lit': lit}
        if f == 0:
            mant = re.split(r'[eE]', lit)[0]
            if re.search(r'[1-9]', mant):
                return {'kind': 'underflow', 'val': '0', 'lit': lit}
            return {'kind': 'zero', 'val': '0', 'lit': lit}
        return {'kind': 'nonzero', 'val': repr(f), 'lit': lit}

    # ---- programs
    def program(self):
        r = self.r
        name = r.choice(self.progs)
        pc = self.cfg['Programs'][name]
        counters = []
        for c in pc['counters']:
            counters += [c['prefix'] + b for b in c['buckets']] if c['buckets'] else [c['prefix']]
        p = {'nil': False, 'program': name, 'version': r.choice(pc['versions']), 'goversion': r.choice(self.cfg['GoVersion']),
             'goos': r.choice(self.cfg['GOOS']), 'goarch': r.choice(self.cfg['GOARCH']),
             'counters': sorted(set(r.sample(counters, r.randint(0, min(3, len(counters)))))), 'stacks': []}
        if pc['stacks'] and r.random() < 0.5:
            p['stacks'] = [{'first': r.choice(pc['stacks']), 'more': r.random() < 0.7}]
        if r.random() < 0.3:
            f = r.choice(['program', 'version', 'goversion', 'goos', 'goarch', 'counter', 'stack'])
            other = [q for q in self.progs if q != name]
            if f == 'program':
                p['program'] = r.choice(other + [name + 'x', name.upper(), '', name + '/'])
            elif f == 'version':
                p['version'] = r.choice(self.cfg['Programs'][other[0]]['versions'] + ['v9.9.9', '', p['version'] + '-pre', 'devel'])
            elif f == 'goversion':
                p['goversion'] = r.choice(['go1.19', 'go1.20.2', '', 'devel', p['goversion'] + ' ', 'go1.2'])
            elif f == 'goos':
                p['goos'] = r.choice(['windows', 'plan9', '', p['goarch'], p['goos'].upper(), 'linux/amd64'])
            elif f == 'goarch':
                p['goarch'] = r.choice(['386', 'riscv64', '', p['goos'], p['goarch'] + ' ', 'amd64p32'])
            elif f == 'counter':
                oc = self.cfg['Programs'][other[0]]['counters']
                o = oc[0]['prefix'] + (oc[0]['buckets'][0] if oc[0]['buckets'] else '')
                c0 = pc['counters'][0]
                p['counters'] = sorted(set(p['counters'] + [r.choice([o, c0['prefix'], c0['prefix'] + 'zzz', c0['prefix'] + '{' + ','.join(sorted(c0['buckets'])) + '}',
                                                                    'unknown', '', (pc['stacks'] or ['s'])[0], counters[0] + ' ', counters[0].upper()])]))
            else:
                p['stacks'] = p['stacks'] + [{'first': r.choice(['unknown/stack', '', counters[0], 'gopls/bug' if name != 'golang.org/x/tools/gopls' else 'gopls/bu',
                                                                  'gopls/bug ', 'gopls']), 'more': r.random() < 0.7}]
                # distinct first lines only (a stack map cannot hold the same name twice)
                seen, out = set(), []
                for s in p['stacks']:
                    if stack_text(s) not in seen:
                        seen.add(stack_text(s))
                        out.append(s)
                p['stacks'] = out
        return p

    def programs(self):
        r = self.r
        k = r.random()
        if k < 0.08:
            return 'absent', []
        if k < 0.16:
            return 'null', []
        n = r.choice([0, 1, 1, 1, 2, 2, 3])
        if r.random() < 0.03:
            n = r.randint(30, 120)      # many program entries
        ps = [self.program() for _ in range(n)]
        if r.random() < 0.06:
            ps.insert(r.randint(0, len(ps)), {'nil': True, 'program': '', 'version': '', 'goversion': '', 'goos': '', 'goarch': '', 'counters': [], 'stacks': []})
        return 'list', ps

    def request(self):
        """-> (abstract request, harness step)"""
        r = self.r
        method = 'POST' if r.random() < 0.88 else r.choice(['GET', 'PUT', 'HEAD', 'DELETE', 'PATCH', 'OPTIONS', 'post', 'Post', 'POSTS', 'TRACE'])
        if r.random() < 0.12:
            return self.garbage(method)
        wt = None if r.random() < 0.03 else self.week()
        ct = None if r.random() < 0.03 else self.config()
        xl = self.x()
        pform, ps = self.programs()
        # make a good share of the requests valid: repair fields at random
        if r.random() < 0.45:
            wt = '%04d-%02d-%02d' % (r.choice([2023, 2024, r.randint(1, 9999)]), r.randint(1, 12), r.randint(1, 28))
            if r.random() < 0.5:
                wt = r.choice(['2023-01-01', '2024-02-29', '2023-06-30'])
            ct = r.choice(['v1.2.3', 'v0.0.1-test', 'v0.0.0-20230822160736-17171dbf1d76', 'v1.0.0+meta'])
            if self.abs_x(xl)['kind'] != 'nonzero' or r.random() < 0.5:
                xl = r.choice(['0.5', '0.25', '5e-1', '1', '0.125'])
        fields = []
        if wt is not None:
            fields.append(('Week', wt))
        lastweek = r.choice(['', '', '2022-12-25', '../../x', 'x' * r.randint(1, 50), LW_TEXT[2], LW_TEXT[3], 'tab\there \u00e9\u0000 nul'])
        sizecls = 'small'
        k = r.random()
        pad = None
        if k < 0.05:
            sizecls, lastweek = 'pad', PAD
            pad = {'mul': 1, 'add': r.choice([-2, -1, 0, 1, 2, 1000, -1000]), 'char': 'w'}
        elif k < 0.07:
            sizecls, lastweek = 'pad', PAD
            pad = {'mul': r.choice([2, 3]), 'add': r.randint(-5, 5), 'char': 'w'}
        fields.append(('LastWeek', lastweek))
        if xl != 'absent':
            fields.append(('X', RawNum(xl)))
        absr = {'kind': 'report', 'gshape': '-', 'method': method, 'week': self.abs_week(wt), 'config': self.abs_config(ct), 'x': self.abs_x(xl),
                'pform': pform, 'programs': ps, 'tag': 0}
        if pform == 'null':
            fields.append(('Programs', None))
        elif pform == 'list':
            fields.append(('Programs', [program_obj(p) for p in ps]))
        if ct is not None:
            fields.append(('Config', ct))
        if r.random() < 0.3:
            r.shuffle(fields)
        body = fields_json(fields, 'pretty' if r.random() < 0.15 else 'compact')
        if pad is None and r.random() < 0.03:
            body = PAD.encode() + body
            pad = {'mul': 1, 'add': r.choice([-1, 0, 1, 50]), 'char': r.choice([' ', '\n', '\t'])}
        step = {'method': method, 'path': r.choice(PATHS), 'body64': base64.b64encode(body).decode()}
        if pad:
            step['pad'] = pad
        # the length is announced (Content-Length) or not (chunked): half of the padded bodies, a fifth of the others
        absr['declared'] = not (r.random() < (0.5 if pad else 0.2))
        if not absr['declared']:
            step['undeclared'] = True
        absr['_len'] = (len(body), pad)       # resolved to a number once the server's limit is known
        absr['_text'] = {'week': wt, 'config': ct, 'x': xl}
        return absr, step

    def garbage(self, method):
        r = self.r
        base, _ = None, None
        for _ in range(20):
            a, st = self.request_valid()
            body = base64.b64decode(st['body64'])
            k = r.random()
            if k < 0.4:
                g = body[:r.randint(0, len(body) - 1)]
            elif k < 0.7:
                b = bytearray(body)
                for _ in range(r.randint(1, 3)):
                    b[r.randrange(len(b))] = r.choice(b'{}[]",:x\x00\xff \\')
                g = bytes(b)
            elif k < 0.85:
                g = bytes(r.randrange(256) for _ in range(r.randint(1, 200)))
            else:
                g = r.choice([b'', b'[]', b'"x"', b'12', b'nul', b'{"Week":}', b'{"Week":"2023-01-01",}', b"{'Week':'2023-01-01'}", b'\xef\xbb\xbf' + body,
                              b'{"Week":"2023-01-01" "X":1}', b'{"X":0.5e}', b'{"X":.5}', b'{"X":01}', b'{"X":+1}', b'{"X":0x10}', b'{"X":NaN}', b'{"X":Infinity}'])
            if not first_value_decodes(g):
                absr = {'kind': 'garbage', 'gshape': 'random', 'method': method, 'week': self.abs_week('2023-01-01'), 'config': self.abs_config('v1.2.3'),
                        'x': self.abs_x('0.5'), 'pform': 'absent', 'programs': [], 'tag': 0, '_len': (len(g), None), '_text': {},
                        'declared': r.random() < 0.8}
                stp = {'method': method, 'path': r.choice(PATHS), 'body64': base64.b64encode(g).decode()}
                if not absr['declared']:
                    stp['undeclared'] = True
                return absr, stp
        return self.request_valid()

    def request_valid(self):
        for _ in range(1000):
            a, st = self.request()
            if a['kind'] == 'report' and 'pad' not in st:
                return a, st
        raise Infra('generator produced no plain report')


_ws = ' \t\r\n'


def first_value_decodes(b):
    """True if some prefix of the bytes is a complete JSON value for a lenient
    decoder (then the body is NOT used as garbage: the server reads the first
    value only)."""
    s = b.decode('latin-1').lstrip(_ws)
    if s == '':
        return False
    try:
        json.JSONDecoder(strict=False).raw_decode(s)
        return True
    except ValueError:
        return False


def resolve_len(absr, limit):
    n, pad = absr.pop('_len')
    if pad:
        n = pad['mul'] * limit + pad['add']
    absr['len'] = n
    absr['toolarge'] = n > limit
    return absr


def trace_record(absr, obs, prefix):
    """abstract one observed step into the vocabulary of ServerTrace.tla"""
    def keyrec(k):
        w = Gen.abs_week(k[0])
        return {'y': w['y'], 'm': w['m'], 'd': w['d'], 'x': repr(k[1]), '_iso': w['shape'] == 'iso'}
    touched = obs['created'] + obs['changed'] + obs['removed'] + obs.get('dirs_created', []) + obs.get('dirs_removed', [])
    outside = any(not p.startswith(prefix) for p in touched)
    before_paths = sorted((set(obs['listing']) - set(obs['created'])) | set(p for p in obs['removed'] if p.startswith(prefix)))
    kb, bad1 = listing_keys(before_paths, prefix)
    ka, bad2 = listing_keys(obs['listing'], prefix)
    kt, bad3 = listing_keys([p for p in obs['created'] + obs['changed'] if p.startswith(prefix)], prefix)
    recs = {n: [keyrec(k) for k in sorted(ks)] for n, ks in (('before', kb), ('after', ka), ('touched', kt))}
    badnames = bool(bad1 or bad2 or bad3) or any(not k['_iso'] for v in recs.values() for k in v) or bool(obs['removed'])
    for v in recs.values():
        for k in v:
            k.pop('_iso')
    km, _bad = listing_keys(obs.get('matches') or [], prefix)
    recs['matches'] = [keyrec(k) for k in sorted(km)]
    for k in recs['matches']:
        k.pop('_iso')
    dirs = []
    for dpath in obs.get('dirs') or []:
        w = Gen.abs_week(dpath[len(prefix):].rstrip('/'))
        if w['shape'] != 'iso':
            badnames = True
        dirs.append({'y': w['y'], 'm': w['m'], 'd': w['d']})
    req = {k: absr[k] for k in ('kind', 'method', 'week', 'config', 'pform', 'len', 'declared')}
    req['layout'] = absr.get('layout', 'compact')
    req['x'] = {'kind': absr['x']['kind'], 'val': absr['x']['val']}
    req['programs'] = absr['programs']
    sc = status_class(obs.get('status'))
    if obs.get('panic') or obs.get('hang'):
        sc = 'crash'
    return {'op': 'req', 'req': req, 'status': sc, 'before': recs['before'], 'after': recs['after'], 'touched': recs['touched'],
            'matches': recs['matches'], 'dirs': dirs, 'outside': outside, 'badnames': badnames}


# ------------------------------------------------------- requests in flight together
def judge_round(ctx, reqs, decs, obs, prior, prefix, where):
    """One round: the requests `reqs` (decisions `decs`) were released together.
    Every answer must be the one its decision gives; afterwards the bucket
    holds prior + the stored names, each stored object decodes to a report
    that was sent for that name, nothing else was touched.  Returns the key
    set after the round (None on a mismatch)."""
    cls = '+'.join(sorted(set(devclass(r) for r in reqs)))
    detail = {'where': where, 'requests': [{'method': r['method'], 'class': devclass(r), 'decision': d, 'body': body_preview(r)[:160]} for r, d in zip(reqs, decs)],
              'observed': {k: v for k, v in obs.items() if k != 'listing'}, 'prior_bucket': sorted(map(str, prior))}
    n = len(reqs)
    if obs.get('hang'):
        ctx.violation('C12:upload:concurrent:hang', detail, '%s: %d requests in flight together did not return within 60 s' % (where, n))
        return None
    ok = True
    for i, (r, d) in enumerate(zip(reqs, decs)):
        sc = status_class(obs['status'][i])
        if obs['panics'][i]:
            ctx.violation('C12:upload:concurrent:panic', detail, '%s: request %d of %d in flight together panicked: %s' % (where, i, n, obs['panics'][i]))
            ok = False
        elif sc == '5xx':
            ctx.violation('C12:upload:concurrent:5xx:%s' % devclass(r), detail, '%s: %s request (%s), one of %d in flight together, answered %s; no input may produce a 5xx answer' % (
                where, r['method'], devclass(r), n, obs['status'][i]))
            ok = False
        elif sc != ('2xx' if d == 'store' else '4xx'):
            ctx.violation('C12:upload:concurrent:status:%s' % devclass(r), detail, '%s: %s request (%s, decision %s), one of %d in flight together, answered %s' % (
                where, r['method'], devclass(r), d, n, obs['status'][i]))
            ok = False
    touched = obs['created'] + obs['changed'] + obs['removed'] + obs.get('dirs_created', []) + obs.get('dirs_removed', [])
    outside = [p for p in touched if not p.startswith(prefix)]
    if outside:
        ctx.violation('C12:upload:concurrent:outside-bucket', detail, '%s: %d requests in flight together created or changed %s outside the upload bucket' % (where, n, outside))
        ok = False
    storing = {}
    for i, (r, d) in enumerate(zip(reqs, decs)):
        if d == 'store':
            storing.setdefault(model_key(r), []).append(i)
    want_after = set(prior) | set(storing)
    keys_after, badnames = listing_keys(obs['listing'], prefix)
    inside_touched, _ = listing_keys([p for p in obs['created'] + obs['changed'] if p.startswith(prefix)], prefix)
    if badnames or keys_after != want_after or obs['removed']:
        ctx.violation('C12:upload:concurrent:bucket', dict(detail, unexpected=sorted(map(str, keys_after - want_after)) + badnames, missing=sorted(map(str, want_after - keys_after))),
                      '%s: after %d requests in flight together (%s) the bucket should hold %s; unexpected %s missing %s removed %s' % (
                          where, n, cls, sorted(map(str, want_after)), sorted(map(str, keys_after - want_after)) + badnames, sorted(map(str, want_after - keys_after)), obs['removed']))
        return None
    if dir_problem(obs, want_after, prefix):
        ctx.violation('C12:upload:concurrent:directories', detail, '%s: %s' % (where, dir_problem(obs, want_after, prefix)))
        ok = False
    if not inside_touched <= set(storing):
        ctx.violation('C12:upload:concurrent:effect', detail, '%s: %d requests in flight together changed %s, only %s are named by accepted reports' % (
            where, n, sorted(map(str, inside_touched - set(storing))), sorted(map(str, storing))))
        ok = False
    for key, idxs in storing.items():
        good = False
        for i in idxs:
            mk, _ = listing_keys(obs['matches'][i], prefix)
            good = good or key in mk
        if not good:
            ctx.violation('C12:upload:concurrent:roundtrip', detail, '%s: after %d identical uploads in flight together the object named by week %r and X %r does not decode to the report that was sent (sizes %s)' % (
                where, len(idxs), key[0], key[1], obs.get('sizes')))
            ok = False
    return want_after if ok else None


def concurrent(ctx, cfgjson, inits, henv):
    r = ctx.tlc('ServerConcMC', cfg='ServerConcMC4.cfg' if ctx.thorough() else 'ServerConcMC.cfg', label='ServerConc', workers=8, timeout=3000)
    if not r.ok:
        raise Infra('ServerConc.tla violates its own property (%s %s):\n%s' % (r.error, r.error_name, r.out[-3000:]))
    r = ctx.tlc('ServerConcMC', cfg='ServerConcSim.cfg', simulate={'num': ctx.pick(40, 300), 'file': True}, depth=ctx.pick(30, 40), label='ServerConcSim', count=False, timeout=3000)
    if r.error:
        raise Infra('ServerConc simulate: %s\n%s' % (r.error, r.out[-2000:]))
    behs, meta = [], []
    for fn in ctx.sim_files(r):
        states = [st for (_a, _b, st) in tlaval.read_simulate(fn)]
        if not states:
            continue
        rounds = [[(p, 'store')] for p in inits[states[0]['b0']]]
        cur = []
        for st in states[1:]:
            if st['status'] == 'started':
                cur.append(st['last'])
            elif not st['inflight'] and cur:
                rounds.append([(q, None) for q in cur])
                cur = []
        if cur:
            rounds.append([(q, None) for q in cur])
        behs.append({'id': len(behs), 'fresh': len(behs) % 2 == 1,
                     'rounds': [{'steps': [concretize(q, i) for i, (q, _d) in enumerate(rd)]} for rd in rounds]})
        meta.append(rounds)
    # the same thing at a larger scale: many copies of one upload (a client that retries), alone and next to other traffic
    prim = dict(inits['prepop'][0], tag=0)
    other = dict(inits['prepop'][1])
    bad = dict(prim, week=dict(prim['week'], m=2, d=30))
    reps = ctx.pick(100, 500)
    for grp, rp in (([prim] * 8, reps), ([dict(prim, tag=1)] * 6 + [other] * 4 + [bad] * 2, reps // 2), ([prim] * 2, reps)):
        behs.append({'id': len(behs), 'fresh': True, 'rounds': [{'steps': [concretize(q, i) for i, q in enumerate(grp)], 'repeat': rp}]})
        meta.append([[(q, None) for q in grp]])
    recs, rc, out = ctx.run_harness(PKG, 'TestVerifC12Conc', inp={'config': cfgjson, 'behaviours': behs}, module_dir='godev', timeout=2400, env=henv)
    summ = gu.summary_of(recs, out, 'C12 concurrent')
    prefix = summ['upload_prefix']
    by = {}
    for x in recs:
        if x.get('kind') == 'round':
            by.setdefault((x['id'], x['round']), []).append(x)
    nround, nok, nmulti = 0, 0, 0
    for bid, rounds in enumerate(meta):
        prior, good = set(), True
        for ri, rd in enumerate(rounds):
            reqs = [q for q, _d in rd]
            decs = [d or ('store' if devclass(q) == 'valid' else 'reject') for q, d in rd]
            for o in sorted(by.get((bid, ri), []), key=lambda o: o['rep']):
                nround += 1
                nmulti += len(reqs) > 1
                after = judge_round(ctx, reqs, decs, o, prior, prefix, 'concurrent behaviour %d round %d repetition %d' % (bid, ri, o['rep']))
                if after is None:
                    good = False
                    break
                prior = after
            if not good:
                break
        nok += good
    if nmulti < 20:
        raise Infra('concurrent walks are degenerate: %d rounds with more than one request' % nmulti)
    ctx.cov['concurrent_rounds'] = nround
    ctx.cov['concurrent_rounds_with_overlap'] = nmulti
    ctx.cov['concurrent_requests'] = summ['requests']
    ctx.cov['evaluations'] += summ['requests']
    ctx.cov['traces_validated_against_impl'] += nok
    ctx.sample({'kind': 'concurrent-round', 'requests': [[q['method'], devclass(q)] for q, _d in meta[0][-1]]})


# --------------------------------------------------------------------- the check
def service_name_steps():
    """requests used by C18 to observe the names the upload service builds"""
    g = Gen(1, DEFAULT_CONFIG)
    steps = []
    for wk in ['2023-01-01', '2024-02-29', '9999-12-31', '../x', '2023-01-01/../../x', '/tmp/c18-x', '2023/01/01', '..', '']:
        for xl in ['0.5', '1e308', '-1', '5e-324', '1e-7', '123456789']:
            fields = [('Week', wk), ('LastWeek', ''), ('X', RawNum(xl)), ('Programs', None), ('Config', 'v1.2.3')]
            steps.append({'method': 'POST', 'path': '/upload/', 'body64': base64.b64encode(fields_json(fields)).decode()})
    del g
    return steps


def run(ctx):
    ctx.assumptions += [
        'the endpoint is driven in-process: newHandler(...).ServeHTTP with httptest requests (the complete mux + middleware chain main.go builds), '
        'FS buckets below a private storage root, the default size limit of config.NewConfig; request paths are clean paths under /upload/',
        'the request length is either announced (Content-Length = number of body bytes) or not (ContentLength -1 / Transfer-Encoding chunked on the '
        'in-process request, same body reader); a Content-Length that lies about the body is not generated',
        'size classes are reached by padding INSIDE the first JSON value (or with blanks before it), so "over the size limit" means the report '
        'itself does not fit; when only bytes after a complete report exceed the limit (layout trailing) either outcome is accepted',
        'reports use the documented field names and JSON types; case-variant field names and invalid UTF-8 inside otherwise valid reports are '
        'not generated; bodies with bytes after the first JSON value, an unknown field or a duplicated key (layouts trailing / unknown / dupkey) '
        'are generated with verdict "unspecified": whether they are accepted is not decided, but an accepted one must leave an object that is '
        'exactly one JSON value with report fields only, each once, and decodes to the report the server validated',
        'verdict "unspecified" (either outcome accepted, never 5xx or a partial effect): year 0000, config shorthands vN / vN.M, X literals that '
        'overflow or underflow a float64, a null element in Programs',
        '"named by week and X": the object is <week>/<T>.json where T parses to exactly the float64 X (the decimal formatting of X is not prescribed)',
        '"decodes to the same report": compared field by field after decoding both sides with an independent mirror of the documented report '
        'layout; null and empty lists/maps are the same',
        'requests in flight together (ServerConc.tla): released at the same moment from separate goroutines into one handler chain; requests that '
        'overlap and name the same object carry the same report (a retry) -- which bytes a collision of two DIFFERENT reports of one week and X '
        'leaves behind is not specified (with the current os.Create-based writer it can be a mixture of both); everything else is sequential; '
        'prior bucket states are those reachable through the endpoint itself',
    ]
    gu.inject_files(ctx, 'godev/cmd/telemetrygodev', ['c12_verif_test.go', 'c12_conc_verif_test.go'])
    henv = gu.fast_tmp_env(ctx)

    # ---- 1. the specification: state machine, exhaustively ------------------
    r = ctx.tlc('ServerReq1', cfg='ServerReq1Thorough.cfg' if ctx.thorough() else 'ServerReq1.cfg', label='ServerReq1', workers=8, timeout=3000)
    if not r.ok:
        raise Infra('Server.tla violates its own property (%s %s):\n%s' % (r.error, r.error_name, r.out[-3000:]))

    # ---- 2. model -> code: every request class, on two prior buckets ---------
    K = ctx.pick(2, 3)
    cfg_text = open(os.path.join(os.path.dirname(os.path.dirname(os.path.abspath(__file__))), 'spec', 'ServerVec.cfg')).read().replace(' K = 2', ' K = %d' % K)
    r = ctx.tlc('ServerVec', cfg_text=cfg_text, dump=True, workers=4, label='ServerVec(K=%d)' % K, timeout=3000)
    if not r.ok:
        raise Infra('ServerVec: spec-level sanity failed: %s %s\n%s' % (r.error, r.error_name, r.out[-3000:]))
    with open(os.path.join(r.dir, 'servercfg.json')) as f:
        mcfg = json.load(f)
    if canon_cfg(mcfg) != canon_cfg(DEFAULT_CONFIG):
        raise Infra('spec/ServerMC.tla and checks/c12.py disagree on the upload configuration')
    with open(os.path.join(r.dir, 'serverinit.json')) as f:
        inits = json.load(f)
    cfgjson = config_json(mcfg)
    primary = inits['prepop'][0]
    nvec, nmatch, ndistinct = 0, 0, 0
    by_dec = {'store': 0, 'reject': 0, 'either': 0}
    chunk = []

    def flush(chunk):
        nonlocal nvec, nmatch
        behs, meta = [], []
        for (req, dec) in chunk:
            # requests that deviate in 3 fields (thorough tier only) run on the empty bucket only
            nd = ndev(req, primary)
            side = (req.get('path'), req.get('layout'), req.get('tag')) != ('root', 'compact', 0)
            # on the pre-populated bucket too: up to 2 deviations, unless two deviate and one of them is path / layout / LastWeek
            # ... and, of the refused two-deviation requests, every second one (alternating with the enumeration order)
            both = nd <= 1 or (nd == 2 and not side and (dec != 'reject' or len(behs) % 4 < 2))
            for b0 in (('empty', 'prepop') if both else ('empty',)):
                pre = inits[b0]
                steps = [concretize(p, i) for i, p in enumerate(pre)] + [concretize(req, len(behs))]
                behs.append({'id': len(behs), 'steps': steps, 'fresh': len(behs) % 7 == 3})
                meta.append((req, dec, pre, b0))
        recs, rc, out = ctx.run_harness(PKG, TEST, inp={'config': cfgjson, 'behaviours': behs}, module_dir='godev', timeout=2400, env=henv)
        summ = gu.summary_of(recs, out, 'C12 vectors')
        if summ.get('aborted'):
            ctx.warn('harness aborted after a hang')
        prefix = summ['upload_prefix']
        obs = steps_of(recs)
        for bid, (req, dec, pre, b0) in enumerate(meta):
            prior = set()
            good = True
            for i, p in enumerate(pre):
                o = obs.get((bid, i))
                if o is None:
                    good = False
                    break
                prior = judge(ctx, p, 'store', o, prior, prefix, 'initial bucket %s, request %d' % (b0, i))
                if prior is None:
                    good = False
                    break
            if not good:
                continue
            o = obs.get((bid, len(pre)))
            if o is None:
                continue
            nvec += 1
            after = judge(ctx, req, dec, o, prior, prefix, 'vector on %s bucket' % b0)
            if after is not None:
                nmatch += 1
            if nvec in (2, 701, 2501):
                ctx.sample({'kind': 'vector', 'prior': b0, 'decision': dec, 'class': devclass(req), 'method': req['method'],
                            'body': body_preview(req)[:200], 'status': o.get('status'), 'created': o.get('created'), 'changed': o.get('changed')})

    seen = set()
    nseen = nskipped = 0
    for st in tlaval.read_dump(r.dump):
        req, dec = st['req'], st['dec']
        nseen += 1
        # thorough tier: of the requests that deviate in 3 fields every third one is replayed (which third depends on the seed)
        if K >= 3 and (nseen + ctx.seed) % 3 and ndev(req, primary) >= 3:
            nskipped += 1
            continue
        by_dec[dec] += 1
        ndistinct += 1
        seen.add(devclass(req))
        chunk.append((req, dec))
        if len(chunk) >= 6000:
            flush(chunk)
            chunk = []
    if chunk:
        flush(chunk)
    ctx.log('vectors: %d requests, %d replays (empty / pre-populated bucket), %d matched; decisions %s' % (ndistinct, nvec, nmatch, by_dec))
    ctx.cov['vectors_replayed'] = nvec
    ctx.cov['vectors_enumerated_not_replayed'] = nskipped
    ctx.cov['vector_decisions'] = by_dec
    ctx.cov['request_classes'] = len(seen)
    ctx.cov['evaluations'] += nvec
    ctx.cov['traces_validated_against_impl'] += nmatch
    if by_dec['store'] < 10 or by_dec['reject'] < 100:
        raise Infra('vector set is degenerate: %s' % by_dec)

    # ---- 3. model -> code: histories (simulate walks) -------------------------
    nwalk = ctx.pick(60, 400)
    r = ctx.tlc('ServerReqSim', simulate={'num': nwalk, 'file': True}, depth=ctx.pick(25, 40), label='ServerReqSim', count=False, timeout=3000)
    if r.error:
        raise Infra('Server simulate: %s\n%s' % (r.error, r.out[-2000:]))
    behs, meta = [], []
    for fn in ctx.sim_files(r):
        states = [st for (_a, _b, st) in tlaval.read_simulate(fn)]
        if not states:
            continue
        pre = inits[states[0]['b0']]
        reqs = [(s['last'], 'store' if s['stored'] else 'reject') for s in states[1:]]
        steps = [concretize(p, i) for i, p in enumerate(pre)] + [concretize(q, i) for i, (q, _d) in enumerate(reqs)]
        behs.append({'id': len(behs), 'steps': steps, 'fresh': len(behs) % 2 == 1})
        meta.append((pre, reqs, states))
    recs, rc, out = ctx.run_harness(PKG, TEST, inp={'config': cfgjson, 'behaviours': behs}, module_dir='godev', timeout=2400, env=henv)
    summ = gu.summary_of(recs, out, 'C12 histories')
    prefix, limit = summ['upload_prefix'], summ['limit']
    obs = steps_of(recs)
    nb, nsteps = 0, 0
    for bid, (pre, reqs, states) in enumerate(meta):
        prior, good = set(), True
        for i, (q, d) in enumerate([(p, 'store') for p in pre] + reqs):
            o = obs.get((bid, i))
            if o is None:
                good = False
                break
            nsteps += 1
            prior = judge(ctx, q, d, o, prior, prefix, 'history %d step %d' % (bid, i))
            if prior is None:
                good = False
                break
            if i >= len(pre):
                # the model's bucket after the step (TLC's state) must be the one judged
                mb = states[i - len(pre) + 1]['bucket']
                mkeys = set()
                if isinstance(mb, dict):
                    for k in mb:
                        kk = dict(k)
                        mkeys.add(('%04d-%02d-%02d' % (kk['y'], kk['m'], kk['d']), float(kk['x'])))
                if mkeys != set(prior):
                    raise Infra('replayer and TLC disagree on the model bucket: %s vs %s' % (sorted(mkeys), sorted(prior)))
        if good:
            nb += 1
    ctx.cov['histories_replayed'] = len(meta)
    ctx.cov['history_steps'] = nsteps
    ctx.cov['evaluations'] += nsteps
    ctx.cov['traces_validated_against_impl'] += nb
    if meta:
        ctx.sample({'kind': 'history', 'initial': meta[0][2][0]['b0'],
                    'requests': [[q['method'], devclass(q), d] for (q, d) in meta[0][1][:10]]})

    # ---- 3b. requests in flight together (ServerConc.tla) ----------------------
    concurrent(ctx, cfgjson, inits, henv)

    # ---- 4. code -> model: random requests validated by TLC -------------------
    g = Gen(ctx.seed * 1000003 + 12, mcfg)
    nh = ctx.pick(40, 300)
    hl = ctx.pick(50, 70)
    behs, absts = [], []
    for h in range(nh):
        steps, ab = [], []
        for _ in range(hl):
            a, st = g.request()
            steps.append(st)
            ab.append(a)
        behs.append({'id': h, 'steps': steps, 'fresh': h % 3 == 1})
        absts.append(ab)
    recs, rc, out = ctx.run_harness(PKG, TEST, inp={'config': cfgjson, 'behaviours': behs}, module_dir='godev', timeout=2400, env=henv)
    summ = gu.summary_of(recs, out, 'C12 random')
    prefix, limit = summ['upload_prefix'], summ['limit']
    obs = steps_of(recs)
    trace, origin = [], []
    for h, ab in enumerate(absts):
        trace.append({'op': 'reset'})
        origin.append(None)
        for i, a in enumerate(ab):
            o = obs.get((h, i))
            if o is None:
                break
            resolve_len(a, limit)
            trace.append(trace_record(a, o, prefix))
            origin.append((h, i, a, o, behs[h]['steps'][i]))
    nstored = sum(1 for t in trace if t['op'] == 'req' and t['status'] == '2xx')
    ctx.cov['random_requests'] = len(trace) - nh
    ctx.cov['random_requests_stored'] = nstored
    ctx.cov['evaluations'] += len(trace) - nh
    if nstored < 5:
        raise Infra('random generator is degenerate: only %d requests stored' % nstored)
    tcfg = open(os.path.join(os.path.dirname(os.path.dirname(os.path.abspath(__file__))), 'spec', 'ServerTrace.cfg')).read().replace(
        ' Limit <- MCLimit', ' Limit = %d' % limit)
    # TLC notes every record Server.tla does not explain (and re-syncs its bucket)
    bad_hist = set()
    r = ctx.tlc('ServerTrace', cfg_text=tcfg, files={'c12obs.ndjson': ndjson_text(trace)}, workers=1, label='ServerTrace', count=False, timeout=2400)
    if r.error == 'invariant' and r.error_name == 'Explained':
        st = r.trace[-1][1] if r.trace else {}
        bad = st.get('bad')
        if not bad:
            raise Infra('ServerTrace: cannot locate the rejected records\n' + r.out[-2000:])
        for idx in bad:
            h, i, a, o, stp = origin[idx - 1]
            bad_hist.add(h)
            cls = devclass(a)
            sc = trace[idx - 1]['status']
            what = '5xx' if sc == '5xx' else 'panic' if sc == 'crash' else 'observed'
            ctx.violation('C12:upload:%s:%s' % (what, sig5(cls) if what == '5xx' else cls),
                          {'abstract': {k: v for k, v in a.items() if not k.startswith('_')}, 'text': a.get('_text'), 'observed': {k: v for k, v in o.items() if k != 'listing'},
                           'step': {k: (v if k != 'body64' else base64.b64decode(v)[:400].decode('latin-1')) for k, v in stp.items()}},
                          'random history %d step %d: %s request (%s) answered %s created %s changed %s: not a behaviour of Server.tla' % (
                              h, i, a['method'], cls, o.get('status'), o.get('created'), o.get('changed')))
    elif not r.ok:
        raise Infra('ServerTrace: %s %s\n%s' % (r.error, r.error_name, r.out[-3000:]))
    ctx.cov['traces_validated_against_impl'] += nh - len(bad_hist)
    if origin[1:]:
        h, i, a, o, stp = [x for x in origin if x and x[3].get('status') == 200][0]
        ctx.sample({'kind': 'observation', 'text': a.get('_text'), 'method': a['method'], 'status': o.get('status'), 'created': o.get('created')})
    ctx.cov['rule'] = ('vectors = every request deviating from a valid primary request in <= %d of {method, week, config, X, programs, size (length class x padding place x length declared or not)} plus every '
                       'garbage body class, each on an empty bucket and (all <= 1-deviation requests, all accepted and half of the refused 2-deviation requests in the 6 decision fields) on a pre-populated bucket; histories = TLC -simulate walks of Server.tla; random = '
                       'seeded random reports/garbage abstracted by independent tokenizers and decided by TLC (ServerTrace); distinct = distinct '
                       'request vectors + histories' % K)
    ctx.cov['distinct_nontrivial'] = ndistinct + len(meta) + nh
    ctx.cov['exhaustive'] = False
