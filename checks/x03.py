"""X03 — extension engine: the public counter API layer above the mapped file
(CtrApi*.tla).  See spec/README-X03.md."""
from checks import _x03_conc


def run(ctx):
    ctx.assumptions += [
        'concurrent part: goroutines are interleaved at StackCounter.mu, the operations of file.register, the deferred check of rotate1 and the two traversals of invalidateCounters; a per-counter increment (Counter.Add below register), invalidate, refresh and the locked section of rotate1 are one step each (the state-word protocol below is C03)',
        'every Counter object is used by one goroutine at a time (the StackCounter mutex, or a private plain counter): shared plain counters are C03 (known findings F1, F2)',
        'munmap is replaced by mprotect(PROT_NONE) in the scheduled runs so that a use after close faults deterministically',
        'reads at rest are made only when no rotation is pending (a read rotates first); a counter that has no record in the current file may be read as 0 with or without a "not found" error',
    ]
    ctx.inject('internal/counter')
    ctx.instrument('internal/counter')
    _x03_conc.run_conc(ctx)
    ctx.cov['rule'] = 'a case is one schedule of one scenario family executed on the real code'
