"""X03 — extension engine: the public counter API layer above the mapped file
(CtrApi*.tla).  See spec/README-X03.md."""
import os
import threading

from checks import _x03_conc, _x03_life


def run(ctx):
    ctx.assumptions += [
        'concurrent part (CtrApi.tla): goroutines are interleaved at StackCounter.mu, at the operations of file.register, at the deferred check of rotate1 and in the two traversals of invalidateCounters; a per-counter increment (Counter.Add below register), invalidate, refresh and the locked section of rotate1 are one step each (the state-word protocol below them is C03)',
        'every Counter object is used by one goroutine at a time (under the StackCounter mutex, or a private plain counter); Counter objects shared by goroutines are C03 (its known findings F1, F2 are not re-reported here)',
        'munmap is replaced by mprotect(PROT_NONE) in the scheduled runs so that a use after close faults deterministically; no file growth occurs in the scheduled scenarios',
        'free-running (really parallel) runs race the FIRST open only; the weekly rotation happens at a barrier there (a rotation concurrent with an increment in flight can hit C03 F1) - concurrent rotation is covered by the scheduled runs',
        'reads at rest are made only when no rotation is pending (a read rotates first); a counter that has no record in the current file (never incremented, or not since the rotation) may be read as 0 with or without a "not found" error: the documentation is silent',
        'the close function is called only after all increments; increments after close are outside the documented contract ("no longer usable") and are not made',
        'countertest.Open is not mixed with counter.Open / OpenAndRotate in one process (documented as forbidden); the telemetry mode does not change during the life of a process',
        'stack counters of depth 0..2 with call sites that differ in their first and/or second frame; name encoding itself is C15',
        'ReadFile vectors: files written by an independent writer; two records that decode to the same name, and a leading ditto mark, are excluded (unspecified)',
    ]
    ctx.inject('internal/counter', 'internal/verifh/x03')
    only = os.environ.get('X03_ONLY', 'life,free,file,bin,conc').split(',')
    res = {}

    def bg(name, fn, *a):
        def w():
            try:
                res[name] = fn(*a)
            except BaseException as e:  # noqa: BLE001
                res[name] = e
        t = threading.Thread(target=w)
        t.start()
        return t
    # the TLC side of the concurrent part needs no scratch copy: it runs while the sequential parts
    # drive the UNINSTRUMENTED code
    ths = []
    if 'conc' in only:
        ths.append(bg('prep', _x03_conc.conc_prepare, ctx))
    pre = []
    if 'life' in only:
        pre.append(bg('life', _x03_life.run_life, ctx))
    if 'free' in only:
        pre.append(bg('free', _x03_life.run_free, ctx))
    if 'file' in only:
        pre.append(bg('file', _x03_life.run_file, ctx))
    if 'bin' in only:
        pre.append(bg('bin', _x03_life.run_bin, ctx))
    for t in pre:
        t.join()
    for n in ('life', 'free', 'file', 'bin'):
        if isinstance(res.get(n), BaseException):
            for t in ths:
                t.join()
            raise res[n]
    if 'conc' in only:
        ctx.instrument('internal/counter')
        for t in ths:
            t.join()
        if isinstance(res.get('prep'), BaseException):
            raise res['prep']
        _x03_conc.conc_execute(ctx, res['prep'])
    ctx.cov['rule'] = ('a case is (a) one schedule of one CtrApi scenario family executed step by step on the real instrumented code, '
                       '(b) one history of public-API calls replayed in a fresh child process / a real program, (c) one free-running parallel run, '
                       '(d) one counter file of another process read with ReadFile; states/transitions are those of the exhaustive TLC runs')
