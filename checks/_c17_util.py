"""Concretization / abstraction helpers of check C17 (chart configuration
syntax, upload-config generation, version padding).  Written from the package
documentation of internal/chartconfig; nothing here calls the code under test."""
import re

STR_KEYS = ['title', 'description', 'type', 'program', 'module', 'version']
NUM_KEYS = ['depth', 'error']
ALL_KEYS = STR_KEYS + NUM_KEYS + ['issue', 'counter']

BK = r'[^\s,{}#]+'
_re_braced = re.compile(r'^([^{}]+)\{(%s(?:,%s)*)\}$' % (BK, BK))
_re_open = re.compile(r'^([^{}]+)\{((?:%s(?:,%s)*)?)(,?)$' % (BK, BK))
_re_mid = re.compile(r'^(,?)(%s(?:,%s)*)(,?)$' % (BK, BK))
_re_close = re.compile(r'^(,?)((?:%s(?:,%s)*)?)\}$' % (BK, BK))
_re_int = re.compile(r'^-?(0|[1-9][0-9]{0,8})$')
_re_dec = re.compile(r'^(0|[1-9][0-9]{0,8})(\.[0-9]{1,8})?$')
# characters the lexer refuses to reason about (Go's and Python's notions of
# white space differ on them): control characters except TAB, and every
# non-ASCII space
_re_odd = re.compile('[\x00-\x08\x0a-\x1f\x7f\x85\xa0\u1680\u2000-\u200b\u2028\u2029\u202f\u205f\u3000\ufeff\udc80-\udcff]')


def canon_float(f):
    s = repr(float(f))
    if s.endswith('.0'):
        s = s[:-2]
    if s == '-0':
        s = '0'
    return s


def L(k, key='', val='', bs=(), lead=False, trail=False):
    return {'k': k, 'key': key, 'val': val, 'bs': list(bs), 'lead': bool(lead), 'trail': bool(trail)}


def lex_line(line):
    """one text line -> abstract line of ChartConfig.tla"""
    if line == '---':
        return L('sep')
    if _re_odd.search(line):
        return L('junk')
    text = line.split('#', 1)[0]
    if text.strip(' \t') == '':
        return L('blank')
    for key in ALL_KEYS:
        if text.startswith(key + ':'):
            val = text[len(key) + 1:].strip(' \t')
            if val == '':
                return L('junk')
            if key == 'counter':
                if '{' not in val and '}' not in val:
                    return L('field', key, val)
                m = _re_braced.match(val)
                if m and m.group(1).strip(' \t') == m.group(1):
                    return L('field', key, m.group(1), m.group(2).split(','))
                m = _re_open.match(val)
                if m and m.group(1).strip(' \t') == m.group(1):
                    return L('copen', key, m.group(1), [b for b in m.group(2).split(',') if b], False, m.group(3) == ',')
                return L('junk')
            if '{' in val or '}' in val:
                return L('junk')
            if key == 'depth':
                if not _re_int.match(val):
                    return L('junk')
                return L('field', key, str(int(val)))
            if key == 'error':
                if not _re_dec.match(val):
                    return L('junk')
                return L('field', key, canon_float(val))
            return L('field', key, val)
    t = text.strip(' \t')
    m = _re_mid.match(t)
    if m:
        return L('cmid', '', '', m.group(2).split(','), m.group(1) == ',', m.group(3) == ',')
    m = _re_close.match(t)
    if m:
        return L('cclose', '', '', [b for b in m.group(2).split(',') if b], m.group(1) == ',', False)
    return L('junk')


def lex(text):
    return [lex_line(ln) for ln in text.split('\n')]


def abstract_counter(s):
    m = _re_braced.match(s)
    if m:
        return {'pre': m.group(1), 'bs': m.group(2).split(',')}
    return {'pre': s, 'bs': []}


def abstract_record(r):
    """a record as the parse harness reports it -> record of ChartConfig.tla"""
    out = {k: r.get(k, '') for k in STR_KEYS}
    out['issue'] = list(r.get('issue') or [])
    out['counter'] = abstract_counter(r.get('counter', '')) if r.get('counter', '') != '' else {'pre': '', 'bs': []}
    out['depth'] = r.get('depth', '0')
    try:
        out['error'] = canon_float(float(r.get('error', '0')))
    except ValueError:
        out['error'] = r.get('error')
    return out


# ------------------------------------------------------------ concretization
WORDS = ['Editor', 'Distribution', 'gopls', 'crash', 'reports', 'of', 'the', 'go', 'command', 'x', 'v1.2', 'a:b', 'https://go.dev/issue/61038',
         'résumé', '---', 'title:', 'counter:', 'depth: 3', '(optional)', '100%', 'a,b', '"quoted"', "it's", '\\n', 'tab\there', '*', '[]', '<x>', '&', '=']
CHARTS = ['gopls/editor', 'gopls/bug', 'go/invocations', 'crash/crash', 'gopls/gotoolchain', 'govulncheck/scan', 'go/goexperiment', 'vscode-go/tool']
BUCKETS = ['emacs', 'vim', 'vscode', 'other', 'auto', 'local', 'go1.21', 'v0.14.0', 'a-b', 'x_y', 'source', 'binary', '0', '1', 'linux/amd64', 'a:b', '*']
COMMENTS = ['# comment', '#', '# TODO(golang/go#34567): add more editors', '# title: not a field', '# } {', '#---', '# counter: x:{a,', '\t# tab']


def rand_value(rng):
    n = rng.choice([1, 1, 2, 3, 5])
    v = (' ' if rng.random() < 0.9 else '  ').join(rng.choice(WORDS) for _ in range(n))
    return v.strip(' \t') or 'x'


def rand_counter_name(rng, braced):
    c = rng.choice(CHARTS)
    if braced:
        return c + ':'
    return c if rng.random() < 0.6 else c + ':' + rng.choice(BUCKETS)


def _h(v):
    return tuple(_h(x) for x in v) if isinstance(v, list) else v


class Concretizer:
    """abstract lines (with opaque value tokens) -> text.  The same token always
    becomes the same string; `vals` maps tokens to the strings chosen."""

    def __init__(self, rng, keymap=None):
        self.rng = rng
        self.vals = {}
        self.keymap = keymap or {}
        self.nbucket = 0

    def key(self, k):
        return self.keymap.get(k, k)

    def value(self, tok, key):
        tok = _h(tok)
        t = ('v', tok, key)
        if t not in self.vals:
            rk = self.key(key)
            if rk == 'depth':
                v = '0' if tok == '0' else str(self.rng.choice([1, 7, 16, 255, 100000, -3]))
            elif rk == 'error':
                v = '0' if tok == '0' else self.rng.choice(['0.01', '0.5', '1', '12.25', '3'])
            elif key == 'counter:braced':
                v = rand_counter_name(self.rng, True)
            elif key == 'counter':
                v = rand_counter_name(self.rng, False)
            else:
                v = rand_value(self.rng)
                # values of one text are pairwise different (so a misplaced value is seen)
                while v in [x for (q, x) in self.vals.items() if q[0] == 'v']:
                    v += rng_suffix(self.rng)
            self.vals[t] = v
        return self.vals[t]

    def bucket(self, tok):
        t = ('b', _h(tok))
        if t not in self.vals:
            self.nbucket += 1
            self.vals[t] = self.rng.choice(BUCKETS) + ('%d' % self.nbucket if self.rng.random() < 0.7 else '.%d' % self.nbucket)
        return self.vals[t]

    def trail(self):
        r = self.rng.random()
        if r < 0.5:
            return ''
        if r < 0.65:
            return self.rng.choice([' ', '  ', '\t'])
        return self.rng.choice([' ', '  ', '\t', '']) + self.rng.choice(COMMENTS)

    def line(self, ln):
        rng = self.rng
        k = ln['k']
        if k == 'sep':
            return '---'
        if k == 'blank':
            return rng.choice(['', '', ' ', '\t', '   ']) + (rng.choice(COMMENTS) if rng.random() < 0.5 else '')
        if k == 'junk':
            return rng.choice(JUNK)
        sp = rng.choice(['', ' ', ' ', '  ', '\t'])
        if k == 'field':
            rk = self.key(ln['key'])
            if ln['key'] == 'counter':
                if ln['bs']:
                    v = self.value(ln['val'], 'counter:braced') + '{' + ','.join(self.bucket(b) for b in ln['bs']) + '}'
                else:
                    v = self.value(ln['val'], 'counter')
            else:
                v = self.value(ln['val'], ln['key'])
            return rk + ':' + sp + v + self.trail()
        indent = rng.choice(['', ' ', '  ', '\t', '    '])
        body = (',' if ln.get('lead') else '') + ','.join(self.bucket(b) for b in ln['bs']) + (',' if ln.get('trail') else '')
        if k == 'copen':
            return 'counter:' + sp + self.value(ln['val'], 'counter:braced') + '{' + body + self.trail()
        if k == 'cmid':
            return indent + body + self.trail()
        if k == 'cclose':
            return indent + body + '}' + self.trail()
        raise ValueError(k)

    def text(self, lines):
        return '\n'.join(self.line(ln) for ln in lines)


def rng_suffix(rng):
    return rng.choice(['.', '!', ' 2', ' b', 'x'])


JUNK = [' title: x', 'title x', 'unknown: v', '--- ', '----', ' ---', '}', '{', 'title: a{b}', 'title: }', 'counter: a{b{c}', 'counter: a{b}}',
        'x,y', 'depth: abc', 'depth: 1.5', 'depth: 99999999999999999999999', 'depth: +5', 'depth: 007', 'error: x', 'error: NaN', 'error: 1e999', 'error: 1e-3',
        'issue:', 'title:   # only a comment', 'counter: a{b,}', 'counter: {', 'counter: a{ b }', 'counter: a{b, c}', 'Title: x', 'title : x', ':', 'title:', '\ttitle: y',
        'title: a\x00b', 'title:  x', '---\r', 'counter: x:{a,\r', 'b}x', ',a', 'a}b}', '}}', 'counter:{a}', 'counter: x:{}', 'counter: x:{', 'issue: {', 'description: }{',
        'title: ' + 'x' * 5000, 'title: \udcff\udcfe bad utf-8', '\udc80', 'counter: x:{\udcc3,', 'title:\u00a0nbsp', 'title: x\u2003', '\u2028', 'title: a\vb', '\f---',
        'description: \u0085', 'issue: \ud7ff\ue000', '﻿', 'counter: a,b}', 'depth: -', 'depth: 9223372036854775808']


# ----------------------------------------------------------------- versions
GO_POOL = ['go1.18.10', 'go1.19', 'go1.19.5', 'go1.20', 'go1.20.14', 'go1.21', 'go1.21rc1', 'go1.21.0', 'go1.21.13', 'go1.22', 'go1.22rc2', 'go1.22.0',
           'go1.22.12', 'go1.23.0', 'go1.23.8', 'go1.24rc1', 'go1.24.2']
SEMVER_POOL = ['v0.13.0', 'v0.14.0-pre.1', 'v0.14.0', 'v0.14.2', 'v0.15.0-pre.1', 'v0.15.0-pre.2', 'v0.15.0', 'v0.15.3', 'v0.16.0-pre.1',
               'v1.0.0-pre.3', 'v1.0.0', 'v1.1.0', 'v2.0.0',
               # what the proxy lists for modules without go.mod at a major version >= 2: the real
               # version string carries build metadata and must be listed as it is
               'v2.0.0+incompatible', 'v2.1.0+incompatible', 'v3.0.0-pre.1+incompatible']

_re_go = re.compile(r'^go(\d+)\.(\d+)(?:(rc|beta)(\d+)|\.(\d+))?$')


def go_key(v):
    """total order of Go versions (language version < beta < rc < releases)"""
    m = _re_go.match(v)
    if not m:
        return None
    maj, mnr = int(m.group(1)), int(m.group(2))
    if m.group(3):
        return (maj, mnr, {'beta': 1, 'rc': 2}[m.group(3)], int(m.group(4)))
    if m.group(5) is not None:
        return (maj, mnr, 3, int(m.group(5)))
    # no patch: the language version from go1.21 on, the .0 release before
    return (maj, mnr, 0, 0) if (maj, mnr) >= (1, 21) else (maj, mnr, 3, 0)


_n = r'(0|[1-9]\d*)'
_re_sem = re.compile(r'^v%s(?:\.%s(?:\.%s(?:-([0-9A-Za-z.-]+))?(?:\+([0-9A-Za-z.-]+))?)?)?$' % (_n, _n, _n))


def sem_key(v):
    """Total order of version strings in the grammar of golang.org/x/mod/semver
    (vMAJOR[.MINOR[.PATCH[-PRE][+BUILD]]]): semver precedence (build metadata is
    ignored, v1 = v1.0 = v1.0.0), strings of equal precedence in string order --
    the documented order of semver.Sort.  None if v is not such a version."""
    m = _re_sem.match(v)
    if not m:
        return None
    core = (int(m.group(1)), int(m.group(2) or 0), int(m.group(3) or 0))
    for grp in (m.group(4), m.group(5)):
        if grp is not None and any(x == '' for x in grp.split('.')):
            return None
    if m.group(4) is None:
        return core + ((1,), v)
    ids = []
    for part in m.group(4).split('.'):
        if part.isdigit():
            if len(part) > 1 and part[0] == '0':
                return None
            ids.append((0, int(part), ''))
        else:
            ids.append((1, 0, part))
    return core + ((0, tuple(ids)), v)


def ranks(strings, key):
    """rank (1-based) of every distinct string under `key`; None if one is not comparable"""
    ks = {}
    for s in set(strings):
        k = key(s)
        if k is None:
            return None
        ks[s] = k
    order = sorted(set(ks.values()))
    return {s: order.index(k) + 1 for s, k in ks.items()}


# ------------------------------------------------------------- long lines
LONG_SIZES = {'64K-1': lambda r: 65535, '64K': lambda r: 65536, '64K+': lambda r: 65537 + r.randint(0, 30000),
              '1M+': lambda r: (1 << 20) + r.randint(1, 5000)}


def inflate(conc, lines, idx, kind, target):
    """Render `lines`, with line idx made exactly `target` bytes long: a long
    value (description), thousands of buckets (one-line list / a line of a
    multi-line list) or a long comment.  Token strings in conc.vals are updated,
    so the expectation is computed as for any other rendering."""
    rng = conc.rng
    out = [conc.line(ln) for ln in lines]
    ln, text = lines[idx], out[idx]
    need = target - len(text.encode('utf-8'))
    if kind == 'comment':
        body = rng.choice(['# ', '#', '  # ']) + 'title: no field {a,b} } --- '
        out[idx] = body + 'c' * (target - len(body))
        return out
    if need <= 0:
        return out
    if kind == 'description':
        key = ('v', _h(ln['val']), ln['key'])
        old = conc.vals[key]
        parts, n = [], 0
        while n + 12 < need:
            w = ' ' + rng.choice(['lorem', 'ipsum', 'gopls', 'editor', 'telemetry', 'a:b', '---'])
            parts.append(w)
            n += len(w)
        fill = ''.join(parts) + 'x' * (need - n)
        at = text.index(old, text.index(':') + 1)
    else:
        tok = ln['bs'][1] if kind == 'buckets' else ln['bs'][0]
        key = ('b', _h(tok))
        old = conc.vals[key]
        n = max(0, need // 7 - 1)
        fill = ''.join(',k%05d' % (i % 100000) for i in range(n))
        r = need - len(fill)
        fill += (',' + 'z' * (r - 1)) if r >= 2 else 'z' * r
        at = text.index(old, text.index('{') + 1 if kind == 'buckets' else 0)
    conc.vals[key] = old + fill
    out[idx] = text[:at] + old + fill + text[at + len(old):]
    assert len(out[idx].encode('utf-8')) == target, (len(out[idx].encode('utf-8')), target)
    return out
