"""C10 — written counter files conform to the documented v1 on-disk format
(FileFormat.tla, FileFormatPlace*.tla, FileFormatOps*.tla)."""
import json
import random

from vlib import tlaval
from vlib.core import Infra, ndjson_text

from ._c0610_util import tlc_trace

PKG = './internal/verifh/c10'
PAGE_UNITS = 512          # 32-byte units per 16 KiB page


def size_class_lens():
    """Both ends of every record-size class: 16+n = 0 or 1 (mod 32)."""
    out = {1, 4095, 4096}
    n = 16
    while n <= 4096:
        out.add(n)
        if n + 1 <= 4096:
            out.add(n + 1)
        n += 32
    return sorted(out)


def mc_place(ctx):
    if ctx.thorough():
        lens = size_class_lens()[::4] + [15, 16, 17, 4079, 4080, 4081, 4095, 4096]
        units = '66..%d' % (3 * PAGE_UNITS + 40)
        alpha = [0, 255, 97, 10, 46, 34, 128, 65]
    else:
        lens = [1, 15, 16, 17, 48, 49, 100, 1000, 2000, 3000, 4064, 4079, 4080, 4081, 4095, 4096]
        units = '66..%d' % (2 * PAGE_UNITS + 40)
        alpha = [0, 255, 97, 10, 46, 34]
    # limits that are not multiples of 32: the units around both page ends (where the page rule bites) and a thinned rest
    if ctx.thorough():
        uunits = '66..%d' % (2 * PAGE_UNITS + 40)
        resid = [1, 2, 3, 15, 16, 17, 29, 30, 31]
        lens_u = [1, 16, 17, 1000, 4080, 4081, 4095, 4096]
    else:
        uunits = '((%d..%d) \\cup (%d..%d) \\cup {66 + 16 * i : i \\in 0..60})' % (PAGE_UNITS - 135, PAGE_UNITS + 3, 2 * PAGE_UNITS - 135, 2 * PAGE_UNITS + 3)
        resid = [1, 2, 3, 15, 16, 17, 29, 30, 31]
        lens_u = [1, 1000, 4081, 4096]
    rnd = random.Random(ctx.seed)
    longs = [[103, 111, 112, 104, 101, 114, 115],
             [rnd.randrange(256) for _ in range(4096)],
             [rnd.randrange(256) for _ in range(4095)],
             [rnd.choice([0, 255, 10]) for _ in range(33)],
             [255] * 300,
             [0xc3, 0xa9], [0xe2, 0x82, 0xac], [0xf0, 0x9f, 0x98, 0x80], [0x63, 0x61, 0x66, 0xc3, 0xa9, 0x2f, 0xe2, 0x82, 0xac],   # valid multi-byte UTF-8
             [0xc3], [0xed, 0xa0, 0x80], [0xef, 0xbf, 0xbd]]                                                                          # truncated, surrogate, U+FFFD
    mc = '''---- MODULE MCFileFormatPlace ----
EXTENDS FileFormatPlace
MCHdrLens == {32, 64, 160, 192, 512, 544}
MCLimitUnits == %s
MCNameLens == {%s}
MCUUnits == %s
MCResid == {%s}
MCNameLensU == {%s}
MCAlphabet == {%s}
MCLongNames == {%s} \\cup {<<a>> : a \\in 0..255}
MCMetaLens == 0..520
====
''' % (units, ', '.join(map(str, sorted(set(lens)))), uunits, ', '.join(map(str, resid)), ', '.join(map(str, lens_u)), ', '.join(map(str, alpha)),
       ', '.join('<<' + ', '.join(map(str, s)) + '>>' for s in longs))
    return mc


def run_vectors(ctx, name_reqs):
    r = ctx.tlc('MCFileFormatPlace', cfg='FileFormatPlace.cfg', files={'MCFileFormatPlace.tla': mc_place(ctx)},
                dump=True, label='FileFormatPlace')
    if not r.ok:
        raise Infra('FileFormatPlace: spec-level sanity failed: %s %s\n%s' % (r.error, r.error_name, r.out[-2000:]))
    vectors = [s['v'] for s in tlaval.read_dump(r.dump)]
    kinds = {}
    for v in vectors:
        kinds[v['kind']] = kinds.get(v['kind'], 0) + 1
    ctx.log('vectors:', kinds)
    ctx.cov['vectors'] = kinds
    ctx.sample({'vector': [v for v in vectors if v['kind'] == 'place'][len(vectors) // 3]})
    sweep_lens = size_class_lens() if ctx.thorough() else size_class_lens()[::6] + [4079, 4080, 4081, 4095, 4096]
    # one whole page period of limits (512 units), shifted by the seed, over the first pages
    first = 66 + (ctx.seed * 37) % 200
    inp = {'vectors': vectors, 'sweep_lens': sorted(set(sweep_lens)), 'sweep_from': first,
           'sweep_to': first + ctx.pick(PAGE_UNITS + 8, 4 * PAGE_UNITS), 'hdr_lens': [32, 64, 160, 192, 512, 544],
           # every byte value of a page period as the limit (the unaligned ones; the aligned ones are the rows above)
           'byte_from': 32 * first, 'byte_to': 32 * first + 16384, 'sweep_lens_u': [1, 17, 4081, 4096] if not ctx.thorough() else [1, 16, 17, 48, 1000, 4064, 4080, 4081, 4095, 4096],
           'rand_names': ctx.pick(3000, 40000), 'names': name_reqs}
    recs, rc, out = ctx.run_harness(PKG, 'TestVerifC10(Vec|Names)', inp=inp, timeout=1500)
    summ = [x for x in recs if x.get('kind') == 'summary']
    if not summ:
        raise Infra('C10 vec harness wrote no summary:\n' + out[-2000:])
    for x in recs:
        if x.get('kind') == 'infra':
            raise Infra('C10: %s' % json.dumps(x))
    ctx.cov['evaluations'] += summ[0]['evaluated']
    ctx.cov['vectors_replayed'] = summ[0]['evaluated']
    ndiv = 0
    for m in [x for x in recs if x.get('kind') == 'mismatch']:
        if m['what'] == 'place':
            # the property fixes what a placement must satisfy (PlaceRel), not the allocator: TLC decides on the
            # observation the harness logged for this vector; a mere difference from Place is a model divergence
            ndiv += 1
            if ndiv <= 3:
                ctx.warn('MODEL-DIVERGENCE: real place%s = %s, documented allocator gives %s' % (m.get('x'), m.get('got'), m.get('want')))
            continue
        ctx.violation('C10:%s' % m['what'], m, 'real %s disagrees with FileFormat.tla: input %s want %s got %s' % (
            m['what'], m.get('x'), m.get('want'), m.get('got')))
    ctx.cov['divergences'] += ndiv
    if summ[0]['mismatches'] == 0:
        ctx.cov['traces_validated_against_impl'] += len(vectors)

    obs = [x for x in recs if x.get('kind') in ('place', 'hash', 'hdr')]
    nobs = [x for x in recs if x.get('kind') == 'summary2'][0]['observations']
    chunk = 20000
    good = 0
    for i in range(0, len(obs), chunk):
        part = obs[i:i + chunk]
        r = ctx.tlc('FileFormatPlaceTrace', files={'c10place.ndjson': ndjson_text(part)}, workers=1,
                    label='FileFormatPlaceTrace[%d]' % (i // chunk), count=False)
        if r.error == 'invariant':
            st = r.trace[-1][1] if r.trace else {}
            idx = st.get('l', 0)
            bad = part[idx - 1] if 0 < idx <= len(part) else None
            what = bad.get('kind') if bad else '?'
            ctx.violation('C10:%s:observed' % what, {'obs': bad},
                          'observed output of the real %s is not what FileFormat.tla demands: %s' % (what, json.dumps(bad)[:500]))
        elif not r.ok:
            raise Infra('FileFormatPlaceTrace: %s\n%s' % (r.error, r.out[-2000:]))
        else:
            good += len(part)
    if good == len(obs):
        ctx.cov['traces_validated_against_impl'] += nobs
    ctx.cov['observations_validated'] = nobs
    ctx.cov['evaluations'] += nobs
    ctx.sample({'observation': [x for x in obs if x['kind'] == 'hash' and len(x['s']) < 16][0]})
    return [x for x in recs if x.get('kind') == 'name']


def name_requests(ctx):
    """(id, length, collision group) of the names used by the operation sequences."""
    lens_a = [1, 15, 16, 17, 48, 49, 4095, 4096]          # group 1
    lens_b = [2, 4096, 4096, 4081, 4080, 4079, 4064, 4096, 33]   # group 2
    lens_c = [1, 4096, 300]                                # group 3
    lens_d = [5, 17]                                       # group 4
    lens_e = [1680, 1712]                                  # group 5: after three 4 KiB records the first ends exactly at the reserved
    #                                                        page tail, the second would reach the page end (ids 23, 24)
    reqs = []
    i = 0
    for g, ls in enumerate([lens_a, lens_b, lens_c, lens_d, lens_e]):
        for n in ls:
            i += 1
            reqs.append({'id': i, 'nlen': n, 'group': g, 'want': {1: 511, 3: 0}.get(g, -1)})
    return reqs


def tla_names(names):
    return '{' + ', '.join('[id |-> %d, nlen |-> %d, b |-> %d]' % (n['id'], n['nlen'], n['b']) for n in names) + '}'


def mc_ops(names, metas, actors, incs, maxops):
    return '''---- MODULE MCFileFormatOps ----
EXTENDS FileFormatOps
MCNames == %s
MCMetaLens == {%s}
MCActors == {%s}
MCIncs == {%s}
MCMaxOps == %d
====
''' % (tla_names(names), ', '.join(map(str, metas)), ', '.join('"%s"' % a for a in actors), ', '.join(map(str, incs)), maxops)


def heads_list(h):
    if isinstance(h, dict):
        return [[int(k), v] for k, v in h.items()]
    return [[i + 1, v] for i, v in enumerate(h)]       # a function with domain 1..n is printed as a tuple


def run(ctx):
    ctx.assumptions += [
        'operations are performed one after the other (writers are separate mappings of one file taking turns; the racing interleavings belong to C04)',
        'values stay below 2^31 in the operation sequences (TLC integers); 2^64-1 is exercised by the C06 vectors',
        'metadata written by the library can only be 143..512 bytes long (fixed keys); shorter blocks are covered by the header vectors only',
        'names longer than 4096 bytes are outside the property and not generated',
        'allocation limits may be any byte offset (a foreign writer may store the unrounded end of its last record); the library must then round up itself',
        'a writer whose metadata differs from the file\'s (same file name, other import path; same or different metadata length) must leave the file '
        'exactly as it is: metadata text, header, layout and content (its increments must not appear)',
    ]
    ctx.inject('internal/counter', 'internal/verifh/c10')

    # ---- 1. place / hash / header: vectors and observations ----------------
    names = run_vectors(ctx, name_requests(ctx))
    if len(names) != len(name_requests(ctx)):
        raise Infra('name catalogue incomplete')
    names.sort(key=lambda n: n['id'])
    ctx.log('names: %s' % ' '.join('%d:%d@%d' % (n['id'], n['nlen'], n['b']) for n in names))

    # ---- 2. the file as a state machine: exhaustive within small bounds ----
    pick_ids = [1, 3, 4, 7, 8, 11, 13, 18] if ctx.thorough() else [1, 4, 7, 8, 11, 13]
    small = [n for n in names if n['id'] in pick_ids]
    metas_bfs = [0, 95, 96, 512] if ctx.thorough() else [96, 512]
    mc = mc_ops(small, metas_bfs, ['lib1', 'indx'], [1], ctx.pick(6, 7))
    r = ctx.tlc('MCFileFormatOps', cfg='FileFormatOps.cfg', files={'MCFileFormatOps.tla': mc}, label='FileFormatOps-bfs', timeout=3000)
    if not r.ok:
        raise Infra('FileFormatOps: the specification itself violates %s %s\n%s' % (r.error, r.error_name, r.out[-3000:]))

    # ---- 3. behaviours replayed into real files -----------------------------
    lib_metas = [143, 159, 160, 161, 300, 479, 480, 481, 511, 512]
    depth = ctx.pick(22, 30)
    mc = mc_ops(names, lib_metas, ['lib1', 'lib2', 'ind', 'indx'], [1, 3, 1000], depth)
    cfg_sim = ('SPECIFICATION Spec\nCHECK_DEADLOCK FALSE\nCONSTANTS\n Names <- MCNames\n MetaLens <- MCMetaLens\n'
               ' Actors <- MCActors\n Incs <- MCIncs\n MaxOps <- MCMaxOps\n')
    nwalk = ctx.pick(70, 900)
    r = ctx.tlc('MCFileFormatOps', cfg_text=cfg_sim, files={'MCFileFormatOps.tla': mc}, simulate={'num': nwalk, 'file': True},
                depth=depth + 2, label='FileFormatOps-sim', count=False)
    if r.error:
        raise Infra('FileFormatOps simulate: %s\n%s' % (r.error, r.out[-2000:]))
    behs = []
    pages = 0

    def to_step(st):
        last = st['last']
        recs = [dict(off=x['off'], nlen=x['nlen'], next=x['next'], id=x['id'], val=x['val'], b=x['b']) for x in st['recs']]
        return {'op': last['op'], 'a': last['a'], 'id': last['id'], 'k': last['k'], 'm': last['m'], 'x': last['x'],
                'state': {'metaLen': st['metaLen'], 'hdrLen': st['hdrLen'], 'size': st['size'], 'limit': st['limit'],
                          'heads': heads_list(st['heads']), 'recs': recs}}
    for i, fn in enumerate(ctx.sim_files(r)):
        steps = [to_step(st) for (_a, _args, st) in tlaval.read_simulate(fn)]
        pages = max([pages] + [s['state']['size'] // 16384 for s in steps])
        if len(steps) > 1:
            behs.append({'id': i, 'steps': steps})
    ctx.cov['races_in_behaviours'] = len([1 for b in behs for s in b['steps'] if s['op'] == 'race'])
    # witness behaviours: the shortest ways into the named page-boundary windows (counter-examples to their negations)
    wit_names = [n for n in names if n['id'] in (7, 8, 10, 11, 21, 23, 24)]
    for wi, window in enumerate(['NoEdgeFull', 'NoEdgeBump']):
        mcw = mc_ops(wit_names, [143, 161], ['lib1'], [1], 7)
        cfgw = ('SPECIFICATION Spec\nINVARIANT %s\nVIEW View\nCHECK_DEADLOCK FALSE\nCONSTANTS\n Names <- MCNames\n MetaLens <- MCMetaLens\n'
                ' Actors <- MCActors\n Incs <- MCIncs\n MaxOps <- MCMaxOps\n' % window)
        rw = ctx.tlc('MCFileFormatOps', cfg_text=cfgw, files={'MCFileFormatOps.tla': mcw}, label='FileFormatOps-witness-' + window, count=False)
        if rw.error != 'invariant' or not rw.trace:
            raise Infra('FileFormatOps: window %s is not reachable in the model (%s)' % (window, rw.error))
        steps = [to_step(st) for (_a, st) in rw.trace]
        for variant in range(2):       # created by the library / by the independent writer
            behs.append({'id': 900000 + 5 * wi + variant, 'steps': steps})
    ctx.cov['witness_behaviours'] = 4
    if not behs:
        raise Infra('no behaviours from TLC simulate')
    ctx.cov['max_pages_in_behaviours'] = pages
    ctx.sample({'kind': 'behaviour', 'ops': [(s['op'], s['a'], s['id'], s['k'], s['m']) for s in behs[0]['steps'][:10]]})
    inp = {'names': {str(n['id']): {'nlen': n['nlen'], 'b': n['b'], 'hex': n['hex']} for n in names},
           'behaviours': behs, 'random': ctx.pick(40, 500), 'random_len': ctx.pick(25, 40), 'meta_lens': lib_metas,
           'chains': ctx.pick([530, 700], [513, 514, 515, 700, 1100, 2100])}   # one bucket, many pages: longer than a page of 32-byte units (512) and than the bucket count
    recs, rc, out = ctx.run_harness(PKG, 'TestVerifC10Ops', inp=inp, timeout=2400)
    summ = [x for x in recs if x.get('kind') == 'summary']
    if not summ:
        raise Infra('C10 ops harness wrote no summary:\n' + out[-2000:])
    ctx.cov['traces_validated_against_impl'] += summ[0]['matched']       # behaviours whose every step matched the model state exactly
    ctx.cov['long_chains'] = [{'names_in_one_bucket': x['n'], 'file_size': x['size']} for x in recs if x.get('kind') == 'chain-ok']
    for x in recs:
        if x.get('kind') == 'infra':
            raise Infra('C10 ops harness: %s' % x.get('what'))
    ctx.cov['behaviours_replayed'] = summ[0]['behaviours']
    ctx.cov['behaviour_steps'] = summ[0]['steps']
    ctx.cov['races_fired'] = summ[0].get('races', 0) + sum(x.get('races', 0) for x in recs if x.get('kind') == 'summary2')
    ctx.cov['evaluations'] += summ[0]['steps']
    for m in [x for x in recs if x.get('kind') == 'mismatch']:
        where = 'behaviour %s step %s' % (m.get('id'), m.get('step')) if 'id' in m else 'random run %s' % m.get('random_run')
        ctx.violation('C10:ops:%s' % m.get('what'), m,
                      '%s (%s by %s, name length %s): %s: %s' % (where, m.get('op'), m.get('a'), m.get('nlen'), {
                          'layout': 'the independent decoder finds the written file malformed',
                          'library-read': 'the library reads the file differently from the independent decoder',
                          'meta': 'metadata block differs from the documented one', 'header-bytes': 'header bytes differ from the documented header',
                          'chain': 'a chain of many colliding names over several pages is not read back as written',
                          'op-error': 'the operation failed'}.get(m.get('what'), m.get('what')), json.dumps(m)[:700]))
    divs = [x for x in recs if x.get('kind') == 'divergence']
    ctx.cov['divergences'] += summ[0].get('diverged', 0)
    for d in divs[:3]:
        ctx.warn('MODEL-DIVERGENCE: behaviour %s step %s: the written file differs from the one FileFormatOps.tla (documented allocator) predicts in %s' % (
            d.get('id'), d.get('step'), d.get('what')))

    # ---- 4. code -> model: random runs validated by TLC ---------------------
    evs = [x for x in recs if x.get('kind') == 'ev']
    runs = {}
    for e in evs:
        runs.setdefault(e['run'], []).append(e)
    keys = sorted(runs)
    per = ctx.pick(200, 100)
    ok_runs = 0
    for i in range(0, len(keys), per):
        part = [e for k in keys[i:i + per] for e in runs[k]]
        lines = [{k: v for k, v in e.items() if k in ('op', 'name', 'xname', 'k', 'm', 'obs')} for e in part]
        status, info, _r = tlc_trace(ctx, 'FileFormatOpsTrace', {'c10ops.ndjson': ndjson_text(lines)}, 'FileFormatOpsTrace[%d]' % (i // per))
        if status == 'ok':
            ok_runs += len(keys[i:i + per])
        elif status == 'unexplained':
            bad = part[info - 1] if 0 < info <= len(part) else None
            raise Infra('FileFormatOpsTrace stopped at event %s without an error' % info)
        else:
            name, idx = info
            bad = part[idx - 1] if 0 < idx <= len(part) else None
            ctx.violation('C10:ops:observed:%s' % name, {'event': bad, 'index': idx},
                          'an observed real counter file violates %s: %s' % (name, json.dumps(bad)[:700]))
    ctx.cov['traces_validated_against_impl'] += len([k for k in keys if k < 1000000]) if ok_runs == len(keys) else 0
    ctx.cov['runs_validated'] = ok_runs
    ctx.cov['random_events'] = len(evs)
    ctx.cov['evaluations'] += len(evs)
    if evs:
        e = evs[min(3, len(evs) - 1)]
        ctx.sample({'kind': 'observed-event', 'op': e['op'], 'a': e['a'], 'name': e['name'], 'k': e['k'],
                    'obs': {k: v for k, v in e['obs'].items() if k != 'recs'}})
    ctx.cov['rule'] = ('vectors = every (limit, name length) / short-name / metadata-length vector TLC enumerates, replayed into place, hash, mappedHeader; '
                       'observations = a full page period of limits x size classes, random names, all metadata lengths, validated by TLC; '
                       'behaviours = TLC -simulate walks of FileFormatOps replayed step by step (library x2 + independent writer + writers with different metadata) with the raw bytes '
                       'walked by the independent decoder after every step; random runs validated as traces of FileFormatOps')
    ctx.cov['distinct_nontrivial'] = ctx.cov['vectors_replayed'] + len(behs) + len(keys)
