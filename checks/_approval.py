"""Shared machinery of the C01 / C11 checks (Approval*.tla): token tables for
the vector modules, concretization of TLC's vectors into harness cases,
decoding of what the real uploader / server / viewer did, abstraction into the
vocabulary of ApprovalTrace.tla, the seeded random generator, and the
classification of a disagreement into a narrow signature.

The verdict never comes from this file: expected values come from TLC
(vectors.ndjson written by ApprovalVec, behaviours of ApprovalHist, the
AllExplained invariant of ApprovalTrace).  The small re-statement of the
semantics at the bottom (`Sem`) is used only to NAME the failing class of a
disagreement TLC has already established, and to keep the random generator
inside the domain of the specification (TLC re-checks that: AllInDomain)."""
import datetime
import html
import json
import os
import random
import re

from vlib import tlaval
from vlib.core import Infra, SPEC, ndjson_text

D_VEC = 8          # denominator of rates / X in the TLC-enumerated vectors
D_RND = 1024       # ... in the random half
START = datetime.datetime(2024, 3, 1, 12, 0, 0)
START_S = '2024-03-01T12:00:00Z'
BUILD_KEYS = ('program', 'version', 'gover', 'goos', 'goarch')


def week_end(w):
    """Week index (1..6) -> expiry date; all lie within 21 days before START."""
    return datetime.date(2024, 2, 28) - datetime.timedelta(days=3 * (w - 1))


def week_of_date(s):
    for w in range(1, 7):
        if week_end(w).isoformat() == s:
            return w
    return None


def chars(s):
    """A name as Approval.tla sees it: one string per character; newline is
    "NL"; a byte that is not valid UTF-8 (kept by Python as a lone surrogate,
    surrogateescape) is "xHH" (no real character is three characters long)."""
    return ['NL' if c == '\n' else ('x%02X' % (ord(c) - 0xDC00) if 0xDC80 <= ord(c) <= 0xDCFF else c) for c in s]


def has_raw_bytes(s):
    return any(0xDC80 <= ord(c) <= 0xDCFF for c in s)


def coerced(s):
    """What encoding/json makes of a name: every invalid byte becomes U+FFFD."""
    return ''.join('\ufffd' if 0xDC80 <= ord(c) <= 0xDCFF else c for c in s)


# ------------------------------------------------------------------ TLC: MC modules
# local counters present with value 0 (approved under some configurations of the names family)
ZERO_TOKENS = {'cc:a', 's2\nf1'}


def mc_tables(*modules):
    """NameOf / ValOf constants: every string literal of the given modules is a
    token (a superset of the name tokens; harmless)."""
    lits = set()
    for m in modules:
        with open(os.path.join(SPEC, m + '.tla')) as f:
            lits |= set(tlaval._unescape(x) for x in re.findall(r'"((?:[^"\\]|\\.)*)"', f.read()))
    lits = sorted(lits)
    nameof = ' @@ '.join('%s :> %s' % (tlaval.to_tla(s), tlaval.to_tla(chars(s))) for s in lits)
    valof = ' @@ '.join('%s :> %d' % (tlaval.to_tla(s), 0 if s in ZERO_TOKENS else i + 1) for i, s in enumerate(lits))
    return 'MCNameOf == (%s)\nMCValOf == (%s)\n' % (nameof, valof)


def run_vec(ctx, family, big, label=None):
    """Run ApprovalVec for one family; returns the vectors with the outputs the
    specification demands (list of dicts)."""
    mc = '---- MODULE MCApprovalVec ----\nEXTENDS ApprovalVec\n%s====\n' % mc_tables('ApprovalTok', 'ApprovalVec')
    cfg = ('INIT Init\nNEXT Next\nINVARIANTS Theorems ServerTheorems ExpandSane\nPOSTCONDITION Written\nCHECK_DEADLOCK FALSE\n'
           'CONSTANTS\n D = %d\n NameOf <- MCNameOf\n ValOf <- MCValOf\n Family = "%s"\n Big = %s\n' % (
               D_VEC, family, 'TRUE' if big else 'FALSE'))
    r = ctx.tlc('MCApprovalVec', files={'MCApprovalVec.tla': mc}, cfg_text=cfg, workers=4,
                label=label or 'ApprovalVec[%s%s]' % (family, ',big' if big else ''), timeout=2400)
    if not r.ok:
        raise Infra('ApprovalVec[%s]: the specification fails its own sanity theorems: %s %s\n%s' % (
            family, r.error, r.error_name, r.out[-3000:]))
    p = os.path.join(r.dir, 'vectors.ndjson')
    if not os.path.exists(p):
        raise Infra('ApprovalVec[%s] wrote no vectors' % family)
    vecs = [json.loads(ln) for ln in open(p) if ln.strip()]
    if not vecs:
        raise Infra('ApprovalVec[%s]: empty vector set' % family)
    return vecs


# ------------------------------------------------------------------ concretization
def btuple(b):
    return tuple(b[k] for k in BUILD_KEYS)


def bdict(t):
    return dict(zip(BUILD_KEYS, t))


def concrete_cfg(cfg, d):
    """Token-level configuration (names are the concrete strings already, rates
    integers over d) -> telemetry.UploadConfig as a JSON-able dict."""
    progs = []
    for p in sorted(cfg['progs'], key=lambda p: p['name']):
        pc = {'Name': p['name'], 'Versions': sorted(p['versions'])}
        cs = [{'Name': c['name'], 'Rate': c['rate'] / d} for c in sorted(p['counters'], key=lambda c: c['name'])]
        ss = [{'Name': c['name'], 'Rate': c['rate'] / d, 'Depth': 16} for c in sorted(p['stacks'], key=lambda c: c['name'])]
        if cs:
            pc['Counters'] = cs
        if ss:
            pc['Stacks'] = ss
        progs.append(pc)
    return {'GOOS': sorted(cfg['goos']), 'GOARCH': sorted(cfg['goarch']), 'GoVersion': sorted(cfg['gover']),
            'SampleRate': cfg['sample'] / d, 'Programs': progs}


def scale_cfg(cfg, k):
    """The same configuration with rates over k times the denominator."""
    c = json.loads(json.dumps(cfg))
    c['sample'] *= k
    for p in c['progs']:
        for e in p['counters'] + p['stacks']:
            e['rate'] *= k
    return c


ACTIVE_END = datetime.date(2024, 3, 4)      # after START: a file that is still active


def concrete_file(f, scale=0):
    """scale: every value is multiplied by 2**scale (64-bit values; see ScaleOf)."""
    end = week_end(f['week']) if f.get('expired', True) else ACTIVE_END
    begin = end - datetime.timedelta(days=7)
    b = f['build']

    def cnt(c):
        v = c['v'] << scale
        if has_raw_bytes(c['n']):
            return [c['n'].encode('utf-8', 'surrogateescape').hex(), v, 1]
        return [c['n'], v]
    return {'program': b['program'], 'version': b['version'], 'gover': b['gover'], 'goos': b['goos'], 'goarch': b['goarch'],
            'begin': begin.isoformat() + 'T00:00:00Z', 'end': end.isoformat() + 'T00:00:00Z',
            'counts': [cnt(c) for c in sorted(f['counts'], key=lambda c: c['n'])]}


def step_of(cfg, d, files, x, reply=200, cfgver='v0.77.0', xs=None, scale=0):
    """One uploader run.  xs: the values (over d) that the successive random draws
    of the run return, cyclically (default: x for every draw)."""
    return {'cfg': concrete_cfg(cfg, d), 'cfgver': cfgver, 'x': x / d, 'xs': [y / d for y in (xs or [x])], 'reply': reply,
            'files': [concrete_file(f, scale) for f in sorted(files, key=lambda f: f['id'])], 'start': START_S}


# ------------------------------------------------------------------ decoding what the uploader did
REPORT_KEYS = {'Week', 'LastWeek', 'X', 'Programs', 'Config'}
PROGRAM_KEYS = {'Program', 'Version', 'GoVersion', 'GOOS', 'GOARCH', 'Counters', 'Stacks'}


class Body:
    """A decoded report (request body or report file)."""

    def __init__(self, text):
        self.text = text
        self.problems = []
        self.progs = set()
        self.data = set()
        self.week = self.x = self.config = None
        try:
            j = json.loads(text)
        except Exception as e:
            self.problems.append('not-json')
            return
        if not isinstance(j, dict):
            self.problems.append('not-an-object')
            return
        extra = set(j) - REPORT_KEYS
        if extra:
            self.problems.append('extra-report-fields:' + ','.join(sorted(extra)))
        self.week, self.x, self.config = j.get('Week'), j.get('X'), j.get('Config')
        seen = set()
        for p in j.get('Programs') or []:
            if not isinstance(p, dict):
                self.problems.append('program-not-an-object')
                continue
            extra = set(p) - PROGRAM_KEYS
            if extra:
                self.problems.append('extra-program-fields:' + ','.join(sorted(extra)))
            b = (p.get('Program'), p.get('Version'), p.get('GoVersion'), p.get('GOOS'), p.get('GOARCH'))
            if b in seen:
                self.problems.append('program-entry-twice')
            seen.add(b)
            self.progs.add(b)
            for n, v in (p.get('Counters') or {}).items():
                if '\n' in n:
                    self.problems.append('stack-among-counters')
                self.data.add((b, n, v))
            for n, v in (p.get('Stacks') or {}).items():
                if '\n' not in n:
                    self.problems.append('counter-among-stacks')
                self.data.add((b, n, v))


def tdata(lst, scale=0):
    """TLC's [b, n, v] records -> set of (build tuple, name, value)."""
    return set((btuple(t['b']), t['n'], t['v'] << scale) for t in lst)


# ------------------------------------------------------------------ abstraction for ApprovalTrace
def abs_cfg(cfg):
    return {'goos': sorted(cfg['goos']), 'goarch': sorted(cfg['goarch']), 'gover': sorted(cfg['gover']), 'sample': cfg['sample'],
            'progs': [{'name': p['name'], 'versions': sorted(p['versions']),
                       'counters': [{'name': chars(c['name']), 'rate': c['rate']} for c in p['counters']],
                       'stacks': [{'name': chars(c['name']), 'rate': c['rate']} for c in p['stacks']]} for p in cfg['progs']]}


def abs_files(files):
    return [{'id': f['id'], 'build': f['build'], 'week': f['week'], 'expired': f.get('expired', True),
             'counts': [{'n': chars(c['n']), 'v': c['v']} for c in f['counts']]} for f in files]


def coerced_files(files):
    """The files as their local report shows them (names through encoding/json)."""
    return [dict(f, counts=[dict(c, n=coerced(c['n'])) for c in f['counts']]) for f in files]


def abs_data(data):
    return [{'b': bdict(b), 'n': chars(n), 'v': v} for (b, n, v) in sorted(data)]


# ------------------------------------------------------------------ the random generator
PROGRAMS = ['example.com/cmd/p1', 'example.com/cmd/p2', 'golang.org/x/tools/gopls', 'cmd/go', 'example.com/cmd/p1/sub', 'example.com/cmd/p',
            'example.com/cmd', 'golang.org/x/tools', 'example.com/cmd/π', '']
# program paths and counter names share the '/' separator: pairs (P, P/x) whose strings split into (program, name) in two ways
NESTED = [('example.com/cmd', 'example.com/cmd/p1'), ('example.com/cmd/p1', 'example.com/cmd/p1/sub'), ('golang.org/x/tools', 'golang.org/x/tools/gopls'),
          ('example.com/cmd', 'example.com/cmd/p1/sub')]
VERSIONS = ['v1.0.0', 'v1.1.0', 'v0.9.0', 'devel', 'go1.21.0', 'v1.0.0-pre', '', 'v1.0.0+é']
GOVERS = ['go1.21.0', 'go1.22.1', 'go1.20.3', 'go1.21', 'devel +abc', '']
GOOSES = ['linux', 'darwin', 'windows', 'plan9', 'Linux', '']
GOARCHES = ['amd64', 'arm64', '386', 'amd64p32', '']
CHARTS = ['c', 'gopls/client', 'go/errors', 'x', 's', 'crash/crash', 'aa', 'a.b', 'p<q&r', 'q"t', 'ünï/cöde', '日本', 'tab\there']
BUCKETS = ['a', 'b', 'ab', '1', '2', '10', 'other', 'true', 'go1.21', 'x-y', 'A', 'ß', '語', 'a b', 'a:b', 'a/b', ' a', 'b ', '\tb', ' ab ']
STACKS = ['s', 'crash/crash', 'gopls/bug', 'c', 'x', 'go.bug', 's<t&u', 'паника', 's\t']
FRAMES = ['f1', 'f2', 'main.main:12', 'runtime.goexit:+1', 'a/b.F:3', 'g', 'pkg.(*T).M:7', '']
NAMECHARS = ['a', 'b', 'c', ':', '{', '}', ',', ' ', 's', '.', '/', '-', 'A', '<', '&', '"', '1', 'é', '日', '\t', '\r', '\\', "'", 'ß']


class Sem:
    """A few lines of the configuration semantics, used ONLY to name failing
    classes and to steer the random generator (see the module docstring)."""

    @staticmethod
    def expand(e):
        if '{' not in e:
            return [e]
        pre, rest = e.split('{', 1)
        return [pre + b for b in rest[:-1].split(',')]

    @staticmethod
    def wf_counter(e):
        if not e or '\n' in e:
            return False
        if '{' not in e:
            return '}' not in e and ',' not in e
        pre, rest = e.split('{', 1)
        if len(pre) < 2 or not pre.endswith(':') or '}' in pre or ',' in pre:
            return False
        if len(rest) < 2 or not rest.endswith('}'):
            return False
        inner = rest[:-1]
        return '{' not in inner and '}' not in inner and all(inner.split(','))

    @staticmethod
    def prog(cfg, name):
        for p in cfg['progs']:
            if p['name'] == name:
                return p
        return None

    @staticmethod
    def counter_rates(cfg, prog, n):
        p = Sem.prog(cfg, prog)
        if p is None or '\n' in n:
            return []
        return [c['rate'] for c in p['counters'] if n in Sem.expand(c['name'])]

    @staticmethod
    def stack_rates(cfg, prog, first):
        p = Sem.prog(cfg, prog)
        if p is None:
            return []
        return [c['rate'] for c in p['stacks'] if c['name'] == first]

    @staticmethod
    def unlisted_fields(cfg, b):
        """Which of the five build fields are not listed (b: build tuple)."""
        out = []
        p = Sem.prog(cfg, b[0])
        if p is None:
            out.append('program')
        elif b[1] not in p['versions']:
            out.append('version')
        if b[2] not in cfg['gover']:
            out.append('gover')
        if b[3] not in cfg['goos']:
            out.append('goos')
        if b[4] not in cfg['goarch']:
            out.append('goarch')
        return out


def rand_counter_entry(rng):
    chart = rng.choice(CHARTS)
    k = rng.random()
    if k < 0.35:
        return chart
    if k < 0.45:
        return chart + ':' + rng.choice(BUCKETS)
    n = rng.choice([1, 2, 2, 3, 4])
    return chart + ':{' + ','.join(rng.sample(BUCKETS, n)) + '}'


def rand_rate(rng, d):
    return rng.choice([0, 1, d // 4, d // 2, d // 2 + 1, (3 * d) // 4, d - 1, d, d, d, rng.randint(0, d)])


def rand_prog(rng, d, name, prefix=''):
    """A program entry; with `prefix` its counter / stack names are prefix + <name>."""
    counters, seen = [], set()
    for _ in range(rng.choice([0, 1, 2, 3, 4, 5]) + (2 if prefix else 0)):
        e = (prefix if rng.random() < 0.7 else '') + rand_counter_entry(rng)
        ex = set(Sem.expand(e))
        if not Sem.wf_counter(e) or ex & seen:
            continue
        seen |= ex
        counters.append({'name': e, 'rate': rand_rate(rng, d)})
    stacks = [{'name': (prefix if rng.random() < 0.7 else '') + s, 'rate': rand_rate(rng, d)} for s in rng.sample(STACKS, rng.choice([0, 1, 1, 2, 3]))]
    if len(set(s['name'] for s in stacks)) != len(stacks):
        stacks = stacks[:1]
    versions = rng.sample(VERSIONS, rng.choice([1, 1, 2, 3]))
    if prefix and rng.random() < 0.3:
        versions.append(prefix + rng.choice(VERSIONS[:4]))
    return {'name': name, 'versions': versions, 'counters': counters, 'stacks': stacks}


def rand_cfg(rng, d):
    progs = []
    if rng.random() < 0.3:
        # nested program paths: P lists names "x/<name>", P/x is another program of the configuration
        outer, inner = rng.choice(NESTED)
        progs.append(rand_prog(rng, d, outer, inner[len(outer) + 1:] + '/'))
        progs.append(rand_prog(rng, d, inner))
        if rng.random() < 0.3:
            name = rng.choice([n for n in PROGRAMS if n not in (outer, inner)])
            progs.append(rand_prog(rng, d, name))
        rng.shuffle(progs)
    else:
        for name in rng.sample(PROGRAMS, rng.choice([1, 1, 2, 2, 3])):
            progs.append(rand_prog(rng, d, name))
    if rng.random() < 0.04:
        progs = []                                    # a configuration without programs
    for pr in progs:
        if rng.random() < 0.04:
            pr['versions'] = []                       # a program without versions
    # the lists may be empty, and may list the empty string (a metadata line without value)
    return {'goos': rng.sample(GOOSES, rng.choice([0, 1, 1, 2, 2, 3, 3, 3])), 'goarch': rng.sample(GOARCHES, rng.choice([0, 1, 1, 1, 2, 2, 2, 3])),
            'gover': rng.sample(GOVERS, rng.choice([0, 1, 1, 1, 2, 2, 2, 3, 3])), 'sample': rng.choice([0, 0, 0, d, d, d // 2, rng.randint(1, d)]),
            'progs': progs}


def mutate_name(rng, n):
    k = rng.randrange(10)
    if k == 0 and len(n) > 1:
        return n[:-1]
    if k == 1:
        return n + rng.choice(NAMECHARS)
    if k == 2:
        return rng.choice(NAMECHARS) + n
    if k == 3:
        return n.swapcase()
    if k == 4 and ':' in n:
        return n.split(':', 1)[0] + ':' + rng.choice(BUCKETS)
    if k == 5 and ':' in n:
        return n.split(':', 1)[0]
    if k == 6:
        i = rng.randrange(len(n))
        return n[:i] + rng.choice(NAMECHARS) + n[i + 1:]
    if k == 7:
        return n + '}'
    if k == 8:
        return n.replace(':', '::', 1)
    return ''.join(rng.choice(NAMECHARS) for _ in range(rng.randint(1, 6)))


def rand_build(rng, cfg):
    """Mostly an approved build, often with one field replaced."""
    if cfg['progs'] and rng.random() < 0.9:
        p = rng.choice(cfg['progs'])
        b = [p['name'], rng.choice(p['versions'] or VERSIONS), rng.choice(cfg['gover'] or GOVERS), rng.choice(cfg['goos'] or GOOSES),
             rng.choice(cfg['goarch'] or GOARCHES)]
    else:
        b = [rng.choice(PROGRAMS), rng.choice(VERSIONS), rng.choice(GOVERS), rng.choice(GOOSES), rng.choice(GOARCHES)]
    if rng.random() < 0.4:
        i = rng.randrange(5)
        b[i] = rng.choice([PROGRAMS, VERSIONS, GOVERS, GOOSES, GOARCHES][i])
    return bdict(b)


def rand_local_names(rng, cfg, prog, k):
    """k distinct local counter / stack names around what cfg lists for prog
    (and for the other programs)."""
    pool_c, pool_s = [], []
    for p in cfg['progs']:
        w = 4 if p['name'] == prog else 1
        for c in p['counters']:
            pool_c += (Sem.expand(c['name']) + [c['name']]) * w
        for s in p['stacks']:
            pool_s += [s['name']] * w
    for p in cfg['progs']:
        # what an enclosing program path lists as "<rest of prog's path>/<name>": <name> itself is a near-miss for prog
        if prog.startswith(p['name'] + '/'):
            sfx = prog[len(p['name']) + 1:] + '/'
            for c in p['counters']:
                pool_c += [e[len(sfx):] for e in Sem.expand(c['name']) if e.startswith(sfx) and len(e) > len(sfx)] * 6
            for s in p['stacks']:
                if s['name'].startswith(sfx) and len(s['name']) > len(sfx):
                    pool_s += [s['name'][len(sfx):]] * 6
    pool_c = pool_c or ['c', 'c:a']
    pool_s = pool_s or ['s']
    names = set()
    tries = 0
    while len(names) < k and tries < 50:
        tries += 1
        r = rng.random()
        if r < 0.35:
            n = rng.choice(pool_c)
        elif r < 0.55:
            n = mutate_name(rng, rng.choice(pool_c))
        elif r < 0.60:
            n = rng.choice(pool_s)                       # a stack's name as a plain counter
        else:
            first = rng.choice(pool_s + pool_c[:2]) if rng.random() < 0.7 else mutate_name(rng, rng.choice(pool_s))
            n = first + '\n' + '\n'.join(rng.choice(FRAMES) for _ in range(rng.choice([0, 1, 2, 3])))
        if n == '' or '".' in n or len(n) > 200:
            continue
        if '\n' in n and n.split('\n', 1)[0] == '':
            if rng.random() < 0.8:
                continue
        names.add(n)
    return sorted(names)


def rand_case(rng, d, nweeks=3, raw_bytes=False, big=False):
    """raw_bytes: some local names carry bytes that are not valid UTF-8.
    big: a collapsed entry with dozens of buckets, a file with well over a
    hundred counters (more than one page of the count file) and a long name."""
    cfg = rand_cfg(rng, d)
    bigprog = None
    if big:
        if not cfg['progs']:
            cfg['progs'].append(rand_prog(rng, d, PROGRAMS[0]))
        pr = bigprog = rng.choice(cfg['progs'])
        pr['versions'] = pr['versions'] or ['v1.0.0']
        for k, pool in (('gover', GOVERS), ('goos', GOOSES), ('goarch', GOARCHES)):
            cfg[k] = cfg[k] or [pool[0]]
        have = set(e for c in pr['counters'] for e in Sem.expand(c['name']))
        nb = rng.choice([40, 64])
        ent = 'wide/chart:{' + ','.join('b%d' % i for i in range(nb)) + '}'
        long_name = 'long/' + 'n' * rng.choice([255, 300, 1000])
        if not have & (set(Sem.expand(ent)) | {long_name}):
            pr['counters'].append({'name': ent, 'rate': d})
            pr['counters'].append({'name': long_name, 'rate': d})
    files = []
    bad_byte = rng.choice(['\udcff', '\udc80', '\udcfe'])
    builds = [rand_build(rng, cfg) for _ in range(rng.choice([1, 2, 2, 3]))]
    shift = False
    if bigprog is None and cfg['progs'] and rng.random() < 0.1:
        # two DIFFERENT builds whose five fields give the same text when they are joined with a separator, because the
        # separator moves between neighbouring fields (version "v1.0.0-pre" + "go1.21.0" / "v1.0.0" + "pre-go1.21.0";
        # program "p@q" + "v1" / "p" + "q@v1"): the first is approved, the second is not
        p = rng.choice(cfg['progs'])
        g = (cfg['gover'] or ['go1.21.0'])[0]
        o, a = (cfg['goos'] or ['linux'])[0], (cfg['goarch'] or ['amd64'])[0]
        sep = rng.choice(['-', '-', '@', '/', ' '])
        if sep == '@':
            v = (p['versions'] or ['v1.0.0'])[0]
            pair = [[p['name'], v, g, o, a], [p['name'].split('/')[0] if '/' in p['name'] else 'x', '/'.join(p['name'].split('/')[1:]) + '@' + v, g, o, a]]
            if '/' not in p['name']:
                pair = None
        else:
            v = 'v1.0.0' + sep + 'pre'
            if v not in p['versions']:
                p['versions'].append(v)
            pair = [[p['name'], v, g, o, a], [p['name'], 'v1.0.0', 'pre' + sep + g, o, a]]
        if pair:
            rng.shuffle(pair)
            builds = [bdict(b) for b in pair] + builds[:1]
            shift = True
    if bigprog is not None:      # the big file belongs to a build the configuration approves
        builds[0] = bdict([bigprog['name'], bigprog['versions'][0], cfg['gover'][0], cfg['goos'][0], cfg['goarch'][0]])
    for i in range(rng.choice([2, 3, 4]) if shift else rng.choice([1, 2, 3, 4])):
        b = builds[0] if (big and i == 0) else builds[i] if (shift and i < 2) else rng.choice(builds)
        names = rand_local_names(rng, cfg, b['program'], rng.choice([1, 2, 4, 6, 9]))
        if big and i == 0:
            extra = set('wide/chart:b%d' % k for k in range(0, 70, 1)) | set('pad/%03d' % k for k in range(rng.choice([60, 400])))
            extra |= set('long/' + 'n' * k for k in (254, 255, 300, 1000))
            names = sorted(set(names) | extra)
        if raw_bytes and rng.random() < 0.5:
            # an approved (or any) name with one byte that is not UTF-8 appended / inserted: a different name
            base = rng.choice(names)
            bad = bad_byte       # one value per case: two names that differ only in such a byte read alike in local.<week>.json
            # in the first line only: that is the part approval looks at (a byte in the frames of an approved
            # stack is uploaded the way encoding/json renders it, which is not for this property to judge)
            k = rng.randrange(len(base.split('\n', 1)[0]) + 1)
            cand = base[:k] + bad + base[k:]
            if coerced(cand) not in set(coerced(n) for n in names):
                names = sorted(set(names) | {cand})
        large = rng.random() < 0.1
        files.append({'id': i + 1, 'build': b, 'week': 1 if (shift and i < 2) else rng.randint(1, nweeks), 'expired': (big and i == 0) or (shift and i < 2) or rng.random() >= 0.12,
                      'counts': [{'n': n, 'v': rng.randint(1, 10 ** 8 if large else 50)} for n in names]})
    rates = [c['rate'] for p in cfg['progs'] for c in p['counters'] + p['stacks']] or [d // 2]
    r = rng.choice(rates)
    x = rng.choice([0, 1, d // 2, d - 1, r, max(0, r - 1), min(d - 1, r + 1), rng.randint(0, d - 1)])
    x = min(x, d - 1)
    # further draws of the same run return other values: one across a listed rate from x
    # (in either direction), then one half the range away
    r2 = rng.choice(rates)
    x2 = min(d - 1, r2 + 1) if x <= r2 else max(0, min(r2, d - 1))
    xs = [x]
    for y in (x2, (x + d // 2) % d, (x + d // 4) % d):
        if y not in xs:
            xs.append(y)
    return {'cfg': cfg, 'files': files, 'x': x, 'xs': xs[:3]}


# ------------------------------------------------------------------ naming a disagreement
def classify_datum(cfg, x, local, datum, direction, fields=None):
    """Name the class of one (build, name, value) triple that the report has
    and the specification does not demand ('extra') or the other way round
    ('missing').  local: set of triples of the local aggregate."""
    b, n, v = datum
    kind = 'stack' if '\n' in n else 'counter'
    lv = [t[2] for t in local if t[0] == b and t[1] == n]
    if not lv:
        return '%s:%s:not-local-data' % (direction, kind)
    if lv[0] != v:
        return '%s:%s:value-differs-from-sum' % (direction, kind)
    unl = [f for f in Sem.unlisted_fields(cfg, b) if fields is None or f in fields]
    if unl:
        return '%s:%s:build-unlisted:%s' % (direction, kind, '+'.join(unl))
    if kind == 'counter':
        rates = Sem.counter_rates(cfg, b[0], n)
        other = Sem.stack_rates(cfg, b[0], n)
    else:
        rates = Sem.stack_rates(cfg, b[0], n.split('\n', 1)[0])
        other = []
    if not rates:
        return '%s:%s:unlisted' % (direction, kind)
    ok = x <= max(rates)
    if direction == 'extra' and not ok:
        if other and x <= max(other):
            return 'extra:%s:rate<X:same-name-stack-rate>=X' % kind
        return 'extra:%s:rate<X' % kind
    if direction == 'missing' and ok:
        if other and x > max(other):
            return 'missing:%s:rate>=X:same-name-stack-rate<X' % kind
        return 'missing:%s:approved' % kind
    return '%s:%s:other' % (direction, kind)


# ------------------------------------------------------------------ TLC: trace validation
def validate_trace(ctx, recs, d, label):
    """Let TLC decide every record; returns the list of indexes (0-based) of
    unexplained records.  Raises Infra if the generator left the domain."""
    if not recs:
        return []
    cfg = 'INIT Init\nNEXT Next\nINVARIANTS AllInDomain AllExplained\nPOSTCONDITION Accepted\nCHECK_DEADLOCK FALSE\nCONSTANT D = %d\n' % d
    r = ctx.tlc('ApprovalTrace', files={'approval_obs.ndjson': ndjson_text(recs)}, cfg_text=cfg, workers=4, label=label,
                extra=['-continue'], count=False, timeout=2400)
    out = r.out
    if 'AllInDomain is violated' in out:
        raise Infra('%s: the random generator left the domain of Approval.tla\n%s' % (label, out[-1500:]))
    bad = set()
    if 'AllExplained is violated' in out:
        for chunk in out.split('Invariant ')[1:]:
            if chunk.startswith('AllExplained is violated'):
                m = re.search(r'\[k \|-> (\d+)\]', chunk)
                if m:
                    bad.add(int(m.group(1)) - 1)
        if not bad:
            raise Infra('%s: cannot locate the unexplained records\n%s' % (label, out[-2000:]))
    elif r.error not in (None,) or r.rc != 0:
        raise Infra('%s: TLC failed (%s)\n%s' % (label, r.error, out[-3000:]))
    return sorted(bad)
