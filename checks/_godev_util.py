"""Helpers shared by the godev checks C12 and C18 (kept out of vlib/core.py on
purpose: vlib is not ours to edit)."""
import atexit
import os
import shutil
import tempfile

from vlib.core import HARNESS, Infra


def inject_files(ctx, rel, names):
    """Copy only the named files of harness/inject/<rel>/ into the scratch copy
    (ctx.inject copies the whole directory, which would also pick up harness
    files other checks keep in the same Go package)."""
    dst = os.path.join(ctx.scratch_repo(), rel)
    os.makedirs(dst, exist_ok=True)
    for n in names:
        src = os.path.join(HARNESS, 'inject', rel, n)
        if not os.path.exists(src):
            raise Infra('no harness file ' + src)
        shutil.copy(src, os.path.join(dst, n))


def summary_of(recs, out, what):
    s = [x for x in recs if x.get('kind') == 'summary']
    if not s:
        raise Infra('%s harness wrote no summary:\n%s' % (what, out[-3000:]))
    return s[0]


def fast_tmp_env(ctx):
    """{'C12_TMP': dir} with a private directory on tmpfs (/dev/shm) when there
    is one -- the endpoint harness does tens of thousands of tiny file
    operations -- else the work directory.  Removed at exit."""
    base = '/dev/shm' if os.path.isdir('/dev/shm') and os.access('/dev/shm', os.W_OK) else ctx.work
    d = tempfile.mkdtemp(prefix='verif-%s-' % ctx.prop, dir=base)
    atexit.register(shutil.rmtree, d, True)
    return {'C12_TMP': d}
