"""C16 — the telemetry sidecar starts only when permitted and never recursively
(SidecarDecision.tla / SidecarTable.tla / SidecarRows.tla: the decision table;
 Sidecar.tla / SidecarTrace.tla: the start-up protocol and the token race)."""
import json
import os
import random
import re
import shutil

from vlib import tlaval
from vlib.core import HARNESS, Infra, ndjson_text

TOK = ('t_stat', 't_remove', 't_create')
WINDOWS = ['W_BothSawAbsent', 'W_ThreeSawAbsent', 'W_BothSawStale', 'W_ExclLost', 'W_RemovedNew', 'W_RemoveMissing', 'W_StatSeesNew',
           'W_TwoAcquirers', 'W_ThreeAcquirers', 'W_HolderLostToken', 'W_TwoSidecars', 'W_GoUnderSidecar', 'W_StaleLoserAfterWinner',
           'W_StatFailed', 'W_RemoveFailed', 'W_CreateFailed', 'W_KilledBeforeRemove', 'W_KilledBeforeCreate', 'W_KilledThenAcquired',
           'W_GhostCreateLost', 'W_SpawnFailed']
# windows that only exist with a stale token present (the documented, tolerated race)
STALE_ONLY = {'W_BothSawStale', 'W_RemovedNew', 'W_RemoveMissing', 'W_TwoAcquirers', 'W_ThreeAcquirers', 'W_HolderLostToken', 'W_StaleLoserAfterWinner',
              'W_RemoveFailed', 'W_KilledBeforeRemove'}
GHOST_ONLY = {'W_GhostCreateLost'}
FAULT_ONLY = {'W_SpawnFailed', 'W_StatFailed', 'W_RemoveFailed', 'W_CreateFailed', 'W_KilledBeforeRemove', 'W_KilledBeforeCreate', 'W_KilledThenAcquired'}
SAFETY = ['TypeOK', 'SidecarSeesMarker', 'FreshTokenStays', 'NoGrandchild', 'NoChildWhenOff', 'ChildOnlyIfNeeded', 'AtMostOneAcquire', 'HolderKeepsToken', 'OnlyApplicationsAcquire',
          'SequentialAgreesWithTable', 'PairAgreesWithTable']
ALL_TOKENS = ['absent', 'fresh', 'stale', 'ghost']


def tset(xs):
    return '{' + ', '.join(('"%s"' % x) if isinstance(x, str) else ('TRUE' if x else 'FALSE') for x in xs) + '}'


def proto_cfg(starters, markers, crash, upload, modes, tokens, local, spec='Spec', invariants=(), props=(), deadlock=False, faults=0, leak=(False,)):
    s = ('SPECIFICATION %s\nCONSTANTS\n Starters = %s\n MarkerSet = %s\n LeakSet = %s\n CrashSet = %s\n UploadSet = %s\n ModeSet = %s\n TokenSet = %s\n LocalSet = %s\n MaxFaults = %d\n' % (
        spec, tset(starters), tset(markers), tset(list(leak)), tset(crash), tset(upload), tset(modes), tset(tokens), tset(local), faults))
    if invariants:
        s += 'INVARIANTS ' + ' '.join(invariants) + '\n'
    if props:
        s += 'PROPERTIES ' + ' '.join(props) + '\n'
    s += 'CHECK_DEADLOCK %s\n' % ('TRUE' if deadlock else 'FALSE')
    return s


def window_module(inits, faults):
    """MC module with one-shot invariants: the first state of every (window,
    initial token) pair TLC meets is reported as a counter-example, i.e. the
    shortest schedule into the window."""
    lines = ['---- MODULE MCSidecar ----', 'EXTENDS Sidecar',
             'OneShot(i, W) == IF W /\\ TLCGet(i) = 0 THEN TLCSet(i, 1) /\\ FALSE ELSE TRUE',
             'ASSUME \\A i \\in 1..120 : TLCSet(i, 0)']
    names = {}
    k = 1
    for w in WINDOWS:
        for tok in inits:
            if w in STALE_ONLY and tok != 'stale':
                continue
            if w in GHOST_ONLY and tok != 'ghost':
                continue
            if tok == 'ghost' and w not in GHOST_ONLY and w != 'W_BothSawAbsent':
                continue
            if w in FAULT_ONLY and not faults:
                continue
            k += 1
            nm = 'O_%s_%s' % (w[2:], tok)
            lines.append('%s == OneShot(%d, %s /\\ initToken = "%s")' % (nm, k, w, tok))
            names[nm] = (w, tok)
    lines.append('====')
    return '\n'.join(lines) + '\n', names


def token_schedule(states):
    """The order in which the starters perform their token system calls
    ("fail:<s>": the call is made to fail; "kill:<s>": the starter dies)."""
    out = []
    for a, b in zip(states, states[1:]):
        for pid, pa in a['procs'].items():
            if len(pid) == 1 and pa['pc'] in TOK and pid in b['procs'] and b['procs'][pid]['pc'] != pa['pc']:
                if b['nf'] > a['nf']:
                    out.append(('kill:' if b['procs'][pid]['pc'] == 'killed' else 'fail:') + pid[0])
                else:
                    out.append(pid[0])
    return out


# ---------------------------------------------------------------- concretization
class Dealer:
    """Hands out the concrete shapes TLC enumerated (SidecarConcrete.tla), per
    dimension and class, round robin, so that every shape gets executed."""

    def __init__(self, states, rng):
        self.pool, self.pos, self.used = {}, {}, set()
        for st in states:
            v = dict(st['vec'])
            v['silent'] = st['silent']
            self.pool.setdefault((v['dim'], st['class']), []).append(v)
        for k in sorted(self.pool, key=str):
            self.pool[k].sort(key=lambda v: json.dumps(v, sort_keys=True))
            rng.shuffle(self.pool[k])
            self.pos[k] = 0

    def deal(self, dim, cls, ok=lambda v: True):
        vs = self.pool[(dim, cls)]
        for v in vs:        # shapes nobody got yet come first (some fit only a few rows)
            if (dim, json.dumps(v, sort_keys=True)) not in self.used and ok(v):
                self.used.add((dim, json.dumps(v, sort_keys=True)))
                return v
        for n in range(len(vs)):
            v = vs[(self.pos[(dim, cls)] + n) % len(vs)]
            if ok(v):
                self.pos[(dim, cls)] = (self.pos[(dim, cls)] + n + 1) % len(vs)
                self.used.add((dim, json.dumps(v, sort_keys=True)))
                return v
        return None

    def total(self):
        return sum(len(v) for v in self.pool.values())


def marker_text(v):
    return {'none': v['core'], 'trail-space': v['core'] + ' ', 'lead-space': ' ' + v['core'], 'trail-nl': v['core'] + '\n'}[v['pad']]


def mode_text(v):
    return ({'': '', 'space': ' '}[v['lead']] + v['word'] + {'none': '', 'valid': ' 2021-03-04', 'garbage': ' not-a-date'}[v['date']]
            + {'': '', 'nl': '\n', 'space': ' ', 'crlf': '\r\n', 'tab': '\t'}[v['trail']])


def concretize(rid, st, dealer, rng, k):
    """One executable row for the table state st (row, ext, pred); None if the
    row cannot be built (a token inside an unusable local directory)."""
    row, ext, pred = st['row'], st['ext'], st['pred']
    if not row['localOK'] and row['token'] != 'absent':
        return None
    marker = row['marker']
    dbg = ext['dbg']
    plain = row['token'] == 'absent' and dbg == 'absent' and ext['startFail'] == 'none'
    mv = dealer.deal('marker', marker)
    tv = dealer.deal('token', row['token'])
    want_bare = plain and row['mode'] == 'local' and row['localOK'] and k % 7 == 0    # a machine that never ran telemetry
    modev = dealer.deal('mode', row['mode'], lambda v: (v['kind'] == 'missing') if want_bare else (v['kind'] != 'noconfigdir' or plain))
    nocfg = modev['kind'] == 'noconfigdir'
    lv = dealer.deal('local', row['localOK'], lambda v: (v['kind'] == 'exists' or tv['kind'] == 'none') and
                     (v['kind'] != 'notelemetrydir' or (plain and modev['kind'] == 'missing')) and
                     (not want_bare or v['kind'] == 'notelemetrydir'))
    if marker == '1':
        uv = dealer.deal('upvar', row['upload'])
        upvar, cfg_upload = uv['text'], rng.random() < 0.5
    else:
        # an inherited flag other than "1" (set but empty, "0") must not matter: the parent appends its own after it
        upvar, cfg_upload = ('1' if ext['leak'] else ['unset', '', '0'][k % 3]), row['upload']
    goes = pred['launched'] > pred['sidecars']
    calls = ext['calls']
    kind = 'row'
    if calls > 1 and k % 2 == 1 and not (row['crash'] and goes) and not ext['appCrash'] and ext['startFail'] != 'noexe':
        kind = 'seq'          # as many processes, one after the other
    via = 'xdg' if nocfg else ['xdg', 'home', 'tdir'][k % 3]
    return dict(id=rid, kind=kind, marker=marker, crash=row['crash'], upload=row['upload'], mode=row['mode'], token=row['token'],
                localOK=row['localOK'], calls=calls, dbg=dbg, leak=ext['leak'], appCrash=ext['appCrash'], startFail=ext['startFail'],
                markerText=marker_text(mv), markerSet=mv['set'], modeKind=modev['kind'], modeText=mode_text(modev) if modev['kind'] == 'text' else '',
                tokenKind=tv['kind'], tokenAge=tv['age'], localKind=lv['kind'], cfgVia=via, fancy=(k % 4 == 3), upvarText=upvar,
                cfgUpload=cfg_upload, entry=('maybe' if k % 3 == 2 else 'start'), hold=bool(row['crash'] and goes), holdN=pred['launched'] - pred['sidecars'],
                n=(calls if kind == 'seq' else 1), silent=bool(mv['silent'] or tv['silent'] or modev['silent']),
                shapes={'marker': mv, 'mode': modev, 'token': tv, 'local': lv})


def row_text(x):
    return 'marker=%s crash=%s upload=%s mode=%s token=%s localOK=%s' % (x['marker'], x['crash'], x['upload'], x['mode'], x['token'], x['localOK'])


def parse_printed(out, tag):
    j = out.find('"%s"' % tag)
    if j < 0:
        return None
    start = out.rfind('<<', 0, j)
    k2 = out.find('Computing initial states', j)
    txt = out[start:k2 if k2 > 0 else len(out)]
    # the printed tuple ends at the last '>>' before TLC's next message
    end = txt.rfind('>>')
    return tlaval.parse(txt[:end + 2].strip())


def run(ctx):
    ctx.assumptions += [
        'the child marker is read as the exact string: unset or empty = application, "1" = sidecar, "2" = descendant of a sidecar, anything else '
        '(including "1" or "2" with surrounding white space, "01", "11") = other; on "other" Start refuses to run (log.Fatalf): an observation, '
        'no clause of the property speaks about it',
        'rows with an unusable local directory (a dangling symlink or a regular file in its place) cannot also hold a token file: those rows '
        '(localOK = FALSE, token present) are enumerated and checked in the model but not replayed',
        'the "only if" reading: a sidecar that is NOT launched although crash reporting or an acquired token calls for one falsifies no clause; '
        'it is reported as a divergence from the table (warning), not as a violation',
        'an uploader sidecar launched without an acquired token counts as a launch no token calls for, also when crash reporting is on; if '
        'GO_TELEMETRY_CHILD_UPLOAD=1 is already in the application\'s environment it is taken as the documented assertion that an ancestor holds the token',
        'a fresh token stands for one acquisition within the last 24 hours, so acquiring with a fresh token present is a second acquisition; a token '
        'whose modification time lies in the future, a mode file with leading white space or a trailing tab are shapes the documentation is silent '
        'about: a clause failing only there is a divergence (warning), not a violation',
        'processes of the token race are emulated by scheduler tasks calling the real acquireUploadToken on one directory, interleaved at os.Stat / '
        'os.Remove / os.OpenFile (which may be made to fail) and killable between them; O_EXCL atomicity is the kernel\'s; two acquirers with a '
        'stale token present are outside the property (observation)',
        'descendants of a sidecar are observed through a stand-in for the go command (the same logging program installed as "go" first in PATH); '
        'the upload URL is unreachable and the config download fails (offline), so no report is built or sent',
        'a row is over when the lane process (a child subreaper) has no descendant left; token ages are set relative to the wall clock: 20 s '
        'below and 1 s above the 24 h boundary are the closest shapes',
        'a debug directory made by the user asks for log files: debug/* written by a launched sidecar or an uploader outside mode off is expected',
    ]
    rng = random.Random(ctx.seed)
    ctx.inject('internal/verifh/c16')
    model = {}

    # ------------------------------------------------------------------ TLC
    jobs, meta = [], []
    tcfg_table = ('INIT Init\nNEXT Next\nCONSTANT AllExtras = %s\nINVARIANTS RowOK ChildNeedsApplication UploadImpliesChild OffWritesNothing '
                  'MarkedWritesNoToken CrashAloneSuffices OneTokenPerSequence FailedStartLaunchesNobody\nCHECK_DEADLOCK FALSE\n' % ctx.pick('FALSE', 'TRUE'))
    jobs.append((('SidecarTable',), dict(dump=True, cfg_text=tcfg_table, label='SidecarTable (rows x circumstances)', workers=1)))
    meta.append('table')
    jobs.append((('SidecarConcrete',), dict(dump=True, label='SidecarConcrete (shapes)', workers=1)))
    meta.append('shapes')
    # a single starter, every row: the protocol's quiescent outcome is the table's row
    jobs.append((('Sidecar',), dict(cfg_text=proto_cfg(['s1'], ['unset', 'empty', '1', '2', 'other'], [True, False], [True, False], ['on', 'local', 'off'],
                                                       ALL_TOKENS, [True, False], spec='FairSpec', invariants=SAFETY,
                                                       props=['Termination'], leak=(True, False)),
                                    label='Sidecar[one starter, all rows]', workers=2)))
    meta.append('one')
    fams = [
        ('race2', dict(starters=['s1', 's2'], markers=['unset', 'empty', '2'], crash=[True, False], upload=[True, False], modes=['on', 'local', 'off'],
                       tokens=ALL_TOKENS, local=[True, False], faults=0)),
        ('race3', dict(starters=['s1', 's2', 's3'], markers=['unset'], crash=[True, False], upload=[True], modes=['on'],
                       tokens=ALL_TOKENS, local=[True], faults=0)),
        ('marked2', dict(starters=['s1', 's2'], markers=['unset', 'empty', '1', '2', 'other'], crash=[True], upload=[True], modes=['on', 'off'],
                         tokens=['absent', 'stale'], local=[True], faults=0)),
        # failing system calls and killed starters
        ('fault2', dict(starters=['s1', 's2'], markers=['unset'], crash=[False], upload=[True], modes=['on'],
                        tokens=ALL_TOKENS, local=[True], faults=2)),
        ('fault3', dict(starters=['s1', 's2', 's3'], markers=['unset'], crash=[False], upload=[True], modes=['on'],
                        tokens=['absent', 'stale'], local=[True], faults=1)),
    ]
    if ctx.thorough():
        fams.append(('race4', dict(starters=['s1', 's2', 's3', 's4'], markers=['unset'], crash=[True, False], upload=[True], modes=['on'],
                                   tokens=['absent', 'fresh', 'stale'], local=[True], faults=0)))
        fams.append(('race5', dict(starters=['s1', 's2', 's3', 's4', 's5'], markers=['unset'], crash=[False], upload=[True], modes=['on'],
                                   tokens=['absent', 'fresh', 'stale'], local=[True], faults=0)))
        fams.append(('marked3', dict(starters=['s1', 's2', 's3'], markers=['unset', '1', '2'], crash=[True, False], upload=[True], modes=['on'],
                                     tokens=['absent', 'stale'], local=[True], faults=0)))
        fams.append(('fault3b', dict(starters=['s1', 's2', 's3'], markers=['unset'], crash=[False], upload=[True], modes=['on'],
                                     tokens=ALL_TOKENS, local=[True], faults=3)))
    for name, f in fams:
        mc, onames = window_module(f['tokens'], f['faults'])
        inv = [x for x in SAFETY if x != 'SequentialAgreesWithTable'] + sorted(onames)
        jobs.append((('MCSidecar',), dict(files={'MCSidecar.tla': mc},
                                          cfg_text=proto_cfg(f['starters'], f['markers'], f['crash'], f['upload'], f['modes'], f['tokens'], f['local'],
                                                             invariants=inv, faults=f['faults']),
                                          label='Sidecar[%s] exhaustive' % name, workers=ctx.pick(4, 6), extra=['-continue'], timeout=2400)))
        meta.append(('fam', name, f, onames))
    simf = dict(fams)['race3']
    for lab, flt in (('sim', 0), ('simf', 2)):
        jobs.append((('Sidecar',), dict(cfg_text=proto_cfg(simf['starters'], simf['markers'], simf['crash'], simf['upload'], simf['modes'], simf['tokens'],
                                                           simf['local'], faults=flt),
                                        simulate={'num': ctx.pick(40, 400), 'file': True}, depth=60, label='Sidecar[race3] simulate faults=%d' % flt, count=False)))
        meta.append(lab)
    if ctx.thorough():
        f = dict(fams)['race3']
        jobs.append((('Sidecar',), dict(cfg_text=proto_cfg(f['starters'], f['markers'], f['crash'], f['upload'], f['modes'], f['tokens'], f['local'],
                                                           spec='FairSpec', props=['Termination'], faults=1),
                                        label='Sidecar[race3] liveness', workers=4, timeout=2400)))
        meta.append('live')
    # the table and the shapes are needed first; the protocol families are model-checked while the table rows run
    from concurrent.futures import ThreadPoolExecutor
    first = [i for i, m in enumerate(meta) if m in ('table', 'shapes')]
    rest = [i for i in range(len(meta)) if i not in first]
    pool = ThreadPoolExecutor(max_workers=1)
    fut_rest = pool.submit(ctx.tlc_many, [jobs[i] for i in rest], ctx.pick(6, 6))
    res_first = ctx.tlc_many([jobs[i] for i in first], par=2)

    table_states = None
    shape_states = None
    race_jobs = []          # jobs of the race harness
    why_of = {}
    next_id = [1]

    def add_sched(n, init, sched, finish, why, age=0, faults=0.0):
        rid = next_id[0]
        next_id[0] += 1
        race_jobs.append(dict(kind='sched', id=rid, n=n, init=init, ageSec=age, schedule=sched, finish=finish, seed=rng.randrange(1 << 30), why=why,
                              faults=faults))
        why_of[rid] = why

    RACE_AGES = {'absent': [0], 'ghost': [0], 'nodir': [0], 'fresh': [3600, 86400 - 20, 5], 'stale': [25 * 3600, 86400 + 1, 30 * 86400]}
    found = {}

    def digest(pairs):
      nonlocal table_states, shape_states
      for m, r in pairs:
          if m == 'table':
              if not r.ok:
                  raise Infra('SidecarTable: the table itself violates a clause: %s %s\n%s' % (r.error, r.error_name, r.out[-2000:]))
              table_states = list(tlaval.read_dump(r.dump))
              model['table_states'] = len(table_states)
          elif m == 'shapes':
              if not r.ok:
                  raise Infra('SidecarConcrete: %s %s\n%s' % (r.error, r.error_name, r.out[-2000:]))
              shape_states = list(tlaval.read_dump(r.dump))
              model['shapes'] = len(shape_states)
          elif m == 'one':
              model['one_starter'] = {'distinct': r.distinct, 'result': r.error or 'ok'}
              if not r.ok:
                  raise Infra('Sidecar (one starter): the protocol model disagrees with the table or violates %s %s\n%s' % (r.error, r.error_name, r.out[-3000:]))
          elif m == 'live':
              model['race3/Termination'] = 'holds' if r.ok else 'VIOLATED in the model: %s' % r.error
              if not r.ok:
                  ctx.warn('model: liveness: %s' % r.error)
          elif m in ('sim', 'simf'):
              if r.error:
                  raise Infra('Sidecar simulate: %s\n%s' % (r.error, r.out[-2000:]))
              for fn in ctx.sim_files(r):
                  sts = [s for (_a, _b, s) in tlaval.read_simulate(fn)]
                  if not sts:
                      continue
                  sched = token_schedule(sts)
                  if sched:
                      add_sched(3, sts[0]['initToken'], sched, 'rr', 'simulate')
          else:
              _, name, f, onames = m
              model[name] = {'distinct': r.distinct, 'generated': r.generated}
              if r.error in ('action', 'temporal', 'deadlock'):
                  raise Infra('Sidecar[%s]: %s\n%s' % (name, r.error, r.out[-2000:]))
              for (inv, tr) in tlaval.read_all_traces(r.out):
                  if inv not in onames:
                      # an invariant of the protocol model is false on the model itself
                      raise Infra('Sidecar[%s]: the protocol model violates %s\n%s' % (name, inv, r.out[-3000:]))
                  w, tok = onames[inv]
                  sts = [s for (_a, s) in tr]
                  sched = token_schedule(sts)
                  key = (w, tok, len(f['starters']), f['faults'] > 0)
                  if key in found:
                      continue
                  found[key] = len(sched)
                  model['%s/%s/%s' % (name, w, tok)] = 'reachable (%d token steps)' % len(sched)
                  if sched:
                      for fin in ('stick', 'rr', 'random', 'random'):
                          add_sched(len(f['starters']), tok, sched, fin, '%s[%s]' % (w, tok), age=rng.choice(RACE_AGES[tok]))
    digest([(meta[i], r) for i, r in zip(first, res_first)])

    # ---------------------------------------------- decision table: model -> code
    dealer = Dealer(shape_states, rng)
    rows, skipped = [], 0
    rid = 0
    bystate = {}
    table_states.sort(key=lambda st: json.dumps([st['row'], st['ext']], sort_keys=True))
    for sweep in range(ctx.pick(1, 3)):
        order_states = list(table_states)
        if sweep:
            rng.shuffle(order_states)
        for k, st in enumerate(order_states):
            x = concretize(rid + 1, st, dealer, rng, k + sweep)
            if x is None:
                skipped += sweep == 0
                continue
            rid += 1
            rows.append(x)
            bystate[rid] = st
    # several real processes started at once
    for tok in ALL_TOKENS:
        for k in range(ctx.pick(3, 20)):
            rid += 1
            tv = dealer.deal('token', tok, lambda v: not v['silent'])
            rows.append(dict(id=rid, kind='race', marker='unset', crash=False, upload=True, mode='on', token=tok, localOK=True, calls=1, dbg='absent',
                             leak=False, appCrash=False, startFail='none', markerText='', markerSet=False, modeKind='text', modeText='on 2020-01-01',
                             tokenKind=tv['kind'], tokenAge=tv['age'], localKind='exists', cfgVia='xdg', fancy=False, upvarText='unset', cfgUpload=True,
                             entry='start', hold=False, n=ctx.pick(6, 10), silent=False, shapes={'token': tv},
                             asof=['', '+192h', '+25h', '-192h'][k % 4]))   # Config.UploadStartTime of every starter: the 24 hours are real time
    unused = dealer.total() - len(dealer.used)
    ctx.cov['shapes_enumerated'] = dealer.total()
    ctx.cov['shapes_executed'] = len(dealer.used)
    if unused:
        left = [json.dumps(v, sort_keys=True) for vs in dealer.pool.values() for v in vs if (v['dim'], json.dumps(v, sort_keys=True)) not in dealer.used]
        ctx.warn('%d of %d concrete shapes were not dealt to any row: %s' % (unused, dealer.total(), left[:4]))
    ctx.log('table rows to replay: %d (%d table states, %d not concretizable)' % (len(rows), len(table_states), skipped))
    recs, rc, out = ctx.run_harness('./internal/verifh/c16', 'TestVerifC16Table', inp={'rows': rows, 'lanes': 8}, timeout=2400)
    got = {r['id']: r for r in recs}
    if len(got) != len(rows):
        raise Infra('C16 table harness returned %d results for %d rows\n%s' % (len(got), len(rows), out[-3000:]))
    lines, order = [], []
    for x in rows:
        o = got[x['id']]
        if o['rootsLogged'] != o['n']:
            raise Infra('row %d: %d of %d started processes logged their start\n%s' % (x['id'], o['rootsLogged'], o['n'], json.dumps(o)[:1500]))
        if o['timedOut']:
            ctx.warn('row %d (%s): processes still alive after 20 s were killed' % (x['id'], row_text(x)))
        y = {k: o[k] for k in ('kind', 'id', 'marker', 'crash', 'upload', 'mode', 'token', 'localOK', 'sidecars', 'uploaders', 'nested', 'unmarked', 'freshRemoved',
                               'launched', 'acquired', 'wrote', 'fatal')}
        y.update({k: x[k] for k in ('calls', 'dbg', 'leak', 'appCrash', 'startFail')})
        lines.append(y)
        order.append(x)
    ctx.cov['evaluations'] += len(lines)
    ctx.cov['rows_replayed'] = len(lines)
    ctx.cov['table_states_not_concretizable'] = skipped
    ctx.cov['processes_observed'] = sum(o['processes'] for o in got.values())
    r = ctx.tlc('SidecarRows', files={'c16rows.ndjson': ndjson_text(lines)}, workers=1, label='SidecarRows', count=False, timeout=1500)
    v = parse_printed(r.out, 'C16ROWS')
    if v is None:
        raise Infra('SidecarRows: no verdict\n' + r.out[-2500:])
    bad, diverged = v[1], set(v[2])
    badidx = set()
    nsilent = 0
    b01 = lambda b: '1' if b else '0'
    for (idx, clause) in sorted(tuple(b) for b in bad):
        x, o = order[idx - 1], got[order[idx - 1]['id']]
        text = ('row %d (%s; kind=%s n=%d calls=%d dbg=%s leak=%s appCrash=%s startFail=%s; marker %r, mode file %s %r, token %s age %d s, local %s, via %s, entry %s): '
                '%s is false on the real processes: sidecars=%d uploaders=%d nested=%d unmarked=%d freshRemoved=%s launched=%d acquired=%s wrote=%s; changed: %s; process log: %s' % (
                    x['id'], row_text(x), x['kind'], o['n'], x['calls'], x['dbg'], x['leak'], x['appCrash'], x['startFail'], x['markerText'] if x['markerSet'] else None,
                    x['modeKind'], x['modeText'], x['tokenKind'], x['tokenAge'], x['localKind'], x['cfgVia'], x['entry'], clause,
                    o['sidecars'], o['uploaders'], o['nested'], o['unmarked'], o['freshRemoved'], o['launched'], o['acquired'], o['wrote'], (o['changed'] or [])[:8],
                    json.dumps([(e['pid'], e['lineage'], e['marker'], e['upvar'], e['role']) for e in (o['entries'] or [])][:8])))
        if x['silent']:
            # a shape the documentation says nothing about: not a violation
            nsilent += 1
            if nsilent <= 5:
                ctx.warn('MODEL-DIVERGENCE (undocumented shape) ' + text[:900])
            continue
        badidx.add(idx)
        if clause == 'OffIsInert':
            sig = 'C16:OffIsInert:marker=%s:upload=%s:wrote=%s:launched=%s' % (x['marker'], b01(x['upload']), '+'.join(o['wrote']) or 'nothing',
                                                                               'yes' if o['launched'] else 'no')
        elif x['kind'] == 'race':
            sig = 'C16:%s:race:token=%s' % (clause, x['token'])
        else:
            sig = 'C16:%s:marker=%s:mode=%s:crash=%s:upload=%s:token=%s' % (clause, x['marker'], x['mode'], b01(x['crash']), b01(x['upload']), x['token'])
            if x['calls'] > 1 or x['leak'] or x['dbg'] != 'absent' or x['appCrash'] or x['startFail'] != 'none':
                sig += ':calls=%d:dbg=%s:leak=%s:appCrash=%s:startFail=%s' % (x['calls'], x['dbg'], b01(x['leak']), b01(x['appCrash']), x['startFail'])
        ctx.violation(sig, {'row': x, 'observed': o}, text)
    ndiv = nsilent
    for idx in sorted(diverged):
        if idx in badidx:
            continue
        x, o = order[idx - 1], got[order[idx - 1]['id']]
        ndiv += 1
        if ndiv <= 8:
            st = bystate.get(x['id'])
            ctx.warn('MODEL-DIVERGENCE row %d (%s; kind=%s calls=%d dbg=%s leak=%s appCrash=%s startFail=%s; marker %r, mode file %s %r, token %s age %d, local %s, via %s, entry %s): '
                     'observed sidecars=%d uploaders=%d launched=%d acquired=%s wrote=%s fatal=%s changed=%s, table says %s' % (
                         x['id'], row_text(x), x['kind'], x['calls'], x['dbg'], x['leak'], x['appCrash'], x['startFail'], x['markerText'] if x['markerSet'] else None,
                         x['modeKind'], x['modeText'], x['tokenKind'], x['tokenAge'], x['localKind'], x['cfgVia'], x['entry'],
                         o['sidecars'], o['uploaders'], o['launched'], o['acquired'], o['wrote'], o['fatal'], (o['changed'] or [])[:6],
                         json.dumps(st['pred'], default=list) if st else '(race)'))
    ctx.cov['divergences'] += ndiv
    ctx.cov['traces_validated_against_impl'] += len(lines) - len(diverged | badidx)
    fatal_rows = [x['id'] for x in order if got[x['id']]['fatal'] and x['marker'] == 'other']
    ctx.cov['observations'] = {'start_refuses_other_marker(log.Fatalf)': len(fatal_rows),
                               'uploader_sidecar_in_mode_off_writes_debug_log(user-made debug directory)':
                                   sum(1 for x in order if x['mode'] == 'off' and 'debuglog' in got[x['id']]['wrote'])}
    smp = next((x for x in order if got[x['id']]['launched'] >= 2), order[0])
    ctx.sample({'kind': 'row', 'row': {k: smp[k] for k in ('marker', 'crash', 'upload', 'mode', 'token', 'localOK', 'calls', 'dbg', 'leak', 'appCrash',
                                                           'markerText', 'modeKind', 'modeText', 'tokenKind', 'tokenAge', 'localKind', 'cfgVia', 'entry')},
                'observed': {k: got[smp['id']][k] for k in ('sidecars', 'uploaders', 'nested', 'launched', 'acquired', 'wrote')},
                'process_log': [(e['lineage'], e['marker'], e['upvar'], e['role'], e['args']) for e in got[smp['id']]['entries']]})

    # ------------------------------------------------- token race: real code
    digest([(meta[i], r) for i, r in zip(rest, fut_rest.result())])
    pool.shutdown()
    # windows the check relies on must be reachable in the model (non-vacuity of the race part)
    for w, tok in [('W_BothSawAbsent', 'absent'), ('W_ExclLost', 'absent'), ('W_StatSeesNew', 'absent'), ('W_TwoAcquirers', 'stale'),
                   ('W_RemovedNew', 'stale'), ('W_GoUnderSidecar', 'absent'), ('W_ThreeSawAbsent', 'absent'), ('W_GhostCreateLost', 'ghost'),
                   ('W_StatFailed', 'absent'), ('W_CreateFailed', 'absent'), ('W_RemoveFailed', 'stale'), ('W_KilledBeforeCreate', 'absent'),
                   ('W_KilledThenAcquired', 'absent')]:
        if not any(k[0] == w and k[1] == tok for k in found):
            raise Infra('race window %s[%s] was not reached in the model' % (w, tok))
    ctx.cov['windows_reached'] = len(found)

    root = ctx.scratch_repo()
    shutil.copy(os.path.join(HARNESS, 'inject', 'start_c16_verif_test.go'), os.path.join(root, 'start_c16_verif_test.go'))
    ctx.instrument('-files', '.')
    src = open(os.path.join(root, 'start.go')).read()
    for shim in ('verifrt.OsStat', 'verifrt.OsOpenFile'):
        if shim not in src:
            raise Infra('the instrumenter did not expose %s in start.go' % shim)
    starters_all = ['s1', 's2', 's3', 's4', 's5']
    for tok in ALL_TOKENS + ['nodir']:
        for n in (2, 3):
            race_jobs.append(dict(kind='dfs', id=next_id[0], n=n, init=tok, ageSec=0, max=ctx.pick(1500, 0), why='dfs'))
            next_id[0] += 5000
        if ctx.thorough() and tok != 'nodir':
            race_jobs.append(dict(kind='dfs', id=next_id[0], n=4, init=tok, ageSec=0, max=8000, why='dfs'))
            next_id[0] += 10000
        for k in range(ctx.pick(40, 1000)):
            add_sched(rng.choice([2, 3, 3, 4, 5]), tok, [], 'random', 'random', age=rng.choice(RACE_AGES[tok]))
        for k in range(ctx.pick(40, 1000)):
            add_sched(rng.choice([2, 3, 3, 4, 5]), tok, [], 'random', 'random-faults', age=rng.choice(RACE_AGES[tok]), faults=0.25)
        add_sched(3, tok, [], 'rr', 'rr')
        add_sched(3, tok, [], 'stick', 'seq')
    recs, rc, out = ctx.run_harness('.', 'TestVerifC16Race', inp={'jobs': race_jobs}, timeout=2400)
    res = {x['run']: x for x in recs if x.get('kind') == 'result'}
    obs = {}
    for x in recs:
        if x.get('kind') == 'obs':
            obs.setdefault(x['run'], []).append(x)
    dfs = [x for x in recs if x.get('kind') == 'dfs']
    if not res or len(dfs) != len([j for j in race_jobs if j['kind'] == 'dfs']):
        raise Infra('C16 race harness: missing results\n' + out[-3000:])
    ctx.cov['race_runs'] = len(res)
    ctx.cov['race_dfs'] = [{k: d[k] for k in ('n', 'init', 'runs', 'complete')} for d in dfs]
    ctx.cov['race_runs_with_faults_or_kills'] = sum(1 for x in res.values() if any(e.startswith(('fail:', 'kill:')) for e in x['schedule']))
    ctx.cov['evaluations'] += len(res)
    ctx.cov['real_steps'] = sum(x['steps'] for x in res.values())
    for k, x in sorted(res.items()):
        if x['status'] != 'ok':
            ctx.violation('C16:race:%s:%s' % (x['status'], (x.get('fault') or {}).get('op', '')), {'run': x},
                          'token race run %d (%s, n=%d, init=%s): %s %s; schedule %s' % (k, x.get('why'), x['n'], x['initKind'], x['status'], json.dumps(x.get('fault')), x['schedule']))
        elif x['initKind'] == 'nodir' and x['acquired']:
            ctx.violation('C16:race:acquired-without-directory', {'run': x},
                          'token race run %d: the telemetry directory is unknown (os.UserConfigDir failed) and %s acquired a token' % (k, x['acquired']))
    tl, first_of = [], {}
    for k in sorted(obs):
        if res.get(k, {}).get('status') != 'ok' or res[k]['initKind'] == 'nodir':
            continue
        first_of[k] = len(tl)
        for o in obs[k]:
            y = {f: o[f] for f in ('run', 'i', 't', 'token', 'next', 'acq', 'fault')}
            if o['t'] == 'init':
                y['init'], y['starters'] = o['init'], o['starters']
            if o['t'] == 'kill':
                y['victim'] = o['victim']
            tl.append(y)
        tl[first_of[k]]['last'] = len(tl)
    runs_in = sorted(first_of)
    tcfg = proto_cfg(starters_all, ['unset'], [False], [True], ['on'], ALL_TOKENS, [True], spec='TSpec',
                     invariants=['Conform', 'AtMostOneAcquire'], deadlock=True, faults=99)
    accepted, diverged_runs = 0, []
    remaining = list(runs_in)
    verdict_done = False
    guard = 0
    while remaining and guard < 12:
        guard += 1
        part, idx_run = [], []
        for k in remaining:
            f0 = len(part)
            seg = [dict(y) for y in tl[first_of[k]:(tl[first_of[k]]['last'])]]
            seg[0]['last'] = f0 + len(seg)
            part += seg
            idx_run += [k] * len(seg)
        r = ctx.tlc('SidecarTrace', files={'c16trace.ndjson': ndjson_text(part)}, cfg_text=tcfg, workers=1, label='SidecarTrace[%d]' % guard,
                    count=False, timeout=2400)
        if not verdict_done:
            v = parse_printed(r.out, 'C16BAD')
            if v is None:
                raise Infra('SidecarTrace: no verdict\n' + r.out[-2500:])
            for k in sorted(v[1]):
                x = res[k]
                ctx.violation('C16:AtMostOneAcquire:init=%s:acquirers=%d' % (x['init'], len(x['acquired'])), {'run': x},
                              'token race run %d (%s): %d starters, token initially %s (no stale token present), %d of them acquired the token (%s); schedule %s' % (
                                  k, x.get('why'), x['n'], x['init'], len(x['acquired']), ','.join(x['acquired']), x['schedule']))
            stale_double = sorted(v[2])
            ctx.cov['observations']['two_acquirers_with_stale_token_present(outside the property)'] = len(stale_double)
            if stale_double:
                x = res[stale_double[0]]
                ctx.sample({'kind': 'observation', 'what': 'stale token present: two starters acquire (documented, outside the property)',
                            'n': x['n'], 'schedule': x['schedule'], 'acquired': x['acquired']})
            verdict_done = True
        if r.ok:
            accepted += len(remaining)
            break
        if r.error in ('invariant', 'deadlock') and r.trace:
            lval = r.trace[-1][1].get('l', 2)
            li = (lval - 2) if r.error == 'invariant' else (lval - 1)
            li = min(max(li, 0), len(part) - 1)
            bad_run = idx_run[li]
            diverged_runs.append({'run': bad_run, 'why': r.error, 'error_name': r.error_name, 'line': part[li], 'schedule': res[bad_run]['schedule'],
                                  'init': res[bad_run]['init']})
            pos = remaining.index(bad_run)
            accepted += pos
            remaining = remaining[pos + 1:]
        else:
            raise Infra('SidecarTrace: %s\n%s' % (r.error, r.out[-2500:]))
    ctx.cov['traces_validated_against_impl'] += accepted
    ctx.cov['race_traces_accepted'] = accepted
    # binding demonstration: one corrupted observation must make TLC reject the trace
    demo = []
    for k in runs_in[:30]:
        seg = [dict(y) for y in tl[first_of[k]:(tl[first_of[k]]['last'])]]
        seg[0]['last'] = len(demo) + len(seg)
        demo += seg
    victims = [i for i, y in enumerate(demo) if y['t'] != 'init']
    if victims and ctx.thorough():
        i = victims[len(victims) // 2]
        demo[i] = dict(demo[i], token={'absent': 'fresh', 'fresh': 'absent', 'stale': 'absent', 'ghost': 'absent'}[demo[i]['token']])
        r = ctx.tlc('SidecarTrace', files={'c16trace.ndjson': ndjson_text(demo)}, cfg_text=tcfg, workers=1, label='SidecarTrace[binding demo]',
                    count=False, timeout=600)
        ctx.cov['binding_demo'] = 'corrupted token state at line %d: %s' % (i + 1, 'rejected (%s %s)' % (r.error, r.error_name) if r.error else 'ACCEPTED')
        if not r.error:
            raise Infra('binding demonstration failed: a corrupted trace was accepted by SidecarTrace')
    ctx.cov['divergences'] += len(diverged_runs)
    for d in diverged_runs[:8]:
        ctx.warn('MODEL-DIVERGENCE token race %s' % json.dumps(d)[:1200])
    k0 = next((k for k in runs_in if res[k].get('why', '').startswith('W_')), runs_in[0])
    ctx.sample({'kind': 'race', 'why': res[k0].get('why'), 'n': res[k0]['n'], 'init': res[k0]['init'], 'schedule': res[k0]['schedule'],
                'acquired': res[k0]['acquired']})
    ctx.cov['model_results'] = model
    ctx.cov['distinct_nontrivial'] = len({(x['n'], x['initKind'], tuple(x['schedule'])) for x in res.values()}) + len({
        json.dumps({k: v for k, v in x.items() if k not in ('id', 'hold')}, sort_keys=True) for x in rows})
    ctx.cov['rule'] = ('a table case is one state of SidecarTable.tla (row x circumstances: starts in sequence, debug directory, upload flag in the '
                       'environment, application crash) concretized with shapes enumerated by SidecarConcrete.tla (marker strings, mode file '
                       'texts/kinds, token kind and age around the 24 h boundary, local directory kinds, HOME/XDG/TelemetryDir, odd path names, '
                       'MaybeChild entry) and executed as real processes, the process-start log and directory snapshots abstracted and judged by '
                       'TLC (SidecarRows); a race case is one interleaving of 2-5 starters on the real acquireUploadToken with failing calls and '
                       'kills (TLC witness schedules into race windows, simulate walks, exhaustive DFS of all fault-free interleavings for 2 and 3 '
                       'starters, random orders), each recorded trace validated step by step against Sidecar.tla')
