"""X03, sequential parts: CtrApiLife.tla (histories of public-API calls replayed in
fresh child processes), CtrApiLifeTrace.tla (random histories validated by TLC),
CtrApiFile.tla (ReadFile on files of another process) and the free-running runs
judged by CtrApiObs.tla."""
import json
import random

from vlib import tlaval
from vlib.core import Infra, ndjson_text

from checks._x03_conc import GUAR, judge_obs

LIFE_INV = ['Conservation', 'FlushedWhenOpen', 'NothingBeforeOpen', 'OffWritesNothing', 'OpenWorksUnlessOff', 'ReadSpec',
            'StacksExact', 'PanicOnlyMisuse']
NM = ['a', 'b', 's1', 's2', 'fx', 'fy', 'cx', 'cy']
ALL_MODES = '{"on", "local", "off", "none"}'


def op_key(o):
    return (o['op'], o['n'], o['d'], tuple(sorted(o['fl'])), o['kind'])


def op_json(o):
    return dict(op=o['op'], n=o['n'], d=o['d'], fl=sorted(o['fl']), kind=o['kind'])


def op_desc(o):
    s = o['op']
    if o['op'] == 'open':
        s += '-' + o['kind']
    if o['op'] in ('addg', 'adda'):
        s += '-neg' if o['d'] < 0 else ('-zero' if o['d'] == 0 else '-pos')
    return s


def diff_obs(exp, got):
    """fields in which the real observation `got` differs from the expected one."""
    bad = []
    if bool(got.get('pan')) != exp['pan']:
        bad.append('pan')
    if bool(got.get('dead')) != exp['dead']:
        bad.append('dead')
    if got.get('readpanic'):
        bad.append('readpanic')
    if not exp['dead']:
        for k in ('ga', 'gb', 's1', 's2'):
            if got.get(k) != exp[k]:
                bad.append(k)
        for k in ('gaerr', 'gberr'):
            if exp[k] == 'none' and got.get(k):
                bad.append(k)
        if got.get('rserr') or got.get('rsalien'):
            bad.append('readstack')
    if (got.get('nfiles') == 1) != exp['file'] or got.get('nfiles', 0) > 1:
        bad.append('file')
    for n in NM:
        if got['d'].get(n) != exp['d'][n]:
            bad.append('disk')
            break
    if sorted(exp.get('recs', [])) != sorted(got.get('recs', [])) and 'disk' not in bad:
        bad.append('records')
    if got.get('alien') or got.get('malformed'):
        bad.append('alien')
    if not got.get('rfok', True):
        bad.append('readfile')
    if not exp['file'] and [x for x in got.get('dirfiles', []) if x != 'mode']:
        bad.append('dirfiles')
    return bad


def guar_of(o, field):
    if o['op'] in ('flags', 'cmdflags', 'setcmd'):
        return 'G5'
    if field in ('ga', 'gb', 'gaerr', 'gberr', 's1', 's2', 'readstack', 'readfile', 'readpanic'):
        return 'G3'
    return 'G4'


def life_cfg(maxlen, modes=ALL_MODES, spec='Spec', invariants=(), view=False, deadlock=False):
    s = 'SPECIFICATION %s\nCONSTANTS\n MaxLen = %d\n Modes = %s\n' % (spec, maxlen, modes)
    if invariants:
        s += 'INVARIANTS ' + ' '.join(invariants) + '\n'
    if view:
        s += 'VIEW View\n'
    s += 'CHECK_DEADLOCK %s\n' % ('TRUE' if deadlock else 'FALSE')
    return s


def report_life(ctx, hist, step, o, exp, got, fields, why):
    for fld in fields[:2]:
        g = guar_of(o, fld)
        ctx.violation('X03:%s:life:%s:%s' % (g, op_desc(o), fld),
                      {'mode': hist['mode'], 'ops': hist['ops'], 'step': step, 'expected': exp, 'observed': got},
                      '%s: history (%s, mode %s) %s: after call %d (%s) the process observes %s where the model demands %s (field %s)' % (
                          g, why, hist['mode'], json.dumps([op_desc(x) + (':' + x['n'] if x['n'] else '') for x in hist['ops']]), step + 1, op_desc(o),
                          json.dumps({k: got.get(k) for k in ('pan', 'panmsg', 'ga', 'gaerr', 'gb', 'gberr', 's1', 's2', 'rserr', 'nfiles', 'd', 'alien', 'rfok', 'rferr', 'dirfiles')})[:500],
                          json.dumps({k: exp[k] for k in ('pan', 'ga', 'gb', 's1', 's2', 'file', 'd')}), fld))


def validate_life_trace(ctx, trace_lines, trace_index, label, what='random history'):
    """TLC (CtrApiLifeTrace) decides the logged histories; returns the number accepted."""
    accepted = 0
    guard = 0
    while trace_lines and guard < 6:
        guard += 1
        r = ctx.tlc('CtrApiLifeTrace', files={'x03life.ndjson': ndjson_text(trace_lines)},
                    cfg_text=life_cfg(100, modes='{"on"}', spec='TSpec', deadlock=True), workers=1, label=label, count=False, timeout=1500)
        if r.ok:
            accepted += sum(1 for x in trace_lines if x['kind'] == 'init')
            break
        if r.error == 'deadlock' and r.trace:
            lval = r.trace[-1][1].get('l', 1)
            h, i = trace_index[lval - 1]
            ln = trace_lines[lval - 1]
            o = h['ops'][i] if i >= 0 else {'op': 'init', 'n': '', 'd': 0, 'fl': [], 'kind': ''}
            mstate = r.trace[-1][1]
            ctx.violation('X03:%s:life-trace:%s' % (guar_of(o, 'disk'), op_desc(o)),
                          {'mode': h['mode'], 'args': h.get('args'), 'ops': h['ops'], 'step': i, 'observed': ln.get('obs'), 'model_state_before': {k: mstate.get(k) for k in ('opened', 'disk', 'gmem', 'amem', 'smem', 'sstacks', 'cmdset', 'obs')}},
                          '%s: %s (mode %s%s) %s: what the process observes after call %d (%s) is not what CtrApiLife.tla allows: %s' % (
                              guar_of(o, 'disk'), what, h['mode'], (', command line %s' % h['args']) if h.get('args') else '', json.dumps([op_desc(x) for x in h['ops']]), i + 1, op_desc(o), json.dumps(ln.get('obs'))[:600]))
            # drop this history and continue with the rest
            accepted += sum(1 for x in trace_lines[:lval] if x['kind'] == 'init') - 1
            j = lval
            while j < len(trace_lines) and trace_lines[j]['kind'] != 'init':
                j += 1
            trace_lines, trace_index = trace_lines[j:], trace_index[j:]
        else:
            raise Infra('CtrApiLifeTrace: %s\n%s' % (r.error, r.out[-2500:]))
    return accepted


def run_bin(ctx):
    """G5 / G4 in a REAL program (build-info path present, no countertest): cmd/x03flags."""
    rng = random.Random(ctx.seed * 2750159 + 9)
    hs = []
    argsets = [[], ['-x03x'], ['-x03y=false'], ['-x03x', '-x03y=false'], ['-x03x', '-x03x=true']]

    def O(op, n='', d=0, kind=''):
        return dict(op=op, n=n, d=d, fl=[], kind=kind)
    for mode in ('on', 'off'):
        for args in argsets:
            hs.append(dict(mode=mode, args=args, ops=[O('cmdflags'), O('open', kind='open'), O('cmdflags')]))
        hs.append(dict(mode=mode, args=['-x03x'], ops=[O('open', kind='openrot'), O('cmdflags'), O('setcmd', 'y'), O('cmdflags'), O('inca', 'a', 1)]))
    for _ in range(ctx.pick(12, 150)):
        ops = []
        for _i in range(rng.randrange(2, 10)):
            x = rng.random()
            if x < 0.25:
                ops.append(O('setcmd', rng.choice(['x', 'y'])))
            elif x < 0.55:
                ops.append(O('cmdflags'))
            elif x < 0.75:
                ops.append(O(rng.choice(['inca', 'adda']), rng.choice(['a', 'b']), rng.choice([1, 1, 2, 0, -1])))
            else:
                ops.append(O('open', kind=rng.choice(['open', 'open', 'openrot'])))
        for o in ops:
            if o['op'] == 'inca':
                o['d'] = 1
        hs.append(dict(mode=rng.choice(['on', 'local', 'off', 'none']), args=rng.choice(argsets), ops=ops))
    for i, h in enumerate(hs):
        h['id'] = i + 1
    recs, rc, out = ctx.run_harness('./internal/verifh/x03', 'TestVerifX03Bin', inp={'histories': hs}, timeout=1500)
    got = {r['id']: r for r in recs if r.get('kind') == 'bin'}
    if len(got) != len(hs):
        raise Infra('X03 bin harness returned %d records for %d histories\n%s' % (len(got), len(hs), out[-3000:]))
    lines, index = [], []
    zero = {n: 0 for n in NM}
    for h in hs:
        g = got[h['id']]
        if g.get('crashed'):
            ctx.violation('X03:G4:bin:crash', {'history': h, 'stderr': g.get('stderr')},
                          'G4 (the API never crashes the process): program x03flags %s %s died: %s' % (h['args'], json.dumps([op_desc(x) for x in h['ops']]), (g.get('stderr') or '')[-500:]))
            continue
        if not g.get('buildpath'):
            raise Infra('cmd/x03flags has no build-info path')
        lines.append(dict(kind='init', mode=h['mode'], hid=h['id']))
        index.append((h, -1))
        # flags given on the command line are set before the program does anything: what exists then is the fresh directory
        pre = dict(pan=False, dead=False, reads=False, nfiles=0, d=zero, recs=[], alien=0, malformed=False, rfok=True,
                   dirfiles=['mode'] if h['mode'] != 'none' else [])
        allops = []
        for a in h['args']:
            f = 'x' if a.startswith('-x03x') else 'y'
            allops.append((dict(op='setcmd', n=f, d=0, fl=[], kind=''), pre))
        for o, st in zip(h['ops'], g['steps']):
            ob = {k: st.get(k) for k in ('pan', 'dead', 'reads', 'nfiles', 'd', 'recs', 'alien', 'malformed', 'dirfiles')}
            ob['rfok'] = True
            allops.append((o, ob))
        h2 = dict(h, ops=[o for (o, _s) in allops])
        for i, (o, ob) in enumerate(allops):
            lines.append(dict(kind='call', hid=h['id'], op=o['op'], n=o['n'], d=o['d'], fl=o['fl'], okind=o['kind'], obs=ob))
            index.append((h2, i))
    acc = validate_life_trace(ctx, lines, index, 'CtrApiLifeTrace(bin)', what='real program x03flags')
    ctx.cov['bin_histories'] = len(hs)
    ctx.cov['evaluations'] += sum(len(h['ops']) for h in hs)
    ctx.cov['traces_validated_against_impl'] += acc
    g1 = got[2]
    ctx.sample({'part': 'bin', 'args': hs[1]['args'], 'ops': [op_desc(o) for o in hs[1]['ops']], 'buildpath': g1.get('buildpath'),
                'last': {k: g1['steps'][-1].get(k) for k in ('d', 'recs', 'aliens')} if g1.get('steps') else None})


def run_life(ctx):
    rng = random.Random(ctx.seed * 7919 + 1)
    # ---- (1) exhaustive: every history up to MaxLen, every mode; history-quantified invariants ----
    maxlen = ctx.pick(2, 3)
    jobs = [
        (('CtrApiLife',), dict(cfg_text=life_cfg(maxlen, invariants=LIFE_INV + ['CountFlagsEffect']), dump=True,
                               label='CtrApiLife histories<=%d' % maxlen, timeout=1500, workers=4)),
        (('CtrApiLife',), dict(cfg_text=life_cfg(ctx.pick(5, 7), modes=ctx.pick('{"on", "off"}', ALL_MODES), invariants=LIFE_INV, view=True),
                               label='CtrApiLife abstract graph', timeout=2500, workers=8)),
        (('CtrApiLife',), dict(cfg_text=life_cfg(12), simulate={'num': ctx.pick(150, 1500), 'file': True}, depth=13,
                               label='CtrApiLife simulate', count=False)),
    ]
    r_ex, r_abs, r_sim = ctx.tlc_many(jobs, par=3)
    for r in (r_ex, r_abs):
        if not r.ok:
            raise Infra('CtrApiLife: the specification itself violates %s %s\n%s' % (r.error, r.error_name, r.out[-2500:]))
    if r_sim.error:
        raise Infra('CtrApiLife simulate: %s\n%s' % (r_sim.error, r_sim.out[-2000:]))
    states = {}
    for s in tlaval.read_dump(r_ex.dump):
        states[(s['mode'], tuple(op_key(o) for o in s['hist']))] = s
    prefixes = set()
    for (m, hk) in states:
        if hk:
            prefixes.add((m, hk[:-1]))
    hists = []
    for (m, hk), s in sorted(states.items(), key=lambda kv: (kv[0][0], len(kv[0][1]), repr(kv[0][1]))):
        if (m, hk) in prefixes or not hk:
            continue            # a longer history covers it
        exp = [states[(m, hk[:i + 1])]['obs'] for i in range(len(hk))]
        hists.append(dict(mode=m, ops=[op_json(o) for o in s['hist']], exp=exp, why='exhaustive'))
    # every enumerated history is a model state whose invariants TLC checked; the ones replayed in a child
    # process are all of modes on/off (quick) / a seeded sample when there are more than the tier's budget
    cap = ctx.pick(1250, 9000)
    if len(hists) > cap:
        keep = [h for h in hists if h['mode'] in ('on', 'off')] if not ctx.thorough() else []
        rest = [h for h in hists if h not in keep] if keep else hists
        keep = keep[:cap]
        rng.shuffle(rest)
        hists = keep + rest[:max(0, cap - len(keep))]
    ctx.cov['life_histories_enumerated'] = len(states) - 4
    nex = len(hists)
    # ---- (2) TLC -simulate walks ----
    for fnm in ctx.sim_files(r_sim):
        sts = [s for (_a, _b, s) in tlaval.read_simulate(fnm)]
        if len(sts) < 2:
            continue
        last = sts[-1]
        hists.append(dict(mode=last['mode'], ops=[op_json(o) for o in last['hist']], exp=[s['obs'] for s in sts[1:]], why='simulate'))
    # ---- (3) random histories (code -> model): longer, other amounts ----
    nrand = ctx.pick(150, 1500)
    rnd0 = len(hists)
    for _ in range(nrand):
        mode = rng.choice(['on', 'local', 'off', 'none'])
        fam = rng.choice(['api', 'api', 'test', 'int'])
        n = rng.randrange(4, 22)
        ops = []
        first_open = None
        for i in range(n):
            x = rng.random()
            if x < 0.30:
                k = rng.choice(['incg', 'inca', 'addg', 'adda'])
                d = 1 if k in ('incg', 'inca') else rng.choice([0, 1, 2, 5, 9, -1, -3])
                ops.append(dict(op=k, n=rng.choice(['a', 'b']), d=d, fl=[], kind=''))
            elif x < 0.45:
                ops.append(dict(op='incs', n=rng.choice(['s1', 's2']), d=1, fl=[], kind=''))
            elif x < 0.60:
                ops.append(dict(op='flags', n='', d=0, fl=sorted(rng.sample(['x', 'y'], rng.randrange(0, 3))), kind=''))
            elif x < 0.70:
                ops.append(dict(op='setcmd', n=rng.choice(['x', 'y']), d=0, fl=[], kind=''))
            elif x < 0.80:
                ops.append(dict(op='cmdflags', n='', d=0, fl=[], kind=''))
            else:
                if fam == 'test':
                    kind = 'opentest'
                elif fam == 'int':
                    kind = 'openint' if first_open is None else rng.choice(['openint', 'open', 'openrot'])
                else:
                    kind = rng.choice(['open', 'open', 'openrot', 'openint'])
                if first_open is None:
                    first_open = kind
                ops.append(dict(op='open', n='', d=0, fl=[], kind=kind))
        if first_open == 'openint' and rng.random() < 0.7:
            ops.append(dict(op='close', n='', d=0, fl=[], kind=''))
        hists.append(dict(mode=mode, ops=ops, exp=None, why='random'))
    for i, h in enumerate(hists):
        h['id'] = i + 1
    ctx.log('X03 life: histories: %d exhaustive, %d simulate, %d random' % (nex, rnd0 - nex, nrand))
    recs, rc, out = ctx.run_harness('./internal/verifh/x03', 'TestVerifX03Life',
                                    inp={'histories': [dict(id=h['id'], mode=h['mode'], ops=h['ops']) for h in hists], 'par': 12}, timeout=2500)
    got = {r['id']: r for r in recs if r.get('kind') == 'life'}
    if len(got) != len(hists):
        raise Infra('X03 life harness returned %d records for %d histories\n%s' % (len(got), len(hists), out[-3000:]))
    matched = 0
    steps = 0
    trace_lines, trace_index = [], []
    for h in hists:
        g = got[h['id']]
        if g.get('crashed') or g.get('hung'):
            o = h['ops'][-1]
            ctx.violation('X03:G4:life:%s' % ('hang' if g.get('hung') else 'crash'), {'mode': h['mode'], 'ops': h['ops'], 'stderr': g.get('stderr')},
                          'G4 (the API never crashes the process): history (%s, mode %s) %s: the child process %s: %s' % (
                              h['why'], h['mode'], json.dumps([op_desc(x) for x in h['ops']]), 'hung' if g.get('hung') else 'died',
                              (g.get('stderr') or '')[-600:]))
            continue
        if h['exp'] is not None:
            ok = True
            for i, (o, e, s) in enumerate(zip(h['ops'], h['exp'], g['steps'])):
                steps += 1
                bad = diff_obs(e, s)
                if bad:
                    ok = False
                    report_life(ctx, h, i, o, e, s, bad, h['why'])
                    break
            if ok and len(g['steps']) == len(h['ops']):
                matched += 1
        else:
            trace_lines.append(dict(kind='init', mode=h['mode'], hid=h['id']))
            trace_index.append((h, -1))
            for i, (o, s) in enumerate(zip(h['ops'], g['steps'])):
                steps += 1
                ob = {k: s.get(k) for k in ('pan', 'dead', 'ga', 'gb', 'gaerr', 'gberr', 's1', 's2', 'rserr', 'rsalien', 'nfiles', 'd', 'alien',
                                            'malformed', 'rfok', 'dirfiles', 'recs')}
                ob['reads'] = True
                if s.get('readpanic'):
                    ob['rserr'] = 'panic: ' + s['readpanic']
                trace_lines.append(dict(kind='call', hid=h['id'], op=o['op'], n=o['n'], d=o['d'], fl=o['fl'], okind=o['kind'], obs=ob))
                trace_index.append((h, i))
    ctx.cov['life_histories'] = len(hists)
    ctx.cov['life_steps'] = steps
    ctx.cov['evaluations'] += steps
    ctx.cov['traces_validated_against_impl'] += matched
    # ---- (3b) TLC decides the random histories ----
    accepted = validate_life_trace(ctx, trace_lines, trace_index, 'CtrApiLifeTrace')
    ctx.cov['traces_validated_against_impl'] += accepted
    ctx.cov['life_random_histories_accepted'] = accepted
    if hists:
        h = hists[min(len(hists) - 1, 7)]
        ctx.sample({'part': 'life', 'mode': h['mode'], 'ops': [op_desc(o) + (':' + o['n'] if o['n'] else '') for o in h['ops']],
                    'observed_last': {k: got[h['id']]['steps'][-1].get(k) for k in ('pan', 'ga', 'gb', 's1', 's2', 'nfiles', 'd')} if got[h['id']].get('steps') else None})
    ctx.cov['distinct_nontrivial'] += len(hists)


def harness_extra(ctx, pkg, run, inp, extra_args):
    """ctx.run_harness with extra go test arguments; a failing test binary is returned, not raised."""
    import os
    with ctx._lock:
        ctx._nh = getattr(ctx, '_nh', 0) + 1
        nh = ctx._nh
    inp_path = os.path.join(ctx.work, 'in-%d.json' % nh)
    out_path = os.path.join(ctx.work, 'out-%d.ndjson' % nh)
    with open(inp_path, 'w') as f:
        json.dump(inp, f)
    rc, out = ctx.go_test(None, pkg, run, env={'VERIF_IN': inp_path, 'VERIF_OUT': out_path}, timeout=1500, extra_args=extra_args)
    recs = []
    if os.path.exists(out_path):
        from vlib.core import read_ndjson
        recs = read_ndjson(out_path)
    return recs, rc, out


# ------------------------------------------------------------------ free runs
def run_free(ctx):
    rng = random.Random(ctx.seed * 104729 + 3)
    runs = []
    n = ctx.pick(24, 200)
    for i in range(n):
        depth = rng.choice([0, 1, 1, 2, 2])
        runs.append(dict(id=i + 1, seed=rng.randrange(1 << 30), depth=depth, nleaf=rng.choice([2, 3]), nvia=rng.choice([1, 2]),
                         g=rng.choice([2, 4, 8]), k=rng.choice([5, 40, 200]), obs=rng.choice([0, 1, 2]), plain=rng.choice([0, 1, 2]),
                         rotate=rng.random() < 0.6))
    recs, rc, out = ctx.run_harness('./internal/verifh/x03', 'TestVerifX03Free', inp={'runs': runs}, timeout=2500)
    if any(r.get('kind') == 'calfail' for r in recs):
        ctx.violation('X03:G1:calibration:free', {},
                      'G1: one Inc from each call site of a fresh depth-2 stack counter does not leave exactly one remembered stack (of two program counters) per site')
        return
    fin = {r['run']: r for r in recs if r.get('kind') == 'free'}
    if len(fin) != len(runs):
        raise Infra('X03 free harness returned %d results for %d runs\n%s' % (len(fin), len(runs), out[-3000:]))
    lines, index = [], []
    for r in recs:
        if r.get('kind') == 'free':
            if r.get('faults'):
                ctx.violation('X03:G2:free:fault', {'run': runs[r['run'] - 1], 'faults': r['faults']},
                              'G2 (increments through the stack layer never crash): free-running run %s: %s' % (json.dumps(runs[r['run'] - 1]), json.dumps(r['faults'])[:600]))
            if r.get('readpanic'):
                ctx.violation('X03:G3:free:readpanic', {'run': runs[r['run'] - 1], 'panic': r['readpanic']},
                              'G3: reading at rest panicked in free-running run %s: %s' % (json.dumps(runs[r['run'] - 1]), r['readpanic'][:400]))
            x = dict(r)
            for k, v in dict(namesAgree=True, rd=[], rderr=[], rs=[], rserr='', rsalien=0, diskAfterRead=[], memAfterRead=[]).items():
                x.setdefault(k, v)
            lines.append(x)
            index.append(r['run'])
        elif r.get('kind') in ('fsnap', 'fread'):
            lines.append(r)
            index.append(r['run'])
    seen = set()
    for (idx, clause) in judge_obs(ctx, lines, None, 'CtrApiObs(free)'):
        o = lines[idx]
        kx = index[idx]
        if (kx, clause) in seen:
            continue
        seen.add((kx, clause))
        ctx.violation('X03:%s:%s:free' % (GUAR[clause], clause), {'run': runs[kx - 1], 'observation': o},
                      '%s clause %s is false on what really parallel goroutines left behind: run %s: %s' % (
                          GUAR[clause], clause, json.dumps(runs[kx - 1]), json.dumps({k: o.get(k) for k in ('kind', 'stacks', 'disk', 'mem', 'begun', 'done', 'cur', 'ids', 'lo', 'hi', 'fin', 'rd', 'rderr', 'rs', 'rserr')})[:700]))
    ok = len(runs) - len({k for (k, _c) in seen})
    ctx.cov['free_runs'] = len(runs)
    ctx.cov['free_concurrent_reads'] = sum(1 for x in lines if x.get('kind') == 'fread')
    # ---- the same driver under the Go race detector: a StackCounter is used from many goroutines (G1) ----
    rrecs, rrc, rout = harness_extra(ctx, './internal/verifh/x03', 'TestVerifX03Free', {'runs': runs[:ctx.pick(12, 60)]}, ['-race'])
    races = rout.split('WARNING: DATA RACE')[1:]
    ctx.cov['free_race_detector'] = 'no data race' if not races else '%d reports' % len(races)
    for blk in races[:3]:
        blk = blk.split('==================')[0]
        fns = [ln.strip() for ln in blk.split('\n') if ln.startswith('  ') and not ln.startswith('      ')]
        code = [f for f in fns if ('/internal/counter.' in f or 'x/telemetry/counter.' in f) and 'verif' not in f]
        if not code:
            raise Infra('the X03 free-running harness itself has a data race:\n' + blk[:2500])
        ctx.violation('X03:G1:race:%s' % code[0].split('/')[-1].rstrip('()'), {'report': blk[:4000]},
                      'G1 (a StackCounter / Counter is safe for use by multiple goroutines): the Go race detector reports a data race in %s:%s' % (code[0], blk[:1500]))
    if not races and rrc != 0:
        raise Infra('X03 free harness failed under -race (rc=%d):\n%s' % (rrc, rout[-3000:]))
    ctx.cov['free_snapshots'] = sum(1 for x in lines if x.get('kind') == 'fsnap')
    ctx.cov['free_increments'] = sum(sum(r['begun']) for r in fin.values())
    ctx.cov['evaluations'] += len(lines)
    ctx.cov['traces_validated_against_impl'] += ok
    r1 = fin[1]
    ctx.sample({'part': 'free', 'run': runs[0], 'stacks': r1['stacks'], 'disk': r1['disk'], 'begun': r1['begun']})


# -------------------------------------------------------------- foreign files
PKG = {1: 'example.com/m/alpha', 2: 'example.org/beta.v2'}


def line_text(p, f, k):
    return '%s.%s:+%d,+0x%x' % ('"' if p == 0 else PKG[p], f, k + 1, 0x1a + k)


def rec_name(r, decoded_lines=None):
    if r['kind'] == 'plain':
        return 'x03/other/p%d' % r['id']
    ls = decoded_lines if decoded_lines is not None else r['lines']
    return 'x03/other/st%d\n' % r['id'] + '\n'.join(line_text(p, f, k) for k, (p, f) in enumerate(ls))


def run_file(ctx):
    rng = random.Random(ctx.seed * 15485863 + 5)
    cfg = 'SPECIFICATION Spec\nCONSTANTS\n MaxRecs = %d\n Values = {0, 1, 7}\nINVARIANTS Complete NoDittoLeft ValuesExact\nCHECK_DEADLOCK FALSE\n' % ctx.pick(3, 4)
    r = ctx.tlc('CtrApiFile', cfg_text=cfg, dump=True, label='CtrApiFile', timeout=1500, workers=4)
    if not r.ok:
        raise Infra('CtrApiFile: the specification itself violates %s %s\n%s' % (r.error, r.error_name, r.out[-2000:]))
    vecs = []
    for i, s in enumerate(tlaval.read_dump(r.dump)):
        entries = [dict(name=rec_name(x['r']), value=x['v']) for x in s['recs']]
        rng.shuffle(entries)
        expc = {('x03/other/p%d' % c['id']): c['v'] for c in s['view']['counters']}
        exps = {rec_name({'kind': 'stack', 'id': t['id']}, decoded_lines=t['lines']): t['v'] for t in s['view']['stacks']}
        pad = 0
        if i % 37 == ctx.seed % 37:
            pad = rng.choice([1, 60, 400])
        vecs.append(dict(id=i + 1, entries=entries, pad=pad, expc=expc, exps=exps))
    recs, rc, out = ctx.run_harness('./internal/verifh/x03', 'TestVerifX03File',
                                    inp={'vectors': [dict(id=v['id'], entries=v['entries'], pad=v['pad']) for v in vecs]}, timeout=1500)
    got = {x['id']: x for x in recs if x.get('kind') == 'file'}
    if len(got) != len(vecs):
        raise Infra('X03 file harness returned %d results for %d vectors\n%s' % (len(got), len(vecs), out[-3000:]))
    ok = 0
    for v in vecs:
        g = got[v['id']]
        what = None
        if g.get('panic'):
            what = 'panic'
        elif g.get('err'):
            what = 'error'
        elif g.get('counters') != v['expc']:
            what = 'counters'
        elif g.get('stacks') != v['exps']:
            what = 'stacks'
        elif g.get('npad') != v['pad']:
            what = 'padding-records'
        elif not g.get('unchanged'):
            what = 'file-modified'
        if what:
            ctx.violation('X03:G3:readfile:%s' % what, {'vector': v, 'observed': g},
                          'G3: ReadFile on a file written by another process (%d records + %d filler): %s: expected counters %s stacks %s, got %s' % (
                              len(v['entries']), v['pad'], what, json.dumps(v['expc']), json.dumps(v['exps']), json.dumps({k: g.get(k) for k in ('err', 'panic', 'counters', 'stacks', 'npad', 'unchanged')})[:700]))
        else:
            ok += 1
    ctx.cov['file_vectors'] = len(vecs)
    ctx.cov['evaluations'] += len(vecs)
    ctx.cov['traces_validated_against_impl'] += ok
    ctx.cov['distinct_nontrivial'] += len(vecs)
    ctx.sample({'part': 'file', 'entries': vecs[len(vecs) // 2]['entries'], 'expected_stacks': vecs[len(vecs) // 2]['exps']})
