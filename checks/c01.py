"""C01 — uploaded reports contain only configuration-approved data.

Approval.tla (semantics) / ApprovalVec.tla (structural vector classes with the
demanded outputs) / ApprovalHist.tla (histories of runs with leftover reports)
/ ApprovalTrace.tla (validation of observations on random inputs).  The real
uploader is driven by harness/inject/internal/verifh/c01."""
import json
import os
import random
import re

from vlib import tlaval
from vlib.core import Infra

from . import _approval as A

P = 'C01'


# ------------------------------------------------------------------ histories (ApprovalHist)
def hist_behaviours(ctx):
    mc = '---- MODULE MCApprovalHist ----\nEXTENDS ApprovalHist\n%s\nASSUME JsonSerialize("hcfgs.json", HCfgs)\n====\n' % A.mc_tables(
        'ApprovalTok', 'ApprovalHist')
    base = ('CONSTANTS\n D = %d\n NameOf <- MCNameOf\n ValOf <- MCValOf\n' % A.D_VEC)
    cfg = ('SPECIFICATION Spec\nINVARIANTS TypeOK PostedIsApprovedByItsBuilder\nPROPERTIES NoResend LeftoverResent BuiltIsFrozen BuiltUnderPublished\n'
           'CHECK_DEADLOCK FALSE\nVIEW HView\n' + base + ' WeekSet = %s\n MaxRuns = %d\n MaxPub = %d\n' % (ctx.pick('{1}', '{1, 2}'), ctx.pick(2, 3), ctx.pick(2, 2)))
    r = ctx.tlc('MCApprovalHist', files={'MCApprovalHist.tla': mc}, cfg_text=cfg, workers=ctx.pick(4, 8), label='ApprovalHist-bfs', timeout=2400)
    if not r.ok:
        raise Infra('ApprovalHist: the specification violates %s %s\n%s' % (r.error, r.error_name, r.out[-3000:]))
    simfiles = []
    # quick: the rhythmic walks only (they turn into free walks once MaxPub versions are published)
    for spec, label in ((('Spec', 'ApprovalHist-sim'),) if ctx.thorough() else ()) + (('SpecCycle', 'ApprovalHist-sim-cycle'),):
        cfg = 'SPECIFICATION %s\nCHECK_DEADLOCK FALSE\n' % spec + base + ' WeekSet = {1, 2, 3, 4}\n MaxRuns = 4\n MaxPub = 4\n'
        r = ctx.tlc('MCApprovalHist', files={'MCApprovalHist.tla': mc}, cfg_text=cfg, simulate={'num': ctx.pick(40, 200), 'file': True},
                    depth=ctx.pick(10, 12), label=label, count=False, timeout=2400)
        if r.error:
            raise Infra('%s: %s\n%s' % (label, r.error, r.out[-2000:]))
        simfiles += ctx.sim_files(r)
    with open(os.path.join(r.dir, 'hcfgs.json')) as f:
        hcfgs = json.load(f)
    behs = []
    for fn in simfiles:
        steps, seen, arrived = [], set(), []
        for (_a, _args, st) in tlaval.read_simulate(fn):
            last = st['last']
            if last['op'] == 'arrive':
                for f in st['pending']:
                    if f['id'] not in seen:
                        seen.add(f['id'])
                        arrived.append(f)
            elif last['op'] == 'run':
                steps.append({'cfg': last['cfg'], 'ver': last['ver'], 'how': last['how'], 'fresh': last['how'] == 'fresh', 'x': last['x'], 'reply': last['reply'], 'files': arrived, 'obs': st['obs']})
                arrived = []
        if steps:
            behs.append(steps)
    if not behs:
        raise Infra('ApprovalHist: no behaviour with a run')
    return hcfgs, behs


def tl_files(files):
    """tlaval's view of a token-level file set -> the JSON shape of the vectors."""
    return [{'id': f['id'], 'build': f['build'], 'week': f['week'], 'expired': f.get('expired', True),
             'counts': [dict(n=c['n'], v=c['v']) for c in f['counts']]} for f in files]


def viol(ctx, sig, detail, text):
    fc = ctx.cov.setdefault('finding_counts', {})
    fc[sig] = fc.get(sig, 0) + 1
    return ctx.violation(sig, detail, text)


# ------------------------------------------------------------------ comparisons
def report_diff(ctx, what, cfg, d, x, exp, body, detail):
    """exp: the week's expectations (up3/up5/b3/b5/local as python sets).  Reports
    a violation per differing class; returns True when the body is fine."""
    ok3 = body.data == exp['up3'] and body.progs <= exp['b3']
    ok5 = body.data == exp['up5'] and body.progs <= exp['b5']
    if ok3 or ok5:
        return True
    # name the disagreement against the reading of C01 that is closer to the body
    d3 = len(body.data ^ exp['up3']) + len(body.progs - exp['b3'])
    d5 = len(body.data ^ exp['up5']) + len(body.progs - exp['b5'])
    up, bs = (exp['up3'], exp['b3']) if d3 <= d5 else (exp['up5'], exp['b5'])
    sigs = {}
    for t in sorted(body.data - up):
        sigs.setdefault(A.classify_datum(cfg, x, exp['local'], t, 'extra'), t)
    for t in sorted(up - body.data):
        sigs.setdefault(A.classify_datum(cfg, x, exp['local'], t, 'missing'), t)
    for b in sorted(body.progs - bs):
        sigs.setdefault('program-entry:build-unlisted:' + '+'.join(A.Sem.unlisted_fields(cfg, b) or ['none']), b)
    for s, t in sigs.items():
        viol(ctx, '%s:%s:%s' % (P, what, s), dict(detail, datum=t, config=A.concrete_cfg(cfg, d), X=x / d, body=body.text),
                      '%s: the report for X=%g %s %r (%s)' % (
                          what, x / d, 'carries, against the configuration,' if s.startswith(('extra', 'program')) else 'lacks the approved', t, s))
    return False


def all_strings(j, out):
    if isinstance(j, dict):
        for k, v in j.items():
            out.append(k)
            all_strings(v, out)
    elif isinstance(j, list):
        for v in j:
            all_strings(v, out)
    elif isinstance(j, str):
        out.append(j)


def leak_scan(ctx, req, local, allowed_data, allowed_progs, files, detail):
    """No local counter name or metadata value outside the approved part may
    occur anywhere in a request (path, query, headers, any string of the body)."""
    allowed = set(n for (_b, n, _v) in allowed_data)
    for b in allowed_progs:
        allowed |= set(b)
    forbidden = set(n for (_b, n, _v) in local) - allowed
    for f in files:
        for k in A.BUILD_KEYS:
            forbidden.add(f['build'][k])
    forbidden = set(s for s in forbidden if len(s) >= 2 and not any(s in a for a in allowed))
    hay = [req.get('path', ''), req.get('query', '')]
    for k, vs in (req.get('header') or {}).items():
        hay.append(k)
        hay += vs
    try:
        all_strings(json.loads(req['body']), hay)
    except Exception:
        hay.append(req['body'])
    std = ('Week', 'LastWeek', 'X', 'Programs', 'Config', 'Program', 'Version', 'GoVersion', 'GOOS', 'GOARCH', 'Counters', 'Stacks',
           'Content-Type', 'application/json', 'Accept-Encoding', 'gzip', 'User-Agent', 'Go-http-client/1.1', 'Content-Length')
    for s in sorted(forbidden):
        for h in hay:
            if h in std:
                continue
            if s in h and h not in allowed:
                viol(ctx, '%s:request:unapproved-local-string-in-request' % P, dict(detail, string=s, where=h, request=req),
                              'the local string %r, which is not part of the approved data, occurs in a request (%r)' % (s, h[:200]))
                return False
    return True


def week_expect(wk, scale=0):
    return {'up3': A.tdata(wk['up3'], scale), 'up5': A.tdata(wk['up5'], scale), 'b3': set(A.btuple(b) for b in wk['b3']),
            'b5': set(A.btuple(b) for b in wk['b5']), 'local': A.tdata(wk['local'], scale)}


def nonzero(s):
    return set(t for t in s if t[2] != 0)


def zeros_apart(ctx, what, got, *wants):
    """A counter that is present with value 0: the statement's "present locally"
    is not explicit about it, so a disagreement on zero-valued counters alone is
    a divergence, not a violation.  Returns got without its zero-valued triples."""
    gz = got - nonzero(got)
    if wants and all(gz != (w - nonzero(w)) for w in wants):
        ctx.warn('MODEL-DIVERGENCE %s: zero-valued counters %s, the specification includes %s' % (
            what, sorted(n for (_b, n, _v) in gz), sorted(n for (_b, n, _v) in wants[0] - nonzero(wants[0]))))
        ctx.cov['divergences'] += 1
    return nonzero(got)


def xnum(x, d):
    """A report's X field as a numerator over d, or None."""
    if not isinstance(x, (int, float)):
        return None
    y = x * d
    return int(y) if y == int(y) and 0 <= y <= d else None


def check_vector(ctx, v, rec, later):
    """Compare one single-run case with the outputs ApprovalVec demanded.  The
    draws of the run return v['xs'] in turn; every report is judged relative
    to the X it carries itself ("the report's random X"), for which TLC gave the
    demanded outputs.  `later`: list collecting observations to be decided by
    ApprovalTrace instead (the report's X is none of the injected ones)."""
    d, cfg, scale = v['d'], v['cfg'], v.get('scale', 0)
    detail = {'vector': {'fam': v['fam'], 'cfg': cfg, 'files': v['files'], 'xs': v['xs'], 'd': d, 'value_scale': scale}}
    good = True
    if rec.get('err'):
        viol(ctx, '%s:run:%s' % (P, rec['err'].split(':')[0]), dict(detail, err=rec['err']), 'upload.Run: ' + rec['err'])
        return False
    expect = {}
    for wk in v['weeks']:
        expect.setdefault(A.week_end(wk['w']).isoformat(), {})[wk['x']] = wk
    seen = {}
    for q in rec.get('requests') or []:
        date = q['path'].lstrip('/')
        if q['method'] != 'POST' or date not in expect or q.get('query') or date in seen:
            viol(ctx, '%s:request:unexpected' % P, dict(detail, request=q), 'unexpected request %s %s' % (q['method'], q['path']))
            good = False
            continue
        seen[date] = q
    for date, byx in expect.items():
        q = seen.get(date)
        det = dict(detail, week=date)
        loc = (rec.get('local') or {}).get('local.' + date + '.json')
        lb = A.Body(loc) if loc is not None else None
        lx = xnum(lb.x, d) if lb is not None else None
        any_wk = byx[v['x']]
        if q is None:
            # the X of this week's report is the one its local copy carries
            wk = byx.get(lx, any_wk)
            exp = week_expect(wk, scale)
            if wk['mustsend'] and nonzero(exp['up5']) and nonzero(exp['up3']):
                viol(ctx, '%s:upload:no-report-although-approved-data' % P, dict(det, expected=sorted(exp['up5']), X=wk['x'] / d),
                     'no report was posted for %s although approved data with rate >= X exists and X lies below the sampling rate' % date)
                good = False
        else:
            body = A.Body(q['body'])
            for pr in body.problems:
                viol(ctx, '%s:body:%s' % (P, pr.split(':')[0]), dict(det, problem=pr, body=q['body']), 'malformed report: ' + pr)
                good = False
            if body.week != date:
                viol(ctx, '%s:body:week-differs-from-url' % P, dict(det, body=q['body']), 'report Week %r posted to %s' % (body.week, q['path']))
                good = False
            bx = xnum(body.x, d)
            if bx not in byx:
                later.append((v, any_wk, body))
            else:
                exp = week_expect(byx[bx], scale)
                allowed = exp['up3'] | exp['up5']
                body.data = zeros_apart(ctx, 'report for %s' % date, body.data, exp['up3'], exp['up5'])
                exp['up3'], exp['up5'] = nonzero(exp['up3']), nonzero(exp['up5'])
                good &= report_diff(ctx, 'upload', cfg, d, bx, exp, body, dict(det, local_report_X=None if lb is None else lb.x, draws=rec.get('draws')))
                good &= leak_scan(ctx, q, exp['local'], allowed, exp['b3'] | exp['b5'], v['files'], det)
            if lb is not None and lb.x != body.x:
                # one weekly report, one X: not a clause of the statement by itself (the filter
                # relative to the posted X is what decides), recorded as a divergence
                ctx.warn('MODEL-DIVERGENCE the report posted for %s carries X=%r, local.%s.json of the same run X=%r' % (date, body.x, date, lb.x))
                ctx.cov['divergences'] += 1
            # the bytes kept on the machine are the bytes posted
            kept = (rec.get('upload') or {}).get(date + '.json')
            if kept is not None and kept != q['body']:
                viol(ctx, '%s:upload:kept-copy-differs-from-posted-body' % P, dict(det, kept=kept, body=q['body']),
                     'upload/%s.json differs from the body that was posted' % date)
                good = False
        exp_local = A.tdata(any_wk['local'], scale)
        if lb is not None:
            lb.data = zeros_apart(ctx, 'local.%s.json' % date, lb.data, exp_local)
        exp_local = nonzero(exp_local)
        if lb is None:
            if exp_local:
                ctx.warn('no local.%s.json after the run of vector %s' % (date, v['fam']))
        elif lb.data != exp_local:
            t = sorted(lb.data ^ exp_local)[0]
            viol(ctx, '%s:local-report:%s' % (P, 'value-differs-from-sum' if any(u[0] == t[0] and u[1] == t[1] for u in exp_local) else 'data-differs'),
                 dict(det, datum=t, local=loc), 'local.%s.json is not the per-build sum of the week\'s files (%r)' % (date, t))
            good = False
    return good


def run(ctx):
    ctx.assumptions += [
        'rates, SampleRate and X are multiples of 1/8 (vectors) or 1/1024 (random half), hence exact float64 values; X is chosen by replacing crypto/rand.Reader by a reader that, per uploader run, returns a '
        'SEQUENCE of distinct values (k-th draw of the run = k-th value); every report is judged relative to the X field it carries itself',
        'that the posted report and local.<week>.json of one run carry the same X is recorded as a divergence warning, not as a violation (the statement speaks of "the report\'s random X"; what decides is the filter relative to the posted X)',
        'histories (ApprovalHist) use one X value per run; every history is one machine with one config proxy and one environment, configurations are published there as successive versions between runs, and runs happen in the test process or in a fresh child process; a run may lose the creation of local.<week>.json to a concurrent uploader (emulated by a dangling symbolic link of that name: Stat says absent, exclusive create says exists)',
        'configurations outside the domain of the statement are not generated: a program listed twice, the same expanded counter name or stack name listed twice for a program, '
        'counter entries that are not <plain name> or <chart>:{<bucket>,...} with non-empty buckets, stack entries containing a newline',
        'C01 approves builds on program/version/Go version; a report that additionally drops builds whose GOOS/GOARCH the configuration does not list (the reading of C11) is accepted too',
        'weekly sums stay below 2^31 inside TLC; the sums family is additionally run with every value multiplied by 2^20, 2^40, 2^58 (sums are linear), sums stay below 2^63 (int64 report field)',
        'a counter present with value 0: "present locally" is not explicit about it, a disagreement on zero-valued counters alone is a MODEL-DIVERGENCE warning',
        'names with bytes that are not UTF-8 carry them in the first line only (never approved: configuration names are JSON strings); local.<week>.json is compared through the U+FFFD rendering of encoding/json',
        'files that are still active have their end three days after the start time (expiry arithmetic at the boundary belongs to C09)',
        'stack frames avoid the ditto form (a line whose package path is a double quote) so that counter.DecodeStack is the identity (C15 covers it)',
        'whether a report is sent at all depends on the sampling rate, about which the statement is silent: a missing report is reported only when approved data with rate >= X exists and SampleRate = 1 or X < SampleRate (no reading of "sample rate" drops such a report); a report that IS sent is always checked',
        'mode file "on 2000-01-01", all expiry dates within 21 days before the start time (consent and age gating belong to C02)',
        'existence of report files after a run (C07/C08) is compared with ApprovalHist only as a divergence warning; their contents are checked',
    ]
    ctx.inject('internal/verifh/c01')
    rng = random.Random(1000 + ctx.seed)

    # ---- 1. model -> code: the structural vector classes ---------------------------
    vecs = A.run_vec(ctx, 'c01', ctx.thorough())
    ctx.log('vectors:', len(vecs))
    cases = []
    for i, v in enumerate(vecs):
        cases.append({'id': i, 'steps': [A.step_of(v['cfg'], v['d'], v['files'], v['x'], xs=v['xs'], scale=v.get('scale', 0))]})
    nvec = len(cases)

    # ---- 2. model -> code: histories with leftover reports ----------------------------
    hcfgs, behs = hist_behaviours(ctx)
    vers = lambda n: 'v0.77.%d' % n        # every publication on a machine's config proxy is a new, higher version
    for j, steps in enumerate(behs):
        # one machine: one config proxy and one environment for all runs of the history; the configuration a
        # run finds as "latest" is the one published last; runs happen in this process or in a fresh one
        cases.append({'id': nvec + j, 'oneproxy': True,
                      'steps': [dict(A.step_of(hcfgs[s['cfg']], A.D_VEC, tl_files(s['files']), s['x'], reply=s['reply'], cfgver=vers(s['ver'])), fresh=s['fresh'], raced=s['how'] == 'raced')
                                for s in steps]})
    nhist = len(behs)

    # ---- 3. code -> model: random configurations / file sets ---------------------------
    nrand = ctx.pick(400, 6000)
    nbig = ctx.pick(3, 40)
    rcases = [A.rand_case(rng, A.D_RND, raw_bytes=True, big=k < nbig) for k in range(nrand)]
    for k, c in enumerate(rcases):
        cases.append({'id': nvec + nhist + k, 'steps': [A.step_of(c['cfg'], A.D_RND, c['files'], c['x'], xs=c['xs'])]})

    recs, rc, out = ctx.run_harness('./internal/verifh/c01', 'TestVerifC01Run', inp={'cases': cases}, timeout=2400)
    summ = [r for r in recs if r.get('kind') == 'summary']
    if not summ:
        raise Infra('C01 harness wrote no summary:\n' + out[-3000:])
    by = {}
    for r in recs:
        if r.get('kind') == 'step':
            if r.get('infra'):
                raise Infra('C01 harness: ' + r['infra'])
            if (r.get('err') or '').startswith('error:'):
                raise Infra('C01 harness: upload.Run failed: ' + r['err'])
            by.setdefault(r['id'], {})[r['step']] = r
    ctx.cov['uploader_runs'] = summ[0]['runs']
    ctx.cov['evaluations'] += summ[0]['runs']

    # ---- vectors ---------------------------------------------------------------------------
    later, okvec, nreq = [], 0, 0
    for i, v in enumerate(vecs):
        rec = by.get(i, {}).get(0)
        if rec is None:
            raise Infra('no record for vector %d' % i)
        nreq += len(rec.get('requests') or [])
        if check_vector(ctx, v, rec, later):
            okvec += 1
    ctx.cov['vectors'] = len(vecs)
    ctx.cov['vectors_matching'] = okvec
    ctx.cov['requests_observed'] = nreq
    ctx.cov['traces_validated_against_impl'] += okvec
    fams = {}
    for v in vecs:
        fams[v['fam']] = fams.get(v['fam'], 0) + 1
    ctx.cov['vector_families'] = fams
    if nreq == 0:
        raise Infra('the uploader posted nothing for any vector: the harness does not drive it')
    v = vecs[len(vecs) // 3]
    ctx.sample({'kind': 'vector', 'fam': v['fam'], 'config': A.concrete_cfg(v['cfg'], v['d']), 'X': v['x'] / v['d'],
                'files': [A.concrete_file(f) for f in v['files']][:2], 'draws_return': [y / v['d'] for y in v['xs']],
                'demanded': sorted(A.tdata(sorted(v['weeks'], key=lambda w: (w['w'], w['x'] != v['x']))[0]['up3']))[:6]})

    # ---- histories ----------------------------------------------------------------------------
    okh = check_histories(ctx, hcfgs, vers, behs, by, nvec)
    ctx.cov['histories'] = nhist
    ctx.cov['histories_matching'] = okh
    ctx.cov['traces_validated_against_impl'] += okh

    # ---- random half: TLC decides -------------------------------------------------------------
    obs, back = [], []
    for (v, wk, body) in later:      # vector runs whose report carries another X than the injected one: TLC decides with that X
        k = A.D_RND // v['d']
        xx = body.x * A.D_RND if isinstance(body.x, (int, float)) else None
        if xx is None or xx != int(xx) or not 0 <= xx <= A.D_RND:
            ctx.warn('report X %r is not a multiple of 1/%d; observation skipped' % (body.x, A.D_RND))
            continue
        c = {'cfg': A.scale_cfg(v['cfg'], k), 'files': v['files'], 'x': int(xx)}
        obs.append({'kind': 'upload', 'sem': 'c01', 'cfg': A.abs_cfg(c['cfg']), 'files': A.abs_files(c['files']), 'w': wk['w'], 'x': int(xx),
                    'sent': True, 'progs': [A.bdict(b) for b in sorted(body.progs)], 'data': A.abs_data(body.data)})
        back.append((c, None))
    for k, c in enumerate(rcases):
        rec = by.get(nvec + nhist + k, {}).get(0)
        if rec is None:
            raise Infra('no record for random case %d' % k)
        for o in observe_random(ctx, c, rec):
            obs.append(o)
            back.append((c, rec))
    bad = A.validate_trace(ctx, obs, A.D_RND, 'ApprovalTrace[C01]')
    ctx.cov['observations_validated'] = len(obs)
    ctx.cov['traces_validated_against_impl'] += len(obs) - len(bad)
    if obs:
        ctx.sample({'kind': 'observation', **{k: obs[0][k] for k in ('kind', 'x', 'w', 'sent')}, 'data': obs[0].get('data', [])[:3]})
    for i in bad:
        explain_random(ctx, obs[i], back[i][0], back[i][1])

    ctx.cov['distinct_nontrivial'] = len(vecs) + nhist + len(obs)
    ctx.cov['rule'] = ('vectors: every state of ApprovalVec (family c01: config-entry x local-name, rate x X x SampleRate, shared counter/stack names, '
                       'build fields x config lists, file sets x weeks) run through upload.Run and compared with the demanded report; histories: '
                       '-simulate behaviours of ApprovalHist replayed run by run; observations: seeded random configurations/file sets run through '
                       'upload.Run, each posted/absent report and local aggregate decided by TLC (ApprovalTrace)')


def check_histories(ctx, hcfgs, vers, behs, by, base):
    ok = 0
    d = A.D_VEC
    for j, steps in enumerate(behs):
        good = True
        prev_local = {}
        known = {}      # week date -> the body ApprovalHist built for it (data, progs), once it was posted
        for k, s in enumerate(steps):
            rec = by.get(base + j, {}).get(k)
            if rec is None:
                raise Infra('no record for history %d step %d' % (j, k))
            detail = {'history': [{'published': t['cfg'], 'version': t['ver'], 'run': t['how'], 'x': t['x'], 'reply': t['reply'], 'files': tl_files(t['files'])} for t in steps[:k + 1]], 'step': k}
            if rec.get('err'):
                viol(ctx, '%s:run:%s' % (P, rec['err'].split(':')[0]), dict(detail, err=rec['err']), 'upload.Run: ' + rec['err'])
                good = False
                break
            o = s['obs']
            posts = {A.week_end(b['w']).isoformat(): b for b in o['posts']}
            seen = {}
            for q in rec.get('requests') or []:
                date = q['path'].lstrip('/')
                if q['method'] != 'POST' or date in seen or date not in posts:
                    # every body that leaves the machine is the approved subset built for its week, whatever
                    # file it was read from
                    kb = known.get(date)
                    body = A.Body(q['body'])
                    if kb is not None and q['method'] == 'POST' and (body.data != A.tdata(kb['data']) or not body.progs <= set(A.btuple(x) for x in kb['progs'])):
                        extra = sorted(body.data - A.tdata(kb['data']))
                        viol(ctx, '%s:history:posted-body-not-the-approved-subset' % P, dict(detail, request=q, not_approved=extra[:10]),
                             'history %d run %d: a body posted for %s is not the approved report of that week (e.g. it carries %r)' % (j, k, date, extra[:1]))
                    viol(ctx, '%s:history:request-not-allowed' % P, dict(detail, request=q),
                                  'history %d run %d: request %s %s is not one ApprovalHist allows (resent, refused or unknown week)' % (j, k, q['method'], q['path']))
                    good = False
                    continue
                seen[date] = q
            for date, b in posts.items():
                known[date] = b
                q = seen.get(date)
                if q is None:
                    ctx.warn('MODEL-DIVERGENCE history %d run %d: no request for %s' % (j, k, date))
                    ctx.cov['divergences'] += 1
                    good = False
                    continue
                body = A.Body(q['body'])
                cfg = hcfgs[b['cfg']]
                exp = {'up3': A.tdata(b['data']), 'up5': A.tdata(b['data']), 'b3': set(A.btuple(x) for x in b['progs']),
                       'b5': set(A.btuple(x) for x in b['progs']), 'local': A.tdata(b['local'])}
                det = dict(detail, week=date, built_under=b['cfg'], sent_under=s['cfg'])
                for pr in body.problems:
                    viol(ctx, '%s:body:%s' % (P, pr.split(':')[0]), dict(det, problem=pr, body=q['body']), 'malformed report: ' + pr)
                    good = False
                if body.config != vers(b['ver']):
                    viol(ctx, '%s:history:report-built-under-config-not-current-at-its-run' % P, dict(det, body=q['body'], published=vers(b['ver'])),
                         'history %d run %d: the report for %s carries Config=%r; the configuration published when the run that built it started is %s (%s)' % (
                             j, k, date, body.config, vers(b['ver']), b['cfg']))
                    good = False
                if body.x != b['x'] / d:
                    viol(ctx, '%s:history:report-not-the-one-built' % P, dict(det, body=q['body']),
                         'history %d run %d: the report for %s carries X=%r, it was built with X=%g' % (j, k, date, body.x, b['x'] / d))
                    good = False
                else:
                    good &= report_diff(ctx, 'history', cfg, d, b['x'], exp, body, det)
                if date + '.json' in prev_local and prev_local[date + '.json'] != q['body']:
                    viol(ctx, '%s:history:leftover-report-not-posted-verbatim' % P, dict(det, file=prev_local[date + '.json'], body=q['body']),
                                  'history %d run %d: the leftover report %s.json was not posted unchanged' % (j, k, date))
                    good = False
            # directory contents: existence is C07/C08 (divergence only), contents are ours
            loc = rec.get('local') or {}
            want = set(A.week_end(b['w']).isoformat() + '.json' for b in o['ready']) | set('local.' + A.week_end(w).isoformat() + '.json' for w in o['reported'])
            wantup = set(A.week_end(w).isoformat() + '.json' for w in o['uploaded'])
            if set(loc) != want or set(rec.get('upload') or {}) != wantup or rec.get('countfiles'):
                ctx.warn('MODEL-DIVERGENCE history %d run %d: files local=%s upload=%s count=%s, model local=%s upload=%s' % (
                    j, k, sorted(loc), sorted(rec.get('upload') or {}), rec.get('countfiles'), sorted(want), sorted(wantup)))
                ctx.cov['divergences'] += 1
                good = False
            for b in o['ready']:
                date = A.week_end(b['w']).isoformat()
                if date + '.json' in loc:
                    fb = A.Body(loc[date + '.json'])
                    if fb.data != A.tdata(b['data']):
                        viol(ctx, '%s:history:ready-report-content' % P, dict(detail, week=date, file=loc[date + '.json']),
                                      'history %d run %d: local/%s.json does not hold the approved data' % (j, k, date))
                        good = False
            odd = [n for n in rec.get('localnames') or [] if not re.match(r'^(local\.)?\d{4}-\d\d-\d\d\.json$|.*\.v1\.count$|^weekends$', n)]
            if odd:
                ctx.warn('MODEL-DIVERGENCE history %d run %d: files in local/ that the upload process does not document: %s' % (j, k, odd))
                ctx.cov['divergences'] += 1
                good = False
            prev_local = loc
        if good:
            ok += 1
    if behs:
        s = behs[0]
        ctx.sample({'kind': 'history', 'runs': [{'published': t['cfg'], 'version': t['ver'], 'run': t['how'], 'x': t['x'], 'reply': t['reply'], 'arrived_files': [f['id'] for f in t['files']],
                                                'posted_weeks': sorted(b['w'] for b in t['obs']['posts'])} for t in s]})
    return ok


def observe_random(ctx, c, rec):
    """Abstract one random run into ApprovalTrace records (one `upload` and one
    `local` record per week)."""
    out = []
    if rec.get('err'):
        viol(ctx, '%s:run:%s' % (P, rec['err'].split(':')[0]), {'case': c, 'err': rec['err']}, 'upload.Run: ' + rec['err'])
        return out
    weeks = sorted(set(f['week'] for f in c['files']))
    reqs = {}
    for q in rec.get('requests') or []:
        date = q['path'].lstrip('/')
        w = A.week_of_date(date)
        if q['method'] != 'POST' or w not in weeks or w in reqs or q.get('query'):
            viol(ctx, '%s:request:unexpected' % P, {'case': c, 'request': q}, 'unexpected request %s %s' % (q['method'], q['path']))
            continue
        reqs[w] = q
    acfg, afiles = A.abs_cfg(c['cfg']), A.abs_files(c['files'])
    for w in weeks:
        date = A.week_end(w).isoformat()
        loc = (rec.get('local') or {}).get('local.' + date + '.json')
        lb = A.Body(loc) if loc is not None else None
        lx = xnum(lb.x, A.D_RND) if lb is not None else None
        # a week's report is judged relative to the X it carries; when nothing was posted that is
        # the X of its local copy
        o = {'kind': 'upload', 'sem': 'c01', 'cfg': acfg, 'files': afiles, 'w': w, 'x': c['x'] if lx is None else lx, 'sent': w in reqs, 'progs': [], 'data': []}
        if w in reqs:
            body = A.Body(reqs[w]['body'])
            for pr in body.problems:
                viol(ctx, '%s:body:%s' % (P, pr.split(':')[0]), {'case': c, 'problem': pr, 'body': body.text}, 'malformed report: ' + pr)
            if body.week != date:
                viol(ctx, '%s:body:week-differs-from-url' % P, {'case': c, 'body': body.text}, 'report Week %r posted to %s' % (body.week, date))
            xx = body.x * A.D_RND if isinstance(body.x, (int, float)) else None
            if xx is None or xx != int(xx) or not 0 <= xx <= A.D_RND:
                ctx.warn('report X %r is not a multiple of 1/%d; observation skipped' % (body.x, A.D_RND))
                continue
            o['x'] = int(xx)       # the report's own X decides
            o['progs'] = [A.bdict(b) for b in sorted(body.progs)]
            o['data'] = A.abs_data(body.data)
            o['_body'] = body
            if lb is not None and lb.x != body.x:
                ctx.warn('MODEL-DIVERGENCE the report posted for %s carries X=%r, local.%s.json of the same run X=%r' % (date, body.x, date, lb.x))
                ctx.cov['divergences'] += 1
        out.append(o)
        if lb is not None:
            # the local report went through encoding/json: invalid bytes of a name read U+FFFD
            lfiles = A.abs_files(A.coerced_files(c['files'])) if any(A.has_raw_bytes(cn['n']) for f in c['files'] for cn in f['counts']) else afiles
            out.append({'kind': 'local', 'files': lfiles, 'w': w, 'data': A.abs_data(lb.data), '_body': lb})
    for o in out:
        o.pop('_body', None)
    return out


def explain_random(ctx, o, c, rec):
    """TLC found observation o unexplained: name the class."""
    cfg, d = c['cfg'], A.D_RND
    w = o['w']
    date = A.week_end(w).isoformat()
    local = set()
    # the local aggregate, for naming only
    agg = {}
    for f in c['files']:
        if f['week'] == w:
            for cn in f['counts']:
                k = (A.btuple(f['build']), cn['n'])
                agg[k] = agg.get(k, 0) + cn['v']
    local = set((b, n, v) for (b, n), v in agg.items())
    detail = {'case': {'config': A.concrete_cfg(cfg, d), 'X': o.get('x', c['x']) / d, 'files': [A.concrete_file(f) for f in c['files']]}, 'week': date, 'observation': o}
    if o['kind'] == 'local':
        viol(ctx, '%s:local-report:data-differs' % P, detail, 'local.%s.json is not the per-build sum of the week\'s files' % date)
        return
    x = o['x']
    data = set((A.btuple(t['b']), ''.join('\n' if ch == 'NL' else ch for ch in t['n']), t['v']) for t in o['data'])
    if not o['sent']:
        viol(ctx, '%s:upload:no-report-although-approved-data' % P, detail,
                      'no report was posted for %s although approved data with rate >= X exists and X lies below the sampling rate' % date)
        return
    # a build whose entry the report carries is judged on program/version/Go version
    # (C01's reading), a build the report leaves out on all five fields (C11's)
    progs = set(A.btuple(b) for b in o['progs'])
    three = ('program', 'version', 'gover')
    sigs = {}
    for t in sorted(data):
        s = A.classify_datum(cfg, x, local, t, 'extra', three)
        if not s.endswith(':other'):
            sigs.setdefault(s, t)
    for t in sorted(local - data):
        s = A.classify_datum(cfg, x, local, t, 'missing', three if t[0] in progs else None)
        if s.endswith(':approved') or 'same-name' in s or 'value-differs' in s:
            sigs.setdefault(s, t)
    for b in sorted(progs):
        unl = [f for f in A.Sem.unlisted_fields(cfg, b) if f in ('program', 'version', 'gover')]
        if unl:
            sigs.setdefault('program-entry:build-unlisted:' + '+'.join(unl), b)
    if not sigs:
        sigs['unexplained'] = None
    for s, t in sigs.items():
        viol(ctx, '%s:upload:%s' % (P, s), dict(detail, datum=t),
                      'random case: TLC rejects the observed report for %s, X=%g (%s %r)' % (date, x / d, s, t))
