// Command instrument rewrites selected packages of a scratch copy of the
// repository so that the verification runtime (internal/verifrt) sees every
// shared-memory operation, lock acquisition and file-system / HTTP call:
//
//	atomic.X            -> verifrt.X          (same layout, yields before the operation)
//	sync.Mutex          -> verifrt.Mutex      (cooperative: a blocked task is not runnable)
//	os.F(...)           -> verifrt.OsF(...)   for the calls listed in osFuncs
//	http.Post(...)      -> verifrt.HttpPost(...)
//	x.Write(b) / x.Close() / x.Stat() / x.WriteAt(b, o)  (statement-level method calls
//	                       on any receiver) -> verifrt.FWrite(x, b) ... (type-switching shims)
//	debugPrintf(...)    -> verifrt.Quiet(func() { debugPrintf(...) })  (its arguments contain
//	                       atomic loads that are not part of the protocol)
//
// It is purely syntactic (go/parser, no type information) and is applied to
// whatever the working tree contains, so code added or moved by a change to
// the repository is instrumented too.  Existing *_test.go files of an
// instrumented package are removed from the scratch copy (only the injected
// *_verif_test.go harness files are built there).
//
// usage: instrument -root <scratch> [-files=0|1] <pkgdir>...
package main

import (
	"bytes"
	"flag"
	"fmt"
	"go/ast"
	"go/format"
	"go/parser"
	"go/token"
	"os"
	"path/filepath"
	"strconv"
	"strings"
)

const rtPath = "golang.org/x/telemetry/internal/verifrt"

var osFuncs = map[string]bool{
	"ReadDir": true, "ReadFile": true, "WriteFile": true, "Stat": true, "OpenFile": true,
	"Remove": true, "MkdirAll": true, "Create": true, "Open": true, "Rename": true, "Lstat": true,
}

var methodShims = map[string]string{"Write": "FWrite", "Close": "FClose", "Stat": "FStat", "WriteAt": "FWriteAt"}

var (
	root    = flag.String("root", "", "scratch copy of the repository")
	doFiles = flag.Bool("files", false, "also shim os.* / http.Post / file methods")
	keep    = flag.Bool("keeptests", false, "keep existing _test.go files")
)

func main() {
	flag.Parse()
	if *root == "" || flag.NArg() == 0 {
		fmt.Fprintln(os.Stderr, "usage: instrument -root <dir> <pkgdir>...")
		os.Exit(2)
	}
	total := 0
	for _, rel := range flag.Args() {
		dir := filepath.Join(*root, rel)
		ents, err := os.ReadDir(dir)
		if err != nil {
			fatal(err)
		}
		for _, e := range ents {
			name := e.Name()
			if e.IsDir() || !strings.HasSuffix(name, ".go") {
				continue
			}
			p := filepath.Join(dir, name)
			if strings.HasSuffix(name, "_test.go") {
				if !strings.HasSuffix(name, "_verif_test.go") && !*keep {
					os.Remove(p)
				}
				continue
			}
			n, err := rewrite(p)
			if err != nil {
				fatal(fmt.Errorf("%s: %v", p, err))
			}
			total += n
		}
	}
	fmt.Printf("instrumented %d sites\n", total)
}

func fatal(err error) {
	fmt.Fprintln(os.Stderr, "instrument:", err)
	os.Exit(1)
}

func rewrite(path string) (int, error) {
	fset := token.NewFileSet()
	f, err := parser.ParseFile(fset, path, nil, parser.ParseComments)
	if err != nil {
		return 0, err
	}
	// local names of imports
	names := map[string]string{} // import path -> local name
	for _, im := range f.Imports {
		p, _ := strconv.Unquote(im.Path.Value)
		n := p[strings.LastIndex(p, "/")+1:]
		if im.Name != nil {
			n = im.Name.Name
		}
		names[p] = n
	}
	atomicName, syncName, osName, httpName := names["sync/atomic"], names["sync"], names["os"], names["net/http"]
	n := 0
	pkgSel := func(e ast.Expr, pkg string) (string, bool) {
		s, ok := e.(*ast.SelectorExpr)
		if !ok || pkg == "" {
			return "", false
		}
		id, ok := s.X.(*ast.Ident)
		if !ok || id.Name != pkg || id.Obj != nil {
			return "", false
		}
		return s.Sel.Name, true
	}
	var visit func(node ast.Node) bool
	wrapped := map[*ast.CallExpr]bool{}
	rewriteStmtList := func(list []ast.Stmt) {
		for i, st := range list {
			es, ok := st.(*ast.ExprStmt)
			if !ok {
				continue
			}
			call, ok := es.X.(*ast.CallExpr)
			if !ok {
				continue
			}
			if id, ok := call.Fun.(*ast.Ident); ok && (id.Name == "debugPrintf") && !wrapped[call] {
				wrapped[call] = true
				// verifrt.Quiet(func() { debugPrintf(...) })
				fl := &ast.FuncLit{Type: &ast.FuncType{Params: &ast.FieldList{}}, Body: &ast.BlockStmt{List: []ast.Stmt{&ast.ExprStmt{X: call}}}}
				list[i] = &ast.ExprStmt{X: &ast.CallExpr{Fun: &ast.SelectorExpr{X: ast.NewIdent("verifrt"), Sel: ast.NewIdent("Quiet")}, Args: []ast.Expr{fl}}}
				n++
			}
		}
	}
	visit = func(node ast.Node) bool {
		switch x := node.(type) {
		case *ast.BlockStmt:
			rewriteStmtList(x.List)
		case *ast.CaseClause:
			rewriteStmtList(x.Body)
		case *ast.CommClause:
			rewriteStmtList(x.Body)
		case *ast.SelectorExpr:
			if name, ok := pkgSel(x, atomicName); ok {
				_ = name
				x.X = ast.NewIdent("verifrt")
				n++
			} else if name, ok := pkgSel(x, syncName); ok && (name == "Mutex" || name == "RWMutex") {
				x.X = ast.NewIdent("verifrt")
				n++
			} else if *doFiles {
				if name, ok := pkgSel(x, osName); ok && osFuncs[name] {
					x.X = ast.NewIdent("verifrt")
					x.Sel = ast.NewIdent("Os" + name)
					n++
				} else if name, ok := pkgSel(x, httpName); ok && name == "Post" {
					x.X = ast.NewIdent("verifrt")
					x.Sel = ast.NewIdent("HttpPost")
					n++
				}
			}
		case *ast.CallExpr:
			if *doFiles {
				if s, ok := x.Fun.(*ast.SelectorExpr); ok {
					if shim, ok := methodShims[s.Sel.Name]; ok {
						// not a package-qualified function (os.Stat is handled above)
						if id, isID := s.X.(*ast.Ident); !(isID && id.Obj == nil && isImportName(names, id.Name)) {
							recv := s.X
							x.Fun = &ast.SelectorExpr{X: ast.NewIdent("verifrt"), Sel: ast.NewIdent(shim)}
							x.Args = append([]ast.Expr{recv}, x.Args...)
							n++
						}
					}
				}
			}
		}
		return true
	}
	ast.Inspect(f, visit)
	if n == 0 {
		return 0, nil
	}
	// imports: add verifrt, drop the ones no longer referenced
	used := map[string]bool{}
	ast.Inspect(f, func(node ast.Node) bool {
		if s, ok := node.(*ast.SelectorExpr); ok {
			if id, ok := s.X.(*ast.Ident); ok {
				used[id.Name] = true
			}
		}
		return true
	})
	for _, d := range f.Decls {
		gd, ok := d.(*ast.GenDecl)
		if !ok || gd.Tok != token.IMPORT {
			continue
		}
		var specs []ast.Spec
		for _, sp := range gd.Specs {
			im := sp.(*ast.ImportSpec)
			p, _ := strconv.Unquote(im.Path.Value)
			ln := names[p]
			if im.Name != nil && (im.Name.Name == "_" || im.Name.Name == ".") {
				specs = append(specs, sp)
				continue
			}
			if used[ln] {
				specs = append(specs, sp)
			}
		}
		gd.Specs = specs
	}
	// prepend our import as its own declaration
	imp := &ast.GenDecl{Tok: token.IMPORT, Specs: []ast.Spec{&ast.ImportSpec{Path: &ast.BasicLit{Kind: token.STRING, Value: strconv.Quote(rtPath)}}}}
	var decls []ast.Decl
	placed := false
	for _, d := range f.Decls {
		if gd, ok := d.(*ast.GenDecl); ok && gd.Tok == token.IMPORT {
			if len(gd.Specs) > 0 {
				decls = append(decls, d)
			}
			continue
		}
		if !placed {
			decls = append(decls, imp)
			placed = true
		}
		decls = append(decls, d)
	}
	if !placed {
		decls = append(decls, imp)
	}
	f.Decls = decls
	f.Imports = nil
	var buf bytes.Buffer
	if err := format.Node(&buf, fset, f); err != nil {
		return 0, err
	}
	out := buf.Bytes()
	// the scratch copy is built with the verif tag; make the dependency explicit
	return n, os.WriteFile(path, out, 0666)
}

func isImportName(names map[string]string, id string) bool {
	for _, n := range names {
		if n == id {
			return true
		}
	}
	return false
}
