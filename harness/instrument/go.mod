module verif/instrument

go 1.21
