//go:build verif

package verifrt

// A deterministic cooperative scheduler.  Tasks are goroutines started with
// (*Sched).Go; exactly one of them runs at a time.  A task gives control back
// at every Yield (called by the atomic / mutex / file shims before the shared
// operation), so one scheduling step is "the shared operation at the current
// yield point plus the local code up to the next yield point".

import (
	"fmt"
	"runtime"
	"runtime/debug"
	"strings"
	"sync/atomic"
	"time"
)

type TaskState int

const (
	Ready TaskState = iota
	Done
	Faulted
	Hung
	Killed
)

func (s TaskState) String() string {
	return [...]string{"ready", "done", "fault", "hung", "killed"}[s]
}

type Task struct {
	Name   string
	State  TaskState
	Label  string // function containing the yield point the task is suspended at
	Kind   string // operation about to be performed (e.g. "Uint64.Load", "Mutex.Lock", "os.Remove")
	Arg    string
	Steps  int
	Panic  any
	Stack  string
	waitMu *Mutex // non-nil: suspended in Lock on this mutex
	waitFn func() bool // non-nil: suspended until it returns true (RWMutex)
	wake   chan struct{}
	s      *Sched
	quiet  int
}

type Sched struct {
	Tasks   []*Task
	byName  map[string]*Task
	yielded chan *Task
	cur     *Task
	// Transparent decides whether a yield is auto-continued (not a
	// scheduling point) given the function and the operation kind.
	Transparent func(fn, kind string) bool
	StepTimeout time.Duration
	TotalSteps  int
}

var active atomic.Pointer[Sched]

// NewSched installs a new scheduler; Close must be called when done.
func NewSched() *Sched {
	s := &Sched{byName: map[string]*Task{}, yielded: make(chan *Task), StepTimeout: 10 * time.Second}
	active.Store(s)
	return s
}

func (s *Sched) Close() { active.CompareAndSwap(s, nil) }

// Go registers a task; it does not run until the first Step.
func (s *Sched) Go(name string, fn func()) *Task {
	t := &Task{Name: name, wake: make(chan struct{}), s: s, Label: "start", Kind: "start"}
	s.Tasks = append(s.Tasks, t)
	s.byName[name] = t
	go func() {
		<-t.wake
		debug.SetPanicOnFault(true)
		defer func() {
			if r := recover(); r != nil {
				t.Panic = r
				t.Stack = string(debug.Stack())
				t.State = Faulted
			} else if t.State == Ready {
				t.State = Done
			}
			s.cur = nil
			s.yielded <- t
		}()
		fn()
	}()
	return t
}

func (s *Sched) Task(name string) *Task { return s.byName[name] }

// Runnable reports whether t can take a step now.
func (s *Sched) Runnable(t *Task) bool {
	if t.State != Ready {
		return false
	}
	if t.waitMu != nil && t.waitMu.held.Load() {
		return false
	}
	if t.waitFn != nil && !t.waitFn() {
		return false
	}
	return true
}

func (s *Sched) RunnableTasks() []*Task {
	var out []*Task
	for _, t := range s.Tasks {
		if s.Runnable(t) {
			out = append(out, t)
		}
	}
	return out
}

func (s *Sched) AllDone() bool {
	for _, t := range s.Tasks {
		if t.State == Ready {
			return false
		}
	}
	return true
}

// Step lets t run until its next (non-transparent) yield point or its end.
// It returns false if the step did not finish within StepTimeout (the task is
// then marked Hung and must not be stepped again).
func (s *Sched) Step(t *Task) bool {
	if !s.Runnable(t) {
		panic(fmt.Sprintf("verifrt: step of non-runnable task %s (%v)", t.Name, t.State))
	}
	s.cur = t
	t.Steps++
	s.TotalSteps++
	t.wake <- struct{}{}
	select {
	case <-s.yielded:
		return true
	case <-time.After(s.StepTimeout):
		t.State = Hung
		s.cur = nil
		return false
	}
}

// Kill marks a task as dead: it is never resumed, its deferred functions do
// not run, it releases nothing (a process kill for state kept in files).
func (s *Sched) Kill(t *Task) {
	if t.State == Ready {
		t.State = Killed
	}
}

func callerFunc(skip int) string {
	pc := make([]uintptr, 12)
	n := runtime.Callers(skip, pc)
	frs := runtime.CallersFrames(pc[:n])
	var chain []string
	for {
		fr, more := frs.Next()
		fn := fr.Function
		if !strings.Contains(fn, "/verifrt.") && !strings.HasPrefix(fn, "net/http.") {
			if i := strings.LastIndex(fn, "/"); i >= 0 {
				fn = fn[i+1:]
			}
			if i := strings.Index(fn, "."); i >= 0 {
				fn = fn[i+1:] // drop the package name
			}
			chain = append(chain, fn)
			if len(chain) == 4 {
				break
			}
		}
		if !more {
			break
		}
	}
	return strings.Join(chain, "<")
}

// Yield is called (through the shims) by instrumented code right before a
// shared operation.  Outside a scheduled task it returns immediately.
func Yield(kind, arg string) { yield(kind, arg, false) }

func yield(kind, arg string, force bool) {
	s := active.Load()
	if s == nil {
		return
	}
	t := s.cur
	if t == nil || t.quiet > 0 {
		return
	}
	fn := callerFunc(4)
	if !force && s.Transparent != nil && s.Transparent(fn, kind) {
		return
	}
	t.Label, t.Kind, t.Arg = fn, kind, arg
	s.cur = nil
	s.yielded <- t
	<-t.wake
	if t.State == Killed {
		// never happens: killed tasks are not woken
		select {}
	}
}

// Quiet runs fn with yields suppressed (used for debug printing whose
// arguments contain atomic loads that are not part of the protocol).
func Quiet(fn func()) {
	s := active.Load()
	if s == nil || s.cur == nil {
		fn()
		return
	}
	t := s.cur
	t.quiet++
	defer func() { t.quiet-- }()
	fn()
}

// CurrentTask returns the name of the running task ("" outside tasks).
func CurrentTask() string {
	s := active.Load()
	if s == nil || s.cur == nil {
		return ""
	}
	return s.cur.Name
}

// ---------------------------------------------------------------- mutex

// Mutex replaces sync.Mutex in instrumented packages.
type Mutex struct {
	held  atomic.Bool
	owner string
}

func (m *Mutex) Lock() {
	s := active.Load()
	if s != nil && s.cur != nil && s.cur.quiet == 0 {
		t := s.cur
		if s.Transparent != nil && !m.held.Load() && s.Transparent(callerFunc(3), "Mutex.Lock") {
			// an uncontended lock of a transparent class is not a scheduling point
			if m.held.CompareAndSwap(false, true) {
				m.owner = t.Name
				return
			}
		}
		t.waitMu = m
		yield("Mutex.Lock", "", true)
		// the scheduler only resumes us when the mutex is free
		for !m.held.CompareAndSwap(false, true) {
			yield("Mutex.Lock", "", true)
		}
		t.waitMu = nil
		m.owner = t.Name
		return
	}
	for !m.held.CompareAndSwap(false, true) {
		runtime.Gosched()
	}
	m.owner = ""
}

func (m *Mutex) TryLock() bool { return m.held.CompareAndSwap(false, true) }

func (m *Mutex) Unlock() {
	if !m.held.CompareAndSwap(true, false) {
		panic("verifrt: unlock of unlocked mutex")
	}
}

// Held reports whether the mutex is held and by which task.
func (m *Mutex) Held() (bool, string) { return m.held.Load(), m.owner }

// RWMutex replaces sync.RWMutex in instrumented packages: one writer or any
// number of readers; a task suspended in Lock / RLock is runnable only when it
// could take the lock.
type RWMutex struct {
	w       atomic.Bool
	readers atomic.Int32
	owner   string
}

func (m *RWMutex) acquire(kind string, can func() bool, take func() bool) {
	s := active.Load()
	if s != nil && s.cur != nil && s.cur.quiet == 0 {
		t := s.cur
		if s.Transparent != nil && can() && s.Transparent(callerFunc(4), kind) {
			if take() {
				return
			}
		}
		t.waitFn = can
		yield(kind, "", true)
		for !take() {
			yield(kind, "", true)
		}
		t.waitFn = nil
		return
	}
	for !take() {
		runtime.Gosched()
	}
}

func (m *RWMutex) Lock() {
	m.acquire("RWMutex.Lock", func() bool { return !m.w.Load() && m.readers.Load() == 0 }, func() bool {
		if m.readers.Load() != 0 || !m.w.CompareAndSwap(false, true) {
			return false
		}
		if m.readers.Load() != 0 { // a reader slipped in (only possible outside the scheduler)
			m.w.Store(false)
			return false
		}
		m.owner = CurrentTask()
		return true
	})
}

func (m *RWMutex) Unlock() {
	if !m.w.CompareAndSwap(true, false) {
		panic("verifrt: unlock of unlocked RWMutex")
	}
}

func (m *RWMutex) RLock() {
	m.acquire("RWMutex.RLock", func() bool { return !m.w.Load() }, func() bool {
		if m.w.Load() {
			return false
		}
		m.readers.Add(1)
		if m.w.Load() {
			m.readers.Add(-1)
			return false
		}
		return true
	})
}

func (m *RWMutex) RUnlock() {
	if m.readers.Add(-1) < 0 {
		panic("verifrt: RUnlock of unlocked RWMutex")
	}
}

func (m *RWMutex) TryLock() bool {
	if m.readers.Load() != 0 || !m.w.CompareAndSwap(false, true) {
		return false
	}
	return true
}

// Held reports whether the write lock is held and by which task.
func (m *RWMutex) Held() (bool, string) { return m.w.Load(), m.owner }

// ---------------------------------------------------------------- atomics
// Same memory layout as the sync/atomic types (the counter file code casts
// mapped memory to them).

type Uint64 struct{ v atomic.Uint64 }

func (x *Uint64) Load() uint64 { Yield("Uint64.Load", ""); return x.v.Load() }
func (x *Uint64) Store(v uint64) {
	Yield("Uint64.Store", "")
	x.v.Store(v)
}
func (x *Uint64) Add(d uint64) uint64 { Yield("Uint64.Add", ""); return x.v.Add(d) }
func (x *Uint64) Swap(v uint64) uint64 {
	Yield("Uint64.Swap", "")
	return x.v.Swap(v)
}
func (x *Uint64) CompareAndSwap(old, new uint64) bool {
	Yield("Uint64.CompareAndSwap", "")
	return x.v.CompareAndSwap(old, new)
}

// Raw reads the value without yielding (for projections).
func (x *Uint64) Or(mask uint64) uint64  { Yield("Uint64.Or", ""); return x.v.Or(mask) }
func (x *Uint64) And(mask uint64) uint64 { Yield("Uint64.And", ""); return x.v.And(mask) }
func (x *Uint64) Raw() uint64 { return x.v.Load() }

type Uint32 struct{ v atomic.Uint32 }

func (x *Uint32) Load() uint32 { Yield("Uint32.Load", ""); return x.v.Load() }
func (x *Uint32) Store(v uint32) {
	Yield("Uint32.Store", "")
	x.v.Store(v)
}
func (x *Uint32) Add(d uint32) uint32 { Yield("Uint32.Add", ""); return x.v.Add(d) }
func (x *Uint32) Swap(v uint32) uint32 {
	Yield("Uint32.Swap", "")
	return x.v.Swap(v)
}
func (x *Uint32) CompareAndSwap(old, new uint32) bool {
	Yield("Uint32.CompareAndSwap", "")
	return x.v.CompareAndSwap(old, new)
}
func (x *Uint32) Or(mask uint32) uint32  { Yield("Uint32.Or", ""); return x.v.Or(mask) }
func (x *Uint32) And(mask uint32) uint32 { Yield("Uint32.And", ""); return x.v.And(mask) }
func (x *Uint32) Raw() uint32 { return x.v.Load() }

type Int32 struct{ v atomic.Int32 }

func (x *Int32) Load() int32   { Yield("Int32.Load", ""); return x.v.Load() }
func (x *Int32) Store(v int32) { Yield("Int32.Store", ""); x.v.Store(v) }
func (x *Int32) Add(d int32) int32 {
	Yield("Int32.Add", "")
	return x.v.Add(d)
}
func (x *Int32) CompareAndSwap(old, new int32) bool {
	Yield("Int32.CompareAndSwap", "")
	return x.v.CompareAndSwap(old, new)
}

type Int64 struct{ v atomic.Int64 }

func (x *Int64) Load() int64   { Yield("Int64.Load", ""); return x.v.Load() }
func (x *Int64) Store(v int64) { Yield("Int64.Store", ""); x.v.Store(v) }
func (x *Int64) Add(d int64) int64 {
	Yield("Int64.Add", "")
	return x.v.Add(d)
}
func (x *Int64) CompareAndSwap(old, new int64) bool {
	Yield("Int64.CompareAndSwap", "")
	return x.v.CompareAndSwap(old, new)
}

type Bool struct{ v atomic.Bool }

func (x *Bool) Load() bool   { Yield("Bool.Load", ""); return x.v.Load() }
func (x *Bool) Store(v bool) { Yield("Bool.Store", ""); x.v.Store(v) }
func (x *Bool) CompareAndSwap(old, new bool) bool {
	Yield("Bool.CompareAndSwap", "")
	return x.v.CompareAndSwap(old, new)
}
func (x *Bool) Swap(v bool) bool { Yield("Bool.Swap", ""); return x.v.Swap(v) }

type Pointer[T any] struct{ v atomic.Pointer[T] }

func (x *Pointer[T]) Load() *T { Yield("Pointer.Load", ""); return x.v.Load() }
func (x *Pointer[T]) Store(p *T) {
	Yield("Pointer.Store", "")
	x.v.Store(p)
}
func (x *Pointer[T]) Swap(p *T) *T { Yield("Pointer.Swap", ""); return x.v.Swap(p) }
func (x *Pointer[T]) CompareAndSwap(old, new *T) bool {
	Yield("Pointer.CompareAndSwap", "")
	return x.v.CompareAndSwap(old, new)
}
func (x *Pointer[T]) Raw() *T { return x.v.Load() }

func StoreUint32(p *uint32, v uint32) { Yield("StoreUint32", ""); atomic.StoreUint32(p, v) }
func LoadUint32(p *uint32) uint32     { Yield("LoadUint32", ""); return atomic.LoadUint32(p) }
func StoreUint64(p *uint64, v uint64) { Yield("StoreUint64", ""); atomic.StoreUint64(p, v) }
func LoadUint64(p *uint64) uint64     { Yield("LoadUint64", ""); return atomic.LoadUint64(p) }
func AddUint64(p *uint64, d uint64) uint64 {
	Yield("AddUint64", "")
	return atomic.AddUint64(p, d)
}
func AddUint32(p *uint32, d uint32) uint32 {
	Yield("AddUint32", "")
	return atomic.AddUint32(p, d)
}
func CompareAndSwapUint32(p *uint32, old, new uint32) bool {
	Yield("CompareAndSwapUint32", "")
	return atomic.CompareAndSwapUint32(p, old, new)
}
func CompareAndSwapUint64(p *uint64, old, new uint64) bool {
	Yield("CompareAndSwapUint64", "")
	return atomic.CompareAndSwapUint64(p, old, new)
}
func AddInt32(p *int32, d int32) int32 { Yield("AddInt32", ""); return atomic.AddInt32(p, d) }
func AddInt64(p *int64, d int64) int64 { Yield("AddInt64", ""); return atomic.AddInt64(p, d) }
func LoadInt32(p *int32) int32         { Yield("LoadInt32", ""); return atomic.LoadInt32(p) }
func LoadInt64(p *int64) int64         { Yield("LoadInt64", ""); return atomic.LoadInt64(p) }
func StoreInt32(p *int32, v int32)     { Yield("StoreInt32", ""); atomic.StoreInt32(p, v) }
func StoreInt64(p *int64, v int64)     { Yield("StoreInt64", ""); atomic.StoreInt64(p, v) }
