//go:build verif

package verifrt

// An independent implementation of the documented v1 counter-file layout
// (reader and writer). It shares no code with internal/counter: own FNV-1a,
// own placement arithmetic, own chain walk with cycle detection. It is the
// "independent decoder" the properties C04, C06 and C10 refer to and the
// projection function of the conformance checks.

import (
	"encoding/binary"
	"fmt"
	"sort"
	"strings"
)

const (
	V1Prefix   = "# telemetry/counter file v1\n"
	V1Page     = 16 * 1024
	V1NumHash  = 512
	V1Unit     = 32
	V1MaxName  = 4096
	V1MaxMeta  = 512
	v1HdrLenAt = 28
)

// V1Record is one record found by walking a hash chain.
type V1Record struct {
	Off    uint32
	Bucket int
	Name   string
	Value  uint64
	Next   uint32
	Flag   byte // top byte of the name-length word
}

// V1File is the decoded view of a counter file.
type V1File struct {
	Size     int
	HdrLen   uint32
	MetaRaw  string
	MetaKeys []string
	Meta     map[string]string
	Limit    uint32
	Records  []V1Record // in bucket order, chain order
	Problems []string   // empty iff the file is well-formed
}

func (f *V1File) WellFormed() bool { return len(f.Problems) == 0 }

// Counts returns raw name -> value.
func (f *V1File) Counts() map[string]uint64 {
	m := map[string]uint64{}
	for _, r := range f.Records {
		m[r.Name] = r.Value
	}
	return m
}

func (f *V1File) bad(format string, a ...any) {
	if len(f.Problems) < 20 {
		f.Problems = append(f.Problems, fmt.Sprintf(format, a...))
	}
}

// V1Hash is FNV-1a (32 bit) folded to 9 bits, as the format documents.
func V1Hash(name string) uint32 {
	h := uint32(0x811c9dc5)
	for i := 0; i < len(name); i++ {
		h ^= uint32(name[i])
		h *= 0x01000193
	}
	return (h ^ (h >> 16)) % V1NumHash
}

func up(x, unit uint32) uint32 { return (x + unit - 1) / unit * unit }

// V1HeaderLen is the header length for a metadata string.
func V1HeaderLen(meta string) uint32 { return up(uint32(v1HdrLenAt+4+len(meta)), V1Unit) }

// V1Place returns where a record for a name of length n goes given the
// current allocation limit (0 = empty file).
func V1Place(hdrLen, limit uint32, n int) (start, end uint32) {
	if limit == 0 {
		limit = hdrLen + 4 + 4*V1NumHash
	}
	size := up(uint32(16+n), V1Unit)
	start = up(limit, V1Unit)
	// a record may not reach the end of its page (the last bytes of a page
	// are reserved for file extension)
	if start/V1Page != (start+size)/V1Page {
		start = up(limit, V1Page)
	}
	return start, start + size
}

// DecodeV1 decodes data. It never panics and always terminates.
func DecodeV1(data []byte) *V1File {
	f := &V1File{Size: len(data), Meta: map[string]string{}}
	if len(data) < V1Page {
		f.bad("short file %d", len(data))
		return f
	}
	if len(data)%V1Page != 0 {
		f.bad("size %d not a multiple of the page size", len(data))
	}
	if string(data[:len(V1Prefix)]) != V1Prefix {
		f.bad("bad prefix")
		return f
	}
	f.HdrLen = binary.LittleEndian.Uint32(data[v1HdrLenAt:])
	if f.HdrLen < 32 || f.HdrLen > V1Page || f.HdrLen%V1Unit != 0 {
		f.bad("header length %d", f.HdrLen)
		return f
	}
	meta := data[32:f.HdrLen]
	for i, b := range meta {
		if b == 0 {
			meta = meta[:i]
			break
		}
	}
	f.MetaRaw = string(meta)
	for _, line := range strings.Split(f.MetaRaw, "\n") {
		if line == "" {
			continue
		}
		i := strings.Index(line, ": ")
		if i < 0 {
			f.bad("meta line %q", line)
			continue
		}
		if _, dup := f.Meta[line[:i]]; !dup {
			f.MetaKeys = append(f.MetaKeys, line[:i])
		}
		f.Meta[line[:i]] = line[i+2:]
	}
	tab := f.HdrLen + 4
	first := tab + 4*V1NumHash
	if int(first) > len(data) {
		f.bad("table beyond file")
		return f
	}
	f.Limit = binary.LittleEndian.Uint32(data[f.HdrLen:])
	if int64(f.Limit) > int64(len(data)) {
		f.bad("limit %d beyond size %d", f.Limit, len(data))
	}
	if f.Limit != 0 && (f.Limit < first || f.Limit%V1Unit != 0) {
		f.bad("limit %d malformed", f.Limit)
	}
	seenOff := map[uint32]bool{}
	seenName := map[string]bool{}
	for b := 0; b < V1NumHash; b++ {
		off := binary.LittleEndian.Uint32(data[tab+uint32(4*b):])
		for off != 0 {
			if seenOff[off] {
				f.bad("bucket %d: offset %#x visited twice (cycle or shared tail)", b, off)
				break
			}
			seenOff[off] = true
			if off < first || off%V1Unit != 0 || int64(off)+16 > int64(len(data)) {
				f.bad("bucket %d: bad record offset %#x", b, off)
				break
			}
			w := binary.LittleEndian.Uint32(data[off+8:])
			n := w & 0x00ffffff
			if n == 0 || n > V1MaxName || int64(off)+16+int64(n) > int64(len(data)) {
				f.bad("bucket %d: record %#x name length %d", b, off, n)
				break
			}
			end := off + up(16+n, V1Unit)
			if f.Limit != 0 && end > f.Limit || f.Limit == 0 {
				f.bad("record %#x..%#x above limit %#x", off, end, f.Limit)
			}
			if off/V1Page != (end)/V1Page {
				f.bad("record %#x..%#x reaches its page end", off, end)
			}
			r := V1Record{Off: off, Bucket: b, Name: string(data[off+16 : off+16+n]),
				Value: binary.LittleEndian.Uint64(data[off:]), Next: binary.LittleEndian.Uint32(data[off+12:]), Flag: byte(w >> 24)}
			if int(V1Hash(r.Name)) != b {
				f.bad("record %#x name %q in bucket %d, hash %d", off, r.Name, b, V1Hash(r.Name))
			}
			if seenName[r.Name] {
				f.bad("duplicate name %q", r.Name)
			}
			seenName[r.Name] = true
			f.Records = append(f.Records, r)
			off = r.Next
		}
	}
	// records must not overlap
	rs := append([]V1Record(nil), f.Records...)
	sort.Slice(rs, func(i, j int) bool { return rs[i].Off < rs[j].Off })
	for i := 1; i < len(rs); i++ {
		prevEnd := rs[i-1].Off + up(uint32(16+len(rs[i-1].Name)), V1Unit)
		if rs[i].Off < prevEnd {
			f.bad("records %#x and %#x overlap", rs[i-1].Off, rs[i].Off)
		}
	}
	return f
}

// V1Entry is one counter to be written.
type V1Entry struct {
	Name  string
	Value uint64
}

// WriteV1 produces a well-formed v1 file with the given metadata text (the
// full "K: V\n...\n\n" string) and entries, in the given order.
func WriteV1(meta string, entries []V1Entry) ([]byte, error) {
	if len(meta) > V1MaxMeta {
		return nil, fmt.Errorf("meta too long")
	}
	hdrLen := V1HeaderLen(meta)
	data := make([]byte, V1Page)
	copy(data, V1Prefix)
	binary.LittleEndian.PutUint32(data[v1HdrLenAt:], hdrLen)
	copy(data[32:], meta)
	tab := hdrLen + 4
	var limit uint32
	for _, e := range entries {
		if len(e.Name) == 0 || len(e.Name) > V1MaxName {
			return nil, fmt.Errorf("bad name length %d", len(e.Name))
		}
		start, end := V1Place(hdrLen, limit, len(e.Name))
		for int(end) > len(data) {
			data = append(data, make([]byte, V1Page)...)
		}
		binary.LittleEndian.PutUint64(data[start:], e.Value)
		binary.LittleEndian.PutUint32(data[start+8:], uint32(len(e.Name))|0xff000000)
		copy(data[start+16:], e.Name)
		h := V1Hash(e.Name)
		binary.LittleEndian.PutUint32(data[start+12:], binary.LittleEndian.Uint32(data[tab+4*h:]))
		binary.LittleEndian.PutUint32(data[tab+4*h:], start)
		limit = end
	}
	binary.LittleEndian.PutUint32(data[hdrLen:], limit)
	return data, nil
}

// V1Meta renders the metadata block the library writes.
func V1Meta(begin, end, program, version, goVersion, goos, goarch string) string {
	return fmt.Sprintf("TimeBegin: %s\nTimeEnd: %s\nProgram: %s\nVersion: %s\nGoVersion: %s\nGOOS: %s\nGOARCH: %s\n\n",
		begin, end, program, version, goVersion, goos, goarch)
}
