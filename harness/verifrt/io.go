//go:build verif

// Package verifrt is the runtime shared by the verification harness files that
// /verif injects into a scratch copy of the repository. It never exists in
// /repo itself.
package verifrt

import (
	"bufio"
	"encoding/json"
	"fmt"
	"os"
	"strconv"
	"sync"
)

var (
	outMu sync.Mutex
	outW  *bufio.Writer
	outF  *os.File
)

// In decodes the JSON input file named by $VERIF_IN into v.
func In(v any) error {
	p := os.Getenv("VERIF_IN")
	if p == "" {
		return fmt.Errorf("VERIF_IN not set")
	}
	data, err := os.ReadFile(p)
	if err != nil {
		return err
	}
	return json.Unmarshal(data, v)
}

// Enabled reports whether the harness is being driven by vcheck.
func Enabled() bool { return os.Getenv("VERIF_OUT") != "" }

// Out appends one JSON record to $VERIF_OUT.
func Out(rec any) {
	outMu.Lock()
	defer outMu.Unlock()
	if outW == nil {
		p := os.Getenv("VERIF_OUT")
		if p == "" {
			return
		}
		f, err := os.OpenFile(p, os.O_WRONLY|os.O_CREATE|os.O_APPEND, 0666)
		if err != nil {
			panic(err)
		}
		outF = f
		outW = bufio.NewWriterSize(f, 1<<20)
	}
	b, err := json.Marshal(rec)
	if err != nil {
		panic(err)
	}
	outW.Write(b)
	outW.WriteByte('\n')
}

// Flush must be called before the harness test returns.
func Flush() {
	outMu.Lock()
	defer outMu.Unlock()
	if outW != nil {
		outW.Flush()
	}
}

// Seed returns $VERIF_SEED (default 1).
func Seed() int64 {
	n, err := strconv.ParseInt(os.Getenv("VERIF_SEED"), 10, 64)
	if err != nil {
		return 1
	}
	return n
}

// Thorough reports whether $VERIF_TIER is "thorough".
func Thorough() bool { return os.Getenv("VERIF_TIER") == "thorough" }

// M is a shorthand for JSON objects.
type M = map[string]any
