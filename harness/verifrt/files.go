//go:build verif

package verifrt

// Same-signature replacements for the file-system / HTTP calls of
// instrumented packages: each yields to the scheduler (so other tasks can be
// interleaved at system-call granularity and a task can be killed between two
// calls), consults the active fault hook, logs the call and performs it.

import (
	"io"
	"net/http"
	"os"
	"sync"
)

// Call is one logged system call.
type Call struct {
	Task string `json:"task"`
	Kind string `json:"kind"`
	Path string `json:"path"`
	Err  string `json:"err,omitempty"`
}

var (
	callMu sync.Mutex
	// FaultHook, when set, is asked before every shimmed call; a non-nil
	// error is returned to the caller instead of performing the call.
	FaultHook func(kind, path string) error
	// CallHook, when set, sees every shimmed call after it was performed.
	CallHook func(c Call)
)

func pre(kind, path string) error {
	Yield(kind, path)
	if h := FaultHook; h != nil {
		if err := h(kind, path); err != nil {
			post(kind, path, err)
			return err
		}
	}
	return nil
}

func post(kind, path string, err error) {
	if h := CallHook; h != nil {
		c := Call{Task: CurrentTask(), Kind: kind, Path: path}
		if err != nil {
			c.Err = err.Error()
		}
		callMu.Lock()
		h(c)
		callMu.Unlock()
	}
}

func OsReadDir(name string) ([]os.DirEntry, error) {
	if err := pre("os.ReadDir", name); err != nil {
		return nil, err
	}
	r, err := os.ReadDir(name)
	post("os.ReadDir", name, err)
	return r, err
}

func OsReadFile(name string) ([]byte, error) {
	if err := pre("os.ReadFile", name); err != nil {
		return nil, err
	}
	r, err := os.ReadFile(name)
	post("os.ReadFile", name, err)
	return r, err
}

func OsWriteFile(name string, data []byte, perm os.FileMode) error {
	if err := pre("os.WriteFile", name); err != nil {
		return err
	}
	// os.WriteFile is create/truncate then write: two steps for a crash
	f, err := os.OpenFile(name, os.O_WRONLY|os.O_CREATE|os.O_TRUNC, perm)
	if err != nil {
		post("os.WriteFile", name, err)
		return err
	}
	if err := pre("os.WriteFile.write", name); err != nil {
		f.Close()
		return err
	}
	_, err = f.Write(data)
	if err1 := f.Close(); err1 != nil && err == nil {
		err = err1
	}
	post("os.WriteFile", name, err)
	return err
}

func OsStat(name string) (os.FileInfo, error) {
	if err := pre("os.Stat", name); err != nil {
		return nil, err
	}
	r, err := os.Stat(name)
	post("os.Stat", name, err)
	return r, err
}

func OsLstat(name string) (os.FileInfo, error) {
	if err := pre("os.Lstat", name); err != nil {
		return nil, err
	}
	r, err := os.Lstat(name)
	post("os.Lstat", name, err)
	return r, err
}

func OsOpenFile(name string, flag int, perm os.FileMode) (*os.File, error) {
	if err := pre("os.OpenFile", name); err != nil {
		return nil, err
	}
	r, err := os.OpenFile(name, flag, perm)
	post("os.OpenFile", name, err)
	return r, err
}

func OsOpen(name string) (*os.File, error) {
	if err := pre("os.Open", name); err != nil {
		return nil, err
	}
	r, err := os.Open(name)
	post("os.Open", name, err)
	return r, err
}

func OsCreate(name string) (*os.File, error) {
	if err := pre("os.Create", name); err != nil {
		return nil, err
	}
	r, err := os.Create(name)
	post("os.Create", name, err)
	return r, err
}

func OsRemove(name string) error {
	if err := pre("os.Remove", name); err != nil {
		return err
	}
	err := os.Remove(name)
	post("os.Remove", name, err)
	return err
}

func OsRename(a, b string) error {
	if err := pre("os.Rename", a); err != nil {
		return err
	}
	err := os.Rename(a, b)
	post("os.Rename", a, err)
	return err
}

func OsMkdirAll(name string, perm os.FileMode) error {
	if err := pre("os.MkdirAll", name); err != nil {
		return err
	}
	err := os.MkdirAll(name, perm)
	post("os.MkdirAll", name, err)
	return err
}

// httpInstalled: InstallHTTP replaced http.DefaultTransport; the yield / fault
// hook / call log of a request then happen in the transport, whatever client
// API the instrumented code uses (http.Post, http.DefaultClient.Do, a
// http.Client with the default transport ...), and HttpPost only delegates.
var httpInstalled bool

// Transport yields to the scheduler and consults the fault hook before every
// request (kind "http.Post", path = URL), like the other shims.
type Transport struct{ Base http.RoundTripper }

func (t Transport) RoundTrip(req *http.Request) (*http.Response, error) {
	url := req.URL.String()
	if err := pre("http.Post", url); err != nil {
		if req.Body != nil {
			req.Body.Close()
		}
		return nil, err
	}
	r, err := t.Base.RoundTrip(req)
	post("http.Post", url, err)
	return r, err
}

// InstallHTTP routes every request of the process that uses
// http.DefaultTransport through Transport; the returned function undoes it.
func InstallHTTP() (restore func()) {
	old := http.DefaultTransport
	http.DefaultTransport = Transport{Base: old}
	httpInstalled = true
	return func() { http.DefaultTransport = old; httpInstalled = false }
}

func HttpPost(url, contentType string, body io.Reader) (*http.Response, error) {
	if httpInstalled {
		return http.Post(url, contentType, body)
	}
	if err := pre("http.Post", url); err != nil {
		return nil, err
	}
	r, err := http.Post(url, contentType, body)
	post("http.Post", url, err)
	return r, err
}

func fname(x any) string {
	if f, ok := x.(*os.File); ok && f != nil {
		return f.Name()
	}
	return ""
}

// FWrite is x.Write(b).
func FWrite(x any, b []byte) (int, error) {
	if f, ok := x.(*os.File); ok {
		if err := pre("file.Write", fname(f)); err != nil {
			return 0, err
		}
		n, err := f.Write(b)
		post("file.Write", fname(f), err)
		return n, err
	}
	return x.(io.Writer).Write(b)
}

// FWriteAt is x.WriteAt(b, off).
func FWriteAt(x any, b []byte, off int64) (int, error) {
	if f, ok := x.(*os.File); ok {
		if err := pre("file.WriteAt", fname(f)); err != nil {
			return 0, err
		}
		n, err := f.WriteAt(b, off)
		post("file.WriteAt", fname(f), err)
		return n, err
	}
	return x.(io.WriterAt).WriteAt(b, off)
}

// FStat is x.Stat().
func FStat(x any) (os.FileInfo, error) {
	if f, ok := x.(*os.File); ok {
		if err := pre("file.Stat", fname(f)); err != nil {
			return nil, err
		}
		fi, err := f.Stat()
		post("file.Stat", fname(f), err)
		return fi, err
	}
	return x.(interface{ Stat() (os.FileInfo, error) }).Stat()
}

// FClose is x.Close(); it is not a scheduling point.
func FClose(x any) error {
	if f, ok := x.(*os.File); ok {
		if h := FaultHook; h != nil {
			if err := h("file.Close", fname(f)); err != nil {
				f.Close()
				return err
			}
		}
		return f.Close()
	}
	return x.(io.Closer).Close()
}
