//go:build verif

package view

// C11 harness: the local viewer's verdicts (files -> newCounterFile, summary)
// on counter files written by the independent v1 writer, under configurations
// chosen by the check.  It only executes and records.

import (
	"encoding/json"
	"fmt"
	"os"
	"path/filepath"
	"testing"

	"golang.org/x/telemetry/internal/config"
	"golang.org/x/telemetry/internal/telemetry"
	rt "golang.org/x/telemetry/internal/verifrt"
)

type c11File struct {
	FID       int      `json:"fid"`
	Program   string   `json:"program"`
	Version   string   `json:"version"`
	GoVersion string   `json:"gover"`
	GOOS      string   `json:"goos"`
	GOARCH    string   `json:"goarch"`
	Begin     string   `json:"begin"`
	End       string   `json:"end"`
	Counts    [][2]any `json:"counts"`
}

type c11Case struct {
	ID    int             `json:"id"`
	Cfg   json.RawMessage `json:"cfg"`
	Files []c11File       `json:"files"`
	// Session: page loads with the same session name are served by one viewer
	// (one Server value, one -config file) in this process, in the order of
	// the cases; the config file is rewritten before every load, the way a
	// newer upload configuration replaces the older one while the viewer runs.
	// The config is obtained the way the index page obtains it
	// (Server.configAt("latest")).
	Session string `json:"session"`
}

func TestVerifC11Viewer(t *testing.T) {
	defer rt.Flush()
	var in struct {
		Cases []c11Case `json:"cases"`
	}
	if err := rt.In(&in); err != nil {
		t.Skip(err)
	}
	base := t.TempDir()
	n := 0
	for _, c := range in.Cases {
		var uc telemetry.UploadConfig
		if err := json.Unmarshal(c.Cfg, &uc); err != nil {
			rt.Out(rt.M{"kind": "file", "id": c.ID, "infra": err.Error()})
			continue
		}
		var cfg *config.Config
		if c.Session == "" {
			cfg = config.NewConfig(&uc)
		} else {
			path := filepath.Join(base, "session-"+c.Session+".json")
			if err := os.WriteFile(path, c.Cfg, 0666); err != nil {
				rt.Out(rt.M{"kind": "file", "id": c.ID, "infra": err.Error()})
				continue
			}
			var err error
			cfg, err = Server{FsConfig: path}.configAt("latest")
			if err != nil {
				rt.Out(rt.M{"kind": "file", "id": c.ID, "infra": "configAt: " + err.Error()})
				continue
			}
		}
		dir := filepath.Join(base, fmt.Sprintf("c%d", c.ID))
		os.MkdirAll(dir, 0777)
		names := map[string]int{}
		for _, f := range c.Files {
			var ents []rt.V1Entry
			for _, e := range f.Counts {
				name, _ := e[0].(string)
				v, _ := e[1].(float64)
				ents = append(ents, rt.V1Entry{Name: name, Value: uint64(v)})
			}
			data, err := rt.WriteV1(rt.V1Meta(f.Begin, f.End, f.Program, f.Version, f.GoVersion, f.GOOS, f.GOARCH), ents)
			if err != nil {
				rt.Out(rt.M{"kind": "file", "id": c.ID, "fid": f.FID, "infra": err.Error()})
				continue
			}
			name := fmt.Sprintf("f%d.v1.count", f.FID)
			names[name] = f.FID
			os.WriteFile(filepath.Join(dir, name), data, 0666)
		}
		func() {
			defer func() {
				if p := recover(); p != nil {
					rt.Out(rt.M{"kind": "file", "id": c.ID, "panic": fmt.Sprint(p)})
				}
			}()
			cfs, err := files(dir, cfg)
			if err != nil {
				rt.Out(rt.M{"kind": "file", "id": c.ID, "infra": err.Error()})
				return
			}
			for _, cf := range cfs {
				rec := rt.M{"kind": "file", "id": c.ID, "fid": names[cf.ID], "meta": cf.ActiveMeta, "summary": string(cf.Summary)}
				var counts, stacks []rt.M
				for _, x := range cf.Counts {
					counts = append(counts, rt.M{"name": x.Name, "active": x.Active, "value": x.Value})
				}
				for _, x := range cf.Stacks {
					stacks = append(stacks, rt.M{"name": x.Name, "trace": x.Trace, "active": x.Active, "value": x.Value})
				}
				rec["counts"] = counts
				rec["stacks"] = stacks
				rt.Out(rec)
				n++
			}
		}()
		os.RemoveAll(dir)
	}
	rt.Out(rt.M{"kind": "summary", "cases": len(in.Cases), "files": n})
}
