//go:build verif

package telemetry

// Conformance harness for the token race of Sidecar.tla (property C16):
// several "processes" (tasks of the cooperative scheduler) call the real
// acquireUploadToken on one telemetry directory and are interleaved at its
// system calls (os.Stat / os.Remove / os.OpenFile, exposed by the
// instrumenter).  Schedules come from TLC (witness traces into race windows,
// simulate walks) or from an exhaustive depth-first enumeration of all
// interleavings done here; every step is recorded with the token file as an
// independent os.Lstat sees it.

import (
	"fmt"
	"math/rand"
	"os"
	"path/filepath"
	"reflect"
	"strings"
	"syscall"
	"testing"
	"time"

	it "golang.org/x/telemetry/internal/telemetry"
	rt "golang.org/x/telemetry/internal/verifrt"
)

type c16Job struct {
	Kind     string   `json:"kind"` // "sched" | "dfs"
	ID       int      `json:"id"`   // sched: run id; dfs: first run id
	N        int      `json:"n"`
	Init     string   `json:"init"`   // "absent" | "fresh" | "stale" | "ghost" (dangling symlink) | "nodir" (telemetry directory unknown)
	Faults   float64  `json:"faults"` // finish "random": probability of making a call fail / killing a starter
	AgeSec   int      `json:"ageSec"`
	Schedule []string `json:"schedule"`
	Finish   string   `json:"finish"` // "stick" | "rr" | "random"
	Seed     int64    `json:"seed"`
	Max      int      `json:"max"` // dfs: at most this many runs
	Why      string   `json:"why"`
}

type c16Outcome struct {
	executed []string
	alts     [][]string // runnable tasks before each executed step
	status   string
}

func c16TokenState(p string) string {
	fi, err := os.Lstat(p)
	if err != nil {
		return "absent"
	}
	if fi.Mode()&os.ModeSymlink != 0 {
		return "ghost"
	}
	if time.Since(fi.ModTime()) < 24*time.Hour {
		return "fresh"
	}
	return "stale"
}

func c16Next(tk *rt.Task) string {
	if tk.State != rt.Ready {
		return "ret"
	}
	switch tk.Kind {
	case "os.Stat":
		return "t_stat"
	case "os.Remove":
		return "t_remove"
	case "os.OpenFile":
		return "t_create"
	}
	return "other:" + tk.Kind
}

func TestVerifC16Race(t *testing.T) {
	defer rt.Flush()
	var in struct {
		Jobs []c16Job `json:"jobs"`
	}
	if err := rt.In(&in); err != nil {
		t.Skip(err)
	}
	base, err := os.MkdirTemp("", "c16race-")
	if err != nil {
		t.Fatal(err)
	}
	defer os.RemoveAll(base)
	saved := it.Default
	defer func() { it.Default = saved }()
	for i := range in.Jobs {
		j := &in.Jobs[i]
		if j.Kind == "dfs" {
			c16DFS(t, base, j)
			continue
		}
		c16One(t, base, j, j.ID, j.Schedule, j.Finish, j.Why)
	}
}

// c16DFS enumerates every interleaving of N starters exactly once.
func c16DFS(t *testing.T, base string, j *c16Job) {
	stack := [][]string{{}}
	id := j.ID
	runs := 0
	complete := true
	for len(stack) > 0 {
		prefix := stack[len(stack)-1]
		stack = stack[:len(stack)-1]
		if j.Max > 0 && runs >= j.Max {
			complete = false
			break
		}
		out := c16One(t, base, j, id, prefix, "stick", "dfs")
		id++
		runs++
		if out.status != "ok" {
			continue
		}
		for k := len(prefix); k < len(out.executed); k++ {
			for _, alt := range out.alts[k] {
				if alt != out.executed[k] {
					p := append(append([]string{}, out.executed[:k]...), alt)
					stack = append(stack, p)
				}
			}
		}
	}
	rt.Out(rt.M{"kind": "dfs", "id": j.ID, "n": j.N, "init": j.Init, "runs": runs, "complete": complete})
}

func c16One(t *testing.T, base string, j *c16Job, id int, schedule []string, finish, why string) c16Outcome {
	dir, err := os.MkdirTemp(base, "r")
	if err != nil {
		t.Fatal(err)
	}
	defer os.RemoveAll(dir)
	it.Default = it.NewDir(dir)
	local := it.Default.LocalDir()
	os.MkdirAll(local, 0777)
	tokenPath := filepath.Join(local, "upload.token")
	initClass := j.Init
	switch j.Init {
	case "nodir":
		// os.UserConfigDir failed: the directory is unknown, nobody may acquire anything
		it.Default = it.Dir{}
		initClass = "absent"
	case "ghost":
		os.Symlink(filepath.Join(dir, "nowhere", "token"), tokenPath)
	}
	if j.Init == "fresh" || j.Init == "stale" {
		os.WriteFile(tokenPath, nil, 0666)
		age := time.Duration(j.AgeSec) * time.Second
		if j.AgeSec == 0 {
			age = map[string]time.Duration{"fresh": time.Hour, "stale": 25 * time.Hour}[j.Init]
		}
		mt := time.Now().Add(-age)
		os.Chtimes(tokenPath, mt, mt)
	}
	s := rt.NewSched()
	defer s.Close()
	s.StepTimeout = 5 * time.Second
	names := []string{}
	results := map[string]bool{}
	for k := 1; k <= j.N; k++ {
		name := fmt.Sprintf("s%d", k)
		names = append(names, name)
		s.Go(name, func() {
			r := c16Acquire()
			results[name] = r
		})
	}
	emit := func(m rt.M) {
		m["run"] = id
		rt.Out(m)
	}
	out := c16Outcome{status: "ok", executed: []string{}}
	var fault rt.M
	// bring every starter to its first system call (no shared effect yet)
	for _, tk := range s.Tasks {
		if !s.Step(tk) || tk.State == rt.Faulted {
			out.status = "fault"
			fault = rt.M{"task": tk.Name, "op": "prime", "panic": fmt.Sprint(tk.Panic)}
		}
	}
	emit(rt.M{"kind": "obs", "i": 0, "t": "init", "init": initClass, "token": c16TokenState(tokenPath), "starters": names,
		"next": "", "acq": false, "op": "", "fault": false})
	// a call the schedule wants to fail: the shim asks the hook after the task was resumed
	failTask := ""
	rt.FaultHook = func(kind, path string) error {
		if failTask == "" || rt.CurrentTask() != failTask {
			return nil
		}
		failTask = ""
		switch kind {
		case "os.Stat":
			return &os.PathError{Op: "stat", Path: path, Err: syscall.EIO}
		case "os.Remove":
			return &os.PathError{Op: "remove", Path: path, Err: syscall.EPERM}
		case "os.OpenFile":
			return &os.PathError{Op: "open", Path: path, Err: syscall.ENOSPC}
		}
		return nil
	}
	defer func() { rt.FaultHook = nil }()
	step := 0
	doKill := func(tk *rt.Task) {
		step++
		s.Kill(tk)
		out.executed = append(out.executed, "kill:"+tk.Name)
		out.alts = append(out.alts, nil)
		emit(rt.M{"kind": "obs", "i": step, "t": "kill", "victim": tk.Name, "op": "kill", "next": "", "acq": false, "fault": false,
			"token": c16TokenState(tokenPath)})
	}
	doStep := func(tk *rt.Task, fail bool) bool {
		if fail {
			failTask = tk.Name
		}
		var alts []string
		for _, r := range s.RunnableTasks() {
			alts = append(alts, r.Name)
		}
		op := c16Next(tk)
		step++
		ok := s.Step(tk)
		failTask = ""
		if fail {
			out.executed = append(out.executed, "fail:"+tk.Name)
		} else {
			out.executed = append(out.executed, tk.Name)
		}
		out.alts = append(out.alts, alts)
		nx := c16Next(tk)
		emit(rt.M{"kind": "obs", "i": step, "t": tk.Name, "op": op, "next": nx, "acq": nx == "ret" && results[tk.Name],
			"token": c16TokenState(tokenPath), "fault": fail})
		if !ok {
			out.status = "hang"
			fault = rt.M{"task": tk.Name, "op": op}
			return false
		}
		if tk.State == rt.Faulted {
			out.status = "fault"
			fault = rt.M{"task": tk.Name, "op": op, "panic": fmt.Sprint(tk.Panic)}
			return false
		}
		return true
	}
	alive := out.status == "ok"
	for _, e := range schedule {
		if !alive {
			break
		}
		fail := false
		if strings.HasPrefix(e, "kill:") {
			if tk := s.Task(e[5:]); tk != nil && s.Runnable(tk) {
				doKill(tk)
			}
			continue
		}
		if strings.HasPrefix(e, "fail:") {
			fail, e = true, e[5:]
		}
		tk := s.Task(e)
		if tk == nil || !s.Runnable(tk) {
			continue
		}
		alive = doStep(tk, fail)
	}
	rng := rand.New(rand.NewSource(j.Seed + int64(id)))
	rr := 0
	for budget := 0; alive && !s.AllDone() && budget < 1000; budget++ {
		rs := s.RunnableTasks()
		if len(rs) == 0 {
			out.status = "deadlock"
			break
		}
		var tk *rt.Task
		switch finish {
		case "random":
			tk = rs[rng.Intn(len(rs))]
			if j.Faults > 0 && rng.Float64() < j.Faults {
				if rng.Intn(3) == 0 {
					doKill(tk)
					continue
				}
				alive = doStep(tk, true)
				continue
			}
		case "rr":
			tk = rs[rr%len(rs)]
			rr++
		default:
			tk = rs[0]
		}
		alive = doStep(tk, false)
	}
	acquired := []string{}
	for _, n := range names {
		if results[n] {
			acquired = append(acquired, n)
		}
	}
	emit(rt.M{"kind": "result", "n": j.N, "init": initClass, "initKind": j.Init, "status": out.status, "fault": fault, "acquired": acquired,
		"schedule": out.executed, "steps": step, "why": why, "tokenAfter": c16TokenState(tokenPath)})
	return out
}

// c16Acquire calls acquireUploadToken through reflection with the zero value
// of every parameter it may have grown, so that the harness still builds when
// the private signature changes (a zero time means "now" wherever the package
// takes an optional time). The first result is the acquisition.
func c16Acquire() bool {
	fn := reflect.ValueOf(acquireUploadToken)
	args := make([]reflect.Value, fn.Type().NumIn())
	for i := range args {
		args[i] = reflect.Zero(fn.Type().In(i))
	}
	return fn.Call(args)[0].Bool()
}
