//go:build verif

// Package c02 is the harness of property C02 (consent mode).  It materializes
// abstract states of spec/Consent.tla as real telemetry directories, runs the
// real library (upload.Run, the counter API, Dir.SetModeAsOf), abstracts the
// directory and the upload server's request log back into the vocabulary of
// the specification and writes one observation record per step.  All
// judgements are made by TLC (spec/ConsentTrace.tla) and checks/c02.py.
package c02

import (
	"crypto/rand"
	"encoding/binary"
	"encoding/json"
	"fmt"
	"io"
	"math"
	mrand "math/rand"
	"net/http"
	"net/http/httptest"
	"os"
	"os/exec"
	"path/filepath"
	"runtime"
	"runtime/debug"
	"sort"
	"strconv"
	"strings"
	"sync"
	"testing"
	"time"

	roottel "golang.org/x/telemetry"
	pubcounter "golang.org/x/telemetry/counter"
	"golang.org/x/telemetry/internal/configtest"
	"golang.org/x/telemetry/internal/counter"
	"golang.org/x/telemetry/internal/telemetry"
	"golang.org/x/telemetry/internal/upload"
	vm "golang.org/x/telemetry/internal/verifh/vmode"
	rt "golang.org/x/telemetry/internal/verifrt"
)

const (
	goVers  = "go1.22.1"
	progVer = "v1.0.0"
)

// ------------------------------------------------------------ directory I/O

type fileRec struct {
	P string `json:"p"`
	B int    `json:"b"`
	E int    `json:"e"`
	N int    `json:"n"`
}

// bodyRec: one posted report: its week, the X in the posted body and the X in
// the local report of that week (2^-20 units; -1: none).
type bodyRec struct {
	Wk int `json:"wk"`
	Bx int `json:"bx"`
	Lx int `json:"lx"`
}

type reqRec struct {
	Wk  int `json:"wk"`
	Run int `json:"run"`
}

type state struct {
	ModeFile vm.ModeFile `json:"modeFile"`
	Intent   vm.ModeFile `json:"intent"` // what the last accepted SetMode had to record (K "none": none)
	Day      int         `json:"day"`
	Tod      int         `json:"tod"`
	Files    []fileRec   `json:"files"`
	Local    []int       `json:"local"`
	Ready    []int       `json:"ready"`
	Uploaded []int       `json:"uploaded"`
	Requests []reqRec    `json:"requests"`
	Proc     procRec     `json:"proc"`
}

// procRec is the long-running process as the specification sees it.
type procRec struct {
	St string `json:"st"` // none | open | disabled
	P  string `json:"p"`
	B  int    `json:"b"`
	E  int    `json:"e"`
}

var noProc = procRec{St: "none", B: -1, E: -1}

func countFileName(p string, b int) string {
	return fmt.Sprintf("%s@%s-%s-%s-%s-%s.v1.count", p, progVer, goVers, runtime.GOOS, runtime.GOARCH, vm.DateOf(b))
}

func writeCountFile(dir string, f fileRec) error {
	meta := rt.V1Meta(vm.At(f.B, 0).Format(time.RFC3339), vm.At(f.E, 0).Format(time.RFC3339), "example.com/"+f.P, progVer, goVers, runtime.GOOS, runtime.GOARCH)
	entries := []rt.V1Entry{{Name: "c02", Value: uint64(f.N)}, {Name: "other/counter", Value: 7}}
	if f.N <= 0 {
		entries = nil // a valid count file that holds no counter at all
	}
	data, err := rt.WriteV1(meta, entries)
	if err != nil {
		return err
	}
	return os.WriteFile(filepath.Join(dir, "local", countFileName(f.P, f.B)), data, 0666)
}

func reportJSON(wk int, x float64) []byte {
	r := telemetry.Report{Week: vm.DateOf(wk), X: x, Config: "v1.2.3", Programs: []*telemetry.ProgramReport{{
		Program: "example.com/pA", Version: progVer, GoVersion: goVers, GOOS: runtime.GOOS, GOARCH: runtime.GOARCH,
		Counters: map[string]int64{"c02": 1}, Stacks: map[string]int64{}}}}
	b, _ := json.MarshalIndent(&r, "", " ")
	return b
}

// materialize builds a telemetry directory for an abstract state.
func materialize(dir string, s *state, w int, variant int, bare, nodir, extras bool) error {
	if nodir {
		return nil
	}
	if bare {
		if err := os.MkdirAll(dir, 0777); err != nil {
			return err
		}
		if err := vm.WriteMode(dir, s.ModeFile, variant); err != nil {
			return err
		}
		if len(s.Uploaded) > 0 {
			os.MkdirAll(filepath.Join(dir, "upload"), 0777)
		}
		for _, wk := range s.Uploaded {
			if err := os.WriteFile(filepath.Join(dir, "upload", vm.DateOf(wk)+".json"), reportJSON(wk, 0.25), 0666); err != nil {
				return err
			}
		}
		return nil
	}
	if err := os.MkdirAll(filepath.Join(dir, "local"), 0777); err != nil {
		return err
	}
	if err := os.WriteFile(filepath.Join(dir, "local", "weekends"), []byte(fmt.Sprintf("%d\n", w)), 0666); err != nil {
		return err
	}
	if extras {
		// things the library has no business with: they must be ignored, and in mode off left exactly as they are
		os.MkdirAll(filepath.Join(dir, "local", "sub"), 0777)
		os.MkdirAll(filepath.Join(dir, "debug"), 0777)
		os.MkdirAll(filepath.Join(dir, "upload"), 0777)
		for name, data := range map[string]string{
			"local/notes.txt": "notes\n", "local/prog-2020-01-01.v2.count": "v2", "local/garbage-2020-01-01.v1.count": "not a counter file at all\n",
			"local/zero-2020-01-01.v1.count": "", "local/sub/2020-01-06.json": "{}", "local/x.json.tmp": "{", "upload/README": "readme\n",
			"upload/2020-01-06.json.bak": "{}", "upload.token": "", "debug/old.log": "log\n"} {
			if err := os.WriteFile(filepath.Join(dir, filepath.FromSlash(name)), []byte(data), 0666); err != nil {
				return err
			}
		}
	}
	if err := vm.WriteMode(dir, s.ModeFile, variant); err != nil {
		return err
	}
	for _, f := range s.Files {
		if err := writeCountFile(dir, f); err != nil {
			return err
		}
	}
	for _, wk := range s.Local {
		if err := os.WriteFile(filepath.Join(dir, "local", "local."+vm.DateOf(wk)+".json"), reportJSON(wk, 0.25), 0666); err != nil {
			return err
		}
	}
	for _, wk := range s.Ready {
		if err := os.WriteFile(filepath.Join(dir, "local", vm.DateOf(wk)+".json"), reportJSON(wk, 0.25), 0666); err != nil {
			return err
		}
	}
	if len(s.Uploaded) > 0 || variant%2 == 0 {
		if err := os.MkdirAll(filepath.Join(dir, "upload"), 0777); err != nil {
			return err
		}
	}
	for _, wk := range s.Uploaded {
		if err := os.WriteFile(filepath.Join(dir, "upload", vm.DateOf(wk)+".json"), reportJSON(wk, 0.25), 0666); err != nil {
			return err
		}
	}
	return nil
}

func isData(rel string) bool {
	d := filepath.Dir(rel)
	if d != "local" && d != "upload" {
		return false
	}
	return strings.HasSuffix(rel, ".count") || strings.HasSuffix(rel, ".json")
}

// sameData: no counter file or report was created, changed or removed.
func sameData(a, b map[string]vm.SnapEntry) (bool, string) {
	for k, v := range a {
		if !isData(k) {
			continue
		}
		w, ok := b[k]
		if !ok {
			return false, "removed " + k
		}
		if v != w {
			return false, "changed " + k
		}
	}
	for k := range b {
		if isData(k) {
			if _, ok := a[k]; !ok {
				return false, "created " + k
			}
		}
	}
	return true, ""
}

func sameMode(a, b map[string]vm.SnapEntry) bool {
	for k, v := range a {
		if k == "mode" || strings.HasPrefix(k, "mode"+string(filepath.Separator)) {
			if b[k] != v {
				return false
			}
		}
	}
	for k := range b {
		if k == "mode" || strings.HasPrefix(k, "mode"+string(filepath.Separator)) {
			if _, ok := a[k]; !ok {
				return false
			}
		}
	}
	return true
}

// project abstracts the real directory (the mode file is classified
// separately).  extras lists every entry the specification has no word for.
func project(dir string, testProg string) (files []fileRec, local, ready, uploaded []int, extras []string) {
	files, local, ready, uploaded, extras = []fileRec{}, []int{}, []int{}, []int{}, []string{}
	root, _ := os.ReadDir(dir)
	for _, e := range root {
		switch e.Name() {
		case "mode", "local", "upload":
		case "debug":
			// the uploader may write a log here when the directory exists; not a counter file or report
		default:
			extras = append(extras, e.Name())
		}
	}
	ents, _ := os.ReadDir(filepath.Join(dir, "local"))
	for _, e := range ents {
		name := e.Name()
		p := filepath.Join(dir, "local", name)
		switch {
		case name == "weekends":
		case e.IsDir():
			extras = append(extras, "local/"+name+"/")
		case strings.HasSuffix(name, ".v1.count"):
			data, err := os.ReadFile(p)
			if err != nil {
				extras = append(extras, "local/"+name+": "+err.Error())
				continue
			}
			f := rt.DecodeV1(data)
			b, err1 := time.Parse(time.RFC3339, f.Meta["TimeBegin"])
			en, err2 := time.Parse(time.RFC3339, f.Meta["TimeEnd"])
			if !f.WellFormed() || err1 != nil || err2 != nil || b.Unix()%86400 != 0 || en.Unix()%86400 != 0 {
				extras = append(extras, "local/"+name+": malformed count file")
				continue
			}
			prog := f.Meta["Program"]
			switch {
			case strings.HasPrefix(prog, "example.com/"):
				prog = strings.TrimPrefix(prog, "example.com/")
			case prog == testProg:
				prog = "c2"
			}
			files = append(files, fileRec{P: prog, B: int(b.Unix() / 86400), E: int(en.Unix() / 86400), N: int(f.Counts()["c02"])})
		case strings.HasPrefix(name, "local.") && strings.HasSuffix(name, ".json"):
			if d, ok := vm.DayOf(name[len("local.") : len(name)-len(".json")]); ok {
				local = append(local, d)
			} else {
				extras = append(extras, "local/"+name)
			}
		case strings.HasSuffix(name, ".json"):
			if d, ok := vm.DayOf(strings.TrimSuffix(name, ".json")); ok {
				ready = append(ready, d)
			} else {
				extras = append(extras, "local/"+name)
			}
		default:
			extras = append(extras, "local/"+name)
		}
	}
	ents, _ = os.ReadDir(filepath.Join(dir, "upload"))
	for _, e := range ents {
		name := e.Name()
		if d, ok := vm.DayOf(strings.TrimSuffix(name, ".json")); ok && strings.HasSuffix(name, ".json") && !e.IsDir() {
			uploaded = append(uploaded, d)
		} else {
			extras = append(extras, "upload/"+name)
		}
	}
	sort.Slice(files, func(i, j int) bool {
		a, b := files[i], files[j]
		if a.P != b.P {
			return a.P < b.P
		}
		if a.B != b.B {
			return a.B < b.B
		}
		return a.E < b.E
	})
	sort.Ints(local)
	sort.Ints(ready)
	sort.Ints(uploaded)
	sort.Strings(extras)
	return
}

// --------------------------------------------------------------- the server

type server struct {
	srv *httptest.Server
	mu  sync.Mutex
	log map[string][]postRec // scenario prefix -> what was posted, in order
}

// postRec: the date in the request path and the X carried by the posted body, in units of 2^-20 (-1: no X could be read).
type postRec struct {
	date string
	bx   int
}

func x20(x float64) int { return int(math.Round(x * (1 << 20))) }

func newServer() *server {
	s := &server{log: map[string][]postRec{}}
	s.srv = httptest.NewServer(http.HandlerFunc(func(w http.ResponseWriter, r *http.Request) {
		body, _ := io.ReadAll(r.Body)
		var rep struct{ X *float64 }
		bx := -1
		if json.Unmarshal(body, &rep) == nil && rep.X != nil {
			bx = x20(*rep.X)
		}
		parts := strings.SplitN(strings.TrimPrefix(r.URL.Path, "/"), "/", 2)
		s.mu.Lock()
		if len(parts) == 2 {
			s.log[parts[0]] = append(s.log[parts[0]], postRec{parts[1], bx})
		} else {
			s.log["?"] = append(s.log["?"], postRec{r.URL.Path, bx})
		}
		s.mu.Unlock()
	}))
	return s
}

func (s *server) posted(prefix string) []postRec {
	s.mu.Lock()
	defer s.mu.Unlock()
	return append([]postRec(nil), s.log[prefix]...)
}

// ------------------------------------------------------------- X and config

// xReader replaces crypto/rand.Reader: the goroutine that runs an uploader
// registers the X its reports must carry.
// xSeq is the sequence of X values one uploader run draws, in units of 2^-20:
// the first is the X of the scenario; every later draw is a different value -
// on the same side of the sample rate (so that the decision the specification
// predicts does not depend on which report draws first), or, when cross is set
// (one finished week only, so the draw order is fixed), well above the rate.
type xSeq struct {
	x0, rate20 int
	cross      bool
	k          int
}

func (q *xSeq) next() float64 {
	q.k++
	v := q.x0
	if q.k > 1 {
		d := q.k - 1
		switch {
		case q.cross:
			v = 1023*1024 + d
		case q.rate20 > 0 && q.x0 <= q.rate20 && q.x0-d >= 0:
			v = q.x0 - d
		default:
			v = q.x0 + d
		}
	}
	return float64(v) / (1 << 20)
}

type xReader struct {
	orig io.Reader
	mu   sync.Mutex
	x    map[uint64]*xSeq
}

func goid() uint64 {
	var buf [64]byte
	n := runtime.Stack(buf[:], false)
	f := strings.Fields(string(buf[:n]))
	if len(f) < 2 {
		return 0
	}
	id, _ := strconv.ParseUint(f[1], 10, 64)
	return id
}

func (r *xReader) Read(p []byte) (int, error) {
	r.mu.Lock()
	q, ok := r.x[goid()]
	if !ok || len(p) != 8 {
		r.mu.Unlock()
		return r.orig.Read(p)
	}
	x := q.next()
	r.mu.Unlock()
	binary.LittleEndian.PutUint64(p, math.Float64bits(0.5+x/2))
	return 8, nil
}

func (r *xReader) set(q *xSeq) {
	r.mu.Lock()
	r.x[goid()] = q
	r.mu.Unlock()
}

type env struct {
	t       *testing.T
	srv     *server
	xr      *xReader
	mu      sync.Mutex
	proxies map[int][]string
	root    string
	self    string // program path of this test binary as the counter package sees it
}

func newEnv(t *testing.T) *env {
	e := &env{t: t, srv: newServer(), proxies: map[int][]string{}, root: t.TempDir()}
	t.Cleanup(e.srv.srv.Close)
	e.xr = &xReader{orig: rand.Reader, x: map[uint64]*xSeq{}}
	orig := rand.Reader
	rand.Reader = e.xr
	t.Cleanup(func() { rand.Reader = orig })
	if bi, ok := debug.ReadBuildInfo(); ok {
		_, e.self, _ = telemetry.ProgramInfo(bi)
	}
	return e
}

// proxyEnv returns the environment that makes `go mod download` fetch an
// upload config with the given SampleRate (in 1/1024) from a file proxy.
func (e *env) proxyEnv(rate int) []string {
	e.mu.Lock()
	defer e.mu.Unlock()
	if v, ok := e.proxies[rate]; ok {
		return v
	}
	progs := []*telemetry.ProgramConfig{}
	for _, p := range []string{"example.com/pA", "example.com/pB", "example.com/pC", "example.com/c1", "example.com/c2", e.self} {
		progs = append(progs, &telemetry.ProgramConfig{Name: p, Versions: []string{progVer, "devel", ""},
			Counters: []telemetry.CounterConfig{{Name: "c02", Rate: 1}}})
	}
	uc := &telemetry.UploadConfig{GOOS: []string{runtime.GOOS}, GOARCH: []string{runtime.GOARCH},
		GoVersion: []string{goVers, runtime.Version()}, SampleRate: float64(rate) / 1024, Programs: progs}
	v := configtest.LocalProxyEnv(e.t, uc, "v1.2.3")
	e.proxies[rate] = v
	return v
}

// ------------------------------------------------------------------- steps

type action struct {
	Op string `json:"op"`
	A  string `json:"a"`
	P  string `json:"p"`  // set: the padding around the word (see ModeFile.tla, Pads)
	Tz string `json:"tz"` // set: zone the as-of instant is given in ("" UTC, east, west)
	N1 int    `json:"n1"`
	N2 int    `json:"n2"`
	Ok bool   `json:"ok"`
}

var noIntent = vm.ModeFile{K: "none", D: vm.NoDate}

// padded is the concrete SetMode argument for word w with padding class p.
func padded(w, p string) string {
	switch p {
	case "lead":
		return " " + w
	case "trail":
		return w + " "
	case "tab":
		return w + "\t"
	case "nl":
		return w + "\n"
	case "crlf":
		return w + "\r\n"
	case "both":
		return " " + w + "\n"
	}
	return w
}

type step struct {
	Act  action      `json:"a"`
	Mode vm.ModeFile `json:"modeFile"` // mode file after the step (for edit)
	Day  int         `json:"day"`
	Tod  int         `json:"tod"`
}

type scenario struct {
	ID      int    `json:"id"`
	Src     string `json:"src"`
	W       int    `json:"w"`
	Shift   int    `json:"shift"` // days (a multiple of 7) added to every day number
	Variant int    `json:"variant"`
	Child   bool   `json:"child"`  // collector c2 is a re-executed child process using the public API
	Bare    bool   `json:"bare"`   // no local/ directory (and no week-end file) to begin with
	NoDir   bool   `json:"nodir"`  // the telemetry directory itself does not exist to begin with
	Extras  bool   `json:"extras"` // foreign, corrupt and empty files, a sub-directory and a debug directory lie around
	Init    state  `json:"init"`
	Steps   []step `json:"steps"`
}

var collectMu sync.Mutex

// childIn: API 0 = counter.Open, 1 = counter.OpenAndRotate, 2 = counter.OpenDir(dir) with no default directory set before.
type childIn struct {
	API int    `json:"api"`
	Dir string `json:"dir"`
	Now int64  `json:"now"`
}

// TestVerifC02Child is the re-executed child: one program run that uses the
// public counter API at a given instant.
func TestVerifC02Child(t *testing.T) {
	arg := os.Getenv("VERIF_C02_CHILD")
	if arg == "" {
		t.Skip("not a child")
	}
	var in childIn
	if err := json.Unmarshal([]byte(arg), &in); err != nil {
		t.Fatal(err)
	}
	counter.CounterTime = func() time.Time { return time.Unix(in.Now, 0).UTC() }
	switch in.API {
	case 1:
		telemetry.Default = telemetry.NewDir(in.Dir)
		pubcounter.OpenAndRotate()
	case 2:
		telemetry.Default = telemetry.Dir{}
		pubcounter.OpenDir(in.Dir)
	default:
		telemetry.Default = telemetry.NewDir(in.Dir)
		pubcounter.Open()
	}
	pubcounter.Inc("c02")
	pubcounter.NewStack("c02/stack", 4).Inc()
	pubcounter.New("c02/other").Add(3)
}

func collectChild(dir string, now time.Time, api int) error {
	arg, _ := json.Marshal(childIn{Dir: dir, Now: now.Unix(), API: api})
	cmd := exec.Command(os.Args[0], "-test.run=^TestVerifC02Child$", "-test.count=1")
	cmd.Env = append(os.Environ(), "VERIF_C02_CHILD="+string(arg), "VERIF_OUT=", "VERIF_IN=")
	out, err := cmd.CombinedOutput()
	if err != nil {
		return fmt.Errorf("child: %v: %s", err, out)
	}
	return nil
}

// collectInProcess is one program run through a private counter file (what
// the package's own tests use to get a fresh process view).
func collectInProcess(dir, prog string, now time.Time) (errText string) {
	collectMu.Lock()
	defer collectMu.Unlock()
	defer func() {
		if r := recover(); r != nil {
			errText = fmt.Sprint("panic: ", r)
		}
	}()
	oldDefault, oldTime := telemetry.Default, counter.CounterTime
	defer func() { telemetry.Default, counter.CounterTime = oldDefault, oldTime }()
	telemetry.Default = telemetry.NewDir(dir)
	counter.CounterTime = func() time.Time { return now }
	var f counter.VFile
	f.SetBuildInfo(&debug.BuildInfo{Path: "example.com/" + prog, GoVersion: goVers, Main: debug.Module{Path: "example.com", Version: progVer}})
	c := f.New("c02")
	f.Rotate1()
	c.Inc()
	sc := f.NewStack("c02/stack", 4)
	sc.Inc()
	f.Close()
	return ""
}

// pubSetMode sets the mode through the public package (which works on the
// default directory and today's date) and reads it back the same way.
func pubSetMode(dir, mode string) error {
	collectMu.Lock()
	defer collectMu.Unlock()
	old := telemetry.Default
	defer func() { telemetry.Default = old }()
	telemetry.Default = telemetry.NewDir(dir)
	err := roottel.SetMode(mode)
	if err == nil {
		if got, want := roottel.Mode(), strings.TrimSpace(mode); got != want {
			return fmt.Errorf("telemetry.Mode() = %q right after telemetry.SetMode(%q)", got, mode)
		}
	}
	return err
}

// longProc is ONE long-running counting process: a private counter file that
// stays open across the steps of a scenario (opened and rotated with
// rotate1, as Open and the rotation timer do, with CounterTime mocked).
type longProc struct {
	f     counter.VFile
	c     *counter.Counter
	spans map[string][2]int // counter file path -> begin, end (real days)
}

func (lp *longProc) with(dir string, now time.Time, fn func()) (errText string) {
	collectMu.Lock()
	defer collectMu.Unlock()
	defer func() {
		if r := recover(); r != nil {
			errText = fmt.Sprint("panic: ", r)
		}
	}()
	oldDefault, oldTime := telemetry.Default, counter.CounterTime
	defer func() { telemetry.Default, counter.CounterTime = oldDefault, oldTime }()
	telemetry.Default = telemetry.NewDir(dir)
	counter.CounterTime = func() time.Time { return now }
	fn()
	return ""
}

func (lp *longProc) init(prog string) {
	if lp.c == nil {
		lp.spans = map[string][2]int{}
		lp.f.SetBuildInfo(&debug.BuildInfo{Path: "example.com/" + prog, GoVersion: goVers, Main: debug.Module{Path: "example.com", Version: progVer}})
		lp.c = lp.f.New("c02")
	}
}

// rotate: the rotation (or first opening) of the counter file, then one increment.
func (lp *longProc) rotate(dir, prog string, now time.Time) string {
	lp.init(prog)
	return lp.with(dir, now, func() {
		lp.f.Rotate1()
		if name := lp.f.CurrentName(); name != "" {
			if _, ok := lp.spans[name]; !ok {
				if data, err := os.ReadFile(name); err == nil {
					d := rt.DecodeV1(data)
					b, err1 := time.Parse(time.RFC3339, d.Meta["TimeBegin"])
					en, err2 := time.Parse(time.RFC3339, d.Meta["TimeEnd"])
					if err1 == nil && err2 == nil {
						lp.spans[name] = [2]int{int(b.Unix() / 86400), int(en.Unix() / 86400)}
					}
				}
			}
		}
		lp.c.Inc()
	})
}

func (lp *longProc) inc(dir, prog string, now time.Time) string {
	lp.init(prog)
	return lp.with(dir, now, func() { lp.c.Inc() })
}

// observe: what the process holds, in real day numbers.
func (lp *longProc) observe(prog string) procRec {
	if lp.c == nil {
		return noProc
	}
	if lp.f.HasCurrent() {
		sp, ok := lp.spans[lp.f.CurrentName()]
		if !ok {
			return procRec{St: "open", P: "?", B: -1, E: -1}
		}
		return procRec{St: "open", P: prog, B: sp[0], E: sp[1]}
	}
	if lp.f.Err() != nil {
		return procRec{St: "disabled", B: -1, E: -1}
	}
	return noProc
}

func (lp *longProc) close() {
	if lp.c != nil {
		collectMu.Lock()
		lp.f.Close()
		collectMu.Unlock()
	}
}

func (e *env) runScenario(sc *scenario) {
	var lp longProc
	lpProg := "lp"
	defer lp.close()
	dir := filepath.Join(e.root, fmt.Sprintf("s%d", sc.ID))
	prefix := fmt.Sprintf("s%d", sc.ID)
	sh := sc.Shift
	shiftState := func(s state) state {
		s.Day += sh
		if s.ModeFile.D >= 0 {
			s.ModeFile.D += sh
		}
		fs := make([]fileRec, len(s.Files))
		for i, f := range s.Files {
			fs[i] = fileRec{f.P, f.B + sh, f.E + sh, f.N}
		}
		s.Files = fs
		add := func(a []int) []int {
			b := make([]int, len(a))
			for i, v := range a {
				b[i] = v + sh
			}
			return b
		}
		s.Local, s.Ready, s.Uploaded = add(s.Local), add(s.Ready), add(s.Uploaded)
		return s
	}
	ini := shiftState(sc.Init)
	if err := materialize(dir, &ini, sc.W, sc.Variant, sc.Bare, sc.NoDir, sc.Extras); err != nil {
		rt.Out(rt.M{"kind": "infra", "id": sc.ID, "err": err.Error()})
		return
	}
	day, tod := ini.Day, ini.Tod
	nrun := 0
	intent := noIntent // in the model's (unshifted) day numbers
	var reqs []reqRec
	bodies := []bodyRec{}
	seenReq := 0
	observe := func() state {
		files, local, ready, uploaded, _ := project(dir, e.self)
		posted := e.srv.posted(prefix)
		for ; seenReq < len(posted); seenReq++ {
			wk := -1
			if d, ok := vm.DayOf(posted[seenReq].date); ok {
				wk = d
			}
			reqs = append(reqs, reqRec{Wk: wk, Run: nrun})
			// the X of the posted body next to the X of the local report of that week
			b := bodyRec{Wk: wk - sc.Shift, Bx: posted[seenReq].bx, Lx: -1}
			if data, err := os.ReadFile(filepath.Join(dir, "local", "local."+posted[seenReq].date+".json")); err == nil {
				var rep struct{ X *float64 }
				if json.Unmarshal(data, &rep) == nil && rep.X != nil {
					b.Lx = x20(*rep.X)
				}
			}
			if wk < 0 {
				b.Wk = -1
			}
			bodies = append(bodies, b)
		}
		return state{ModeFile: vm.Classify(dir), Day: day, Tod: tod, Files: files, Local: local, Ready: ready, Uploaded: uploaded,
			Requests: append([]reqRec{}, reqs...)}
	}
	unshift := func(s state) state {
		sh = -sh
		r := shiftState(s)
		sh = -sh
		rq := make([]reqRec, len(s.Requests))
		for i, q := range s.Requests {
			rq[i] = q
			if q.Wk >= 0 {
				rq[i].Wk = q.Wk - sc.Shift
			}
		}
		r.Requests = rq
		return r
	}
	for i, st := range sc.Steps {
		a := st.Act
		switch a.Op {
		case "advance":
			day, tod = st.Day+sh, st.Tod
			continue
		case "edit":
			mf := st.Mode
			if mf.D >= 0 {
				mf.D += sh
			}
			if err := vm.WriteMode(dir, mf, sc.Variant+i); err != nil {
				rt.Out(rt.M{"kind": "infra", "id": sc.ID, "err": err.Error()})
				return
			}
			intent = noIntent // written by hand
			continue
		}
		pre := observe()
		nbodies := len(bodies)
		intentS := intent
		procS := lp.observe(lpProg)
		_, _, _, _, extraS := project(dir, e.self)
		snapS := vm.Snapshot(dir)
		errText := ""
		okGot := a.Ok
		switch a.Op {
		case "run":
			nrun++
			cfg := upload.RunConfig{TelemetryDir: dir, UploadURL: e.srv.srv.URL + "/" + prefix, StartTime: vm.At(day, tod),
				Env: e.proxyEnv(a.N2)}
			done := make(chan string, 1)
			// the X sequence of this run; with exactly one finished week the later draws cross the sample rate
			weeks := map[int]bool{}
			for _, f := range pre.Files {
				if f.E < day || (f.E == day && tod > 0) {
					weeks[f.E] = true
				}
			}
			seq := &xSeq{x0: a.N1 * 1024, rate20: a.N2 * 1024}
			seq.cross = len(weeks) == 1 && seq.rate20 > 0 && seq.x0 <= seq.rate20 && seq.rate20 < 1023*1024
			go func(x *xSeq) {
				e.xr.set(x)
				defer func() {
					if r := recover(); r != nil {
						done <- fmt.Sprint("panic: ", r)
					}
				}()
				if err := upload.Run(cfg); err != nil {
					done <- "error: " + err.Error()
					return
				}
				done <- ""
			}(seq)
			select {
			case errText = <-done:
			case <-time.After(60 * time.Second):
				rt.Out(rt.M{"kind": "hang", "id": sc.ID, "step": i})
				return
			}
		case "collect":
			if a.A == "c2" && sc.Child {
				if err := collectChild(dir, vm.At(day, tod), (sc.Variant+i)%3); err != nil {
					errText = err.Error()
				}
			} else {
				errText = collectInProcess(dir, a.A, vm.At(day, tod))
			}
		case "protate":
			lpProg = a.A
			errText = lp.rotate(dir, a.A, vm.At(day, tod))
		case "pinc":
			errText = lp.inc(dir, lpProg, vm.At(day, tod))
		case "set":
			var err error
			if a.N2 == 1 {
				// the public API: telemetry.SetMode records today's (real) date
				d0 := int(time.Now().UTC().Unix() / 86400)
				err = pubSetMode(dir, padded(a.A, a.P))
				d1 := int(time.Now().UTC().Unix() / 86400)
				a.N1, a.N2 = d1-sh, 0
				if d0 != d1 {
					a.Tz = "race" // midnight passed: either date
				}
			} else {
				// the instant: a boundary of the UTC day or any second of it, given in UTC or in a zone far from it
				tod := (sc.Variant*7919 + i*131) % 86400
				switch (sc.Variant + i) % 4 {
				case 0:
					tod = 0
				case 1:
					tod = 86399
				}
				when := vm.At(a.N1+sh, tod)
				switch a.Tz {
				case "east":
					when = when.In(time.FixedZone("east", 14*3600))
				case "west":
					when = when.In(time.FixedZone("west", -12*3600))
				}
				err = telemetry.NewDir(dir).SetModeAsOf(padded(a.A, a.P), when)
			}
			okGot = err == nil
			if err != nil {
				errText = err.Error()
			}
			if okGot && (a.A == "on" || a.A == "off" || a.A == "local") {
				// the call was accepted: this is what it had to record
				intent = vm.ModeFile{K: "text", W: a.A, D: a.N1}
			}
		}
		post := observe()
		_, _, _, _, extraT := project(dir, e.self)
		snapT := vm.Snapshot(dir)
		same, what := sameData(snapS, snapT)
		act := a
		act.Ok = okGot
		act.A = vm.SafeWord(a.A)
		us, ut := unshift(pre), unshift(post)
		us.Intent, ut.Intent = intentS, intent
		unproc := func(p procRec) procRec {
			if p.B >= 0 {
				p.B -= sc.Shift
				p.E -= sc.Shift
			}
			return p
		}
		us.Proc, ut.Proc = unproc(procS), unproc(lp.observe(lpProg))
		rec := rt.M{"kind": "obs", "src": sc.Src, "id": sc.ID, "step": i, "w": sc.W, "run": nrun, "shift": sc.Shift,
			"a": act, "s": us, "t": ut, "posted": append([]bodyRec{}, bodies[nbodies:]...),
			"same": rt.M{"data": same, "mode": sameMode(snapS, snapT)}, "what": what,
			"read": unshiftRead(vm.LibRead(dir), sc.Shift), "extra_s": extraS, "extra_t": extraT, "err": errText,
			"mode_bytes": modeText(dir)}
		rt.Out(rec)
	}
}

func unshiftRead(r vm.ReadBack, sh int) vm.ReadBack {
	if r.D >= 0 {
		r.D -= sh
	}
	return r
}

func modeText(dir string) string {
	data, err := os.ReadFile(filepath.Join(dir, "mode"))
	if err != nil {
		return "<unreadable>"
	}
	if len(data) > 120 {
		return strconv.QuoteToASCII(string(data[:60])) + fmt.Sprintf("...(%d bytes)...", len(data)) + strconv.QuoteToASCII(string(data[len(data)-40:]))
	}
	return strconv.QuoteToASCII(string(data))
}

func runAll(e *env, scs []scenario) {
	workers := runtime.NumCPU()
	if workers > 16 {
		workers = 16
	}
	ch := make(chan *scenario)
	var wg sync.WaitGroup
	for i := 0; i < workers; i++ {
		wg.Add(1)
		go func() {
			defer wg.Done()
			for sc := range ch {
				e.runScenario(sc)
				os.RemoveAll(filepath.Join(e.root, fmt.Sprintf("s%d", sc.ID)))
			}
		}()
	}
	for i := range scs {
		ch <- &scs[i]
	}
	close(ch)
	wg.Wait()
}

// TestVerifC02Replay replays scenarios produced from TLC's states and
// behaviours of Consent.tla.
func TestVerifC02Replay(t *testing.T) {
	if os.Getenv("VERIF_C02_CHILD") != "" {
		t.Skip("child")
	}
	defer rt.Flush()
	var in struct {
		Scenarios []scenario `json:"scenarios"`
		Random    int        `json:"random"`
	}
	if err := rt.In(&in); err != nil {
		t.Skip(err)
	}
	e := newEnv(t)
	runAll(e, in.Scenarios)
	rnd := randomScenarios(in.Random, 1000000)
	runAll(e, rnd)
	rt.Out(rt.M{"kind": "summary", "scenarios": len(in.Scenarios), "random": len(rnd)})
}

// ------------------------------------------------- random concrete scenarios

func randomBytesWord(rng *mrand.Rand) string {
	// arbitrary bytes that contain no white space of any kind (so that the
	// whole content is one word); bytes that could start a UTF-8 encoded
	// Unicode space are avoided as well
	n := 1 + rng.Intn(12)
	b := make([]byte, n)
	for i := range b {
		for {
			c := byte(rng.Intn(256))
			if c <= 0x20 || c == 0x85 || c == 0xa0 || c == 0xc2 || c == 0xe1 || c == 0xe2 || c == 0xe3 {
				continue
			}
			b[i] = c
			break
		}
	}
	return string(b)
}

// randomScenarios: code -> model.  Concrete, randomly drawn situations over a
// multi-year calendar range; only their abstraction is shown to TLC.
func randomScenarios(n int, idBase int) []scenario {
	rng := mrand.New(mrand.NewSource(rt.Seed()*7919 + 17))
	words := []string{"on", "on", "on", "on", "off", "off", "local", "local", "On", "ON", "onn", "o", "of", "OFF", "Off", "loca", "locall", "true", "1", "yes", "enabled", "on,", "on;", "off.", "none", "auto"}
	rates := []int{0, 256, 512, 1024}
	var out []scenario
	for i := 0; i < n; i++ {
		base := 18000 + rng.Intn(6500) // 2019-04 .. 2037-01
		switch rng.Intn(6) {
		case 0:
			y := 2019 + rng.Intn(18)
			base = int(time.Date(y, 12, 31, 0, 0, 0, 0, time.UTC).Unix()/86400) - rng.Intn(12)
		case 1:
			y := 2020 + 4*rng.Intn(5)
			base = int(time.Date(y, 2, 29, 0, 0, 0, 0, time.UTC).Unix()/86400) - rng.Intn(12)
		}
		e := base + 8 // the main week
		sc := scenario{ID: idBase + i, Src: "random", W: rng.Intn(7), Variant: rng.Intn(1000)}
		mf := vm.ModeFile{K: "text", D: vm.NoDate}
		switch k := rng.Intn(20); {
		case k == 0:
			mf.K = "absent"
		case k == 1:
			mf.K = "unreadable"
		case k == 2:
			mf.W = ""
			mf.Pad = rng.Intn(2) == 0
		case k == 3:
			mf.W = randomBytesWord(rng)
		default:
			mf.W = words[rng.Intn(len(words))]
			mf.Pad = rng.Intn(4) == 0
			switch rng.Intn(6) {
			case 0:
			case 1:
				mf.D = vm.BadDate
			default:
				// around the dates that matter
				cands := []int{e - 9, e - 8, e - 7, e - 6, e - 3, e - 2, e - 1, e, e + 1, e + 6, e + 7, e + 8, base - 400, base + 400}
				mf.D = cands[rng.Intn(len(cands))]
			}
		}
		st := state{ModeFile: mf}
		nf := rng.Intn(4)
		progs := []string{"pA", "pB", "pC"}
		for j := 0; j < nf; j++ {
			end := e
			if rng.Intn(4) == 0 {
				end = e + 7
			}
			b := end - 1 - rng.Intn(7)
			n := 1 + rng.Intn(5)
			if rng.Intn(6) == 0 {
				n = 0 // a valid count file without any counter
			}
			st.Files = append(st.Files, fileRec{P: progs[j], B: b, E: end, N: n})
			if rng.Intn(5) == 0 && b+1 < end {
				// the same program again, from a later day of the same week (a file rotated in mid-week)
				st.Files = append(st.Files, fileRec{P: progs[j], B: b + 1 + rng.Intn(end-b-1), E: end, N: rng.Intn(3)})
			}
		}
		sc.Extras = rng.Intn(4) == 0
		pick := func(c []int) []int {
			r := []int{}
			for _, v := range c {
				if rng.Intn(4) == 0 {
					r = append(r, v)
				}
			}
			return r
		}
		st.Local = pick([]int{e, e - 7})
		st.Ready = pick([]int{e, e - 7, e + 7, e + 14, e - 28})
		st.Uploaded = pick([]int{e, e - 7, e - 14})
		starts := [][2]int{{e - 1, 86399}, {e, 0}, {e, 1}, {e, 43200}, {e + 1, 0}, {e + 6, 86399}, {e + 7, 0}, {e + 7, 1}, {e + 14, 5}, {e + 20, 86399}, {e + 21, 0}, {e + 21, 1}, {e + 22, 0}, {e + 27, 86399}, {e + 28, 0}, {e + 28, 1}, {e + 35, 7}}
		s0 := starts[rng.Intn(len(starts))]
		st.Day, st.Tod = s0[0], s0[1]
		if st.Files == nil {
			st.Files = []fileRec{}
		}
		sc.Init = st
		x := rng.Intn(1024)
		rate := rates[rng.Intn(len(rates))]
		if rng.Intn(3) == 0 && rate > 0 {
			x = rate + rng.Intn(3) - 1
			if x < 0 {
				x = 0
			}
			if x > 1023 {
				x = 1023
			}
		}
		switch rng.Intn(10) {
		case 0:
			m := []string{"on", "off", "local", "on", "off", "local", "", "On", "auto", "on off", "local\x00", "o n", "ON", "off\n2024-01-01", "onn", "-", "1"}[rng.Intn(17)]
			valid := m == "on" || m == "off" || m == "local"
			pad := ""
			if rng.Intn(2) == 0 && (valid || m == "auto" || m == "On") {
				pad = []string{"lead", "trail", "tab", "nl", "crlf", "both"}[rng.Intn(6)]
			}
			asof := base + rng.Intn(60) - 20
			switch rng.Intn(12) {
			case 0:
				asof = 1 + rng.Intn(300) // the seventies
			case 1:
				asof = 80000 + rng.Intn(4000) // around 2190-2200
			}
			set := action{Op: "set", A: m, P: pad, N1: asof, Ok: valid, Tz: []string{"", "", "east", "west"}[rng.Intn(4)]}
			if rng.Intn(5) == 0 {
				set.N2, set.Tz = 1, "" // through the public package: today's date
			}
			sc.Steps = []step{{Act: set}}
			if mf.K == "unreadable" && valid {
				sc.Steps = nil
			} else if valid {
				// what follows is judged by what was set
				sc.Steps = append(sc.Steps, step{Act: action{Op: "collect", A: "c1", Ok: true}},
					step{Act: action{Op: "run", N1: x, N2: rate, Ok: true}},
					step{Act: action{Op: "advance"}, Day: st.Day + 8 + rng.Intn(14), Tod: rng.Intn(86400)},
					step{Act: action{Op: "run", N1: rng.Intn(1024), N2: rate, Ok: true}})
			}
		case 2:
			// one long-running process: open, mode changes, rotations past the recorded end
			if mf.K == "unreadable" {
				mf = vm.ModeFile{K: "absent", D: vm.NoDate}
				sc.Init.ModeFile = mf
			}
			d := st.Day
			adv := func(n int) step {
				d += n
				return step{Act: action{Op: "advance"}, Day: d, Tod: rng.Intn(86400)}
			}
			set := func(m string) step { return step{Act: action{Op: "set", A: m, N1: d - rng.Intn(3), Ok: true}} }
			rot := step{Act: action{Op: "protate", A: "lp", Ok: true}}
			inc := step{Act: action{Op: "pinc", A: "lp", Ok: true}}
			sc.Steps = nil
			if rng.Intn(3) > 0 {
				sc.Steps = append(sc.Steps, set([]string{"on", "local", "local"}[rng.Intn(3)]))
			}
			sc.Steps = append(sc.Steps, rot)
			if (mf.K != "text" || mf.W != "off") || len(sc.Steps) > 1 {
				sc.Steps = append(sc.Steps, inc) // the file is held and the mode is not off
			}
			if rng.Intn(4) > 0 {
				sc.Steps = append(sc.Steps, set("off"))
			}
			sc.Steps = append(sc.Steps, adv(1+rng.Intn(10)), rot, inc)
			if rng.Intn(2) == 0 {
				sc.Steps = append(sc.Steps, set([]string{"on", "local"}[rng.Intn(2)]), adv(1+rng.Intn(9)), rot, inc)
			}
			sc.Steps = append(sc.Steps, adv(8), step{Act: action{Op: "run", N1: x, N2: rate, Ok: true}})
		case 1:
			sc.Child = rng.Intn(3) == 0
			sc.Steps = []step{{Act: action{Op: "collect", A: []string{"c1", "c2"}[rng.Intn(2)], Ok: true}}}
		default:
			sc.Steps = []step{{Act: action{Op: "run", N1: x, N2: rate, Ok: true}}}
			if rng.Intn(5) == 0 {
				sc.Steps = append(sc.Steps, step{Act: action{Op: "advance"}, Day: st.Day + 1 + rng.Intn(9), Tod: rng.Intn(86400)},
					step{Act: action{Op: "run", N1: rng.Intn(1024), N2: rate, Ok: true}})
			}
		}
		// the word must survive the JSON round trip of the observation
		out = append(out, sc)
	}
	return out
}
