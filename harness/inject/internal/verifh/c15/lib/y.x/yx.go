//go:build verif

package yx

import "golang.org/x/telemetry/internal/verifh/c15/lib/tab"

//go:noinline
func X(ch []int, i int) {
	if i+1 < len(ch) {
		tab.T[ch[i+1]](ch, i+1)
	} else {
		tab.C.Inc()
	}
	tab.Sink++
}

//go:noinline
func Y(ch []int, i int) {
	if i+1 < len(ch) {
		tab.T[ch[i+1]](ch, i+1)
	} else {
		tab.C.Inc()
	}
	tab.Sink++
}

//go:noinline
func LongFunctionNameForTruncationongFunctionNameForTruncationongFunctionNameForTruncationongFunctionNameForTruncationongFunctionNameForTruncationongFunctionNameForTruncationongFunctionNameForTruncation(ch []int, i int) {
	if i+1 < len(ch) {
		tab.T[ch[i+1]](ch, i+1)
	} else {
		tab.C.Inc()
	}
	tab.Sink++
}

func init() {
	tab.Reg("y.x.X", X)
	tab.Reg("y.x.Y", Y)
	tab.Reg("y.x.Long", LongFunctionNameForTruncationongFunctionNameForTruncationongFunctionNameForTruncationongFunctionNameForTruncationongFunctionNameForTruncationongFunctionNameForTruncationongFunctionNameForTruncation)
}
