//go:build verif

package yx

// Functions and a method with multi-byte identifiers (2-, 3- and 4-byte
// runes): a cut of a long name at a fixed byte offset falls inside a rune.

import "golang.org/x/telemetry/internal/verifh/c15/lib/tab"

//go:noinline
func 世界の関数テスト文字列をここに置く(ch []int, i int) {
	if i+1 < len(ch) {
		tab.T[ch[i+1]](ch, i+1)
	} else {
		tab.C.Inc()
	}
	tab.Sink++
}

//go:noinline
func ÄÖÜäöüßÉÈÊàçñØøÅåÄÖÜäöüß(ch []int, i int) {
	if i+1 < len(ch) {
		tab.T[ch[i+1]](ch, i+1)
	} else {
		tab.C.Inc()
	}
	tab.Sink++
}

//go:noinline
func 𝒜𝒷𝒸𝓓𝓔ΩλЖ世A𝒜𝒷𝒸𝓓𝓔(ch []int, i int) {
	if i+1 < len(ch) {
		tab.T[ch[i+1]](ch, i+1)
	} else {
		tab.C.Inc()
	}
	tab.Sink++
}

type Ü型 struct{ n int }

//go:noinline
func (t *Ü型) メソッド名前(ch []int, i int) {
	if i+1 < len(ch) {
		tab.T[ch[i+1]](ch, i+1)
	} else {
		tab.C.Inc()
	}
	tab.Sink++
}

func init() {
	tab.Reg("y.x.u3", 世界の関数テスト文字列をここに置く)
	tab.Reg("y.x.u2", ÄÖÜäöüßÉÈÊàçñØøÅåÄÖÜäöüß)
	tab.Reg("y.x.u4", 𝒜𝒷𝒸𝓓𝓔ΩλЖ世A𝒜𝒷𝒸𝓓𝓔)
	tab.Reg("y.x.um", (&Ü型{}).メソッド名前)
}
