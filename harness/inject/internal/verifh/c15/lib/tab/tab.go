//go:build verif

// Package tab is the dispatch table of the generated call-chain library of
// check C15: every library function calls the next element of the chain
// through T (an indirect call, so no dispatcher frame appears on the stack)
// and the last one calls C.Inc().
package tab

// Incer is implemented by *counter.StackCounter.
type Incer interface{ Inc() }

var (
	T     []func(ch []int, i int)
	Names []string
	Index = map[string]int{}
	C     Incer
	Sink  int
	SinkV any
)

// Reg adds a function to the table under a symbolic name.
func Reg(name string, f func(ch []int, i int)) {
	Index[name] = len(T)
	T = append(T, f)
	Names = append(Names, name)
}
