//go:build verif

package x

import "golang.org/x/telemetry/internal/verifh/c15/lib/tab"

//go:noinline
func X(ch []int, i int) {
	if i+1 < len(ch) {
		tab.T[ch[i+1]](ch, i+1)
	} else {
		tab.C.Inc()
	}
	tab.Sink++
}

//go:noinline
func Y(ch []int, i int) {
	if i+1 < len(ch) {
		tab.T[ch[i+1]](ch, i+1)
	} else {
		tab.C.Inc()
	}
	tab.Sink++
}

//go:noinline
func LongFunctionNameForTruncationongFunctionNameForTruncationongFunctionNameForTruncationongFunctionNameForTruncationongFunctionNameForTruncationongFunctionNameForTruncationongFunctionNameForTruncation(ch []int, i int) {
	if i+1 < len(ch) {
		tab.T[ch[i+1]](ch, i+1)
	} else {
		tab.C.Inc()
	}
	tab.Sink++
}

type T struct{ n int }

//go:noinline
func (t *T) M(ch []int, i int) {
	if i+1 < len(ch) {
		tab.T[ch[i+1]](ch, i+1)
	} else {
		tab.C.Inc()
	}
	tab.Sink++
}

//go:noinline
func (t *T) N(ch []int, i int) {
	if i+1 < len(ch) {
		tab.T[ch[i+1]](ch, i+1)
	} else {
		tab.C.Inc()
	}
	tab.Sink++
}

//go:noinline
func (t T) V(ch []int, i int) {
	if i+1 < len(ch) {
		tab.T[ch[i+1]](ch, i+1)
	} else {
		tab.C.Inc()
	}
	tab.Sink++
}

// G and H are generic; their instantiations at int64 and uint64 have
// identical layout and print as G[...] / H[...].
//
//go:noinline
func G[V any](ch []int, i int) {
	var z V
	tab.SinkV = z
	if i+1 < len(ch) {
		tab.T[ch[i+1]](ch, i+1)
	} else {
		tab.C.Inc()
	}
	tab.Sink++
}

//go:noinline
func H[V any](ch []int, i int) {
	var z V
	tab.SinkV = z
	if i+1 < len(ch) {
		tab.T[ch[i+1]](ch, i+1)
	} else {
		tab.C.Inc()
	}
	tab.Sink++
}

type R[V any] struct{ v V }

//go:noinline
func (r *R[V]) M(ch []int, i int) {
	if i+1 < len(ch) {
		tab.T[ch[i+1]](ch, i+1)
	} else {
		tab.C.Inc()
	}
	tab.Sink++
}

var clo = func(ch []int, i int) {
	if i+1 < len(ch) {
		tab.T[ch[i+1]](ch, i+1)
	} else {
		tab.C.Inc()
	}
	tab.Sink++
}

func init() {
	tab.Reg("x.X", X)
	tab.Reg("x.Y", Y)
	tab.Reg("x.Long", LongFunctionNameForTruncationongFunctionNameForTruncationongFunctionNameForTruncationongFunctionNameForTruncationongFunctionNameForTruncationongFunctionNameForTruncationongFunctionNameForTruncation)
	t := &T{}
	tab.Reg("x.(*T).M", t.M)
	tab.Reg("x.(*T).N", t.N)
	tab.Reg("x.T.V", T{}.V)
	tab.Reg("x.G#1", G[int64])
	tab.Reg("x.G#2", G[uint64])
	tab.Reg("x.H#1", H[int64])
	tab.Reg("x.H#2", H[uint64])
	tab.Reg("x.(*R).M#1", (&R[int64]{}).M)
	tab.Reg("x.(*R).M#2", (&R[uint64]{}).M)
	tab.Reg("x.clo", clo)
}
