//go:build verif

package x

import (
	"golang.org/x/telemetry/internal/verifh/c15/lib/tab"
	"golang.org/x/telemetry/internal/verifh/c15/lib/y"
)

// inlCall / inlInc are small enough to be inlined: a frame of theirs shares
// its PC with the frame of the function they are inlined into (rendered with
// "=" and an absolute line number).  Inl1 inlines them once, Inl2 through a
// second inlined level.

func inlCall(ch []int, i int) { tab.T[ch[i+1]](ch, i+1) }

func inlInc() { tab.C.Inc() }

func inlCall2(ch []int, i int) { inlCall(ch, i) }

func inlInc2() { inlInc() }

//go:noinline
func Inl1(ch []int, i int) {
	if i+1 < len(ch) {
		inlCall(ch, i)
	} else {
		inlInc()
	}
	tab.Sink++
}

//go:noinline
func Inl2(ch []int, i int) {
	if i+1 < len(ch) {
		inlCall2(ch, i)
	} else {
		inlInc2()
	}
	tab.Sink++
}

func init() {
	tab.Reg("x.Inl1", Inl1)
	tab.Reg("x.Inl2", Inl2)
}

// InlY inlines helpers of package y (a cross-package inlined callee).
//
//go:noinline
func InlY(ch []int, i int) {
	if i+1 < len(ch) {
		y.CallNext(ch, i)
	} else {
		y.DoInc()
	}
	tab.Sink++
}

func init() { tab.Reg("x.InlY", InlY) }
