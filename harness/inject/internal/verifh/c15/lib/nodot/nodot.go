//go:build verif

// Package nodot defines functions whose linker symbols contain no dot, so the
// runtime reports them with an empty import path (like assembly or C symbols).
package nodot

import (
	_ "unsafe" // for go:linkname

	"golang.org/x/telemetry/internal/verifh/c15/lib/tab"
)

//go:linkname nx c15nodot_x
//go:noinline
func nx(ch []int, i int) {
	if i+1 < len(ch) {
		tab.T[ch[i+1]](ch, i+1)
	} else {
		tab.C.Inc()
	}
	tab.Sink++
}

//go:linkname ny c15nodot_y
//go:noinline
func ny(ch []int, i int) {
	if i+1 < len(ch) {
		tab.T[ch[i+1]](ch, i+1)
	} else {
		tab.C.Inc()
	}
	tab.Sink++
}

func init() {
	tab.Reg("nodot.x", nx)
	tab.Reg("nodot.y", ny)
}
