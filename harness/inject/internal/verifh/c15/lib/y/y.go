//go:build verif

package y

import "golang.org/x/telemetry/internal/verifh/c15/lib/tab"

//go:noinline
func X(ch []int, i int) {
	if i+1 < len(ch) {
		tab.T[ch[i+1]](ch, i+1)
	} else {
		tab.C.Inc()
	}
	tab.Sink++
}

//go:noinline
func Y(ch []int, i int) {
	if i+1 < len(ch) {
		tab.T[ch[i+1]](ch, i+1)
	} else {
		tab.C.Inc()
	}
	tab.Sink++
}

//go:noinline
func LongFunctionNameForTruncationongFunctionNameForTruncationongFunctionNameForTruncationongFunctionNameForTruncationongFunctionNameForTruncationongFunctionNameForTruncationongFunctionNameForTruncation(ch []int, i int) {
	if i+1 < len(ch) {
		tab.T[ch[i+1]](ch, i+1)
	} else {
		tab.C.Inc()
	}
	tab.Sink++
}

func init() {
	tab.Reg("y.X", X)
	tab.Reg("y.Y", Y)
	tab.Reg("y.Long", LongFunctionNameForTruncationongFunctionNameForTruncationongFunctionNameForTruncationongFunctionNameForTruncationongFunctionNameForTruncationongFunctionNameForTruncationongFunctionNameForTruncation)
}

// CallNext and DoInc are small exported helpers that the compiler inlines
// into callers in OTHER packages (lib/x.InlY*): the inlined frame belongs to
// package y while its PC and entry are those of the enclosing x function.
func CallNext(ch []int, i int) { tab.T[ch[i+1]](ch, i+1) }

func DoInc() { tab.C.Inc() }
