//go:build verif

// Package c15 binds spec/StackName*.tla to the real stack-counter code
// (internal/counter: StackCounter.Inc, EncodeStack, DecodeStack,
// IsStackCounter and the file decoder).
//
//   - TestVerifC15Dec: every string / valid encoding TLC enumerated is fed to
//     the real DecodeStack (literally and with the ordinary characters blown up
//     to words).
//   - TestVerifC15Enc: frame sequences enumerated by TLC, TLC's witness for the
//     generic-instantiation collision, and random / deep chains are turned
//     into real call stacks through the generated library lib/... and end in
//     StackCounter.Inc of a private counter file; names, expansion, cache
//     behaviour and the decoded file are written back in the vocabulary of
//     StackNameTrace.tla.
package c15

import (
	"fmt"
	"math/rand"
	"os"
	"path/filepath"
	"runtime"
	"sort"
	"strings"
	"testing"
	"time"

	"golang.org/x/telemetry/internal/counter"
	"golang.org/x/telemetry/internal/telemetry"
	_ "golang.org/x/telemetry/internal/verifh/c15/lib/nodot"
	"golang.org/x/telemetry/internal/verifh/c15/lib/tab"
	_ "golang.org/x/telemetry/internal/verifh/c15/lib/x"
	_ "golang.org/x/telemetry/internal/verifh/c15/lib/y"
	_ "golang.org/x/telemetry/internal/verifh/c15/lib/y.x"
	rt "golang.org/x/telemetry/internal/verifrt"
)

const maxNameLen = 4096

// ------------------------------------------------------------------ decode

func safeDecode(s string) (out string, panicked string, hung bool) {
	type res struct{ out, pan string }
	ch := make(chan res, 1)
	go func() {
		var r res
		defer func() {
			if p := recover(); p != nil {
				r.pan = fmt.Sprint(p)
			}
			ch <- r
		}()
		r.out = counter.DecodeStack(s)
	}()
	select {
	case r := <-ch:
		return r.out, r.pan, false
	case <-time.After(10 * time.Second):
		return "", "", true
	}
}

// blow replaces the ordinary characters by words; the three meaningful
// characters are kept.
func blow(s string) string {
	return strings.NewReplacer("x", "tools/internal", "y", "Pkg_y:+12,+0x3f").Replace(s)
}

// blow2 does the same with multi-byte words and bytes that are not UTF-8
// (none of their bytes is one of the three meaningful characters).
func blow2(s string) string {
	return strings.NewReplacer("x", "世界/パス", "y", "Fn\xff\xfeÄ:+12,+0x3f").Replace(s)
}

func clip(s string) string {
	if len(s) > 600 {
		return s[:600] + "..."
	}
	return s
}

func TestVerifC15Dec(t *testing.T) {
	defer rt.Flush()
	var in struct {
		Strings []struct {
			ID  int    `json:"id"`
			S   string `json:"s"`
			Dec string `json:"dec"`
		} `json:"strings"`
		Valid []struct {
			ID  int    `json:"id"`
			Enc string `json:"enc"`
			Unc string `json:"unc"`
		} `json:"valid"`
	}
	if err := rt.In(&in); err != nil {
		t.Skip(err)
	}
	n, diverge, bad := 0, 0, 0
	mismatch := func(what string, id int, s, got, want, extra string) {
		bad++
		if bad <= 40 {
			rt.Out(rt.M{"kind": "mismatch", "what": what, "id": id, "s": clip(s), "got": clip(got), "want": clip(want), "extra": extra})
		}
	}
	check := func(id int, s, want string, strict bool) bool {
		n++
		got, pan, hung := safeDecode(s)
		switch {
		case hung:
			mismatch("hang", id, s, "", "", "")
			return false
		case pan != "":
			mismatch("panic", id, s, "", "", pan)
		case !strings.Contains(s, "\n") && got != s:
			mismatch("identity", id, s, got, s, "")
		case strict && got != want:
			mismatch("valid-encoding", id, s, got, want, "")
		case !strict && got != want:
			diverge++
			if diverge <= 5 {
				rt.Out(rt.M{"kind": "diverge", "id": id, "s": clip(s), "got": clip(got), "model": clip(want)})
			}
		}
		if counter.IsStackCounter(s) != strings.Contains(s, "\n") {
			mismatch("isstack", id, s, fmt.Sprint(counter.IsStackCounter(s)), fmt.Sprint(strings.Contains(s, "\n")), "")
		}
		return true
	}
	for _, v := range in.Strings {
		if !check(v.ID, v.S, v.Dec, false) || !check(v.ID, blow(v.S), blow(v.Dec), false) || !check(v.ID, blow2(v.S), blow2(v.Dec), false) {
			break
		}
	}
	for _, v := range in.Valid {
		if !check(v.ID, v.Enc, v.Unc, true) || !check(v.ID, blow(v.Enc), blow(v.Unc), true) || !check(v.ID, blow2(v.Enc), blow2(v.Unc), true) {
			break
		}
	}
	// sizes: empty, one character, a megabyte without newline, 200 000 dittoed
	// lines, a 100 KB import path restored 200 times
	big := strings.Repeat("x", 1<<20)
	for i, s := range []string{"", "\n", "\"", ".", big, big + ".f"} {
		want := s
		check(9000000+i, s, want, true)
	}
	check(9000010, "p\na.f"+strings.Repeat("\n\".g", 200000), "p\na.f"+strings.Repeat("\na.g", 200000), true)
	mid := big[:100000]
	check(9000011, "p\n"+mid+".f"+strings.Repeat("\n\".g", 200), "p\n"+mid+".f"+strings.Repeat("\n"+mid+".g", 200), true)
	rt.Out(rt.M{"kind": "summary", "evaluated": n, "mismatches": bad, "diverge": diverge})
}

// ------------------------------------------------------------------ encode

// uncompressed is the harness' own rendering of a PC list: the counter's name
// and one line IMPORTPATH.FUNC:LINE,+0xOFFSET per frame, nothing abbreviated.
func uncompressed(prefix string, pcs []uintptr) []string {
	out := []string{prefix}
	frs := runtime.CallersFrames(pcs)
	for {
		fr, more := frs.Next()
		fn := fr.Function
		path, name := "", fn
		if k := strings.LastIndex(fn, "."); k >= 0 {
			path, name = fn[:k], fn[k+1:]
		}
		if fr.Func != nil {
			_, el := fr.Func.FileLine(fr.Entry)
			out = append(out, fmt.Sprintf("%s.%s:%+d,+0x%x", path, name, fr.Line-el, fr.PC-fr.Entry))
		} else {
			out = append(out, fmt.Sprintf("%s.%s:=%d,+0x%x", path, name, fr.Line, fr.PC-fr.Entry))
		}
		if !more {
			break
		}
	}
	return out
}

type interner map[string]int

func (in interner) id(s string) int {
	if v, ok := in[s]; ok {
		return v
	}
	in[s] = len(in) + 1
	return in[s]
}

// absLines abstracts lines as StackName!AbsLine does (own splitter).
func absLines(lines []string, paths, rests interner) []rt.M {
	out := make([]rt.M, len(lines))
	for i, ln := range lines {
		k := strings.LastIndex(ln, ".")
		switch {
		case k <= 0:
			out[i] = rt.M{"k": "none", "v": 0, "r": rests.id(ln)}
		case ln[:k] == `"`:
			out[i] = rt.M{"k": "ditto", "v": 0, "r": rests.id(ln[k:])}
		default:
			out[i] = rt.M{"k": "path", "v": paths.id(ln[:k]), "r": rests.id(ln[k:])}
		}
	}
	return out
}

type chainIn struct {
	ID     int      `json:"id"`
	Fns    []string `json:"fns"` // symbolic names, innermost (caller of Inc) first
	Prefix string   `json:"prefix"`
	Extra  int      `json:"extra"` // frames of the harness included below the chain
	Src    string   `json:"src"`
}

//go:noinline
func drive(ch []int) {
	tab.T[ch[0]](ch, 0)
	tab.Sink++
}

type scKey struct {
	prefix string
	depth  int
}

// guarded runs a chain in a goroutine of its own making and turns a panic of
// the code under test into a value.
func guarded(ch []int) (panicked string) {
	defer func() {
		if p := recover(); p != nil {
			panicked = fmt.Sprint(p)
		}
	}()
	drive(ch)
	return ""
}

// safeReadFile / safeReadStack: the file decoder and ReadStack run DecodeStack
// on every name; a panic there is reported, not suffered.
func safeReadFile(name string) (stacks map[string]uint64, err error) {
	defer func() {
		if p := recover(); p != nil {
			stacks, err = nil, fmt.Errorf("panic: %v", p)
		}
	}()
	_, stacks, err = counter.ReadFile(name)
	return stacks, err
}

func safeReadStack(sc *counter.StackCounter) (m map[string]uint64, err error) {
	defer func() {
		if p := recover(); p != nil {
			m, err = nil, fmt.Errorf("panic: %v", p)
		}
	}()
	return counter.ReadStack(sc)
}

type stackRec struct {
	chain chainIn
	sc    *counter.StackCounter
	idx   int // index in sc.Counters() (creation order)
	pcs   []uintptr
	runs  int
	once  bool
}

// pcGrab stands in for the stack counter in a second run of a chain: the leaf
// calls tab.C.Inc() through the interface, i.e. with the very same call
// instruction, so runtime.Callers(2, ...) sees exactly the return addresses
// (*StackCounter).Inc records.  Nothing of StackCounter's private
// representation is read.
type pcGrab struct {
	depth int
	pcs   []uintptr
}

//go:noinline
func (g *pcGrab) Inc() {
	pcs := make([]uintptr, g.depth)
	n := runtime.Callers(2, pcs) // caller of Inc
	g.pcs = pcs[:n]
}

func TestVerifC15Enc(t *testing.T) {
	defer rt.Flush()
	var in struct {
		Chains []chainIn `json:"chains"`
		Random int       `json:"random"`
		Deep   int       `json:"deep"`
		Show   []int     `json:"show"`
	}
	if err := rt.In(&in); err != nil {
		t.Skip(err)
	}
	dir := t.TempDir()
	telemetry.Default = telemetry.NewDir(dir)
	if err := os.MkdirAll(telemetry.Default.LocalDir(), 0777); err != nil {
		t.Fatal(err)
	}
	os.WriteFile(filepath.Join(telemetry.Default.LocalDir(), "weekends"), []byte("3\n"), 0666)
	now := time.Date(2024, 2, 27, 10, 0, 0, 0, time.UTC)
	counter.CounterTime = func() time.Time { return now }
	var f counter.VFile
	f.Rotate1()
	if err := f.Err(); err != nil || !f.HasCurrent() {
		t.Fatalf("cannot open the private counter file: %v", err)
	}
	defer f.Close()

	// ---- work list: TLC's chains, then random ones (short, and deep enough to be cut)
	rng := rand.New(rand.NewSource(rt.Seed()*15485863 + 3))
	all := append([]string{}, tab.Names...)
	sort.Strings(all)
	var short, long []string
	for _, n := range all {
		if strings.HasSuffix(n, ".Long") {
			long = append(long, n)
		} else {
			short = append(short, n)
		}
	}
	prefixes := []string{"c15/stack", "gopls.bug", "crash/crash", "a.b/c-d:e", "", "ünï/cödé"}
	id := 2000000
	for i := 0; i < in.Random; i++ {
		n := 1 + rng.Intn(8)
		c := chainIn{ID: id, Prefix: prefixes[rng.Intn(len(prefixes))], Extra: []int{0, 0, 3}[rng.Intn(3)], Src: "random"}
		pool := short
		if rng.Intn(4) == 0 { // few packages: many dittos
			pool = short[:4+rng.Intn(4)]
		}
		for j := 0; j < n; j++ {
			if j > 0 && rng.Intn(3) == 0 {
				c.Fns = append(c.Fns, c.Fns[j-1]) // recursion
			} else {
				c.Fns = append(c.Fns, pool[rng.Intn(len(pool))])
			}
		}
		in.Chains = append(in.Chains, c)
		id++
	}
	for i := 0; i < in.Deep; i++ {
		// around the truncation point: long function names, 10..30 frames; or many short ones
		c := chainIn{ID: id, Prefix: prefixes[rng.Intn(len(prefixes))], Src: "deep"}
		if rng.Intn(3) == 0 {
			for n := 40 + rng.Intn(120); n > 0; n-- {
				c.Fns = append(c.Fns, short[rng.Intn(len(short))])
			}
		} else {
			for n := 8 + rng.Intn(24); n > 0; n-- {
				if rng.Intn(5) == 0 {
					c.Fns = append(c.Fns, short[rng.Intn(len(short))])
				} else {
					c.Fns = append(c.Fns, long[rng.Intn(len(long))])
				}
			}
		}
		in.Chains = append(in.Chains, c)
		id++
	}

	// ---- deep chains through functions with multi-byte identifiers, under
	// counter names of every length 1..64: a cut at a fixed byte offset visits
	// every byte of a frame line, inside 2-, 3- and 4-byte runes too
	if len(in.Chains) > 0 {
		// ---- how many frames the counter records: none, fewer than the chain has
		// (two chains that differ only below the recorded part are ONE stack), all,
		// more (down to runtime.goexit)
		id := 1660000
		for _, fns := range [][]string{{"x.X", "y.Y", "x.Y", "y.x.X"}, {"x.X", "y.Y", "x.Y", "y.X"}, {"x.Y", "y.Y", "x.Y", "y.X"}} {
			for _, extra := range []int{-4, -3, -2, -1, 0, 1, 10} {
				in.Chains = append(in.Chains, chainIn{ID: id, Fns: fns, Prefix: "c15/depth", Extra: extra, Src: "depth"})
				id++
			}
		}
		// ---- inlined frames (one PC, several frames) as leaf, in the middle, outermost
		for _, fns := range [][]string{{"x.Inl1"}, {"x.Inl2"}, {"x.Inl1", "x.X"}, {"x.X", "x.Inl1", "y.Y"}, {"x.X", "x.Inl2"},
			{"x.Inl2", "x.Inl1", "x.Inl2", "y.X"}, {"y.x.X", "x.Inl2", "x.Inl2", "x.Inl1"}, {"nodot.x", "x.Inl1", "nodot.y"},
			// a callee of ANOTHER package inlined into its caller: leaf, middle, outermost, repeated
			{"x.InlY"}, {"x.InlY", "x.X"}, {"x.X", "x.InlY", "y.Y"}, {"y.Y", "y.X", "x.InlY"}, {"x.InlY", "x.InlY", "x.InlY"},
			{"y.Y", "x.InlY", "x.Inl1", "y.x.X"}, {"nodot.y", "x.InlY", "nodot.x"}} {
			for _, extra := range []int{-1, 0, 1, 3} {
				in.Chains = append(in.Chains, chainIn{ID: id, Fns: fns, Prefix: "c15/inl", Extra: extra, Src: "inline"})
				id++
			}
		}
		// ---- counter names: empty, and so long that the name is cut inside them
		for _, n := range []int{0, 4080, 4084, 4085, 4086, 4096, 5000} {
			for _, fns := range [][]string{{"x.X"}, {"x.X", "y.Y"}} {
				in.Chains = append(in.Chains, chainIn{ID: id, Fns: fns, Prefix: strings.Repeat("q", n), Src: "prefix"})
				id++
			}
		}
		same := []string{"x.u3", "x.u2", "x.u4", "x.um"}
		alt := []string{"x.u3", "y.x.u4", "x.um", "y.x.u2", "x.u4", "y.x.u3"}
		for l := 1; l <= 64; l++ {
			for v, pool := range [][]string{same, alt} {
				c := chainIn{ID: 1650000 + 2*l + v, Prefix: strings.Repeat("p", l), Src: "utf8"}
				for n := 0; n < 90; n++ {
					c.Fns = append(c.Fns, pool[(n+l*v)%len(pool)])
				}
				in.Chains = append(in.Chains, c)
			}
		}
	}

	scs := map[scKey]*counter.StackCounter{}
	seen := map[string]*stackRec{}
	var recs []*stackRec
	problems := 0
	// runChain runs one chain twice from the one call site of drive: first into
	// the harness' own pcGrab (which stack is this? -- decided from the captured
	// PCs alone), then into the real stack counter.
	runChain := func(c chainIn, key scKey, sc *counter.StackCounter, ch []int) {
		grab := &pcGrab{depth: key.depth}
		var r *stackRec
		var skey string
		for g := 0; g < 2; g++ {
			tab.C = sc
			if g == 0 {
				tab.C = grab
			}
			n0 := len(sc.Counters())
			drive(ch) // the one call site of every chain
			if g == 0 {
				skey = fmt.Sprint(key, grab.pcs)
				r = seen[skey]
				continue
			}
			n1 := len(sc.Counters())
			switch {
			case r == nil && n1 == n0+1:
				r = &stackRec{chain: c, sc: sc, idx: n0, pcs: grab.pcs, runs: 1, once: true}
				seen[skey] = r
				recs = append(recs, r)
			case r == nil:
				// a new call stack did not get a counter of its own
				problems++
				rt.Out(rt.M{"kind": "cache", "what": "new-stack-no-new-counter", "chain": c.Fns, "depth": key.depth, "before": n0, "after": n1})
			default:
				r.runs++
				if n1 != n0 {
					r.once = false
				}
			}
		}
	}
	for pass := 0; pass < 3; pass++ { // every chain runs twice, the second time after all others
		work := in.Chains
		if pass == 2 {
			// names right at the size limit: the longest untruncated stacks again,
			// under counter names padded so that the full name would be 4090..4100 bytes
			work = nil
			var cand []*stackRec
			for _, r := range recs {
				ctrs := r.sc.Counters()
				if n := ctrs[r.idx].Name(); len(n) > 2500 && len(n) < 4080 && !strings.Contains(n[len(n)-20:], "truncated") && r.chain.Extra == 0 {
					cand = append(cand, r)
				}
				if len(cand) == 3 {
					break
				}
			}
			for k, r := range cand {
				ctrs := r.sc.Counters()
				base := len(ctrs[r.idx].Name()) - len(r.chain.Prefix)
				for target := 4090; target <= 4100; target++ {
					c := r.chain
					c.ID = 1700000 + 20*k + (target - 4090)
					c.Src = "boundary"
					c.Prefix = "c15/" + strings.Repeat("p", target-base-4)
					work = append(work, c)
				}
			}
		}
		for _, c := range work {
			if len(c.Fns) == 0 {
				continue
			}
			ch := make([]int, len(c.Fns))
			ok := true
			for i, n := range c.Fns {
				ix, found := tab.Index[n]
				if !found {
					ok = false
				}
				ch[len(ch)-1-i] = ix
			}
			if !ok {
				t.Fatalf("unknown library function in %v", c.Fns)
			}
			depth := len(c.Fns) + c.Extra // Extra < 0: the counter records fewer frames than the chain has
			if depth < 0 {
				depth = 0
			}
			key := scKey{c.Prefix, depth}
			sc := scs[key]
			if sc == nil {
				sc = f.NewStack(c.Prefix, key.depth)
				scs[key] = sc
			}
			runChain(c, key, sc, ch)
		}
	}
	idsOf := func(fns ...string) []int {
		ch := make([]int, len(fns))
		for i, n := range fns {
			ch[len(ch)-1-i] = tab.Index[n]
		}
		return ch
	}
	cacheProblem := func(what string, extra rt.M) {
		problems++
		m := rt.M{"kind": "cache", "what": what}
		for k, v := range extra {
			m[k] = v
		}
		rt.Out(m)
	}
	// ---- the same new stack incremented from several goroutines at once
	panics := make(chan string, 100000)
	// (many rounds, each on a fresh stack counter of the same name, all
	// goroutines released together)
	chConc := idsOf("x.X", "y.Y")
	const nRounds, nG = 300, 8
	var scConc *counter.StackCounter
	worst := 1
	for round := 0; round < nRounds; round++ {
		scConc = f.NewStack("c15/conc", 2)
		tab.C = scConc
		start, done := make(chan bool), make(chan bool)
		for g := 0; g < nG; g++ {
			go func() {
				<-start
				if p := guarded(chConc); p != "" {
					panics <- p
				}
				done <- true
			}()
		}
		close(start)
		for g := 0; g < nG; g++ {
			<-done
		}
		if n := len(scConc.Counters()); n > worst {
			worst = n
		}
	}
	if worst != 1 {
		cacheProblem("concurrent-increments-of-one-stack-several-counters", rt.M{"counters": worst})
	}
	// ---- DISTINCT new stacks incremented for the first time from several
	// goroutines at once, then each once more in sequence: every stack has its one
	// listed counter straight away, no second one appears, and each counts 2
	distinct := [][]int{idsOf("x.X", "y.Y"), idsOf("x.Y", "y.Y"), idsOf("y.X", "y.Y"), idsOf("y.Y", "y.Y"), idsOf("x.X", "x.X"),
		idsOf("y.x.X", "x.Y"), idsOf("x.Inl1", "y.X"), idsOf("nodot.x", "x.X")}
	const nRounds2 = 150
	var scDist *counter.StackCounter
	lostAfterRace, extraAfterRepeat := 0, 0
	for round := 0; round < nRounds2; round++ {
		scDist = f.NewStack("c15/conc2", 2)
		tab.C = scDist
		start, done := make(chan bool), make(chan bool)
		for _, ch := range distinct {
			ch := ch
			go func() {
				<-start
				if p := guarded(ch); p != "" {
					panics <- p
				}
				done <- true
			}()
		}
		close(start)
		for range distinct {
			<-done
		}
		if n := len(scDist.Counters()); n != len(distinct) {
			lostAfterRace++
		}
		for _, ch := range distinct {
			drive(ch)
		}
		if n := len(scDist.Counters()); n != len(distinct) {
			extraAfterRepeat++
		}
	}
	if lostAfterRace > 0 || extraAfterRepeat > 0 {
		cacheProblem("concurrent-first-increments-of-distinct-stacks-lose-counters", rt.M{"rounds": nRounds2,
			"rounds_with_wrong_count_after_race": lostAfterRace, "rounds_with_wrong_count_after_repeat": extraAfterRepeat})
	}

	if len(panics) > 0 {
		cacheProblem("panic-in-concurrent-Inc", rt.M{"panics": len(panics), "first": <-panics})
	}

	// ---- two StackCounter values of one name and depth: one counter on file
	scT1, scT2 := f.NewStack("c15/twin", 2), f.NewStack("c15/twin", 2)
	chTwin := idsOf("x.X", "x.Y") // one package: the second frame is abbreviated
	gT := &pcGrab{depth: 2}
	for _, c := range []tab.Incer{gT, scT1, scT2, scT2} {
		tab.C = c
		drive(chTwin)
	}
	uncTwin := strings.Join(uncompressed("c15/twin", gT.pcs), "\n")

	// ---- what the file decoder sees
	fileStacks, ferr := safeReadFile(f.CurrentName())
	if ferr != nil {
		rt.Out(rt.M{"kind": "cache", "what": "file-unreadable", "err": ferr.Error()})
		problems++
	}
	raw := map[string]uint64{}
	if data, err := counter.ReadMapped(f.CurrentName()); err == nil {
		raw = rt.DecodeV1(data).Counts()
	}

	if c1, c2 := scT1.Counters(), scT2.Counters(); len(c1) != 1 || len(c2) != 1 || c1[0].Name() != c2[0].Name() {
		cacheProblem("two-stack-counters-of-one-name-disagree", rt.M{"n1": len(c1), "n2": len(c2)})
	} else {
		if v := raw[c1[0].Name()]; v != 3 {
			cacheProblem("two-stack-counters-of-one-name-wrong-sum", rt.M{"value": v, "want": 3})
		}
		// the stack-counter API: Names and ReadStack (expanded names)
		if ns := scT1.Names(); len(ns) != 1 || ns[0] != c1[0].Name() {
			cacheProblem("Names-differs-from-Counters", rt.M{"names": ns})
		}
		m, err := safeReadStack(scT1)
		if err != nil || len(m) != 1 || m[uncTwin] != 3 {
			cacheProblem("ReadStack-does-not-list-the-expanded-name", rt.M{"err": fmt.Sprint(err), "got": fmt.Sprint(m), "want": uncTwin})
		}
	}
	for _, ctr := range scDist.Counters() {
		if v := raw[ctr.Name()]; v != 2*nRounds2 {
			cacheProblem("concurrent-first-increments-of-distinct-stacks-wrong-count", rt.M{"value": v, "want": 2 * nRounds2, "name": clip(ctr.Name())})
			break
		}
	}
	if cs := scConc.Counters(); len(cs) == 1 {
		if v := raw[cs[0].Name()]; v != nRounds*nG {
			cacheProblem("concurrent-increments-lost", rt.M{"value": v, "want": nRounds * nG})
		}
	}

	// ---- one record per distinct stack
	show := map[int]bool{}
	for _, s := range in.Show {
		show[s] = true
	}
	byName := map[string][]*stackRec{}
	type info struct {
		name   string
		unc    []string
		marked bool
		pcs    []uintptr
	}
	infos := map[*stackRec]*info{}
	nTrunc, nLong := 0, 0
	snaps := map[*counter.StackCounter][]*counter.Counter{}
	for _, sc := range scs {
		snaps[sc] = sc.Counters()
	}
	for _, r := range recs {
		name := snaps[r.sc][r.idx].Name()
		unc := uncompressed(r.chain.Prefix, r.pcs)
		tail := name
		if len(tail) > 40 {
			tail = tail[len(tail)-40:]
		}
		marked := strings.Contains(tail, "truncated")
		if marked {
			nTrunc++
		}
		if len(strings.Join(unc, "\n")) > 2*maxNameLen {
			nLong++ // even fully abbreviated this cannot fit: it must be cut
		}
		infos[r] = &info{name, unc, marked, r.pcs}
		byName[name] = append(byName[name], r)
	}
	for _, r := range recs {
		inf := infos[r]
		name := inf.name
		dec, pan, hung := safeDecode(name)
		paths, rests := interner{}, interner{}
		once := r.once
		extra := ""
		// the counter's value: in memory/file under the raw name, and through
		// the file decoder under the expanded name
		if len(byName[name]) == 1 {
			if v, ok := raw[name]; !ok || v != uint64(r.runs) {
				once = false
				extra = fmt.Sprintf("file holds %d (present=%v) for a stack incremented %d times", v, ok, r.runs)
			}
		}
		decLines := strings.Split(dec, "\n")
		if pan != "" || hung {
			decLines = []string{"<panic or hang: " + pan + ">"}
		}
		// the file decoder must list the expanded name too
		fileOK := true
		if !inf.marked && ferr == nil && len(byName[name]) == 1 {
			if v, ok := fileStacks[strings.Join(inf.unc, "\n")]; !ok || v != uint64(r.runs) {
				fileOK = false
			}
		}
		rec := rt.M{"kind": "rec", "t": "stack", "id": r.chain.ID, "src": r.chain.Src, "fns": r.chain.Fns, "depth": len(r.chain.Fns) + r.chain.Extra,
			"unc": absLines(inf.unc, paths, rests), "enc": absLines(strings.Split(name, "\n"), paths, rests),
			"dec": absLines(decLines, paths, rests), "marked": inf.marked, "lenok": len(name) <= maxNameLen, "once": once,
			"fileok": fileOK, "len": len(name), "extra": extra}
		if show[r.chain.ID] {
			rec["name"], rec["uncompressed"], rec["decoded"] = name, strings.Join(inf.unc, "\n"), dec
		}
		rt.Out(rec)
	}
	// ---- PC lists that resolve to no function (what the crash monitor can hand
	// to EncodeStack for a report of another executable): one pseudo-frame
	for i, pcs := range [][]uintptr{{0x10}, {0x1, 0x2, ^uintptr(15)}, {}} {
		for j, prefix := range []string{"crash/crash", "gopls.bug"} {
			name := counter.EncodeStack(pcs, prefix)
			dec, _, _ := safeDecode(name)
			unc := uncompressed(prefix, pcs)
			paths, rests := interner{}, interner{}
			rec := rt.M{"kind": "rec", "t": "stack", "id": 1800000 + 2*i + j, "src": "unresolvable", "fns": []string{fmt.Sprint(pcs)}, "depth": len(pcs),
				"unc": absLines(unc, paths, rests), "enc": absLines(strings.Split(name, "\n"), paths, rests),
				"dec": absLines(strings.Split(dec, "\n"), paths, rests), "marked": false, "lenok": len(name) <= maxNameLen, "once": true,
				"fileok": true, "len": len(name), "extra": "", "name": name, "uncompressed": strings.Join(unc, "\n"), "decoded": dec}
			rt.Out(rec)
		}
	}
	// ---- pairs: every collision, and a sample of ordinary pairs
	npairs := 0
	pair := func(a, b *stackRec) {
		ia, ib := infos[a], infos[b]
		differ := len(ia.pcs) != len(ib.pcs)
		for i := 0; !differ && i < len(ia.pcs); i++ {
			differ = ia.pcs[i] != ib.pcs[i]
		}
		// do the two RECORDED stacks differ only in which instantiation of a
		// generic function they go through?  (every differing PC lies in a function
		// of the same printed name, which carries "[...]")
		generic := differ && len(ia.pcs) == len(ib.pcs) && a.sc == b.sc
		for i := 0; generic && i < len(ia.pcs); i++ {
			if ia.pcs[i] == ib.pcs[i] {
				continue
			}
			fa, fb := runtime.FuncForPC(ia.pcs[i]-1), runtime.FuncForPC(ib.pcs[i]-1)
			generic = fa != nil && fb != nil && fa.Name() == fb.Name() && strings.Contains(fa.Name(), "[...]") && fa.Entry() != fb.Entry()
		}
		rt.Out(rt.M{"kind": "rec", "t": "pair", "id": a.chain.ID, "id2": b.chain.ID, "fns": a.chain.Fns, "fns2": b.chain.Fns, "generic": generic,
			"differ": differ, "untrunc": !ia.marked && !ib.marked, "samename": ia.name == ib.name,
			"samerender": strings.Join(ia.unc, "\n") == strings.Join(ib.unc, "\n"), "name": clip(ia.name)})
		npairs++
	}
	for _, rs := range byName {
		for i := 1; i < len(rs); i++ {
			pair(rs[0], rs[i])
		}
	}
	for i := 0; i+1 < len(recs) && i < 4000; i++ {
		pair(recs[i], recs[(i*7+1)%len(recs)])
	}
	// ---- a second counter file (the week is over): the same stack still hits
	// its one counter, and the new file lists it under the same expanded name
	oldName := f.CurrentName()
	now = now.Add(8 * 24 * time.Hour)
	f.Rotate1()
	if err := f.Err(); err != nil || f.CurrentName() == oldName {
		rt.Out(rt.M{"kind": "note", "what": "no second counter file", "err": fmt.Sprint(err)})
	} else {
		tab.C = scT1
		drive(chTwin)
		drive(chTwin)
		st2, err := safeReadFile(f.CurrentName())
		if n := len(scT1.Counters()); n != 1 || err != nil || st2[uncTwin] != 2 {
			cacheProblem("after-rotation-same-stack-not-one-counter", rt.M{"counters": n, "err": fmt.Sprint(err), "value": st2[uncTwin], "want": 2})
		}
	}
	rt.Out(rt.M{"kind": "summary", "chains": len(in.Chains), "stacks": len(recs), "truncated": nTrunc, "toolong": nLong, "pairs": npairs,
		"counters": len(scs), "problems": problems, "file_names": len(fileStacks)})
}
