//go:build verif

package c09

import (
	"encoding/json"
	"fmt"
	"math/rand"
	"os"
	"path/filepath"
	"sort"
	"strings"
	"sync"
	"testing"
	"time"

	"golang.org/x/telemetry/internal/counter"
	"golang.org/x/telemetry/internal/telemetry"
	"golang.org/x/telemetry/internal/upload"
	rt "golang.org/x/telemetry/internal/verifrt"
)

func at(day int64, tod int64) time.Time { return time.Unix(day*86400+tod, 0).UTC() }
func dayOf(t time.Time) int64           { return t.Unix() / 86400 }

type vec struct {
	Day   int64 `json:"day"`
	Byte  int   `json:"byte"`
	Ok    bool  `json:"ok"`
	Begin int64 `json:"begin"`
	End   int64 `json:"end"`
}

func setWeekends(t *testing.T, content []byte, missing bool) {
	p := filepath.Join(telemetry.Default.LocalDir(), "weekends")
	if missing {
		os.Remove(p)
		return
	}
	if err := os.MkdirAll(filepath.Dir(p), 0777); err != nil {
		t.Fatal(err)
	}
	if err := os.WriteFile(p, content, 0666); err != nil {
		t.Fatal(err)
	}
}

// TestVerifC09Vec replays the (day, byte) vectors TLC enumerated into the real
// counterSpan at four times of day each, and then records random vectors (any
// second of the day, any content byte with blanks around it, a missing file)
// for validation by TLC.
func TestVerifC09Vec(t *testing.T) {
	defer rt.Flush()
	var in struct {
		Vectors []vec `json:"vectors"`
		Random  int   `json:"random"`
	}
	if err := rt.In(&in); err != nil {
		t.Skip(err)
	}
	dir := t.TempDir()
	telemetry.Default = telemetry.NewDir(dir)
	tods := []int64{0, 1, 43200, 86399}
	n, bad := 0, 0
	var now time.Time
	counter.CounterTime = func() time.Time { return now }
	for _, v := range in.Vectors {
		var content []byte
		switch {
		case v.Byte == 0:
			content = []byte(" \n")
		default:
			content = []byte{byte(v.Byte), '\n'}
		}
		setWeekends(t, content, false)
		for _, tod := range tods {
			now = at(v.Day, tod)
			b, e, err := counter.VCounterSpan()
			n++
			okGot := err == nil
			good := okGot == v.Ok
			if good && v.Ok {
				good = b.Equal(at(v.Begin, 0)) && e.Equal(at(v.End, 0)) && b.Location() == time.UTC && e.Location() == time.UTC
			}
			if !good {
				bad++
				if bad <= 20 {
					rt.Out(rt.M{"kind": "mismatch", "day": v.Day, "tod": tod, "byte": v.Byte, "want_ok": v.Ok, "want_begin": v.Begin, "want_end": v.End,
						"got_ok": okGot, "got_begin": b.Format(time.RFC3339), "got_end": e.Format(time.RFC3339), "err": fmt.Sprint(err)})
				}
			}
		}
	}
	rt.Out(rt.M{"kind": "summary", "evaluated": n, "mismatches": bad})

	// code -> model: random instants and contents, observed outputs logged.
	rng := rand.New(rand.NewSource(rt.Seed()))
	for i := 0; i < in.Random; i++ {
		day := int64(rng.Intn(24837)) // 1970 .. 2037
		switch rng.Intn(8) {
		case 0: // around month/year ends
			y := 1970 + rng.Intn(68)
			m := time.Month(1 + rng.Intn(12))
			day = dayOf(time.Date(y, m, 1, 0, 0, 0, 0, time.UTC)) - int64(rng.Intn(2))
		case 1:
			y := 1972 + 4*rng.Intn(16)
			day = dayOf(time.Date(y, 2, 28+rng.Intn(3), 0, 0, 0, 0, time.UTC))
		}
		tod := int64(rng.Intn(86400))
		var content []byte
		missing := false
		first := 0
		switch k := rng.Intn(10); {
		case k == 0:
			missing = true
		case k == 1:
			content = []byte([]string{"", " ", "\n", "\t \n"}[rng.Intn(4)])
		case k < 5:
			first = rng.Intn(256)
			if first == 0 || first == ' ' || first == '\n' || first == '\t' || first == '\r' || first == '\v' || first == '\f' || first == 0x85 || first == 0xa0 {
				first = 'x'
			}
			content = []byte{byte(first)}
			content = append([]byte(strings.Repeat(" ", rng.Intn(2))), content...)
			content = append(content, []byte([]string{"\n", "", "7\n", " \n"}[rng.Intn(4)])...)
		default:
			first = '0' + rng.Intn(7)
			content = []byte{byte(first), '\n'}
		}
		setWeekends(t, content, missing)
		now = at(day, tod)
		b, e, err := counter.VCounterSpan()
		rec := rt.M{"kind": "obs", "now": now.Unix(), "byte": first, "ok": err == nil, "begin": int64(-1), "end": int64(-1), "missing": missing}
		if missing {
			// the library picks a day itself and records it; read it back
			data, rerr := os.ReadFile(filepath.Join(telemetry.Default.LocalDir(), "weekends"))
			if rerr != nil || len(strings.TrimSpace(string(data))) == 0 {
				rec["byte"] = 0
			} else {
				rec["byte"] = int(strings.TrimSpace(string(data))[0])
			}
		}
		if err == nil {
			if b.Unix()%86400 != 0 || e.Unix()%86400 != 0 {
				rec["begin"], rec["end"] = int64(-2), int64(-2) // not at midnight UTC
			} else {
				rec["begin"], rec["end"] = dayOf(b), dayOf(e)
			}
		}
		rt.Out(rec)
	}

	// a clock that moves between two readings: midnight UTC passes while the span is computed.
	// Either day may count as "the current day", but begin and end must belong to one and the same day.
	for i := 0; i < in.Random/20+50; i++ {
		day := int64(rng.Intn(24836)) + 1
		w := rng.Intn(7)
		setWeekends(t, []byte{byte('0' + w), '\n'}, false)
		t1 := at(day, 0).Add(-time.Duration(1+rng.Intn(3)) * time.Millisecond)
		step := time.Duration(2+rng.Intn(5)) * time.Millisecond
		calls := 0
		counter.CounterTime = func() time.Time {
			calls++
			return t1.Add(time.Duration(calls-1) * step)
		}
		b, e, err := counter.VCounterSpan()
		last := t1.Add(time.Duration(calls-1) * step)
		rec := rt.M{"kind": "obs", "now": t1.Unix(), "now2": last.Unix(), "byte": int('0' + w), "ok": err == nil, "begin": int64(-1), "end": int64(-1), "missing": false, "ticking": true}
		if err == nil {
			if b.Unix()%86400 != 0 || e.Unix()%86400 != 0 {
				rec["begin"], rec["end"] = int64(-2), int64(-2)
			} else {
				rec["begin"], rec["end"] = dayOf(b), dayOf(e)
			}
		}
		rt.Out(rec)
	}
	counter.CounterTime = func() time.Time { return now }
}

// TestVerifC09Timer: the rotation timer.  A rotating file (file.rotate) whose timer fires a
// moment BEFORE the recorded end (the wall clock drifted) must still start the next span's
// file once the end has been reached.  Real timers with the library's one-minute minimum
// delay: slow, thorough tier only.
func TestVerifC09Timer(t *testing.T) {
	defer rt.Flush()
	var in struct {
		Enabled bool `json:"enabled"`
	}
	if err := rt.In(&in); err != nil || !in.Enabled {
		t.Skip("timer scenario disabled")
	}
	dir := t.TempDir()
	telemetry.Default = telemetry.NewDir(dir)
	setWeekends(t, []byte("4\n"), false) // Thursday
	end := time.Date(2024, 2, 29, 0, 0, 0, 0, time.UTC) // a Thursday
	var mu sync.Mutex
	now := end.Add(-12 * time.Hour) // the same UTC day as end-1ms: the early timer finds nothing to do
	counter.CounterTime = func() time.Time { mu.Lock(); defer mu.Unlock(); return now }
	set := func(x time.Time) { mu.Lock(); now = x; mu.Unlock() }
	var f counter.VFile
	c := f.New("c09")
	f.Rotate() // opens the 2024-02-28 file (ends 02-29) and arms the timer (one minute: the real clock is far past)
	c.Inc()
	first := filepath.Base(f.CurrentName())
	set(end.Add(-time.Millisecond)) // when the timer fires the mocked clock is just short of the end
	time.Sleep(65 * time.Second)
	stillOld := filepath.Base(f.CurrentName()) == first
	set(end.Add(time.Second)) // the end has been reached; the re-armed timer must rotate
	deadline := time.Now().Add(120 * time.Second)
	rotated := false
	for time.Now().Before(deadline) {
		if n := filepath.Base(f.CurrentName()); n != first && strings.Contains(n, "-2024-02-29.v1.count") {
			rotated = true
			break
		}
		time.Sleep(500 * time.Millisecond)
	}
	c.Inc()
	rt.Out(rt.M{"kind": "timer", "first": first, "still_old_before_end": stillOld, "rotated_after_end": rotated, "current": filepath.Base(f.CurrentName())})
	f.Close()
}

type step struct {
	Op      string           `json:"op"`
	W       int              `json:"w"` // the week-end setting after the step
	Day     int64            `json:"day"`
	Tod     int64            `json:"tod"`
	Cur     [2]int64         `json:"cur"`
	Disk    map[string]int64 `json:"disk"`    // "b,e" -> count
	Reports map[string]int64 `json:"reports"` // "week day" -> total
}

type behaviour struct {
	ID    int    `json:"id"`
	W     int    `json:"w"`
	Steps []step `json:"steps"`
}

func project(dir string) (disk, reports map[string]int64, problems []string) {
	disk, reports = map[string]int64{}, map[string]int64{}
	ents, _ := os.ReadDir(filepath.Join(dir, "local"))
	for _, e := range ents {
		name := e.Name()
		p := filepath.Join(dir, "local", name)
		switch {
		case strings.HasSuffix(name, ".v1.count"):
			data, err := os.ReadFile(p)
			if err != nil {
				problems = append(problems, err.Error())
				continue
			}
			f := rt.DecodeV1(data)
			if !f.WellFormed() {
				problems = append(problems, name+": "+strings.Join(f.Problems, "; "))
			}
			b, err1 := time.Parse(time.RFC3339, f.Meta["TimeBegin"])
			en, err2 := time.Parse(time.RFC3339, f.Meta["TimeEnd"])
			if err1 != nil || err2 != nil || b.Unix()%86400 != 0 || en.Unix()%86400 != 0 {
				problems = append(problems, name+": bad span metadata "+f.Meta["TimeBegin"]+" "+f.Meta["TimeEnd"])
				continue
			}
			if !strings.Contains(name, "-"+b.Format("2006-01-02")+".v1.count") {
				problems = append(problems, name+": name does not carry the begin date "+b.Format("2006-01-02"))
			}
			disk[fmt.Sprintf("%d,%d", dayOf(b), dayOf(en))] += int64(f.Counts()["c09"])
		case strings.HasPrefix(name, "local.") && strings.HasSuffix(name, ".json"):
			data, _ := os.ReadFile(p)
			var r telemetry.Report
			if err := json.Unmarshal(data, &r); err != nil {
				problems = append(problems, name+": "+err.Error())
				continue
			}
			wk, err := time.Parse("2006-01-02", r.Week)
			if err != nil || "local."+r.Week+".json" != name {
				problems = append(problems, name+": week "+r.Week)
				continue
			}
			var tot int64
			for _, p := range r.Programs {
				tot += p.Counters["c09"]
			}
			reports[fmt.Sprint(dayOf(wk))] += tot
		}
	}
	return
}

func eqMap(a, b map[string]int64) bool {
	if len(a) != len(b) {
		return false
	}
	for k, v := range a {
		if w, ok := b[k]; !ok || w != v {
			return false
		}
	}
	return true
}

func show(m map[string]int64) string {
	var ks []string
	for k, v := range m {
		ks = append(ks, fmt.Sprintf("%s:%d", k, v))
	}
	sort.Strings(ks)
	return strings.Join(ks, " ")
}

// TestVerifC09Rot replays behaviours of CalendarRot.tla (advance / rotate /
// inc / upload) into a private counter file and the real uploader, comparing
// the projection of the telemetry directory with the model after every step.
func TestVerifC09Rot(t *testing.T) {
	defer rt.Flush()
	var in struct {
		Behaviours []behaviour `json:"behaviours"`
	}
	if err := rt.In(&in); err != nil {
		t.Skip(err)
	}
	var now time.Time
	counter.CounterTime = func() time.Time { return now }
	okB, steps := 0, 0
	for _, bh := range in.Behaviours {
		dir := t.TempDir()
		telemetry.Default = telemetry.NewDir(dir)
		setWeekends(t, []byte(fmt.Sprintf("%d\n", bh.W)), false)
		var f counter.VFile
		c := f.New("c09")
		good := true
		var lastRotate time.Time
		diverged := false // the code left the model in a way the property does not forbid: only property clauses are judged from then on
		for i, st := range bh.Steps {
			now = at(st.Day, st.Tod)
			switch st.Op {
			case "init", "advance":
			case "setw":
				setWeekends(t, []byte(fmt.Sprintf("%d\n", st.W)), false)
			case "rotate":
				expiry := f.Rotate1()
				lastRotate = now
				// the property's own clause: the instant the process will rotate at (what rotate1 returns and
				// rotate arms its timer for) is the end RECORDED in the file it now writes to
				if name := f.CurrentName(); name != "" {
					if data, err := os.ReadFile(name); err == nil {
						if rec, err := time.Parse(time.RFC3339, rt.DecodeV1(data).Meta["TimeEnd"]); err == nil && !rec.Equal(expiry) {
							rt.Out(rt.M{"kind": "mismatch", "what": "the process will rotate at another instant than the end recorded in the file it writes to", "id": bh.ID,
								"step": i, "op": "rotate", "rotates_at": expiry.Format(time.RFC3339), "recorded_end": rec.Format(time.RFC3339), "file": filepath.Base(name)})
							good = false
						}
					}
				}
				// the model says when the open is refused for good (today's file exists with another end recorded)
				wantFail := st.Cur[0] == -2
				if err := f.Err(); (err != nil) != wantFail && !diverged {
					if wantFail {
						// the code did not refuse: that alone is not what the property forbids (it could have
						// adopted the recorded end); from here on only the property's own clause is judged
						rt.Out(rt.M{"kind": "divergence", "what": "rotate accepted a file of today's name with another recorded end", "id": bh.ID, "step": i})
						diverged = true
					} else {
						rt.Out(rt.M{"kind": "mismatch", "what": "rotate failed", "id": bh.ID, "step": i, "op": "rotate", "err": fmt.Sprint(err)})
						good = false
					}
				}
			case "inc":
				before, _, _ := project(dir)
				c.Inc()
				after, _, _ := project(dir)
				// the property's own clause: after a rotation made when a file's recorded end had been reached, no increment lands in that file
				for k, v := range after {
					var b, e int64
					fmt.Sscanf(k, "%d,%d", &b, &e)
					if v > before[k] && !lastRotate.Before(at(e, 0)) {
						rt.Out(rt.M{"kind": "mismatch", "what": "increment landed in a file whose recorded end had been reached at the last rotation", "id": bh.ID, "step": i, "op": "inc",
							"file": k, "day": st.Day, "tod": st.Tod})
						good = false
					}
				}
			case "upload":
				// the start instant is the same whatever time zone it is expressed in
				zones := []*time.Location{time.UTC, time.FixedZone("west", -8*3600), time.FixedZone("east", 14*3600), time.FixedZone("half", 5*3600+1800)}
				start := now.In(zones[(bh.ID+i)%len(zones)])
				if err := upload.Run(upload.RunConfig{TelemetryDir: dir, StartTime: start}); err != nil {
					rt.Out(rt.M{"kind": "mismatch", "what": "upload.Run error", "id": bh.ID, "step": i, "err": err.Error()})
					good = false
				}
			}
			steps++
			disk, reports, problems := project(dir)
			if diverged {
				if !good {
					break
				}
				continue
			}
			if len(problems) > 0 || !eqMap(disk, st.Disk) || !eqMap(reports, st.Reports) {
				good = false
				rt.Out(rt.M{"kind": "mismatch", "what": "projection", "id": bh.ID, "step": i, "op": st.Op, "w": bh.W, "day": st.Day, "tod": st.Tod,
					"want_disk": show(st.Disk), "got_disk": show(disk), "want_reports": show(st.Reports), "got_reports": show(reports), "problems": problems})
			}
			if st.Op == "rotate" && good {
				want := ""
				if st.Cur[0] >= 0 {
					want = "-" + at(st.Cur[0], 0).Format("2006-01-02") + ".v1.count"
				}
				if !strings.HasSuffix(f.CurrentName(), want) {
					good = false
					rt.Out(rt.M{"kind": "mismatch", "what": "current file", "id": bh.ID, "step": i, "want_suffix": want, "got": filepath.Base(f.CurrentName())})
				}
			}
			if !good {
				break
			}
		}
		f.Close()
		if good {
			okB++
		}
	}
	// a clock that moves between two readings while a file is opened: midnight UTC passes inside one
	// rotation.  Either day may count as the current one, but the file's name must carry the begin date
	// the file records, and the process must rotate at the end it records.
	ticking := 0
	for k := 0; k < 40; k++ {
		dir := t.TempDir()
		telemetry.Default = telemetry.NewDir(dir)
		setWeekends(t, []byte(fmt.Sprintf("%d\n", k%7)), false)
		t1 := at(int64(19000+k*37), 0).Add(-time.Duration(1+k%3) * time.Millisecond)
		step := time.Duration(2+k%4) * time.Millisecond
		calls := 0
		counter.CounterTime = func() time.Time {
			calls++
			return t1.Add(time.Duration(calls-1) * step)
		}
		var f counter.VFile
		f.New("c09")
		expiry := f.Rotate1()
		if name := f.CurrentName(); name != "" && f.Err() == nil {
			if data, err := os.ReadFile(name); err == nil {
				meta := rt.DecodeV1(data).Meta
				if b, err := time.Parse(time.RFC3339, meta["TimeBegin"]); err == nil {
					ticking++
					if want := "-" + b.UTC().Format("2006-01-02") + ".v1.count"; !strings.HasSuffix(name, want) {
						rt.Out(rt.M{"kind": "mismatch", "what": "the file's name does not carry the begin date it records (the clock passed midnight during the open)", "id": -1 - k,
							"step": 0, "op": "rotate", "recorded_begin": meta["TimeBegin"], "file": filepath.Base(name)})
					}
				}
				if rec, err := time.Parse(time.RFC3339, meta["TimeEnd"]); err == nil && !rec.Equal(expiry) {
					rt.Out(rt.M{"kind": "mismatch", "what": "the process will rotate at another instant than the end recorded in the file it writes to", "id": -1 - k,
						"step": 0, "op": "rotate", "rotates_at": expiry.Format(time.RFC3339), "recorded_end": rec.Format(time.RFC3339), "file": filepath.Base(name)})
				}
			}
		}
		f.Close()
	}
	counter.CounterTime = func() time.Time { return now }
	rt.Out(rt.M{"kind": "summary", "behaviours": len(in.Behaviours), "matched": okB, "steps": steps, "ticking": ticking})
}

// defaultCounterTime is the library's own clock, captured before any test replaces it.
var defaultCounterTime = counter.CounterTime

// TestVerifC09RealClock: the span computed with the library's OWN clock (not a mocked one) in a process
// whose local time zone is far from UTC, at a moment when the local calendar date differs from the UTC date.
func TestVerifC09RealClock(t *testing.T) {
	defer rt.Flush()
	saved := time.Local
	defer func() { time.Local = saved; counter.CounterTime = func() time.Time { return time.Now().UTC() } }()
	for i := 0; i < 14; i++ {
		t1 := time.Now().UTC()
		// a zone whose calendar date differs from the UTC date right now
		off := 13
		if t1.Hour() < 12 {
			off = -13
		}
		time.Local = time.FixedZone("verif", off*3600)
		counter.CounterTime = defaultCounterTime
		dir := t.TempDir()
		telemetry.Default = telemetry.NewDir(dir)
		w := i % 7
		setWeekends(t, []byte{byte('0' + w), '\n'}, false)
		b, e, err := counter.VCounterSpan()
		t2 := time.Now().UTC()
		rec := rt.M{"kind": "obs", "now": t1.Unix(), "now2": t2.Unix(), "byte": int('0' + w), "ok": err == nil, "begin": int64(-1), "end": int64(-1), "missing": false, "realclock": true, "zone": off}
		if err == nil {
			if b.Unix()%86400 != 0 || e.Unix()%86400 != 0 {
				rec["begin"], rec["end"] = int64(-2), int64(-2)
			} else {
				rec["begin"], rec["end"] = dayOf(b), dayOf(e)
			}
		}
		rt.Out(rec)
	}
}

type uplVec struct {
	ID    int   `json:"id"`
	Base  int64 `json:"base"`
	E1    int64 `json:"e1"`
	E2    int64 `json:"e2"`
	V1    int64 `json:"v1"`
	V2    int64 `json:"v2"`
	Start int64 `json:"start"`
}

// TestVerifC09Upl replays the vectors of CalendarUpl.tla: two programs' count files that begin on the same
// day (same date in the name) with different recorded ends; one uploader run; in both name orders.
func TestVerifC09Upl(t *testing.T) {
	defer rt.Flush()
	var in struct {
		Vectors []uplVec `json:"vectors"`
	}
	if err := rt.In(&in); err != nil {
		t.Skip(err)
	}
	for _, v := range in.Vectors {
		for order := 0; order < 2; order++ {
			dir := t.TempDir()
			os.MkdirAll(filepath.Join(dir, "local"), 0777)
			os.WriteFile(filepath.Join(dir, "mode"), []byte("local 2020-01-01"), 0666)
			names := [2]string{"alpha", "beta"}
			if order == 1 {
				names = [2]string{"zeta", "beta"} // the first program's file sorts after the second's
			}
			begin := at(v.Base, 0)
			for k, prog := range names {
				e, val := v.E1, v.V1
				if k == 1 {
					e, val = v.E2, v.V2
				}
				meta := rt.V1Meta(begin.Format(time.RFC3339), at(v.Base+e, 0).Format(time.RFC3339), "example.com/"+prog, "v1.0.0", "go1.21.0", "linux", "amd64")
				data, err := rt.WriteV1(meta, []rt.V1Entry{{Name: "c09", Value: uint64(val)}})
				if err != nil {
					t.Fatal(err)
				}
				os.WriteFile(filepath.Join(dir, "local", fmt.Sprintf("%s@v1.0.0-go1.21.0-linux-amd64-%s.v1.count", prog, begin.Format("2006-01-02"))), data, 0666)
			}
			start := time.Unix(v.Base*86400+v.Start, 0).UTC()
			err := upload.Run(upload.RunConfig{TelemetryDir: dir, StartTime: start})
			disk, reports, problems := project(dir)
			rt.Out(rt.M{"kind": "upl", "id": v.ID, "order": order, "disk": disk, "reports": reports, "problems": problems, "err": fmt.Sprint(err)})
		}
	}
}
