//go:build verif

// Package c06 binds FileFormatParse.tla / FileFormatParseTrace.tla (property
// C06: reading a counter file is total and faithful) to the real
// counter.Parse.
package c06

import (
	"bytes"
	"encoding/binary"
	"encoding/hex"
	"fmt"
	"math/rand"
	"os"
	"path/filepath"
	"runtime/debug"
	"sort"
	"strings"
	"testing"
	"time"

	"golang.org/x/telemetry/internal/counter"
	rt "golang.org/x/telemetry/internal/verifrt"
)

const (
	page        = 16384
	hangTimeout = 2 * time.Second
	maxHangs    = 3 // leaked goroutines tolerated in one test process
	maxRecs     = 256
	maxMetaLn   = 64
	huge        = 1<<30 + 31
)

var le = binary.LittleEndian

// layoutProblems returns the problems the independent decoder finds, without
// the two that only say "the allocation limit is not a multiple of 32": the
// layout documents the limit as the byte offset of the end of the counter
// records, and a writer may store the exact, unrounded end of its last record
// (rt.DecodeV1 compares with the rounded end).
func layoutProblems(f *rt.V1File) []string {
	first := f.HdrLen + 4 + 4*512
	var out []string
	for _, p := range f.Problems {
		if strings.HasPrefix(p, "limit ") && strings.HasSuffix(p, " malformed") && f.Limit >= first {
			continue
		}
		if strings.HasPrefix(p, "record ") && strings.Contains(p, " above limit ") && f.Limit != 0 {
			var off uint32
			if _, err := fmt.Sscanf(p, "record 0x%x", &off); err == nil {
				spurious := false
				for _, r := range f.Records {
					if r.Off == off && r.Off+16+uint32(len(r.Name)) <= f.Limit {
						spurious = true
					}
				}
				if spurious {
					continue
				}
			}
		}
		out = append(out, p)
	}
	return out
}

// ------------------------------------------------------------ guarded call

type outcome struct {
	Kind  string // ok | err | panic | hang
	File  *counter.File
	Err   string
	Panic string
}

var hangs int

// parseGuarded runs the exported decoder in its own goroutine: a panic is
// recovered and reported, a call that does not return within hangTimeout is
// reported as a hang (its goroutine leaks).
func parseGuarded(data []byte) outcome {
	ch := make(chan outcome, 1)
	go func() {
		defer func() {
			if r := recover(); r != nil {
				ch <- outcome{Kind: "panic", Panic: fmt.Sprint(r)}
			}
		}()
		debug.SetPanicOnFault(true)
		f, err := counter.Parse("c06.v1.count", data)
		if err != nil {
			ch <- outcome{Kind: "err", Err: err.Error()}
			return
		}
		if f == nil || f.Meta == nil || f.Count == nil {
			ch <- outcome{Kind: "panic", Panic: "nil result without error"}
			return
		}
		ch <- outcome{Kind: "ok", File: f}
	}()
	select {
	case o := <-ch:
		return o
	case <-time.After(hangTimeout):
		hangs++
		return outcome{Kind: "hang"}
	}
}

// ------------------------------------------------------------- abstraction

type aline struct {
	P int `json:"p"`
	F int `json:"f"`
}
type aname struct {
	ID       int     `json:"id"`
	Pre      int     `json:"pre"`
	PreDitto bool    `json:"preDitto"`
	Lines    []aline `json:"lines"`
}
type ameta struct {
	K   int  `json:"k"`
	V   int  `json:"v"`
	Sep bool `json:"sep"`
}
type ahead struct {
	B   int `json:"b"`
	Off int `json:"off"`
}
type arec struct {
	Off    int   `json:"off"`
	NLen   int   `json:"nlen"`
	Next   int   `json:"next"`
	OK     bool  `json:"ok"`
	Name   aname `json:"name"`
	Val    int   `json:"val"`
	Bucket int   `json:"bucket"`
}
type afile struct {
	Size    int     `json:"size"`
	Prefix  bool    `json:"prefix"`
	HdrLen  int     `json:"hdrLen"`
	MetaLen int     `json:"metaLen"`
	Meta    []ameta `json:"meta"`
	Limit   int     `json:"limit"`
	Heads   []ahead `json:"heads"`
	Recs    []arec  `json:"recs"`
	Big     bool    `json:"big"`
	DV1     bool    `json:"dv1"`
}
type acount struct {
	Name aname `json:"name"`
	Val  int   `json:"val"`
}
type aout struct {
	Kind   string   `json:"kind"`
	Meta   []ameta  `json:"meta"`
	Counts []acount `json:"counts"`
}

// interner maps texts and values to small identifiers (>= 1), per input.
type interner struct {
	s map[string]int
	v map[uint64]int
}

func newInterner() *interner { return &interner{s: map[string]int{}, v: map[uint64]int{}} }
func (in *interner) str(s string) int {
	if id, ok := in.s[s]; ok {
		return id
	}
	in.s[s] = len(in.s) + 1
	return len(in.s)
}
func (in *interner) val(v uint64) int {
	if id, ok := in.v[v]; ok {
		return id
	}
	in.v[v] = len(in.v) + 1
	return len(in.v)
}

func clamp(x uint32) int {
	if x > 1<<30 {
		return 1<<30 + int(x&31)
	}
	return int(x)
}

const (
	pDitto = 0
	pNoDot = -1
	pEmpty = -2
)

// absName splits a counter name syntactically: text before the first
// newline, then per line the part before the last dot and the rest.
func absName(in *interner, s string) aname {
	n := aname{ID: in.str("\x00whole\x00" + s), Lines: []aline{}}
	parts := strings.Split(s, "\n")
	n.Pre = in.str(parts[0])
	if i := strings.LastIndex(parts[0], "."); i == 1 && parts[0][0] == '"' && len(parts) > 1 {
		n.PreDitto = true
	}
	for _, ln := range parts[1:] {
		i := strings.LastIndex(ln, ".")
		switch {
		case i < 0:
			n.Lines = append(n.Lines, aline{pNoDot, in.str(ln)})
		case i == 0:
			n.Lines = append(n.Lines, aline{pEmpty, in.str(ln[1:])})
		case i == 1 && ln[0] == '"':
			n.Lines = append(n.Lines, aline{pDitto, in.str(ln[2:])})
		default:
			n.Lines = append(n.Lines, aline{in.str(ln[:i]), in.str(ln[i+1:])})
		}
	}
	return n
}

// abstractFile is an independent walk of the bytes that records facts only;
// what they mean is decided by FileFormat.tla.
func abstractFile(in *interner, data []byte) afile {
	f := afile{Size: len(data), Meta: []ameta{}, Heads: []ahead{}, Recs: []arec{}}
	f.Prefix = len(data) >= len(rt.V1Prefix) && string(data[:len(rt.V1Prefix)]) == rt.V1Prefix
	f.DV1 = len(layoutProblems(rt.DecodeV1(data))) == 0
	if len(data) < 32 {
		return f
	}
	h := le.Uint32(data[28:])
	f.HdrLen = clamp(h)
	if h < 32 || int64(h) > int64(len(data)) {
		return f
	}
	meta := data[32:h]
	if i := bytes.IndexByte(meta, 0); i >= 0 {
		meta = meta[:i]
	}
	f.MetaLen = len(meta)
	for _, ln := range strings.Split(string(meta), "\n") {
		if ln == "" {
			continue
		}
		if len(f.Meta) >= maxMetaLn {
			f.Big = true
			break
		}
		if i := strings.Index(ln, ": "); i >= 0 {
			f.Meta = append(f.Meta, ameta{in.str(ln[:i]), in.str(ln[i+2:]), true})
		} else {
			f.Meta = append(f.Meta, ameta{in.str(ln), in.str(""), false})
		}
	}
	if int64(h)+4 > int64(len(data)) {
		return f
	}
	f.Limit = clamp(le.Uint32(data[h:]))
	tab := int64(h) + 4
	seen := map[uint32]bool{}
	for b := 0; b < 512; b++ {
		if tab+int64(4*b)+4 > int64(len(data)) {
			break
		}
		off := le.Uint32(data[tab+int64(4*b):])
		if off == 0 {
			continue
		}
		f.Heads = append(f.Heads, ahead{b, clamp(off)})
		for off != 0 && !seen[off] {
			if int64(off)+16 > int64(len(data)) {
				break
			}
			if len(f.Recs) >= maxRecs {
				f.Big = true
				break
			}
			seen[off] = true
			w := le.Uint32(data[off+8:])
			n := w & 0x00ffffff
			r := arec{Off: int(off), NLen: int(n), Next: clamp(le.Uint32(data[off+12:])), Val: in.val(le.Uint64(data[off:])),
				Bucket: -1, Name: aname{Lines: []aline{}}}
			if n == 0 || int64(off)+16+int64(n) > int64(len(data)) {
				f.Recs = append(f.Recs, r)
				break
			}
			name := string(data[off+16 : off+16+n])
			r.OK = true
			r.Bucket = int(rt.V1Hash(name))
			r.Name = absName(in, name)
			f.Recs = append(f.Recs, r)
			off = le.Uint32(data[off+12:])
		}
	}
	return f
}

func abstractOut(in *interner, o outcome) aout {
	a := aout{Kind: o.Kind, Meta: []ameta{}, Counts: []acount{}}
	if o.Kind != "ok" {
		return a
	}
	var ks []string
	for k := range o.File.Meta {
		ks = append(ks, k)
	}
	sort.Strings(ks)
	for _, k := range ks {
		a.Meta = append(a.Meta, ameta{in.str(k), in.str(o.File.Meta[k]), true})
	}
	ks = ks[:0]
	for k := range o.File.Count {
		ks = append(ks, k)
	}
	sort.Strings(ks)
	for _, k := range ks {
		if len(a.Counts) >= maxRecs+8 {
			break
		}
		a.Counts = append(a.Counts, acount{absName(in, k), in.val(o.File.Count[k])})
	}
	return a
}

func obsRecord(idx int, src string, data []byte, o outcome) rt.M {
	in := newInterner()
	f := abstractFile(in, data)
	return rt.M{"kind": "obs", "i": idx, "src": src, "f": f, "out": abstractOut(in, o)}
}

func detail(o outcome) string {
	switch o.Kind {
	case "err":
		return o.Err
	case "panic":
		return o.Panic
	}
	return ""
}

// ------------------------------------------------------------------ names

type nline struct {
	Kind string `json:"kind"` // exp | ditto | nodot | empty
	P    string `json:"p"`
	F    string `json:"f"`
}
type nameSpec struct {
	N     int     `json:"n"`
	Pre   string  `json:"pre"`
	Lines []nline `json:"lines"`
	NLen  int     `json:"nlen"`  // 0: natural length
	Pad   int     `json:"pad"`   // index of the line whose f takes the filler (-1: pre)
	Group int     `json:"group"` // names of a group share a bucket (when they can be steered)
	Want  int     `json:"want"`  // bucket wanted for the group (-1: whatever its first name gets)
}

func render(pre string, lines []nline) string {
	var sb strings.Builder
	sb.WriteString(pre)
	for _, l := range lines {
		sb.WriteByte('\n')
		switch l.Kind {
		case "exp":
			sb.WriteString(l.P + "." + l.F)
		case "ditto":
			sb.WriteString("\"." + l.F)
		case "empty":
			sb.WriteString("." + l.F)
		default:
			sb.WriteString(l.F)
		}
	}
	return sb.String()
}

func filler(rng *rand.Rand, n int) string {
	const alpha = "abcdefghijklmnopqrstuvwxyzABCDEFGHIJKLMNOPQRSTUVWXYZ0123456789:+,=/-_ \x00\x01\x7f\x80\xfe\xff"
	b := make([]byte, n)
	for i := range b {
		b[i] = alpha[rng.Intn(len(alpha))]
	}
	return string(b)
}

// TestVerifC06Names makes the concrete names of the catalogue: pads them to
// the requested byte length and steers the names of a group into one bucket.
func TestVerifC06Names(t *testing.T) {
	defer rt.Flush()
	var in struct {
		Names []nameSpec `json:"names"`
	}
	if err := rt.In(&in); err != nil {
		t.Skip(err)
	}
	rng := rand.New(rand.NewSource(rt.Seed()*31337 + 5))
	bucket := map[int]int{}
	for _, sp := range in.Names { // the first name of a group fixes the group's bucket

		want, steer := bucket[sp.Group]
		if !steer && sp.Want >= 0 {
			want, steer = sp.Want, true
		}
		var pre string
		var lines []nline
		natural := len(render(sp.Pre, sp.Lines))
		room := 0
		if sp.NLen > 0 {
			room = sp.NLen - natural
		} else if natural > 1 {
			room = 4 // a little filler so that the bucket can be chosen
		}
		if room < 0 {
			t.Fatalf("name %d: natural length %d exceeds %d", sp.N, natural, sp.NLen)
		}
		for try := 0; ; try++ {
			pre, lines = sp.Pre, append([]nline(nil), sp.Lines...)
			fl := filler(rng, room)
			if sp.Pad < 0 {
				pre += fl
			} else {
				lines[sp.Pad].F += fl
			}
			if !steer || room < 2 || int(rt.V1Hash(render(pre, lines))) == want || try > 200000 {
				break
			}
		}
		s := render(pre, lines)
		h := int(rt.V1Hash(s))
		if _, ok := bucket[sp.Group]; !ok {
			bucket[sp.Group] = h
		}
		rt.Out(rt.M{"kind": "name", "n": sp.N, "nlen": len(s), "b": h, "hex": hex.EncodeToString([]byte(s)), "pre": hex.EncodeToString([]byte(pre)),
			"lines": func() []rt.M {
				out := []rt.M{}
				for _, l := range lines {
					out = append(out, rt.M{"kind": l.Kind, "p": hex.EncodeToString([]byte(l.P)), "f": hex.EncodeToString([]byte(l.F))})
				}
				return out
			}()})
	}
}

// ---------------------------------------------------------------- vectors

type vrec struct {
	Off    int  `json:"off"`
	NLen   int  `json:"nlen"`
	Next   int  `json:"next"`
	OK     bool `json:"ok"`
	N      int  `json:"n"`
	Val    int  `json:"val"`
	Bucket int  `json:"bucket"`
}
type vfile struct {
	Fam    string  `json:"fam"`
	Mi     int     `json:"mi"`
	H0     int     `json:"h0"`
	Size   int     `json:"size"`
	Prefix bool    `json:"prefix"`
	HdrLen int     `json:"hdrLen"`
	Limit  int     `json:"limit"`
	Heads  []ahead `json:"heads"`
	Recs   []vrec  `json:"recs"`
}
type vector struct {
	Vec    vfile    `json:"vec"`
	Cls    string   `json:"cls"`
	Kind   string   `json:"kind"`   // expected: ok | any
	Meta   int      `json:"meta"`   // index into meta_sets
	Counts [][2]int `json:"counts"` // [catalogue index, value token]
}

var valTok = []uint64{0, 1, 1<<64 - 1, 1 << 32, 12345678901234567}

func put32(data []byte, off int, v int) {
	if off >= 0 && off+4 <= len(data) {
		x := uint32(v)
		if v >= 1<<30 {
			x = 0xffffffe0 | uint32(v&31)
		}
		le.PutUint32(data[off:], x)
	}
}

// concretize writes the bytes of a vector: the layout is the vector's, the
// bytes of names and metadata come from the catalogues.
func concretize(v vfile, names [][]byte, metas [][]byte, variant int) []byte {
	size := v.Size
	full := size
	if full < page {
		full = page
	}
	for _, r := range v.Recs {
		if end := r.Off + 16 + len(names[r.N-1]); r.Off < 1<<20 && end > full {
			full = (end + page - 1) / page * page
		}
	}
	data := make([]byte, full)
	copy(data, rt.V1Prefix)
	if !v.Prefix {
		switch variant % 3 {
		case 0:
			data[0] ^= 0x01
		case 1:
			data[25] = '2' // "v2"
		default:
			data[27] = ' '
		}
	}
	copy(data[32:], metas[v.Mi-1])
	put32(data, v.H0, v.Limit)
	for _, h := range v.Heads {
		put32(data, v.H0+4+4*h.B, h.Off)
	}
	for _, r := range v.Recs {
		if r.Off < 0 || r.Off+16 > len(data) {
			continue
		}
		le.PutUint64(data[r.Off:], valTok[r.Val])
		// the top byte of the length word is not part of the length: the library writes 0xff, readers mask it
		flag := []uint32{0xff000000, 0xff000000, 0xff000000, 0, 0xff000000, 0x80000000, 0x01000000}[variant%7]
		le.PutUint32(data[r.Off+8:], uint32(r.NLen&0x00ffffff)|flag)
		put32(data, r.Off+12, r.Next)
		copy(data[r.Off+16:], names[r.N-1])
	}
	put32(data, 28, v.HdrLen) // last: damage to the field wins over anything laid out there
	if size < len(data) {
		data = data[:size]
	}
	for len(data) < size {
		data = append(data, make([]byte, size-len(data))...)
	}
	return data
}

func eqMaps(got map[string]uint64, want map[string]uint64) string {
	for k, v := range want {
		g, ok := got[k]
		if !ok {
			return fmt.Sprintf("missing counter %.60q", k)
		}
		if g != v {
			return fmt.Sprintf("counter %.60q = %d, want %d", k, g, v)
		}
	}
	for k := range got {
		if _, ok := want[k]; !ok {
			return fmt.Sprintf("unexpected counter %.60q", k)
		}
	}
	return ""
}

func eqMeta(got, want map[string]string) string {
	for k, v := range want {
		if g, ok := got[k]; !ok || g != v {
			return fmt.Sprintf("meta %.40q = %.40q (present %v), want %.40q", k, g, ok, v)
		}
	}
	for k := range got {
		if _, ok := want[k]; !ok {
			return fmt.Sprintf("unexpected meta key %.40q", k)
		}
	}
	return ""
}

type vecInput struct {
	Names    []string      `json:"names"`     // hex, catalogue order
	Decoded  []string      `json:"decoded"`   // hex of the expanded name, catalogue order
	Metas    []string      `json:"metas"`     // hex, catalogue order
	MetaSets [][][2]string `json:"meta_sets"` // expected key/value pairs (hex)
	Vectors  []vector      `json:"vectors"`
	Start    int           `json:"start"`
	ObsEvery int           `json:"obs_every"`
	ViaFile  int           `json:"via_file"` // every k-th well-formed vector also goes through ReadFile
}

func unhex(t *testing.T, s string) []byte {
	b, err := hex.DecodeString(s)
	if err != nil {
		t.Fatal(err)
	}
	return b
}

// TestVerifC06Vec concretizes every abstract file TLC enumerated, feeds it to
// the real decoder and compares with the expectation the specification gave.
func TestVerifC06Vec(t *testing.T) {
	defer rt.Flush()
	var in vecInput
	if err := rt.In(&in); err != nil {
		t.Skip(err)
	}
	var names, metas [][]byte
	var decoded []string
	for _, s := range in.Names {
		names = append(names, unhex(t, s))
	}
	for _, s := range in.Decoded {
		decoded = append(decoded, string(unhex(t, s)))
	}
	for _, s := range in.Metas {
		metas = append(metas, unhex(t, s))
	}
	var metaSets []map[string]string
	for _, ms := range in.MetaSets {
		m := map[string]string{}
		for _, kv := range ms {
			m[string(unhex(t, kv[0]))] = string(unhex(t, kv[1]))
		}
		metaSets = append(metaSets, m)
	}
	dir := t.TempDir()
	evaluated, nbad := 0, 0
	classes := map[string]int{}
	outcomes := map[string]int{}
	next := len(in.Vectors)
	for i := in.Start; i < len(in.Vectors); i++ {
		if hangs >= maxHangs {
			next = i
			break
		}
		v := in.Vectors[i]
		data := concretize(v.Vec, names, metas, i)
		o := parseGuarded(data)
		evaluated++
		classes[v.Cls]++
		outcomes[v.Cls+"/"+o.Kind]++
		report := func(what, msg string) {
			nbad++
			if nbad <= 40 {
				rt.Out(rt.M{"kind": "mismatch", "i": i, "what": what, "cls": v.Cls, "outcome": o.Kind, "detail": detail(o), "msg": msg, "vec": v.Vec,
					"hex_head": hex.EncodeToString(data[:min(len(data), 64)])})
			}
		}
		switch {
		case o.Kind == "panic" || o.Kind == "hang":
			report(o.Kind, "")
		case v.Kind == "ok":
			// self-check of the concretization: the independent decoder must agree that the bytes are well-formed
			dv := rt.DecodeV1(data)
			if pr := layoutProblems(dv); len(pr) > 0 {
				rt.Out(rt.M{"kind": "infra", "i": i, "what": "independent decoder rejects a vector the specification calls well-formed", "problems": pr, "vec": v.Vec})
				continue
			}
			want := map[string]uint64{}
			for _, c := range v.Counts {
				want[decoded[c[0]-1]] = valTok[c[1]]
			}
			if o.Kind != "ok" {
				report("wellformed-rejected", o.Err)
			} else if msg := eqMeta(o.File.Meta, metaSets[v.Meta]); msg != "" {
				report("unfaithful-meta", msg)
			} else if msg := eqMaps(o.File.Count, want); msg != "" {
				report("unfaithful-counts", msg)
			} else if in.ViaFile > 0 && i%in.ViaFile == 0 {
				// the same file through the mmap-based reader
				p := filepath.Join(dir, "v.v1.count")
				if err := os.WriteFile(p, data, 0666); err != nil {
					t.Fatal(err)
				}
				cs, ss, err := counter.ReadFile(p)
				if err != nil {
					report("readfile-rejected", err.Error())
				} else {
					got := map[string]uint64{}
					for k, x := range cs {
						got[k] = x
					}
					for k, x := range ss {
						got[k] = x
					}
					if msg := eqMaps(got, want); msg != "" || len(got) != len(cs)+len(ss) {
						report("readfile-unfaithful", msg)
					}
				}
			}
		}
		if in.ObsEvery > 0 && (i%in.ObsEvery == 0 || o.Kind == "panic" || o.Kind == "hang") {
			rt.Out(obsRecord(i, "vec:"+v.Cls, data, o))
		}
	}
	rt.Out(rt.M{"kind": "summary", "evaluated": evaluated, "mismatches": nbad, "next": next, "classes": classes, "outcomes": outcomes})
}

// --------------------------------------------------- random / mutated inputs

func randPlain(rng *rand.Rand) string {
	n := 1 + rng.Intn(40)
	switch rng.Intn(12) {
	case 0:
		n = 1
	case 1:
		n = 4096 - rng.Intn(3)
	case 2:
		n = 100 + rng.Intn(1000)
	case 3: // 16+n a multiple of 32: the record has no padding, the next one (or the limit) follows immediately
		n = []int{16, 48, 80, 4080}[rng.Intn(4)]
	}
	b := make([]byte, n)
	for i := range b {
		switch rng.Intn(8) {
		case 0:
			b[i] = byte(rng.Intn(256))
		case 1:
			b[i] = "./\":- "[rng.Intn(6)]
		default:
			b[i] = byte('a' + rng.Intn(26))
		}
		if b[i] == '\n' {
			b[i] = '_'
		}
	}
	return string(b)
}

var pathPool = []string{"golang.org/x/tools/gopls/internal/server", "main", "runtime", "example.com/a.b/c", "net/http", "x", "\xff\xfe/p",
	"net/http.(*Server)", "main.g[...]", "example.com/a.b/c.d.func1", "caf\xc3\xa9/\xe2\x82\xac"}

// randStack makes a stack-counter name the way the documentation describes
// (import path replaced by a ditto when it repeats), and sometimes shapes the
// writer never produces.
func randStack(rng *rand.Rand) string {
	pre := []string{"crash/crash", "gopls/bug", "s", "a.b", "c\x00d"}[rng.Intn(5)]
	n := 1 + rng.Intn(6)
	if rng.Intn(10) == 0 {
		n = 16
	}
	odd := rng.Intn(6) == 0
	var lines []string
	last := ""
	for i := 0; i < n; i++ {
		p := pathPool[rng.Intn(len(pathPool))]
		if rng.Intn(2) == 0 && last != "" {
			p = last
		}
		fn := fmt.Sprintf("%s:%+d,+0x%x", []string{"f", "(*T).m", "g[...]", "init.0", "h.func1"}[rng.Intn(5)], rng.Intn(40)-2, rng.Intn(4096))
		switch {
		case odd && rng.Intn(4) == 0:
			lines = append(lines, []string{"\"." + fn, "truncated", "", "." + fn, "nodot"}[rng.Intn(5)])
			continue
		case p == last:
			lines = append(lines, "\"."+fn)
		default:
			lines = append(lines, p+"."+fn)
		}
		last = p
	}
	s := pre + "\n" + strings.Join(lines, "\n")
	if rng.Intn(12) == 0 { // a long one, cut the way the writer documents it
		for len(s) < 4200 {
			s += "\n" + pathPool[rng.Intn(len(pathPool))] + ".pad:+1,+0x1"
		}
		const bad = "\ntruncated\n"
		s = s[:4096-len(bad)] + bad
	}
	return s
}

func randMetaText(rng *rand.Rand) string {
	switch rng.Intn(8) {
	case 0:
		return ""
	case 1:
		return "K: V\n\n"
	case 2: // exactly fills the header: no NUL terminator
		s := rt.V1Meta("2024-01-03T00:00:00Z", "2024-01-07T00:00:00Z", "p", "v1", "go1.23", "linux", "amd64")
		for (32+len(s))%32 != 0 {
			s = "P" + s
		}
		return s
	case 3:
		s := "Program: " + strings.Repeat("x", 400) + "\n"
		return s + strings.Repeat("y", 512-len(s)-7) + ": end\n\n"
	}
	switch rng.Intn(12) {
	case 0:
		return "A: 1\n\nB: 2\n\n" // a blank line inside
	case 1:
		return ": v\nK: \n" // empty key, empty value
	case 2:
		return "K: V" // no newline
	case 3:
		return "K\xff: \xfe\r\n\tT: x\r\n"
	}
	prog := []string{"golang.org/x/tools/gopls", "cmd/go", "a: b", "\xffprog", ""}[rng.Intn(5)]
	return rt.V1Meta("2024-01-03T00:00:00Z", "2024-01-07T00:00:00Z", prog, []string{"v0.16.1", "devel", ""}[rng.Intn(3)], "go1.23.5", "linux", "amd64")
}

// validFile writes a well-formed file with the independent writer.
func validFile(rng *rand.Rand, large bool) []byte {
	n := rng.Intn(9)
	switch rng.Intn(10) {
	case 0:
		n = 0
	case 1:
		n = 10 + rng.Intn(20)
	}
	if large {
		n = 100 + rng.Intn(120)
	}
	seen := map[string]bool{}
	var es []rt.V1Entry
	for len(es) < n {
		var name string
		if rng.Intn(3) == 0 {
			name = randStack(rng)
		} else {
			name = randPlain(rng)
		}
		if seen[name] {
			continue
		}
		seen[name] = true
		v := uint64(rng.Intn(1000))
		switch rng.Intn(8) {
		case 0:
			v = 0
		case 1:
			v = 1<<64 - 1
		case 2:
			v = rng.Uint64()
		}
		es = append(es, rt.V1Entry{Name: name, Value: v})
	}
	if rng.Intn(3) == 0 && len(es) > 1 { // force hash collisions: chains longer than one
		base := es[0].Name
		want := rt.V1Hash(base)
		for k := 0; k < 3000 && len(es) < n+3; k++ {
			c := fmt.Sprintf("%s%d", []string{"c", "s\nmain.f:+1,+0x", "s\nmain.f:+1,+0x1\n\".g:+2,+0x"}[rng.Intn(3)], k)
			if rt.V1Hash(c) == want && !seen[c] {
				seen[c] = true
				es = append(es, rt.V1Entry{Name: c, Value: uint64(k)})
			}
		}
	}
	data, err := rt.WriteV1(randMetaText(rng), es)
	if err != nil {
		panic(err)
	}
	switch rng.Intn(10) {
	case 0: // space reserved above the last record (a writer died before linking its record): still well-formed
		h := le.Uint32(data[28:])
		lim := le.Uint32(data[h:])
		if lim == 0 {
			lim = (h + 4 + 2048 + 31) / 32 * 32
		}
		if int(lim)+64 <= len(data) {
			le.PutUint32(data[h:], lim+32*uint32(1+rng.Intn(2)))
		}
	case 1: // a further, still unused page
		data = append(data, make([]byte, page)...)
	case 2: // a writer that stores the exact end of its last record as the limit (not a multiple of 32)
		var end uint32
		for _, r := range rt.DecodeV1(data).Records {
			if e := r.Off + 16 + uint32(len(r.Name)); e > end {
				end = e
			}
		}
		if end != 0 {
			le.PutUint32(data[le.Uint32(data[28:]):], end)
		}
	}
	return data
}

// interesting returns the offsets of the 4-byte fields of a valid file and
// values worth writing there.
func interesting(data []byte) (fields []int, values []uint32) {
	f := rt.DecodeV1(data)
	fields = append(fields, 28, int(f.HdrLen))
	// the top of the uint32 range: off+8, off+12, off+16 wrap around to the start of the file
	values = append(values, 0xfffffff0, 0xfffffff4, 0xfffffff7, 0xfffffff8, 0xfffffffc, 0xfffffffe, 0xffffffef)
	values = append(values, 0, 1, 5, 31, 32, 33, f.HdrLen, f.HdrLen+32, f.HdrLen+4, f.Limit, uint32(len(data)), uint32(len(data))-8, uint32(len(data))-16,
		uint32(len(data))+32, 0xffffffff, 0x80000000, page, page-32)
	for _, r := range f.Records {
		fields = append(fields, int(f.HdrLen)+4+4*r.Bucket, int(r.Off)+8, int(r.Off)+12, int(r.Off), int(r.Off)+4)
		values = append(values, r.Off, r.Off+16, r.Off+32, uint32(len(r.Name)), uint32(len(r.Name))|0xff000000, 0xff000000, 0xff000000|4097,
			uint32(len(data))-r.Off-16, uint32(len(data))-r.Off-15, uint32(len(r.Name)+1)|0xff000000, uint32(len(r.Name)-1)|0xff000000)
	}
	return
}

// genInput is a pure function of (seed, i).
func genInput(seed int64, i int) (string, []byte) {
	rng := rand.New(rand.NewSource(seed*1000003 + int64(i)*7919 + 11))
	k := rng.Intn(100)
	switch {
	case k < 4: // arbitrary bytes of arbitrary length
		n := []int{0, 1, 27, 28, 31, 32, 100, page - 1, page, page + 1, 2 * page}[rng.Intn(11)]
		b := make([]byte, n)
		rng.Read(b)
		return "random", b
	case k < 10: // valid prefix, then noise of varying density
		b := make([]byte, page*(1+rng.Intn(2)))
		if rng.Intn(2) == 0 {
			rng.Read(b)
		} else {
			for j := 0; j < 200; j++ {
				b[rng.Intn(len(b))] = byte(rng.Intn(256))
			}
		}
		copy(b, rt.V1Prefix)
		if rng.Intn(2) == 0 {
			le.PutUint32(b[28:], uint32(32*(1+rng.Intn(17))))
		}
		return "prefix+noise", b
	case k < 30:
		return "valid", validFile(rng, false)
	case k < 31:
		return "valid-large", validFile(rng, true)
	}
	data := validFile(rng, false)
	fields, values := interesting(data)
	if k >= 31 && k < 33 {
		// file size as damage: hundreds of (sparse) pages, with a link or length field overwritten
		data = append(data, make([]byte, page*([]int{405, 469, 1023, 300}[rng.Intn(4)]+rng.Intn(2)))...)
		for j := 1 + rng.Intn(2); j > 0; j-- {
			if at := fields[rng.Intn(len(fields))]; at+4 <= len(data) {
				le.PutUint32(data[at:], values[rng.Intn(len(values))])
			}
		}
		return "bigfile", data
	}
	switch {
	case k < 50: // bit flips where structure lives
		f := rt.DecodeV1(data)
		hi := int(f.Limit)
		if hi < int(f.HdrLen)+4+2048 {
			hi = int(f.HdrLen) + 4 + 2048
		}
		for j := 1 + rng.Intn(4); j > 0; j-- {
			var at int
			if rng.Intn(3) == 0 {
				at = fields[rng.Intn(len(fields))] + rng.Intn(4)
			} else {
				at = rng.Intn(hi)
			}
			if at < len(data) {
				data[at] ^= 1 << uint(rng.Intn(8))
			}
		}
		return "bitflip", data
	case k < 85: // targeted field overwrites
		for j := 1 + rng.Intn(2); j > 0; j-- {
			at := fields[rng.Intn(len(fields))]
			v := values[rng.Intn(len(values))]
			if rng.Intn(10) == 0 {
				v = rng.Uint32()
			}
			if at+4 <= len(data) {
				le.PutUint32(data[at:], v)
			}
		}
		return "field", data
	case k < 93: // splice: a chunk of another valid file (or of itself) copied somewhere
		other := validFile(rng, false)
		n := 4 << uint(rng.Intn(10))
		src, dst := rng.Intn(len(other)-n), rng.Intn(len(data)-n)
		if rng.Intn(2) == 0 {
			src, dst = src&^31, dst&^31
		}
		copy(data[dst:dst+n], other[src:src+n])
		return "splice", data
	default: // length changes
		switch rng.Intn(4) {
		case 0:
			data = data[:rng.Intn(len(data))]
		case 1:
			data = data[:len(data)-1-rng.Intn(64)]
		case 2:
			data = append(data, make([]byte, 1+rng.Intn(100))...)
		default:
			data = append(data, make([]byte, page)...)
		}
		return "length", data
	}
}

// TestVerifC06Fuzz feeds random and mutated byte strings to the real decoder
// and logs (abstract input, outcome) pairs for validation by TLC.
func TestVerifC06Fuzz(t *testing.T) {
	defer rt.Flush()
	var in struct {
		Start int `json:"start"`
		End   int `json:"end"`
	}
	if err := rt.In(&in); err != nil {
		t.Skip(err)
	}
	next := in.End
	kinds := map[string]int{}
	for i := in.Start; i < in.End; i++ {
		if hangs >= maxHangs {
			next = i
			break
		}
		src, data := genInput(rt.Seed(), i)
		o := parseGuarded(data)
		kinds[src+"/"+o.Kind]++
		rec := obsRecord(i, src, data, o)
		if o.Kind == "panic" || o.Kind == "hang" || o.Kind == "err" {
			rec["detail"] = detail(o)
		}
		rt.Out(rec)
	}
	rt.Out(rt.M{"kind": "summary", "next": next, "kinds": kinds})
}
