//go:build verif

// Package c19 is the harness of property C19 (gotelemetry clean / on / local /
// off / env).  It builds the real command from the tree under test, runs it
// with the user configuration directory redirected into a scratch directory,
// and records for every command the directory before and after (names, kinds,
// content identities from SHA-256), the mode-file class, what `gotelemetry
// env` prints and what the library reads.  All judgements are made by TLC
// (spec/GotelemetryTrace.tla) and checks/c19.py.
package c19

import (
	"bytes"
	"fmt"
	mrand "math/rand"
	"os"
	"os/exec"
	"path/filepath"
	"runtime"
	"sort"
	"strings"
	"sync"
	"testing"
	"time"

	vm "golang.org/x/telemetry/internal/verifh/vmode"
	rt "golang.org/x/telemetry/internal/verifrt"
)

type entry struct {
	Loc  string `json:"loc"`
	Name string `json:"name"`
	Kind string `json:"kind"`
	C    int    `json:"c"`
}

type cstate struct {
	Tree     []entry     `json:"tree"`
	ModeFile vm.ModeFile `json:"modeFile"`
}

type scenario struct {
	ID      int      `json:"id"`
	Src     string   `json:"src"`
	Today   int      `json:"today"` // the model's day number for "today"
	Variant int      `json:"variant"`
	Init    cstate   `json:"init"`
	Cmds    []string `json:"cmds"`
	NoXDG   bool     `json:"noxdg"` // XDG_CONFIG_HOME is not set: the directory is $HOME/.config/go/telemetry
	TZ      string   `json:"tz"`    // TZ of the command's environment ("" = not set)
	Path    int      `json:"path"`  // which characters the path of the telemetry directory contains (pathNames)
}

// names for the directory above go/telemetry (XDG_CONFIG_HOME, or HOME when that
// is not set): glob metacharacters, blanks, non-ASCII, a leading dash
var pathNames = []string{"config", "config[1]", "conf*ig", "con?fig", "config[old", "my config dir", "c\u00f6nfig-\u65e5\u672c", "conf\\ig", "-config", "cfg]x[", "config[a-z]"}

type env struct {
	bin  string
	root string
}

func build(t *testing.T) string {
	wd, err := os.Getwd()
	if err != nil {
		t.Fatal(err)
	}
	modRoot := filepath.Clean(filepath.Join(wd, "..", "..", ".."))
	if _, err := os.Stat(filepath.Join(modRoot, "cmd", "gotelemetry", "main.go")); err != nil {
		t.Fatalf("cannot locate the module root from %s: %v", wd, err)
	}
	bin := filepath.Join(t.TempDir(), "gotelemetry")
	cmd := exec.Command("go", "build", "-o", bin, "./cmd/gotelemetry")
	cmd.Dir = modRoot
	if out, err := cmd.CombinedOutput(); err != nil {
		t.Fatalf("building gotelemetry: %v\n%s", err, out)
	}
	return bin
}

func utcDay() int { return int(time.Now().UTC().Unix() / 86400) }

// content gives the bytes of a file with content identity c.
func content(name string, c int) []byte {
	switch {
	case strings.HasPrefix(name, "empty"):
		return nil // a zero-length file
	case strings.HasSuffix(name, ".count"):
		meta := rt.V1Meta("2024-01-01T00:00:00Z", "2024-01-08T00:00:00Z", "example.com/p", "v1.0.0", "go1.22.1", "linux", "amd64")
		data, err := rt.WriteV1(meta, []rt.V1Entry{{Name: "c19", Value: uint64(c) + 1}})
		if err == nil {
			return data
		}
	case strings.Contains(name, "json"):
		return []byte(fmt.Sprintf("{\n \"Week\": \"2024-01-08\",\n \"X\": 0.25,\n \"Config\": \"c19-%d\"\n}", c))
	case name == "weekends":
		return []byte(fmt.Sprintf("%d\n%d\n", c%7, c))
	}
	return []byte(fmt.Sprintf("c19 content %d\n", c))
}

func locPath(dir, loc string) string {
	if loc == "root" {
		return dir
	}
	return filepath.Join(dir, filepath.FromSlash(loc))
}

type world struct {
	dir   string // the telemetry directory
	cfg   string // XDG_CONFIG_HOME
	home  string
	ids   map[string]int // sha256 -> content identity
	next  int
	shift int // real day = model day + shift
	noxdg bool
	tz    string
}

func (w *world) materialize(s cstate, variant int) error {
	if err := os.MkdirAll(w.dir, 0777); err != nil {
		return err
	}
	// directories first
	ents := append([]entry(nil), s.Tree...)
	sort.SliceStable(ents, func(i, j int) bool { return len(ents[i].Loc) < len(ents[j].Loc) })
	for _, e := range ents {
		d := locPath(w.dir, e.Loc)
		if err := os.MkdirAll(d, 0777); err != nil {
			return err
		}
		p := filepath.Join(d, e.Name)
		if e.Kind == "dir" {
			if err := os.MkdirAll(p, 0777); err != nil {
				return err
			}
			continue
		}
		data := content(e.Name, e.C)
		if err := os.WriteFile(p, data, 0666); err != nil {
			return err
		}
	}
	mf := s.ModeFile
	if mf.D >= 0 {
		mf.D += w.shift
	}
	if err := vm.WriteMode(w.dir, mf, variant); err != nil {
		return err
	}
	// learn the content identities
	for _, e := range s.Tree {
		if e.Kind == "file" {
			sn := vm.Snapshot(filepath.Join(locPath(w.dir, e.Loc)))
			if se, ok := sn[e.Name]; ok {
				if old, ok := w.ids[se.Sum]; ok && old != e.C {
					return fmt.Errorf("content identities %d and %d collide", old, e.C)
				}
				w.ids[se.Sum] = e.C
			}
		}
	}
	return nil
}

// observe abstracts the real telemetry directory (one walk): the entries other
// than the mode file, the mode-file class, and the raw snapshot of the mode file.
func (w *world) observe() (cstate, map[string]vm.SnapEntry) {
	st := cstate{Tree: []entry{}}
	mode := map[string]vm.SnapEntry{}
	sn := vm.Snapshot(w.dir)
	for rel, se := range sn {
		rel = filepath.ToSlash(rel)
		if rel == "mode" || strings.HasPrefix(rel, "mode/") {
			mode[rel] = se
			continue
		}
		loc, name := "root", rel
		if i := strings.LastIndex(rel, "/"); i >= 0 {
			loc, name = rel[:i], rel[i+1:]
		}
		e := entry{Loc: loc, Name: name, Kind: "file"}
		if se.Dir {
			e.Kind = "dir"
		} else {
			id, ok := w.ids[se.Sum]
			if !ok {
				w.next++
				id = 100000 + w.next
				w.ids[se.Sum] = id
			}
			e.C = id
		}
		st.Tree = append(st.Tree, e)
	}
	sort.Slice(st.Tree, func(i, j int) bool {
		a, b := st.Tree[i], st.Tree[j]
		if a.Loc != b.Loc {
			return a.Loc < b.Loc
		}
		return a.Name < b.Name
	})
	st.ModeFile = vm.Classify(w.dir)
	if st.ModeFile.D >= 0 {
		st.ModeFile.D -= w.shift
	}
	return st, mode
}

func sameSnap(a, b map[string]vm.SnapEntry) bool {
	if len(a) != len(b) {
		return false
	}
	for k, v := range a {
		if w, ok := b[k]; !ok || w != v {
			return false
		}
	}
	return true
}

func (w *world) run(bin string, args ...string) (stdout, stderr string, rc int) {
	cmd := exec.Command(bin, args...)
	cmd.Env = []string{"HOME=" + w.home, "PATH=" + os.Getenv("PATH"), "TMPDIR=" + os.Getenv("TMPDIR")}
	if !w.noxdg {
		cmd.Env = append(cmd.Env, "XDG_CONFIG_HOME="+w.cfg)
	}
	if w.tz != "" {
		cmd.Env = append(cmd.Env, "TZ="+w.tz)
	}
	cmd.Dir = w.home
	var so, se bytes.Buffer
	cmd.Stdout, cmd.Stderr = &so, &se
	done := make(chan error, 1)
	if err := cmd.Start(); err != nil {
		return "", err.Error(), -1
	}
	go func() { done <- cmd.Wait() }()
	select {
	case err := <-done:
		if err != nil {
			rc = 1
			if ee, ok := err.(*exec.ExitError); ok {
				rc = ee.ExitCode()
			}
		}
	case <-time.After(60 * time.Second):
		cmd.Process.Kill()
		rc = -2
	}
	return so.String(), se.String(), rc
}

// parseEnv reads the "mode:" line and the directories `gotelemetry env` prints.
func (w *world) parseEnv(out string) (vm.ReadBack, bool) {
	r := vm.ReadBack{W: "<unparsed>", D: -9}
	dirOK := false
	for _, ln := range strings.Split(out, "\n") {
		if strings.HasPrefix(ln, "modefile: ") {
			dirOK = strings.TrimPrefix(ln, "modefile: ") == filepath.Join(w.dir, "mode")
		}
		if !strings.HasPrefix(ln, "mode: ") {
			continue
		}
		rest := strings.TrimPrefix(ln, "mode: ")
		f := strings.Split(rest, " ")
		if len(f) < 5 {
			continue
		}
		n := len(f)
		word := strings.Join(f[:n-4], " ")
		date, clock, zone := f[n-4], f[n-3], f[n-2]
		r.W = vm.SafeWord(word)
		switch {
		case date == "0001-01-01" && clock == "00:00:00" && zone == "+0000":
			r.D = vm.NoDate
		case clock == "00:00:00" && zone == "+0000":
			if d, ok := vm.DayOf(date); ok {
				r.D = d - w.shift
			}
		}
	}
	return r, dirOK
}

func runScenario(e *env, sc *scenario) {
	base := filepath.Join(e.root, fmt.Sprintf("s%d", sc.ID))
	pn := pathNames[sc.Path%len(pathNames)]
	w := &world{cfg: filepath.Join(base, pn), home: filepath.Join(base, "home"), ids: map[string]int{}, noxdg: sc.NoXDG, tz: sc.TZ}
	if w.noxdg {
		w.home = filepath.Join(base, "home-"+pn)
		w.cfg = filepath.Join(w.home, ".config")
	}
	w.dir = filepath.Join(w.cfg, "go", "telemetry")
	w.shift = utcDay() - sc.Today
	os.MkdirAll(w.home, 0777)
	if sc.Variant%5 != 4 || len(sc.Init.Tree) > 0 || sc.Init.ModeFile.K != "absent" {
		if err := w.materialize(sc.Init, sc.Variant); err != nil {
			rt.Out(rt.M{"kind": "infra", "id": sc.ID, "err": err.Error()})
			return
		}
	} // else: the telemetry directory does not exist at all
	foreign := vm.Snapshot(base)
	pre, preMode := w.observe()
	for i, c := range sc.Cmds {
		d0 := utcDay() - w.shift
		stdout, stderr, rc := w.run(e.bin, strings.Fields(c)...)
		d1 := utcDay() - w.shift
		post, postMode := w.observe()
		// the observer: `gotelemetry env` after every mode command (and the
		// command's own output when it is env)
		var seen vm.ReadBack
		dirOK, envRC, envRun := true, 0, false
		switch c {
		case "env":
			seen, dirOK = w.parseEnv(stdout)
			envRun = true
		case "on", "off", "local":
			var envOut string
			envOut, _, envRC = w.run(e.bin, "env")
			seen, dirOK = w.parseEnv(envOut)
			envRun = true
		}
		after, afterMode := post, postMode
		if envRun && c != "env" {
			after, afterMode = w.observe()
		}
		lib := vm.LibRead(w.dir)
		if lib.D >= 0 {
			lib.D -= w.shift
		}
		if !envRun {
			seen = lib
		}
		rec := rt.M{"kind": "obs", "src": sc.Src, "id": sc.ID, "step": i, "cmd": c, "s": pre, "t": post,
			"modeSame": sameSnap(preMode, postMode), "env": seen, "lib": lib, "today0": d0, "today1": d1, "rc": rc, "tz": sc.TZ,
			"stderr": trunc(stderr), "env_dir_ok": dirOK, "env_rc": envRC, "env_run": envRun,
			"env_changed": !sameState(post, after) || !sameSnap(postMode, afterMode)}
		rt.Out(rec)
		pre, preMode = after, afterMode
	}
	// nothing outside the telemetry directory may be touched (HOME, the config root)
	now := vm.Snapshot(base)
	telRel, _ := filepath.Rel(base, w.dir)
	telRel = filepath.ToSlash(telRel)
	inside := func(k string) bool { return strings.HasPrefix(filepath.ToSlash(k), telRel) }
	parent := func(k string) bool { return strings.HasPrefix(telRel, filepath.ToSlash(k)+"/") } // directories made on the way to it
	for k, v := range foreign {
		if inside(k) {
			continue
		}
		if now[k] != v {
			rt.Out(rt.M{"kind": "outside", "id": sc.ID, "path": k})
		}
	}
	for k := range now {
		if _, ok := foreign[k]; !ok && !inside(k) && !parent(k) {
			rt.Out(rt.M{"kind": "outside", "id": sc.ID, "path": k})
		}
	}
}

func sameState(a, b cstate) bool {
	if len(a.Tree) != len(b.Tree) || a.ModeFile != b.ModeFile {
		return false
	}
	for i := range a.Tree {
		if a.Tree[i] != b.Tree[i] {
			return false
		}
	}
	return true
}

func trunc(s string) string {
	if len(s) > 300 {
		s = s[:300]
	}
	return s
}

func runAll(e *env, scs []scenario) {
	workers := runtime.NumCPU()
	if workers > 16 {
		workers = 16
	}
	ch := make(chan *scenario)
	var wg sync.WaitGroup
	for i := 0; i < workers; i++ {
		wg.Add(1)
		go func() {
			defer wg.Done()
			for sc := range ch {
				runScenario(e, sc)
				os.RemoveAll(filepath.Join(e.root, fmt.Sprintf("s%d", sc.ID)))
			}
		}()
	}
	for i := range scs {
		ch <- &scs[i]
	}
	close(ch)
	wg.Wait()
}

// TestVerifC19 replays scenarios from Gotelemetry.tla and then random concrete
// directories.
func TestVerifC19(t *testing.T) {
	defer rt.Flush()
	var in struct {
		Scenarios []scenario `json:"scenarios"`
		Random    int        `json:"random"`
		Today     int        `json:"today"`
	}
	if err := rt.In(&in); err != nil {
		t.Skip(err)
	}
	e := &env{bin: build(t), root: t.TempDir()}
	runAll(e, in.Scenarios)
	rnd := randomScenarios(in.Random, 1000000, in.Today)
	runAll(e, rnd)
	rt.Out(rt.M{"kind": "summary", "scenarios": len(in.Scenarios), "random": len(rnd)})
}

// --------------------------------------------------------- random directories

const stemChars = "abcdefghijklmnopqrstuvwxyzABCXYZ0123456789-_@.+ ,=()"

// stems that are not plain ASCII words: accents, CJK, full-width forms, a combining mark, an emoji, line
// breaks and tabs inside the name, a leading dot, bytes that are not UTF-8, a stem that itself ends in a
// data-file suffix, a very long stem, and "empty..." (a zero-length file)
var oddStems = []string{"donn\u00e9es", "\u65e5\u672c\u8a9e", "\uff46\uff55\uff4c\uff4c", "nai\u0308ve", "\U0001F600", "a\nb", "tab\there", ".hidden", "\xff\xfe",
	"x.json", "y.v1.count", "z.v1.count.json", strings.Repeat("long", 55), "empty", "empty-2024-01-08", "-rf", "--", "*", "?"}

func isASCII(s string) bool {
	for i := 0; i < len(s); i++ {
		if s[i] >= 0x80 || s[i] < 0x20 {
			return false
		}
	}
	return true
}

func randStem(rng *mrand.Rand) string {
	if rng.Intn(7) == 0 {
		return oddStems[rng.Intn(len(oddStems))]
	}
	switch rng.Intn(6) {
	case 0:
		return fmt.Sprintf("20%02d-%02d-%02d", 19+rng.Intn(18), 1+rng.Intn(12), 1+rng.Intn(28))
	case 1:
		return fmt.Sprintf("local.20%02d-%02d-%02d", 19+rng.Intn(18), 1+rng.Intn(12), 1+rng.Intn(28))
	case 2:
		return fmt.Sprintf("gopls@v0.%d.%d-go1.%d.%d-linux-amd64-20%02d-%02d-%02d", rng.Intn(20), rng.Intn(9), 19+rng.Intn(6), rng.Intn(9), 19+rng.Intn(18), 1+rng.Intn(12), 1+rng.Intn(28))
	}
	n := 1 + rng.Intn(10)
	b := make([]byte, n)
	for i := range b {
		b[i] = stemChars[rng.Intn(len(stemChars))]
	}
	s := strings.TrimSpace(string(b))
	if s == "" || s == "." || s == ".." {
		s = "x"
	}
	return s
}

var suffixes = []string{".v1.count", ".json", ".v1.count", ".json", ".v2.count", ".count", ".v1.count.tmp", ".v1.countx", ".v1.coun", ".V1.COUNT", "v1.count", ".v1count",
	".v1..count", ".json.lock", ".jsonx", ".jso", ".JSON", "json", ".json~", ".json.bak", ".txt", "", ".log", ".v1.count.json.x", ".json.v1.countz"}

func randName(rng *mrand.Rand) string {
	for {
		name := randStem(rng) + suffixes[rng.Intn(len(suffixes))]
		if rng.Intn(12) == 0 && isASCII(name) {
			// perturb one character
			i := rng.Intn(len(name))
			name = name[:i] + string(stemChars[rng.Intn(len(stemChars)-8)]) + name[i+1:]
		}
		name = strings.TrimSpace(name)
		// names equal to a bare suffix, and the fixed names of the layout, are not generated
		if name == "" || name == "." || name == ".." || name == ".json" || name == ".v1.count" || name == "mode" || name == "local" || name == "upload" || len(name) > 250 {
			continue
		}
		return name
	}
}

func randomScenarios(n, idBase, today int) []scenario {
	rng := mrand.New(mrand.NewSource(rt.Seed()*104729 + 19))
	words := []string{"on", "off", "local", "on", "off", "local", "ON", "Off", "onn", "lokal", "true"}
	var out []scenario
	for i := 0; i < n; i++ {
		sc := scenario{ID: idBase + i, Src: "random", Today: today, Variant: rng.Intn(1000)}
		sc.NoXDG = rng.Intn(5) == 0
		if rng.Intn(2) == 0 {
			sc.Path = rng.Intn(len(pathNames))
		}
		if rng.Intn(4) == 0 {
			sc.TZ = []string{"Pacific/Kiritimati", "Etc/GMT+12", "Asia/Kolkata"}[rng.Intn(3)]
		}
		seen := map[string]bool{}
		c := 0
		add := func(loc, name, kind string) {
			key := loc + "/" + name
			if seen[key] {
				return
			}
			seen[key] = true
			c++
			e := entry{Loc: loc, Name: name, Kind: kind}
			if kind == "file" {
				e.C = c
				if strings.HasPrefix(name, "empty") {
					e.C = 9999 // all zero-length files have the same content
				}
			}
			sc.Init.Tree = append(sc.Init.Tree, e)
		}
		locs := []string{"local", "local", "local", "upload", "upload", "root"}
		nent := rng.Intn(14)
		if rng.Intn(40) == 0 {
			nent = 150 + rng.Intn(100) // a crowded directory
		}
		for k := nent; k > 0; k-- {
			add(locs[rng.Intn(len(locs))], randName(rng), "file")
		}
		if rng.Intn(2) == 0 {
			add("local", "weekends", "file")
		}
		if rng.Intn(4) == 0 {
			add("root", "upload.token", "file")
		}
		if rng.Intn(3) == 0 {
			// a sub-directory (with a name that is not a data-file name) holding data-like names
			parent := []string{"local", "upload", "root"}[rng.Intn(3)]
			dn := []string{"sub", "old", "debug", "backup.d", "json", "v1.count.d"}[rng.Intn(6)]
			add(parent, dn, "dir")
			loc := parent + "/" + dn
			if parent == "root" {
				loc = dn
			}
			for k := rng.Intn(3); k > 0; k-- {
				add(loc, randName(rng), "file")
			}
		}
		// non-empty directories whose names look like counter files or reports
		// (they cannot be removed with os.Remove): they stay with what is in
		// them, and the data files around them - before and after in name
		// order - still have to go
		for k := rng.Intn(3); k > 0 && rng.Intn(2) == 0; k-- {
			parent := []string{"local", "local", "upload"}[rng.Intn(3)]
			var dn string
			switch rng.Intn(5) {
			case 0:
				dn = "0" + randStem(rng) // sorts before most names
			case 1:
				dn = "zz" + randStem(rng) // sorts after most names
			default:
				dn = randStem(rng)
			}
			if parent == "local" && rng.Intn(2) == 0 {
				dn += ".v1.count"
			} else {
				dn += ".json"
			}
			if seen[parent+"/"+dn] {
				continue
			}
			add(parent, dn, "dir")
			add(parent+"/"+dn, []string{"keep.txt", "inner.json", "inner.v1.count", dn}[rng.Intn(4)], "file")
			// and data files that sort on both sides of it
			add(parent, "0"+dn, "file")
			add(parent, dn[:len(dn)-5]+"z.json", "file")
		}
		if sc.Init.Tree == nil {
			sc.Init.Tree = []entry{}
		}
		// every entry under local/ or upload/ needs its directory entry in the observation; the harness creates them
		mf := vm.ModeFile{K: "text", D: vm.NoDate}
		switch k := rng.Intn(12); {
		case k == 0:
			mf.K = "absent"
		case k == 1:
			mf.K = "unreadable"
		default:
			mf.W = words[rng.Intn(len(words))]
			mf.Pad = rng.Intn(4) == 0
			switch rng.Intn(5) {
			case 0:
			case 1:
				mf.D = vm.BadDate
			case 2:
				mf.D = today
			default:
				mf.D = today - 1 - rng.Intn(2000)
			}
		}
		sc.Init.ModeFile = mf
		// local or upload is not a directory but a plain file: nothing can be in it, nothing may happen to it
		if k := rng.Intn(16); k < 2 {
			which := []string{"local", "upload"}[k]
			kept := sc.Init.Tree[:0]
			for _, e := range sc.Init.Tree {
				if e.Loc != which && !strings.HasPrefix(e.Loc, which+"/") {
					kept = append(kept, e)
				}
			}
			sc.Init.Tree = kept
			add("root", which, "file")
		}
		cmds := []string{"clean", "on", "local", "off", "env", "clean", "clean", "clean all", "on now", "off x", "purge"}
		word := mf.W
		for k := 1 + rng.Intn(4); k > 0; k-- {
			c := cmds[rng.Intn(len(cmds))]
			isMode := c == "on" || c == "off" || c == "local"
			// what the property leaves open is not generated (see Gotelemetry.tla, Allowed)
			if isMode && mf.K == "unreadable" {
				continue
			}
			if c == "local" && mf.K == "text" && word != "on" && word != "off" && word != "local" {
				continue
			}
			if isMode {
				word = c
			}
			sc.Cmds = append(sc.Cmds, c)
		}
		if len(sc.Cmds) == 0 {
			sc.Cmds = []string{"clean"}
		}
		out = append(out, sc)
	}
	return out
}
